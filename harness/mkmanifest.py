"""Writes /verif/MANIFEST.json from the per-property modules that exist."""
import importlib
import json
import os

VERIF = os.path.dirname(os.path.dirname(os.path.abspath(__file__)))
ALL = [f"C{i:02d}" for i in range(1, 21)]
PENDING = "check not built yet in this development (work in progress; see DESIGN.md section 10 build order)"


def main():
    checks, na = [], []
    for cid in ALL:
        path = os.path.join(VERIF, "harness", "props", cid.lower() + ".py")
        if not os.path.exists(path) or not os.path.exists(os.path.join(VERIF, "coq", "Props", cid + ".v")):
            na.append(dict(property_id=cid, reason=PENDING))
            continue
        mod = importlib.import_module(f"harness.props.{cid.lower()}")
        checks.append(dict(
            property_id=cid,
            quick_cmd=f"./check {cid} --tier quick",
            thorough_cmd=f"./check {cid} --tier thorough",
            evidence_file=f"/verif/evidence/{cid}.json",
            replay_cmd_template=f"./check {cid} --replay {{path}}",
            engine="coq-model+correspondence",
            level_claimed=dict(category="proof", text=mod.LEVEL_TEXT, design_ref=f"DESIGN.md section 6, {cid}"),
            level_note="; ".join(mod.ASSUMPTIONS) + "; trusted base: Coq 8.16.1 kernel + vm_compute, no axioms, "
                       "translator harness/gen.py, hand-written Gallina model tied to the code by differential execution",
            technique=getattr(mod, "TECHNIQUE", "Coq proof over a Gallina model + model/implementation correspondence by vm_compute"),
        ))
    man = dict(
        version=1,
        setup_cmd="./harness/setup.sh",
        hooks=dict(
            guard="EYECITE_VERIF",
            enable="no source hooks: checks drive eyecite through its public API with PYTHONPATH=/repo",
            baseline_off_cmd="cd /repo && /venv/bin/python -m pytest -ra -q -p no:cacheprovider --timeout=900 --continue-on-collection-errors",
            source_commits=[],
            add_only=True,
        ),
        engines=[dict(
            name="coq-model+correspondence",
            path="/verif/coq, /verif/harness",
            serves_properties=[c["property_id"] for c in checks],
            kind_free_text="Coq 8.16.1 development (models, proofs, generated data) + Python harness: translator, "
                           "differential correspondence evaluated by coqc/vm_compute, direct monitors for replay search",
        )],
        checks=checks,
        notes="See DESIGN.md. Every check: regenerate coq/Gen from the live /repo, full make, re-check Props/<id>.v and its "
              "assumption report, run correspondence streams + monitors, write evidence/<id>.json.",
        not_applicable=na,
    )
    with open(os.path.join(VERIF, "MANIFEST.json"), "w") as f:
        json.dump(man, f, indent=1)
    print(f"{len(checks)} checks, {len(na)} not_applicable")


if __name__ == "__main__":
    main()
