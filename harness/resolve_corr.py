"""Shared by C05-C08: citation objects <-> Coq `cit` terms, the abstract
citation-kind alphabet, running resolve_citations, and the direct monitors."""
import itertools

from harness import coqemit as E
from harness import core, tokutil

PRE = """From EV Require Import Base.Str Base.PyVal Base.Corr Regex.Syntax Model.Tokenize Model.Resolve Model.StripPunct
  Gen.Unicode Gen.Consts Gen.StripPunct.
Open Scope N_scope.
(* c_ante_stripped is COMPUTED BY THE MODEL of strip_punct (Model/StripPunct.v on the regenerated step list) from the
   antecedent; the value the implementation computed (argument `ans`) is not used *)
Definition mkc o cl g gu eds pl df (an : option str) (ans : str) pin nm mv : cit :=
  {| oid := o; c_cls := cl; c_groups := g; c_guess := gu; c_eds := eds; c_plaintiff := pl;
     c_defendant := df; c_antecedent := an;
     c_ante_stripped := match an with Some a => strip_punct U strip_punct_steps a | None => [] end;
     c_pin := pin; c_names := nm;
     c_meta_values := mv |}.
Definition run_resolve (cs : list cit) : result (list (list nat)) :=
  match resolve DT MAX_OPINION_PAGE_COUNT cs with
  | Ok r => Ok (map (fun g => map oid (snd g)) r)
  | Err e => Err e
  end.
Definition res_eqb := result_eqb (list_eqb (list_eqb Nat.eqb)).
"""

CLS = {
    "FullCaseCitation": "FullCase", "FullLawCitation": "FullLaw", "FullJournalCitation": "FullJournal",
    "ShortCaseCitation": "ShortCase", "SupraCitation": "Supra", "ReferenceCitation": "Ref",
    "IdCitation": "IdC", "UnknownCitation": "Unknown",
}
EXN = {"AttributeError": "AttrNone", "KeyError": "KeyErr", "IndexError": "IndexErr", "ValueError": "ValueErr",
       "TypeError": "TypeErr"}


def cit_term(c, pos, edmap):
    from eyecite.models import ReferenceCitation, ResourceCitation
    from eyecite.utils import strip_punct

    cls = CLS[type(c).__name__]
    md = c.metadata
    guess = None
    eds = []
    if isinstance(c, ResourceCitation):
        guess = c.edition_guess.short_name if c.edition_guess else None
        eds = [(e.short_name, edmap.id(e)) for e in c.all_editions]
    ante = getattr(md, "antecedent_guess", None)
    stripped = strip_punct(ante) if ante else ""
    names = []
    if isinstance(c, ReferenceCitation):
        names = [getattr(md, k) for k in ReferenceCitation.name_fields if getattr(md, k)]
    mv = [v for v in md.__dict__.values() if v and isinstance(v, str)] if cls.startswith("Full") else []
    return ("(mkc {o}%nat {cl} {g} {gu} {eds} {pl} {df} {an} {ans} {pin} {nm} {mv})".format(
        o=pos, cl=cls, g=tokutil.groups_term(c.groups), gu=E.opt(guess, E.s),
        eds="[" + "; ".join(f"({E.s(n)}, {i}%nat)" for n, i in eds) + "]",
        pl=E.opt(getattr(md, "plaintiff", None), E.s), df=E.opt(getattr(md, "defendant", None), E.s),
        an=E.opt(ante, E.s), ans=E.s(stripped), pin=E.opt(md.pin_cite, E.s),
        nm="[" + "; ".join(E.s(x) for x in names) + "]", mv="[" + "; ".join(E.s(x) for x in mv) + "]"))


def describe(c):
    return dict(type=type(c).__name__, text=c.matched_text(), groups=dict(c.groups),
                metadata={k: v for k, v in c.metadata.__dict__.items() if v is not None})


# ------------------------------------------------------------------ abstract alphabet (C06)

ALPHABET = ["fullA", "fullB", "fullBseries", "fullPlaceholder1", "fullAdup", "fullArecap", "fullPlaceholder", "fullC_sameRV", "law", "law2", "journal",
            "shortA", "shortAmbig", "shortForeign", "shortAnte",
            "supraA", "supraUnknown", "supraAmbig", "supraRecap", "refA", "refNone",
            "idValid", "idInvalid", "idNoPin", "idNonNumeric", "unknown"]


def make(sym):
    """A fresh citation object for an alphabet symbol."""
    import eyecite.test_factories as F

    if sym == "fullA":
        return F.case_citation(volume="1", reporter="U.S.", page="10", metadata={"plaintiff": "Alpha", "defendant": "Smith"})
    if sym == "fullAdup":
        return F.case_citation(volume="1", reporter="U.S.", page="10", metadata={"plaintiff": "Alpha", "defendant": "Smith", "year": "1999"})
    if sym == "fullArecap":
        # the same opinion as A cited again under a different caption
        return F.case_citation(volume="1", reporter="U.S.", page="10", metadata={"plaintiff": "Quux", "defendant": "Zed"})
    if sym == "supraRecap":
        return F.supra_citation("supra,", metadata={"antecedent_guess": "Quux"})
    if sym == "law2":
        # a different section of the same code as `law`
        return F.law_citation("Mass. Gen. Laws ch. 1, § 3", reporter="Mass. Gen. Laws", groups={"chapter": "1", "section": "3"})
    if sym == "fullB":
        return F.case_citation(volume="2", reporter="F.3d", page="20", metadata={"plaintiff": "Beta", "defendant": "Jones"})
    if sym == "fullBseries":
        # same volume and page as B in a sibling series of the same reporter (F.2d / F.3d): a different document
        return F.case_citation(volume="2", reporter="F.2d", page="20", metadata={"plaintiff": "Epsilon", "defendant": "Kappa"})
    if sym == "fullC_sameRV":
        # same reporter and volume as A, different page; shares the party name Smith with A
        return F.case_citation(volume="1", reporter="U.S.", page="300", metadata={"plaintiff": "Gamma", "defendant": "Smithson"})
    if sym == "fullPlaceholder1":
        # a placeholder page written with a single underscore
        return F.case_citation(volume="1", reporter="U.S.", page="_", metadata={"plaintiff": "Eta", "defendant": "Roe"})
    if sym == "fullPlaceholder":
        return F.case_citation(volume="1", reporter="U.S.", page="___", metadata={"plaintiff": "Delta", "defendant": "Doe"})
    if sym == "law":
        return F.law_citation("Mass. Gen. Laws ch. 1, § 2", reporter="Mass. Gen. Laws", groups={"chapter": "1", "section": "2"})
    if sym == "journal":
        return F.journal_citation(volume="1", reporter="Minn. L. Rev.", page="___")
    if sym == "shortA":
        return F.case_citation(volume="1", reporter="U.S.", page="12", short=True)
    if sym == "shortAnte":
        return F.case_citation(volume="1", reporter="U.S.", page="12", short=True, metadata={"antecedent_guess": "Smith,"})
    if sym == "shortAmbig":
        return F.case_citation(volume="1", reporter="U.S.", page="305", short=True, metadata={"antecedent_guess": "Gamma"})
    if sym == "shortForeign":
        return F.case_citation(volume="9", reporter="F.2d", page="9", short=True, metadata={"antecedent_guess": "Smith"})
    if sym == "supraA":
        return F.supra_citation("supra,", metadata={"antecedent_guess": "Alpha", "pin_cite": "at 12"})
    if sym == "supraUnknown":
        return F.supra_citation("supra,", metadata={"antecedent_guess": "Zeta"})
    if sym == "supraAmbig":
        return F.supra_citation("supra", metadata={"antecedent_guess": "Smith"})
    if sym == "refA":
        return F.reference_citation("Alpha at 12", metadata={"plaintiff": "Alpha", "pin_cite": "12"})
    if sym == "refNone":
        return F.reference_citation("Foo at 1", metadata={"pin_cite": "1"})
    if sym == "idValid":
        return F.id_citation("Id.", metadata={"pin_cite": "at 11"})
    if sym == "idInvalid":
        return F.id_citation("Id.", metadata={"pin_cite": "at 5000"})
    if sym == "idNoPin":
        return F.id_citation("Id.")
    if sym == "idNonNumeric":
        return F.id_citation("Id.", metadata={"pin_cite": "at ¶ 3"})
    if sym == "unknown":
        return F.unknown_citation("§ 12")
    raise ValueError(sym)


# ------------------------------------------------------------------ running the implementation

def run_impl(cits):
    """-> ('ok', [[positions]...]) or ('err', exception name)"""
    from eyecite import resolve_citations

    pos = {id(c): i for i, c in enumerate(cits)}
    try:
        res = resolve_citations(cits)
    except Exception as e:  # noqa
        return ("err", type(e).__name__)
    return ("ok", [[pos.get(id(c), -1) for c in group] for group in res.values()], res)


def expected_term(out):
    if out[0] == "err":
        return f"(Err {EXN.get(out[1], 'TypeErr')})"
    return "(Ok [" + "; ".join(E.lst([str(i) for i in g], "nat") for g in out[1]) + "])"


# ------------------------------------------------------------------ monitors (independent of resolve.py's code)

def eq_class(cits):
    """class id of every full citation under ==  (index of the first equal full citation)"""
    from eyecite.models import FullCitation

    cls = {}
    reps = []
    for i, c in enumerate(cits):
        if isinstance(c, FullCitation):
            for j in reps:
                if cits[j] == c:
                    cls[i] = j
                    break
            else:
                cls[i] = i
                reps.append(i)
    return cls


def norm_rep(c):
    """normalised reporter = short name of the guessed edition, read from the edition object (not through
    corrected_reporter(), which is code under test); raw reporter group when no edition was guessed"""
    g = getattr(c, "edition_guess", None)
    return g.short_name if g is not None else c.groups.get("reporter")


def full_key(c):
    """identity of a full citation written from the property text, not through __hash__/__eq__:
    None = equal only to itself (placeholder page)"""
    from eyecite.models import FullCaseCitation

    if isinstance(c, FullCaseCitation):
        pg = c.groups.get("page")
        # placeholder page, read off what was WRITTEN (any run of underscores), not off the normalised group
        if pg is None or (isinstance(pg, str) and pg != "" and set(pg) <= {"_"}):
            return None
        # normalised reporter = name of the guessed EDITION (F.2d and F.3d are different documents), read from the
        # edition object rather than through corrected_reporter()
        rep = c.edition_guess.short_name if c.edition_guess is not None else c.groups.get("reporter")
        return ("case", c.groups.get("volume"), rep, c.groups["page"])
    return (type(c).__name__, tuple(sorted((k, str(v)) for k, v in c.groups.items())),
            tuple(sorted(e.short_name for e in c.all_editions)))


def monitor_c06(cits, groups):
    from eyecite.models import FullCitation, UnknownCitation

    seen = set()
    for g in groups:
        if not g:
            return "empty group"
        if any(p < 0 for p in g):
            return "a group contains an object that is not in the input"
        if g != sorted(g) or len(set(g)) != len(g):
            return "a group is not a sub-sequence of the input"
        if seen & set(g):
            return "groups are not disjoint"
        seen |= set(g)
        if not isinstance(cits[g[0]], FullCitation):
            return "a group does not start with a full citation"
        if any(isinstance(cits[p], UnknownCitation) for p in g):
            return "an unknown citation appears in a group"
    cls = eq_class(cits)
    where = {p: gi for gi, g in enumerate(groups) for p in g}
    for i in cls:
        if i not in where:
            return "a full citation appears under no resource"
    for i, j in itertools.combinations(sorted(cls), 2):
        if (where[i] == where[j]) != (cls[i] == cls[j]):
            return "full citations share a resource although not equal (or vice versa)"
        ki, kj = full_key(cits[i]), full_key(cits[j])
        if (where[i] == where[j]) != (ki is not None and ki == kj):
            return ("full citations share a resource although their volume / normalised reporter / page differ "
                    "or the page is a placeholder (or vice versa)")
    return None


def expected_membership(cits, max_pages=None):
    """For each non-full citation: the class id (position of the first full
    citation of the group) it must be attached to, or None.  Written from the
    property text, not from resolve.py."""
    import re
    from eyecite.models import (FullCaseCitation, FullCitation, IdCitation, ReferenceCitation, ShortCaseCitation,
                                SupraCitation)
    from eyecite.resolve import MAX_OPINION_PAGE_COUNT
    from eyecite.utils import strip_punct

    mx = MAX_OPINION_PAGE_COUNT if max_pages is None else max_pages
    cls = eq_class(cits)
    exp = {}
    prev = None   # class the previous citation was attached to
    for n, c in enumerate(cits):
        target = None
        fulls = [i for i in range(n) if isinstance(cits[i], FullCitation)]

        def by_name(cands, ag):
            hit = set()
            for i in cands:
                f = cits[i]
                if not isinstance(f, FullCaseCitation):
                    continue
                d, p = f.metadata.defendant, f.metadata.plaintiff
                if (d and ag in d) or (not (d and ag in d) and p and ag in p):
                    hit.add(cls[i])
            return next(iter(hit)) if len(hit) == 1 else None

        if isinstance(c, FullCitation):
            target = cls[n]
        elif isinstance(c, ShortCaseCitation):
            cands = [i for i in fulls if isinstance(cits[i], FullCaseCitation)
                     and norm_rep(cits[i]) == norm_rep(c)
                     and cits[i].groups.get("volume") == c.groups.get("volume")]
            k = set(cls[i] for i in cands)
            if len(k) == 1:
                target = next(iter(k))
            elif c.metadata.antecedent_guess:
                target = by_name(cands, strip_punct(c.metadata.antecedent_guess))
        elif isinstance(c, SupraCitation):
            if c.metadata.antecedent_guess:
                target = by_name(fulls, strip_punct(c.metadata.antecedent_guess))
        elif isinstance(c, ReferenceCitation):
            names = {getattr(c.metadata, k) for k in ReferenceCitation.name_fields if getattr(c.metadata, k)}
            if names:
                hit = set()
                for i in fulls:
                    vals = {v for v in cits[i].metadata.__dict__.values() if v}
                    if vals & names:
                        hit.add(cls[i])
                if len(hit) == 1:
                    target = next(iter(hit))
        elif isinstance(c, IdCitation):
            if prev is not None:
                head = cits[prev]
                ok = True
                if type(head) is FullCaseCitation and head.groups.get("page") is None:
                    ok = False
                elif c.metadata.pin_cite:
                    pg = head.groups.get("page") or ""
                    if pg.isdigit():
                        m = re.match(r"(?:at )?(\d+)", c.metadata.pin_cite)
                        if not m:
                            ok = False
                        else:
                            try:
                                pin, page = int(m[1]), int(pg)
                                if pin < page or pin > page + mx:
                                    ok = False
                            except ValueError:
                                ok = False
                if ok:
                    target = prev
        exp[n] = target
        prev = target
    return exp


def monitor_c07(cits, groups):
    from eyecite.models import FullCitation

    where = {}
    for g in groups:
        for p in g:
            where[p] = g[0]
    try:
        exp = expected_membership(cits)
    except Exception as e:  # noqa
        return None   # the reference computation itself needs a well-formed list (e.g. int() of an exotic digit)
    for n, c in enumerate(cits):
        if isinstance(c, FullCitation):
            continue
        got = where.get(n)
        if got != exp[n]:
            return (f"citation #{n} ({type(c).__name__}) is attached to the group of #{got} "
                    f"but the unique admissible candidate is #{exp[n]}")
    return None


def restrict(groups, k):
    out = []
    for g in groups:
        g2 = [p for p in g if p < k]
        if g2:
            out.append(g2)
    return out


def monitor_c08(cits, groups, make_copy):
    """make_copy() -> a fresh, equal citation list (resolution is run on copies so that
    object identity of the prefix run is its own)"""
    from eyecite.models import FullCitation

    first_full = {}
    for g in groups:
        for p in g:
            if not isinstance(cits[p], FullCitation):
                if not any(isinstance(cits[q], FullCitation) and q < p for q in g):
                    return f"citation #{p} is grouped with a resource not introduced by an earlier full citation"
    ks = range(len(cits) + 1) if len(cits) <= 40 else sorted({0, 1, 2, len(cits) // 3, len(cits) // 3 + 1, len(cits) // 2, 199, 200, 201,
                                                              len(cits) - 1, len(cits)} & set(range(len(cits) + 1)))
    if len(cits) > 40:
        # for long lists also the prefixes ending right after a reference-type citation (supra / short / reference)
        refpos = [p + 1 for p, c in enumerate(cits) if type(c).__name__ in ("SupraCitation", "ShortCaseCitation", "ReferenceCitation")
                  and type(c).__name__ != "UnknownCitation"]
        ks = sorted(set(ks) | set(refpos[:8]) | set(refpos[-4:]))
    for k in ks:
        pre = make_copy()[:k]
        out = run_impl(pre)
        if out[0] != "ok":
            return f"resolving the prefix of length {k} raises {out[1]} although the whole list resolves"
        if out[1] != restrict(groups, k):
            return f"resolving the prefix of length {k} differs from the restriction of the full resolution"
    return None


# ------------------------------------------------------------------ list generators

def symbol_lists(ctx, exhaustive_len, n_sampled, max_len):
    lists = []
    for L in range(exhaustive_len + 1):
        for t in itertools.product(ALPHABET, repeat=L):
            lists.append(list(t))
    ctx.exhaustive[f"resolve: all sequences of length <= {exhaustive_len} over the {len(ALPHABET)}-symbol alphabet"] = len(lists)
    corpus = [
        ["journal", "idValid"],                      # D4: placeholder journal page + id. with pin
        ["fullA", "fullC_sameRV", "shortA", "shortAnte", "shortAmbig"],
        ["fullA", "fullAdup", "supraAmbig", "idNoPin", "idValid"],
        ["fullPlaceholder", "idNoPin", "fullPlaceholder", "supraA"],
        ["fullA", "unknown", "idNoPin"],
        ["fullA", "refA", "idValid", "idInvalid", "idNoPin"],
        ["fullA", "supraRecap", "fullArecap"],          # look-ahead: a later re-caption must not resolve an earlier supra
        ["fullA", "fullB", "supraA", "fullArecap", "supraRecap"],
        ["law", "law2", "idNoPin"],                     # two sections of one code are different resources
    ]
    lists = corpus + lists
    # long documents (> 200 citations) whose references point far back: any windowing / size-dependent shortcut shows
    for _ in range(2):
        fillers = ["fullB", "fullBseries", "law", "law2", "journal", "fullPlaceholder", "idNoPin", "unknown", "supraUnknown", "refNone"]
        fulls_only = ["fullB", "fullBseries", "law", "law2", "journal", "fullPlaceholder"]
        long_ = (["fullA"] + [ctx.rng.choice(fulls_only) for _ in range(ctx.rng.choice([70, 90]))] + ["supraA", "refA", "shortAnte", "idValid"]
                 + [ctx.rng.choice(fillers) for _ in range(ctx.rng.choice([130, 150]))] + ["supraA"])
        lists.append(long_)
    for _ in range(n_sampled):
        L = ctx.rng.randrange(exhaustive_len + 1, max_len + 1)
        lists.append([ctx.rng.choice(ALPHABET) for _ in range(L)])
    return lists


def document_lists(ctx, n_docs):
    """citation lists extracted from generated documents"""
    from eyecite import get_citations
    from harness import textgen

    out = []
    for _ in range(n_docs):
        d = textgen.document(ctx.rng, n_events=ctx.rng.choice([3, 5, 8, 12]))
        try:
            cs = get_citations(d)
        except Exception:  # noqa
            continue
        if cs:
            out.append((d, cs))
    return out


def run_stream(ctx, monitors, exhaustive_len, n_sampled, max_len, n_docs):
    """Runs resolve on symbol lists and extracted lists; applies the given
    monitors; returns correspondence cases."""
    edmap = tokutil.EdMap()
    cases = []
    for syms in symbol_lists(ctx, exhaustive_len, n_sampled, max_len):
        cits = [make(s) for s in syms]
        out = run_impl(cits)
        nt = len(syms) >= 2 and out[0] == "ok" and any(len(g) >= 2 for g in out[1])
        ctx.case("resolve", tuple(syms), nt, dict(symbols=syms, result=out[1]) if nt and len(syms) >= 4 and len(ctx.samples) < 6 else None)
        ctx.count(f"symbol list len={min(len(syms), 6)}{'+' if len(syms) >= 6 else ''}")
        if out[0] == "ok":
            for name, mon in monitors:
                bad = mon(cits, out[1], lambda syms=syms: [make(s) for s in syms])
                if bad:
                    ctx.violation(None, f"{name}: {bad}", dict(stream="resolve", symbols=syms, groups=out[1]))
        else:
            ctx.count(f"resolve raised {out[1]}")
        inp = "[" + "; ".join(cit_term(c, i, edmap) for i, c in enumerate(cits)) + "]"
        cases.append((inp, expected_term(out), dict(stream="resolve", symbols=syms, impl=out[:2])))
    import copy
    import pickle

    # histories: objects that were already resolved (hashed, compared) once, then copied or pickled and resolved
    # again in one list together with the originals
    hist = [list(t) for L in (1, 2) for t in itertools.product(ALPHABET, repeat=L)]
    hist += [[ctx.rng.choice(ALPHABET) for _ in range(ctx.rng.randrange(3, 6))] for _ in range(max(40, n_sampled // 10))]
    for syms in hist:
        base = [make(s) for s in syms]
        run_impl(base)
        how = ctx.rng.choice(["deepcopy", "pickle"])
        try:
            dup = copy.deepcopy(base) if how == "deepcopy" else pickle.loads(pickle.dumps(base))
        except Exception:  # noqa
            ctx.count("history: copy failed")
            continue
        cits = base + dup
        out = run_impl(cits)
        ctx.case("resolve-history", (tuple(syms), how), True, None)
        ctx.count(f"history: resolved, {how}, resolved again with the originals")
        if out[0] == "ok":
            for name, mon in monitors:
                bad = mon(cits, out[1], lambda syms=syms: [make(s) for s in syms + syms])
                if bad:
                    ctx.violation(None, f"{name}: {bad}", dict(stream="resolve-history", symbols=syms, how=how, groups=out[1]))
        inp = "[" + "; ".join(cit_term(c, i, edmap) for i, c in enumerate(cits)) + "]"
        cases.append((inp, expected_term(out), dict(stream="resolve-history", symbols=syms, how=how, impl=out[:2])))

    for d, cs in document_lists(ctx, n_docs):
        out = run_impl(cs)
        nt = out[0] == "ok" and any(len(g) >= 2 for g in out[1])
        ctx.case("resolve-extracted", d, nt, dict(text=d, result=out[1]) if nt and len(ctx.samples) < 9 else None)
        ctx.count("extracted list")
        if out[0] == "ok":
            for name, mon in monitors:
                bad = mon(cs, out[1], lambda cs=cs: copy.deepcopy(cs))
                if bad:
                    ctx.violation(None, f"{name}: {bad}", dict(stream="resolve-extracted", text=d, groups=out[1]))
        inp = "[" + "; ".join(cit_term(c, i, edmap) for i, c in enumerate(cs)) + "]"
        cases.append((inp, expected_term(out), dict(stream="resolve-extracted", text=d, impl=out[:2])))
    ctx.streams += ["resolve", "resolve-history", "resolve-extracted"]
    core.corr_run(ctx, "resolve", PRE, "run_resolve", "res_eqb", cases, shard=300)
