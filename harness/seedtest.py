"""Developer tool: confirm a seeded change and run the property's check against it.
usage: python -m harness.seedtest <CID> <dir with patch.diff, demo.py, notes.md> [extra check ids...]
Applies the patch to /repo, runs the suite + demo + ./check, undoes it, writes /verif/seeded/<name>/."""
import json
import os
import shutil
import subprocess
import sys
import time

REPO = "/repo"
VERIF = "/verif"


def sh(cmd, cwd=None, timeout=1800, env=None):
    p = subprocess.run(cmd, shell=True, cwd=cwd, stdout=subprocess.PIPE, stderr=subprocess.STDOUT, text=True, timeout=timeout, env=env)
    return p.returncode, p.stdout


def main():
    cid, src = sys.argv[1], sys.argv[2]
    extra = sys.argv[3:]
    name = os.environ.get("SEED_NAME", cid)
    rc, out = sh("git status --porcelain", cwd=REPO)
    if out.strip():
        sys.exit("refusing: /repo is not clean\n" + out)
    meta = dict(property=cid, source_dir=src, checks={})
    demo = os.path.join(src, "demo.py")
    env = dict(os.environ, PYTHONPATH=REPO)
    rc, out = sh(f"/venv/bin/python {demo} {REPO}", env=env)
    meta["demo_on_unchanged_tree"] = dict(rc=rc, tail=out.strip()[-300:])
    rc, out = sh(f"git apply {os.path.join(src, 'patch.diff')}", cwd=REPO)
    if rc != 0:
        sys.exit("patch does not apply: " + out)
    try:
        rc, out = sh("/venv/bin/python -m pytest -q -p no:cacheprovider --timeout=900 -x tests", cwd=REPO, env=env)
        meta["suite_with_change"] = dict(rc=rc, tail=out.strip()[-200:])
        rc, out = sh(f"/venv/bin/python {demo} {REPO}", env=env)
        meta["demo_with_change"] = dict(rc=rc, tail=out.strip()[-400:])
        for c in [cid] + extra:
            t = time.time()
            rc, out = sh(f"./check {c} --tier quick", cwd=VERIF, timeout=3000)
            lines = [l for l in out.split("\n") if l.startswith("VIOLATION") or l.startswith("KNOWN-FINDING") or " -> exit " in l]
            meta["checks"][c] = dict(rc=rc, lines=[l[:300] for l in lines][-6:], wall_s=round(time.time() - t))
            # keep one replay description
            for l in lines:
                if l.startswith("VIOLATION") and "replay=" in l:
                    path = l.split("replay=")[1].split()[0]
                    try:
                        meta["checks"][c]["replay_excerpt"] = open(path).read()[:700]
                    except OSError:
                        pass
                    break
    finally:
        sh("git checkout -- .", cwd=REPO)
        sh("git checkout -- evidence", cwd=VERIF)
    dst = os.path.join(VERIF, "seeded", name)
    os.makedirs(dst, exist_ok=True)
    for f in ("patch.diff", "demo.py", "notes.md"):
        if os.path.exists(os.path.join(src, f)):
            shutil.copy(os.path.join(src, f), os.path.join(dst, f))
    meta["needs_to_manifest"] = open(os.path.join(src, "notes.md")).read()[:1500] if os.path.exists(os.path.join(src, "notes.md")) else ""
    meta["confirmed"] = (meta["demo_on_unchanged_tree"]["rc"] == 0 and meta["demo_with_change"]["rc"] != 0 and meta["suite_with_change"]["rc"] == 0)
    meta["detected_by"] = [c for c, r in meta["checks"].items() if r["rc"] != 0]
    json.dump(meta, open(os.path.join(dst, "meta.json"), "w"), indent=1)
    print(json.dumps(dict(confirmed=meta["confirmed"], detected_by=meta["detected_by"],
                          checks={c: (r["rc"], r["lines"][-2:]) for c, r in meta["checks"].items()}), indent=1)[:2500])


if __name__ == "__main__":
    main()
