"""Emit Coq terms as text.  Strings are `list N` of code points."""


def n(i: int) -> str:
    return f"{int(i)}%N"


def nat(i: int) -> str:
    return f"{int(i)}%nat"


def z(i: int) -> str:
    i = int(i)
    return f"({i})%Z" if i < 0 else f"{i}%Z"


def lst(items, scope=None) -> str:
    body = "[" + "; ".join(items) + "]"
    return body if scope is None else f"({body})%{scope}"


def s(text: str) -> str:
    """A Python str as a Coq `str` literal."""
    if not text:
        return "(@nil N)"
    return "([" + ";".join(str(ord(c)) for c in text) + "]%N)"


def opt(x, f=lambda v: v) -> str:
    return "None" if x is None else f"(Some {f(x)})"


def b(x) -> str:
    return "true" if x else "false"


def pair(a, b_) -> str:
    return f"({a}, {b_})"


def ranges(cps) -> str:
    """sorted code points -> list of (lo,hi) N pairs"""
    out = []
    lo = prev = None
    for c in cps:
        if lo is None:
            lo = prev = c
        elif c == prev + 1:
            prev = c
        else:
            out.append((lo, prev))
            lo = prev = c
    if lo is not None:
        out.append((lo, prev))
    return "([" + "; ".join(f"({a},{b_})" for a, b_ in out) + "]%N)"
