"""Random words from a regex AST (retrans intermediate form): pattern-derived
strings for the regex/C13 streams.  Not guaranteed to match (assertions are
ignored); callers test with the real compiled pattern."""

POOL = list("abcXYZ019 .,;:()[]§\n\t-_'\"") + ["é", "“", " ", "ſ", "ı", "K", "İ", "١"]
CASE_VARIANTS = {"s": "ſ", "i": "ıİ", "k": "K", "S": "ſ", "I": "ıİ", "K": "K"}


def word(rng, ast, ci=False, exotic=0.0):
    k = ast[0]
    if k == "eps":
        return ""
    if k == "lit":
        return _lit(rng, ast[1], ci, exotic)
    if k == "str":
        return "".join(_lit(rng, c, ci, exotic) for c in ast[1])
    if k == "notlit":
        c = rng.choice(POOL)
        return c if ord(c[0]) != ast[1] else "~"
    if k == "any":
        c = rng.choice(POOL)
        return c if c != "\n" else "x"
    if k == "set":
        return _set(rng, ast[1], ast[2])
    if k in ("bol", "eol", "wordb"):
        return ""
    if k == "look":
        return ""
    if k == "cat":
        return word(rng, ast[1], ci, exotic) + word(rng, ast[2], ci, exotic)
    if k == "alt":
        # flatten the right-nested alternation so every branch is equally likely
        alts = []
        a = ast
        while a[0] == "alt":
            alts.append(a[1])
            a = a[2]
        alts.append(a)
        return word(rng, rng.choice(alts), ci, exotic)
    if k == "group":
        return word(rng, ast[2], ci, exotic)
    if k == "rep":
        lo, hi = ast[1], ast[2]
        top = lo + 2 if hi is None else min(hi, lo + 2)
        n = rng.randint(lo, max(lo, top))
        return "".join(word(rng, ast[3], ci, exotic) for _ in range(n))
    raise ValueError(k)


def _lit(rng, c, ci, exotic):
    ch = chr(c)
    if ci:
        r = rng.random()
        if r < exotic and ch in CASE_VARIANTS:
            return rng.choice(CASE_VARIANTS[ch])
        if r < 0.3:
            return ch.swapcase() if len(ch.swapcase()) == 1 else ch
    return ch


def _set(rng, neg, items):
    def member(ch):
        o = ord(ch)
        for it in items:
            if it[0] == "l" and it[1] == o:
                return True
            if it[0] == "r" and it[1] <= o <= it[2]:
                return True
            if it[0] == "c":
                import re
                cls = {"CDigit": r"\d", "CNotDigit": r"\D", "CSpace": r"\s", "CNotSpace": r"\S", "CWord": r"\w", "CNotWord": r"\W"}[it[1]]
                if re.fullmatch(cls, ch):
                    return True
        return False

    if not neg:
        it = rng.choice(items)
        if it[0] == "l":
            return chr(it[1])
        if it[0] == "r":
            return chr(rng.randint(it[1], min(it[2], it[1] + 30)))
        cands = [c for c in POOL if len(c) == 1 and member(c)]
        return rng.choice(cands) if cands else ""
    cands = [c for c in POOL if len(c) == 1 and not member(c)]
    return rng.choice(cands) if cands else ""
