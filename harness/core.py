"""Shared machinery of every check: regenerate, build, evaluate the model in
Coq, verdict, evidence.  See DESIGN.md section 5."""
import fcntl
import hashlib
import json
import os
import random
import re
import subprocess
import sys
import time

VERIF = os.path.dirname(os.path.dirname(os.path.abspath(__file__)))
COQ = os.path.join(VERIF, "coq")
WORK = os.path.join(VERIF, ".work")
EVID = os.path.join(VERIF, "evidence")
REPLAY = os.path.join(EVID, "replay")
REPO = os.environ.get("EYECITE_REPO", "/repo")
PY = "/venv/bin/python"
NPROC = min(16, os.cpu_count() or 4)

FORBIDDEN = re.compile(
    r"\b(Admitted|admit|Axiom|Axioms|Parameter|Parameters|Conjecture|Hypothesis|Variable)\b"
    r"|Unset\s+Guard|bypass_check|type-in-type|impredicative-set|Admit\s+Obligations|native_compute"
)

TRUSTED_BASE = [
    "Coq 8.16.1 kernel and coqc; vm_compute (reflection proofs and in-Coq evaluation of correspondence cases); no native_compute",
    "axioms: none (every Props/*.v theorem prints 'Closed under the global context'; the check fails otherwise)",
    "translator harness/gen.py + harness/retrans.py (CPython re._parser as the reading of a pattern; emitters of tables and constants)",
    "correspondence harness (Python): generators, canonicalisers, comparison of eyecite's results with the model evaluated by coqc",
    "hand-written Gallina models of eyecite's control flow are tied to the code only by differential execution",
]


def env_for_python():
    e = dict(os.environ)
    e["PYTHONPATH"] = f"{REPO}:{VERIF}"
    e["PYTHONHASHSEED"] = e.get("PYTHONHASHSEED", "0")
    return e


class Lock:
    def __init__(self, name):
        os.makedirs(WORK, exist_ok=True)
        self.path = os.path.join(WORK, name + ".lock")

    def __enter__(self):
        self.f = open(self.path, "w")
        fcntl.flock(self.f, fcntl.LOCK_EX)
        return self

    def __exit__(self, *a):
        fcntl.flock(self.f, fcntl.LOCK_UN)
        self.f.close()


def sh(cmd, timeout, cwd=None, env=None):
    """-> (rc, output).  rc 124 on timeout."""
    try:
        p = subprocess.run(
            cmd, shell=isinstance(cmd, str), cwd=cwd, env=env, timeout=timeout,
            stdout=subprocess.PIPE, stderr=subprocess.STDOUT, text=True, errors="replace",
        )
        return p.returncode, p.stdout
    except subprocess.TimeoutExpired as e:
        out = e.stdout.decode("utf8", "replace") if isinstance(e.stdout, bytes) else (e.stdout or "")
        return 124, out + "\nTIMEOUT"


# ------------------------------------------------------------------ gen + build

def run_gen():
    """Regenerate coq/Gen from the live /repo.  -> (ok, message)"""
    with Lock("gen"):
        rc, out = sh([PY, "-m", "harness.gen", os.path.join(COQ, "Gen")], 600, cwd=VERIF, env=env_for_python())
    return rc == 0 and "GEN-OK" in out, out.strip()[-2000:]


def _vfiles():
    res = []
    skip = set()
    sp = os.path.join(WORK, "skip.txt")      # developer aid: files a proof agent is still editing
    if os.path.exists(sp):
        skip = {l.strip() for l in open(sp) if l.strip()}
    for root, dirs, files in os.walk(COQ):
        dirs[:] = [d for d in dirs if not d.startswith(".") and not d.startswith("scratch")]
        for f in files:
            if f.endswith(".v") and not f.startswith("."):
                rel = os.path.relpath(os.path.join(root, f), COQ)
                if rel not in skip:
                    res.append(rel)
    return sorted(res)


COQPROJECT_HEAD = "-Q . EV\n-arg -w -arg -notation-overridden,-deprecated-hint-without-locality,-deprecated-syntactic-definition,-deprecated-instance-without-locality\n"


def build(targets=None, timeout=1500):
    """Full .vo build (never -vos/-vok) of all files or of the given .vo
    targets (with their dependencies).  -> (ok, log)"""
    with Lock("build"):
        files = _vfiles()
        proj = COQPROJECT_HEAD + "\n".join(files) + "\n"
        pp = os.path.join(COQ, "_CoqProject")
        old = open(pp).read() if os.path.exists(pp) else ""
        if old != proj or not os.path.exists(os.path.join(COQ, "Makefile")):
            with open(pp, "w") as f:
                f.write(proj)
            rc, out = sh("coq_makefile -f _CoqProject -o Makefile", 120, cwd=COQ)
            if rc != 0:
                return False, out
        tgt = " ".join(targets) if targets else ""
        rc, out = sh(f"make -j{NPROC} {tgt}", timeout, cwd=COQ)
        return rc == 0, out


def source_scan():
    """Forbidden constructs anywhere in the development (generated files included)."""
    bad = []
    for rel in _vfiles():
        with open(os.path.join(COQ, rel), encoding="utf8") as f:
            text = f.read()
        text = re.sub(r"\(\*.*?\*\)", "", text, flags=re.S)
        in_section = 0
        for ln, line in enumerate(text.split("\n"), 1):
            if re.match(r"\s*Section\b", line):
                in_section += 1
            if re.match(r"\s*End\b", line) and in_section:
                # module/section ends both decrement; only sections were counted
                in_section -= 1
            for m in FORBIDDEN.finditer(line):
                tok = m.group(0)
                if tok in ("Hypothesis", "Variable") and in_section > 0:
                    continue
                bad.append(f"{rel}:{ln}: {tok}")
    return bad


def check_props(cid, timeout=900):
    """Compile Props/<cid>.v afresh and read its assumption reports.
    -> dict(obligations, discharged, theorems, failures)"""
    rel = f"Props/{cid}.v"
    path = os.path.join(COQ, rel)
    src = open(path, encoding="utf8").read()
    src_nc = re.sub(r"\(\*.*?\*\)", "", src, flags=re.S)
    theorems = re.findall(r"^\s*(?:Theorem|Lemma|Example|Corollary)\s+([A-Za-z0-9_']+)", src_nc, flags=re.M)
    printed = re.findall(r"Print Assumptions\s+([A-Za-z0-9_']+)", src_nc)
    rc, out = sh(["coqc", "-Q", ".", "EV", rel], timeout, cwd=COQ)
    failures = []
    closed = out.count("Closed under the global context")
    if rc != 0:
        failures.append(f"coqc {rel} failed: " + out.strip()[-1500:])
    if "Axioms:" in out or closed != len(printed):
        failures.append(f"assumption report of {rel}: {closed} closed of {len(printed)} printed\n" + out.strip()[-1500:])
    missing = [t for t in theorems if t not in printed and not t.endswith("nonvacuous") and "_ex" not in t]
    return dict(
        obligations=len(theorems),
        discharged=len(theorems) if not failures else 0,
        theorems=theorems,
        failures=failures,
        unprinted=missing,
        cmd=f"cd {COQ} && make -j{NPROC} && coqc -Q . EV {rel}",
    )


# ------------------------------------------------------------------ evaluating the model inside Coq

_tok = re.compile(r"\s*(?:(\d+)|([A-Za-z_][A-Za-z_0-9'.]*)|(%[A-Za-z_]+)|(\{\||\|\}|:=|[\[\]();,]))")


def parse_coq_value(text):
    """Parse a value printed by Coq (lists, tuples, numerals, constructors
    applied to arguments) into nested Python lists / tuples / ints / names."""
    toks = []
    pos = 0
    text = text.strip()
    while pos < len(text):
        m = _tok.match(text, pos)
        if not m:
            if text[pos:].strip() == "":
                break
            raise ValueError(f"cannot tokenise Coq output at {text[pos:pos+40]!r}")
        pos = m.end()
        if m.group(1) is not None:
            toks.append(("n", int(m.group(1))))
        elif m.group(2) is not None:
            toks.append(("id", m.group(2)))
        elif m.group(3) is not None:
            continue  # scope annotations
        else:
            toks.append(("p", m.group(4)))
    i = [0]

    def peek():
        return toks[i[0]] if i[0] < len(toks) else None

    def atom():
        t = peek()
        if t is None:
            raise ValueError("unexpected end")
        i[0] += 1
        if t[0] == "n":
            return t[1]
        if t[0] == "id":
            return t[1]
        if t == ("p", "["):
            items = []
            if peek() == ("p", "]"):
                i[0] += 1
                return items
            while True:
                items.append(expr())
                t2 = peek()
                i[0] += 1
                if t2 == ("p", "]"):
                    return items
                if t2 != ("p", ";"):
                    raise ValueError(f"expected ; or ] got {t2}")
        if t == ("p", "{|"):
            rec = {}
            while True:
                name = peek()
                i[0] += 1
                if name == ("p", "|}"):
                    return rec
                if peek() != ("p", ":="):
                    raise ValueError(f"expected := got {peek()}")
                i[0] += 1
                rec[name[1]] = expr()
                t2 = peek()
                i[0] += 1
                if t2 == ("p", "|}"):
                    return rec
                if t2 != ("p", ";"):
                    raise ValueError(f"expected ; or |}} got {t2}")
        if t == ("p", "("):
            items = [expr()]
            while peek() == ("p", ","):
                i[0] += 1
                items.append(expr())
            if peek() != ("p", ")"):
                raise ValueError(f"expected ) got {peek()}")
            i[0] += 1
            return items[0] if len(items) == 1 else tuple(items)
        raise ValueError(f"unexpected token {t}")

    def expr():
        head = atom()
        args = []
        while True:
            t = peek()
            if t is None or t[0] == "p" and t[1] in ("]", ";", ",", ")", "|}", ":="):
                break
            args.append(atom())
        if args:
            return (head, *args) if isinstance(head, str) else (head, *args)
        return head

    v = expr()
    return v


def coq_eval(name, body, timeout=600):
    """Compile a generated cases file; return the list of values printed by
    its `Eval vm_compute` commands (parsed)."""
    d = os.path.join(WORK, "cases")
    os.makedirs(d, exist_ok=True)
    path = os.path.join(d, name + ".v")
    with open(path, "w", encoding="utf8") as f:
        f.write(body)
    rc, out = sh(["coqc", "-Q", COQ, "EV", "-w", "-all", path], timeout, cwd=d)
    for ext in (".vo", ".vok", ".vos", ".glob", ".aux"):
        for cand in (path[:-2] + ext, os.path.join(d, "." + name + ext)):
            try:
                os.remove(cand)
            except OSError:
                pass
    if rc != 0:
        raise CoqEvalError(out.strip()[-3000:])
    vals = []
    for chunk in re.split(r"^\s*= ", out, flags=re.M)[1:]:
        val = re.split(r"\n\s*: ", chunk)[0]
        vals.append(parse_coq_value(val))
    return vals


class CoqEvalError(Exception):
    pass


def coq_eval_parallel(jobs, timeout=900):
    """jobs: list of (name, body).  Runs up to NPROC coqc processes."""
    from concurrent.futures import ThreadPoolExecutor

    with ThreadPoolExecutor(max_workers=NPROC) as ex:
        futs = [ex.submit(coq_eval, n_, b_, timeout) for n_, b_ in jobs]
        return [f.result() for f in futs]


# ------------------------------------------------------------------ known findings

def load_known():
    p = os.path.join(VERIF, "known_findings.json")
    if not os.path.exists(p):
        return []
    return json.load(open(p))["findings"]


# ------------------------------------------------------------------ context of one check run

class Ctx:
    def __init__(self, cid, tier, seed):
        self.cid = cid
        self.tier = tier
        self.seed = seed
        self.rng = random.Random(seed)
        self.t0 = time.time()
        self.evaluations = 0
        self.nontrivial = set()
        self.traces = 0
        self.samples = []
        self.distribution = {}
        self.exhaustive = {}
        self.violations = []      # (shape, description, replay_obj)
        self.divergences = []     # (stream, description, replay_obj)
        self.proof_failures = []  # strings
        self.notes = []
        self.streams = []
        self.props = None
        self.coqchk = None

    # counters
    def count(self, key, k=1):
        self.distribution[key] = self.distribution.get(key, 0) + k

    def case(self, stream, key, nontrivial, sample=None):
        """Register one explored case. `key` identifies it (hashable or str)."""
        self.evaluations += 1
        if nontrivial:
            h = hashlib.sha1(repr((stream, key)).encode("utf8", "replace")).digest()[:8]
            self.nontrivial.add(h)
        if sample is not None and len(self.samples) < 12:
            self.samples.append(sample)

    def violation(self, shape, desc, replay):
        self.violations.append((shape, desc, replay))

    def divergence(self, stream, desc, replay):
        self.divergences.append((stream, desc, replay))


def write_replay(cid, obj):
    os.makedirs(REPLAY, exist_ok=True)
    blob = json.dumps(obj, sort_keys=True, ensure_ascii=True, default=repr)
    h = hashlib.sha1(blob.encode()).hexdigest()[:12]
    path = os.path.join(REPLAY, f"{cid}-{h}.json")
    with open(path, "w") as f:
        f.write(blob)
    return path


def finish(ctx, level_text, rule, assumptions, extra_cov=None):
    """Verdict + evidence.  Returns the process exit code."""
    known = [k for k in load_known() if k.get("property") == ctx.cid and k.get("status") == "known"]
    known_shapes = {k["shape"]: k for k in known}
    lines = []
    rc = 0
    reported_known = set()
    new_violations = []
    for shape, desc, replay in ctx.violations:
        if shape is not None and shape in known_shapes:
            reported_known.add(shape)
        else:
            new_violations.append((shape, desc, replay))
    # every listed known finding is re-demonstrated by the check (its witness is
    # in the corpus); print one line per finding
    for shape, k in known_shapes.items():
        lines.append(f"KNOWN-FINDING: property={ctx.cid} {k['what']}")
    seen = set()
    for shape, desc, replay in new_violations[:5]:
        key = (shape, desc)
        if key in seen:
            continue
        seen.add(key)
        path = write_replay(ctx.cid, dict(kind="violation", shape=shape, description=desc, replay=replay, seed=ctx.seed))
        lines.append(f"VIOLATION property={ctx.cid} replay={path}")
        rc = 1
    if rc == 0 and (ctx.proof_failures or ctx.divergences):
        # proof obligation or correspondence broken and the search found no failing input
        obj = dict(
            kind="unproved",
            proof_failures=ctx.proof_failures[:5],
            divergences=[dict(stream=s, description=d, replay=r) for s, d, r in ctx.divergences[:5]],
            seed=ctx.seed,
            note="no concrete input violating the property was found on the implementation; "
                 "the property is no longer shown to hold because the named theorem or correspondence no longer checks",
        )
        path = write_replay(ctx.cid, obj)
        lines.append(f"VIOLATION property={ctx.cid} replay={path} no-failing-input-found")
        rc = 1
    props = ctx.props or dict(obligations=0, discharged=0, cmd="", theorems=[])
    cov = dict(
        obligations=max(props["obligations"], 1),
        discharged=props["discharged"],
        checker_cmd=props.get("cmd", ""),
        trusted_base=TRUSTED_BASE,
        theorems=props.get("theorems", []),
        evaluations=ctx.evaluations,
        distinct_nontrivial=len(ctx.nontrivial),
        rule=rule,
        samples=ctx.samples[:12] or ["(no correspondence cases in this run)"],
        traces_validated_against_impl=ctx.traces,
        input_distribution=ctx.distribution,
        exhaustive_subspaces=ctx.exhaustive,
        exhaustive=False,
        streams=ctx.streams,
        known_findings_reported=sorted(known_shapes),
        known_findings_reproduced=sorted(reported_known),
        proof_failures=ctx.proof_failures[:5],
        correspondence_divergences=len(ctx.divergences),
        notes=ctx.notes,
    )
    if ctx.coqchk is not None:
        cov["coqchk"] = ctx.coqchk
    if extra_cov:
        cov.update(extra_cov)
    ev = dict(
        property_id=ctx.cid,
        tier=ctx.tier,
        seed=ctx.seed,
        level="proof",
        coverage=cov,
        assumptions=assumptions,
        wall_s=round(time.time() - ctx.t0, 2),
        violations=len(new_violations) + (1 if rc and not new_violations else 0),
        level_text=level_text,
    )
    os.makedirs(EVID, exist_ok=True)
    tmp = os.path.join(EVID, f".{ctx.cid}.json.tmp")
    with open(tmp, "w") as f:
        json.dump(ev, f, indent=1, sort_keys=True, default=repr)
    os.replace(tmp, os.path.join(EVID, f"{ctx.cid}.json"))
    for ln in lines:
        print(ln)
    print(f"{ctx.cid} tier={ctx.tier} seed={ctx.seed} obligations={cov['obligations']} discharged={cov['discharged']} "
          f"evaluations={ctx.evaluations} nontrivial={len(ctx.nontrivial)} divergences={len(ctx.divergences)} "
          f"violations={len(new_violations)} wall={ev['wall_s']}s -> exit {rc}")
    return rc


def run_coqchk(cid, timeout=1800):
    with Lock("coqchk"):
        rc, out = sh(f"coqchk -silent -o -Q . EV EV.Props.{cid}", timeout, cwd=COQ)
    tail = out.strip()[-1500:]
    return dict(rc=rc, report=tail)


# ------------------------------------------------------------------ generic correspondence runner

def corr_run(ctx, stream, preamble, fn, eqb, cases, shard=400, timeout=900, ty=None):
    """cases: list of (input_term, expected_term, description_obj).
    Evaluates `fn input` in Coq for every case and compares with expected
    using `eqb`.  Mismatches are registered as divergences (with the model's
    output).  Returns the list of mismatching case indices."""
    if not cases:
        return []
    jobs = []
    for k in range(0, len(cases), shard):
        chunk = cases[k:k + shard]
        tyann = ""
        if isinstance(ty, tuple):
            tyann = f": list (({ty[0]}) * ({ty[1]})) "
        elif ty:
            tyann = f": list ({ty}) "
        body = [preamble, "\nDefinition cases_ %s:= [\n" % tyann]
        body.append(";\n".join(f"({i}, {e})" for i, e, _ in chunk))
        body.append("\n].\n")
        body.append(f"Eval vm_compute in (mismatches ({eqb}) ({fn}) cases_).\n")
        jobs.append((f"{ctx.cid}_{stream}_{k // shard}".replace("-", "_"), "".join(body)))
    results = coq_eval_parallel(jobs, timeout)
    bad = []
    for j, vals in enumerate(results):
        if len(vals) != 1 or not isinstance(vals[0], list):
            raise CoqEvalError(f"unexpected output of {jobs[j][0]}: {vals!r}")
        for idx in vals[0]:
            bad.append(j * shard + idx)
    ctx.traces += len(cases)
    if bad:
        show = bad[:5]
        ity = f": list ({ty[0]}) " if isinstance(ty, tuple) else ""
        body = [preamble, "\nDefinition inputs_ %s:= [\n" % ity, ";\n".join(cases[i][0] for i in show), "\n].\n",
                f"Eval vm_compute in (map ({fn}) inputs_).\n"]
        try:
            vals = coq_eval(f"{ctx.cid}_{stream}_show".replace("-", "_"), "".join(body), timeout)
            outs = vals[0]
        except Exception as e:  # noqa
            outs = [f"(model output unavailable: {e})"] * len(show)
        for i, mo in zip(show, outs):
            ctx.divergence(stream, f"model and implementation differ on {stream} case", dict(case=cases[i][2], model_output=mo))
        for i in bad[5:]:
            ctx.divergence(stream, f"model and implementation differ on {stream} case", dict(case=cases[i][2]))
    return bad
