#!/bin/bash
# MANIFEST.setup_cmd: build the framework offline from files on disk.
set -e
cd "$(dirname "$0")/.."
export PYTHONPATH=/repo:/verif PYTHONHASHSEED=0
mkdir -p .work evidence
/venv/bin/python - <<'PY'
from harness import core
ok, msg = core.run_gen()
print(msg)
if not ok:
    raise SystemExit("gen failed")
ok, log = core.build()
print(log[-3000:])
if not ok:
    raise SystemExit("build failed")
print("SETUP-OK")
PY
