"""Fail-closed translator: Python regular expression (as CPython's re._parser
reads it) -> the `re` AST of coq/Regex/Syntax.v.

Intermediate form (nested tuples), used both for emission and by the
Python-side word generators:
  ('eps',) ('lit',c) ('str',[c..]) ('notlit',c) ('any',) ('set',neg,items)
  ('bol',) ('eol',) ('wordb',) ('cat',a,b) ('alt',a,b) ('group',idx,r)
  ('rep',lo,hi|None,r) ('look',r)
items: ('l',c) ('r',lo,hi) ('c',catname)
"""
import re
import re._constants as C
import re._parser as P


class Unsupported(Exception):
    pass


_CATS = {
    C.CATEGORY_DIGIT: "CDigit",
    C.CATEGORY_NOT_DIGIT: "CNotDigit",
    C.CATEGORY_SPACE: "CSpace",
    C.CATEGORY_NOT_SPACE: "CNotSpace",
    C.CATEGORY_WORD: "CWord",
    C.CATEGORY_NOT_WORD: "CNotWord",
}


def dedupe_group_names(pattern: str):
    """The `regex` module lets one group name occur several times (one
    capture slot).  CPython's parser rejects that, so later occurrences are
    renamed NAME__k and mapped back to the slot of the first occurrence."""
    seen = {}
    alias = {}

    def repl(m):
        name = m.group(1)
        k = seen.get(name, 0) + 1
        seen[name] = k
        if k == 1:
            return m.group(0)
        new = f"{name}__{k}"
        alias[new] = name
        return f"(?P<{new}>"

    return re.sub(r"\(\?P<([A-Za-z_][A-Za-z_0-9]*)>", repl, pattern), alias


def parse(pattern: str, flags: int = 0):
    """-> (ast, ngroups, names{name: idx}, ci)"""
    known = re.I | re.X | re.U | re.M
    if flags & ~known:
        raise Unsupported(f"flags {flags!r}")
    if flags & re.M:
        # MULTILINE only changes ^ and $; allowed only for patterns without them
        pass
    pat2, alias = dedupe_group_names(pattern)
    sp = P.parse(pat2, flags)
    gflags = sp.state.flags
    if gflags & ~(known | re.U):
        raise Unsupported(f"inline flags {gflags!r}")
    groupdict = dict(sp.state.groupdict)
    # slot mapping: canonical index per group number
    slot = {}
    names = {}
    nextslot = [1]
    num2name = {v: k for k, v in groupdict.items()}
    for num in range(1, sp.state.groups):
        name = num2name.get(num)
        if name is not None and name in alias:
            slot[num] = None  # filled below
        else:
            slot[num] = nextslot[0]
            nextslot[0] += 1
            if name is not None:
                names[name] = slot[num]
    for num in range(1, sp.state.groups):
        if slot[num] is None:
            slot[num] = names[alias[num2name[num]]]
    ast = _seq(list(sp), slot, bool(gflags & re.M), in_look=False)
    return ast, nextslot[0] - 1, names, bool(gflags & re.I)


def _seq(items, slot, multiline, in_look):
    nodes = [_node(op, av, slot, multiline, in_look) for op, av in items]
    # collapse consecutive literals
    out = []
    for nd in nodes:
        if nd[0] == "lit" and out and out[-1][0] in ("lit", "str"):
            prev = out.pop()
            chars = [prev[1]] if prev[0] == "lit" else list(prev[1])
            out.append(("str", chars + [nd[1]]))
        else:
            out.append(nd)
    if not out:
        return ("eps",)
    res = out[-1]
    for nd in reversed(out[:-1]):
        res = ("cat", nd, res)
    return res


def _node(op, av, slot, multiline, in_look):
    if op is C.LITERAL:
        return ("lit", av)
    if op is C.NOT_LITERAL:
        return ("notlit", av)
    if op is C.ANY:
        return ("any",)
    if op is C.IN:
        neg = False
        items = []
        for iop, iav in av:
            if iop is C.NEGATE:
                neg = True
            elif iop is C.LITERAL:
                items.append(("l", iav))
            elif iop is C.RANGE:
                items.append(("r", iav[0], iav[1]))
            elif iop is C.CATEGORY:
                if iav not in _CATS:
                    raise Unsupported(f"category {iav}")
                items.append(("c", _CATS[iav]))
            else:
                raise Unsupported(f"set item {iop}")
        return ("set", neg, items)
    if op is C.AT:
        if av is C.AT_BEGINNING:
            if multiline:
                raise Unsupported("^ under MULTILINE")
            return ("bol",)
        if av is C.AT_END:
            if multiline:
                raise Unsupported("$ under MULTILINE")
            return ("eol",)
        if av is C.AT_BOUNDARY:
            return ("wordb",)
        raise Unsupported(f"AT {av}")
    if op is C.BRANCH:
        _, alts = av
        nodes = [_seq(list(a), slot, multiline, in_look) for a in alts]
        res = nodes[-1]
        for nd in reversed(nodes[:-1]):
            res = ("alt", nd, res)
        return res
    if op is C.SUBPATTERN:
        group, add_flags, del_flags, p = av
        if add_flags or del_flags:
            raise Unsupported("scoped inline flags")
        body = _seq(list(p), slot, multiline, in_look)
        if group is None:
            return body
        if in_look:
            raise Unsupported("capturing group inside look-ahead")
        return ("group", slot[group], body)
    if op is C.MAX_REPEAT:
        lo, hi, p = av
        body = _seq(list(p), slot, multiline, in_look)
        return ("rep", lo, None if hi is C.MAXREPEAT else hi, body)
    if op is C.ASSERT:
        direction, p = av
        if direction != 1:
            raise Unsupported("look-behind")
        return ("look", _seq(list(p), slot, multiline, True))
    raise Unsupported(f"regex construct {op}")


# ---------------------------------------------------------------- emission

def _items(items):
    out = []
    for it in items:
        if it[0] == "l":
            out.append(f"SLit {it[1]}")
        elif it[0] == "r":
            out.append(f"SRange {it[1]} {it[2]}")
        else:
            out.append(f"SCat {it[1]}")
    return "[" + "; ".join(out) + "]"


def emit(ast) -> str:
    """Coq term of type re (open scope N for numerals is assumed: every
    numeral is written with an explicit %N / %nat)."""
    k = ast[0]
    if k == "eps":
        return "Eps"
    if k == "lit":
        return f"(Lit {ast[1]})"
    if k == "str":
        return "(lits [" + ";".join(str(c) for c in ast[1]) + "])"
    if k == "notlit":
        return f"(NotLit {ast[1]})"
    if k == "any":
        return "Any"
    if k == "set":
        return f"(Set_ {'true' if ast[1] else 'false'} {_items(ast[2])})"
    if k == "bol":
        return "Bol"
    if k == "eol":
        return "Eol"
    if k == "wordb":
        return "WordB"
    if k == "cat":
        return f"(Cat {emit(ast[1])} {emit(ast[2])})"
    if k == "alt":
        return f"(Alt {emit(ast[1])} {emit(ast[2])})"
    if k == "group":
        return f"(Group {ast[1]}%nat {emit(ast[2])})"
    if k == "rep":
        hi = "None" if ast[2] is None else f"(Some {ast[2]}%nat)"
        return f"(Rep {ast[1]}%nat {hi} {emit(ast[3])})"
    if k == "look":
        return f"(Look {emit(ast[1])})"
    raise Unsupported(k)


def size(ast) -> int:
    k = ast[0]
    if k in ("cat", "alt"):
        return 1 + size(ast[1]) + size(ast[2])
    if k == "group":
        return 1 + size(ast[2])
    if k == "rep":
        return 1 + size(ast[3])
    if k == "look":
        return 1 + size(ast[1])
    if k == "str":
        return len(ast[1])
    return 1
