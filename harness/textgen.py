"""Seeded generators of citation-dense legal text (scenario grammar + hostile
fragments).  Every random choice comes from the rng passed in."""
import re

_CACHE = {}


def db():
    """Reporter strings of the live database, by source."""
    if "db" in _CACHE:
        return _CACHE["db"]
    from eyecite.tokenizers import EXTRACTORS
    from eyecite.models import CitationToken

    by_source = {"reporters": set(), "laws": set(), "journals": set()}
    simple = set()
    for e in EXTRACTORS:
        if getattr(e.constructor, "__self__", None) is not CitationToken:
            continue
        eds = list(e.extra.get("exact_editions", [])) + list(e.extra.get("variation_editions", []))
        for s in e.strings:
            for ed in eds:
                by_source[ed.reporter.source].add(s)
    res = {k: sorted(v) for k, v in by_source.items()}
    _CACHE["db"] = res
    return res


COMMON_REPORTERS = ["U.S.", "U. S.", "S. Ct.", "S.Ct.", "F.2d", "F.3d", "F. Supp.", "F. Supp. 2d", "L. Ed. 2d",
                    "Cal. 4th", "N.E.2d", "P.2d", "A.2d", "So. 2d", "N.W.2d", "S.W.3d", "Wall.", "Cranch", "Pet.",
                    "How.", "Dall.", "Wheat.", "Mass.", "Ill. App. 3d", "N.Y.2d", "Cal. App. 4th", "B.R.", "F.R.D.",
                    "Vet. App.", "T.C.", "Wash. 2d", "Pa.", "Ohio St. 3d", "WL", "Minn.", "Tex.", "Thompson", "Cooke",
                    "Chase", "Gilmer", "Bee", "Deady", "Taney", "Holmes", "Olcott"]
NOMINATIVE = ["Thompson", "Cooke", "Holmes", "Olcott", "Chase", "Gilmer", "Bee", "Deady", "Taney"]
NAMES = ["Smith", "Jones", "Roe", "Wade", "Brown", "Board", "Adarand", "Pena", "Nobelman", "Miranda", "Arizona",
         "Shapiro", "Marbury", "Madison", "Lissner", "Foo", "Bar", "Baz", "Quux", "Doe", "Katz", "Obergefell",
         "Hodges", "Mapp", "Gideon", "Wainwright", "Loving", "Kelo", "Heller", "Citizens", "Youngstown", "Sawyer",
         "McCulloch", "Gibbons", "Ogden", "Lochner", "Plessy", "Ferguson", "Korematsu", "Bakke", "Texas", "Johnson"]
COURTS = ["2d Cir.", "9th Cir.", "D. Mass.", "S.D.N.Y.", "Cal.", "Tex. App.", "N.D. Ill.", "Fed. Cir.", "D.C. Cir.",
          "Mass. App. Ct.", "E.D. Pa.", "5th Cir."]
FILLER = ["The court held otherwise.", "We disagree.", "That argument fails for two reasons.", "Compare the dissent.",
          "This is settled law.", "The statute is clear on its face.", "Nothing in the record suggests otherwise",
          "as the district court observed", "In any event", "the parties agree that", "(emphasis added)",
          "It is so ordered.", "we review de novo", "and the judgment is affirmed", "see generally", "But"]
STOPS = ["v.", "in re", "ex parte", "cert. denied", "citing", "aff'd", "affirmed", "remanded", "see", "See",
         "granted", "dismissed", "In re", "Ex parte"]
HOSTILE = [" ", " ", " ", "　", "\t", "\n", "\n\n", "\r\n", "\x00", "\x0b", "\x1c", "\x85", "(", ")", "[", "]",
           "((", "))", "§", "§§", "¶", "“", "”", "’", "—", "–", "é", "ñ", "ſ", "ı", "K", "İ", "ß", "١٢٣", "²",
           "½", "९", "१", "a§b", "§1983", "1" * 40, "_" * 5, "___", "*", "**", ";", ";;", ",", ",,", "..", "at", "at ",
           " at ", "Id.", "id.", "Ibid.", "supra", "supra,", "infra", "eyecite", "v.", "v", "in re", "see", "\\",
           "&", "<i>", "</i>", "<em>", "</em>", "<b>", "</b>", "<", ">", "&amp;", "1:2-3:4", "n.", "nn.", "p.", "pp.",
           "note", "et seq.", "(a)(1)", "West", "Supp.", "Jan.", "(1999)", "(2100)", "(1599)", "[1999]", "1999-00"]


def roman(rng):
    return rng.choice(["i", "ii", "iv", "ix", "xii", "xl", "lv", "cxi", "xcix"])


def number(rng, big=False):
    if big:
        return str(rng.choice([1, 2, 10, 99, 100, 123, 550, 1955, 2106, 99999]))
    return str(rng.choice([1, 2, 3, 5, 12, 47, 100, 127, 304, 515, 550]))


def page(rng):
    r = rng.random()
    if r < 0.8:
        return number(rng, True)
    if r < 0.9:
        return "_" * rng.choice([1, 3, 4])
    return roman(rng)


def exotic_reporters():
    """database reporter strings containing a non-ASCII character (typographic apostrophes: "F. App’x")"""
    if "exotic" not in _CACHE:
        d = db()
        _CACHE["exotic"] = sorted(x for x in d["reporters"] if any(ord(c) > 127 for c in x)) or ["F. App’x"]
    return _CACHE["exotic"]


def reporter(rng, pool=None):
    d = db()
    r = rng.random()
    if pool:
        return rng.choice(pool)
    if r < 0.04:
        return rng.choice(exotic_reporters())
    if r < 0.55:
        return rng.choice(COMMON_REPORTERS)
    if r < 0.9:
        return rng.choice(d["reporters"])
    return rng.choice(d["journals"])


def year(rng):
    return str(rng.choice([1599, 1600, 1601, 1789, 1857, 1923, 1954, 1999, 2005, 2012, 2024, 2026, 2027, 2028, 2100,
                           1993, 1971]))


def pin(rng):
    return rng.choice(["5", "556", "12-13", "123:24-25", "n. 4", "*3", "¶ 12", "pp. 4-5", "240", "at 7", "5, 7",
                       "332", "1"])


def name(rng):
    r = rng.random()
    if r < 0.12:
        return rng.choice(NOMINATIVE)
    if r < 0.2:
        return rng.choice(NAMES) + " " + rng.choice(["Co.", "Inc.", "Corp.", "Bros."])
    if r < 0.25:
        return "United States"
    if r < 0.3:
        return rng.choice(NAMES) + "'s " + rng.choice(NAMES)
    return rng.choice(NAMES)


def full_case(rng, st):
    """-> text of one full case citation (with optional parts)"""
    vol, rep, pg = number(rng), reporter(rng, st.get("pool")), page(rng)
    core = f"{vol} {rep} {pg}"
    st.setdefault("cases", []).append((vol, rep, pg))
    out = ""
    pl = df = None
    r = rng.random()
    if r < 0.6:
        pl, df = name(rng), name(rng)
        sep = rng.choice([" v. ", " v. ", " v. ", "\tv. ", " v. ", " v ", " v. "]) if st.get("hostile") else " v. "
        out += pl + sep + df
        if rng.random() < 0.12:
            out += f" ({year(rng)})"          # California style
        out += rng.choice([", ", ", ", " "])
    elif r < 0.7:
        out += rng.choice(["In re ", "Ex parte "]) + name(rng) + ", "
        df = True
    elif r < 0.8:
        df = name(rng)
        prev = [n for n in st.get("names", []) if n[1] not in (None, True)]
        if prev and rng.random() < 0.5:        # the name of a case cited earlier: also a reference citation
            p_ = rng.choice(prev)
            df = rng.choice([x for x in p_ if x and x is not True]).split(" ")[0]
        out += df + rng.choice([", ", " at 332, ", ", at 12, ", " at 5, "])   # antecedent form
    st.setdefault("names", []).append((pl, df))
    out += core
    if rng.random() < 0.4:
        out += ", " + pin(rng)
    if rng.random() < 0.3:                      # parallel cite
        vol2, rep2, pg2 = number(rng), reporter(rng, st.get("pool")), page(rng)
        out += f", {vol2} {rep2} {pg2}"
        if rng.random() < 0.3:
            out += ", " + pin(rng)
    r = rng.random()
    if r < 0.45:
        out += f" ({year(rng)})"
    elif r < 0.65:
        out += f" ({rng.choice(COURTS)} {year(rng)})"
    elif r < 0.7:
        out += f" [{year(rng)}]"
    if rng.random() < 0.2:
        out += rng.choice([" (overruling prior cases)", " (holding that (a) is void)", " (per curiam) (en banc)",
                           " (unbalanced (paren", " (Scalia, J., dissenting)", " (  holding that x is y)",
                           " ( noting the split )", " (holding that x is y  )", " (   )",
                           " (2000 amendment applies)", " (1972-73 term)", " (1999)", " () see (also)", " ()"])
    return out


def short_case(rng, st):
    cases = st.get("cases") or [(number(rng), reporter(rng), page(rng))]
    vol, rep, pg = rng.choice(cases)
    names = [n for n in st.get("names", []) if n[1] not in (None, True)]
    ante = ""
    if names and rng.random() < 0.6:
        ante = rng.choice(names)[1].split(" ")[0] + ", "
    out = f"{ante}{vol} {rep}{rng.choice([' at ', ', at ', ' at '])}{number(rng, True)}"
    r = rng.random()
    if r < 0.3:
        out += "-" + number(rng, True)
    elif r < 0.4:
        out += " (discussing the point)"
    elif r < 0.55:
        out += " " + rng.choice(["hello", "and", "where", "the"])
    return out


def supra(rng, st):
    names = [n for n in st.get("names", []) if n[1] not in (None, True)]
    nm = rng.choice(names)[1].split(" ")[0] if names and rng.random() < 0.8 else name(rng)
    out = nm + rng.choice([", supra", ", supra,", " supra", ", 123 supra,", ", supra.", ", supra note 5,", ", supra, note 12"])
    if rng.random() < 0.6:
        out += rng.choice([" at ", ", at ", " "]) + pin(rng)
    return out


def idcite(rng, st):
    out = rng.choice(["Id.", "Id.,", "id.", "Ibid.", "Id."])
    r = rng.random()
    if r < 0.6:
        out += " at " + pin(rng)
    elif r < 0.7:
        out += " at " + rng.choice(["*10", "¶ 10", "n.3", "xii", "99999"])
    elif r < 0.8:
        out += " (same)"
    return out


def statute(rng, st):
    d = db()
    r = rng.random()
    if r < 0.5:
        out = rng.choice(["42 U.S.C. § 1983", "18 U.S.C. §§ 4241-4243", "29 C.F.R. § 1910.1200",
                          "Mass. Gen. Laws ch. 93A, § 9", "Fla. Stat. § 120.68", "Tex. Penal Code Ann. § 19.02",
                          "11 U.S.C. § 362(a)(1)", "26 U.S.C. § 501(c)(3) (2012)", "Cal. Penal Code § 187 (West 2020)"])
    elif r < 0.8:
        out = f"{number(rng)} {rng.choice(d['journals'])} {number(rng, True)}"
        if rng.random() < 0.5:
            out += ", " + pin(rng)
        if rng.random() < 0.6:
            out += f" ({year(rng)})"
    else:
        out = rng.choice(["§ 12", "§§ 3-4", "see § 1983", "§"])
    return out


def reference(rng, st):
    names = [n for n in st.get("names", []) if n[1] not in (None, True)]
    if not names:
        return filler(rng, st)
    pl, df = rng.choice(names)
    nm = rng.choice([x for x in (pl, df) if x])
    return f"{nm} at {number(rng, True)}"


LONG_WORDS = ["the", "court", "of", "appeals", "had", "already", "rejected", "this", "very", "argument", "more", "than",
              "a", "decade", "ago", "when", "it", "was", "first", "raised", "by", "another", "party", "and", "nothing",
              "has", "changed", "since", "then", "that", "would", "justify", "different", "result", "here", "today"]


def long_filler(rng, st):
    """>= 300 characters of plain words directly before the next event (the backward scan window is 300 characters)"""
    out = []
    n = 0
    target = rng.choice([296, 300, 303, 310, 340])
    while n < target:
        w = rng.choice(LONG_WORDS)
        out.append(w)
        n += len(w) + 1
    tail = rng.choice(["in", "as in", "under", "following"])
    nm = rng.choice(NAMES)
    core = f"{number(rng)} {rng.choice(['U. S.', 'S.Ct.', 'F.3d', 'Cal. 4th'])} {page(rng)}"
    cite = rng.choice([f"{nm}, {core} ({year(rng)})", f"{nm} at {number(rng, True)}, {core}", None, None])
    if cite is None:
        cite = rng.choice([supra, short_case])(rng, st)
    return " ".join(out) + " " + tail + " " + cite


def filler(rng, st):
    if rng.random() < 0.06:
        return long_filler(rng, st)
    return rng.choice(FILLER)


EVENTS = [(full_case, 30), (short_case, 14), (supra, 9), (idcite, 12), (statute, 9), (reference, 6), (filler, 20)]


def document(rng, n_events=None, hostile=False, pool=None):
    """A citation-dense document."""
    st = {"hostile": hostile, "pool": pool}
    n = n_events if n_events is not None else rng.choice([1, 2, 3, 4, 6, 8])
    parts = []
    total = sum(w for _, w in EVENTS)
    for _ in range(n):
        x = rng.random() * total
        for f, w in EVENTS:
            x -= w
            if x < 0:
                break
        s = f(rng, st)
        if hostile and rng.random() < 0.5:
            # splice a hostile fragment at a random position or boundary
            h = rng.choice(HOSTILE)
            pos = rng.choice([0, len(s), rng.randrange(len(s) + 1)])
            s = s[:pos] + h + s[pos:]
        parts.append(s)
    seps = [". ", "; ", ", ", " ", ".\n", " See ", "; see also ", " (citing ", "). ", ": "]
    if hostile:
        seps += ["", " ", "\t", "“", "” ", "—"]
    out = ""
    for i, p in enumerate(parts):
        out += p
        if i + 1 < len(parts):
            out += rng.choice(seps)
    if rng.random() < 0.5:
        out += rng.choice([".", ".\n", "", " ", ")"])
    return out


def mutate(rng, s):
    """character-level mutation"""
    if not s:
        return s
    k = rng.choice(["del", "dup", "swap", "ins"])
    i = rng.randrange(len(s))
    if k == "del":
        return s[:i] + s[i + 1:]
    if k == "dup":
        return s[:i] + s[i] + s[i:]
    if k == "swap" and i + 1 < len(s):
        return s[:i] + s[i + 1] + s[i] + s[i + 2:]
    return s[:i] + rng.choice(HOSTILE) + s[i:]


def boundary_year_doc(rng):
    """a full case citation whose reporter string has candidate editions, dated at an edition boundary"""
    import datetime
    from eyecite.tokenizers import EDITIONS_LOOKUP

    keys = _CACHE.setdefault("ed_keys", sorted(k for k, v in EDITIONS_LOOKUP.items() if v and v[0].reporter.source == "reporters"))
    multi = _CACHE.setdefault("ed_multi", [k for k in keys if len(set(EDITIONS_LOOKUP[k])) > 1])
    R = rng.choice(multi) if rng.random() < 0.6 else rng.choice(keys)
    now = datetime.datetime.now().year
    years = [1599, 1600, now, now + 1, now + 2]
    for e in EDITIONS_LOOKUP[R]:
        if e.start is not None:
            years += [e.start.year - 1, e.start.year, e.start.year + 1]
        if e.end is not None:
            years += [e.end.year - 1, e.end.year, e.end.year + 1, e.end.year + 7]
    y = rng.choice(years)
    form = rng.random()
    if form < 0.12:
        # an unambiguous case first, then a name-pincite reference to it glued to the (possibly ambiguous) citation:
        # the reference overlaps the later citation's prefix, so the order of filtering and disambiguation shows
        a, b = rng.choice(NAMES), rng.choice(NAMES)
        tail = rng.choice([f" ({y})", ""])
        return (f"{a} v. {b}, {rng.choice([1, 3])} U.S. {rng.choice([1, 45])} (1990). See {rng.choice([a, b])} at 5, "
                f"{rng.choice([1, 3, 12])} {R} {rng.choice([1, 45, 345])}{tail}.")
    if form < 0.7:
        return f"{rng.choice(NAMES)} v. {rng.choice(NAMES)}, {rng.choice([1, 3, 12])} {R} {rng.choice([1, 45, 345])} ({y})."
    if form < 0.85:
        return f"{rng.choice(NAMES)} v. {rng.choice(NAMES)} ({y}) {rng.choice([1, 3])} {R} {rng.choice([1, 45])}."
    return f"See {rng.choice([1, 3, 12])} {R} {rng.choice([1, 45, 345])} ({rng.choice(COURTS)} {y})."
