"""Document stream shared by C02, C17, C18 (and C04): generated documents through
get_citations with the recording oracle; monitors; correspondence with Model/Pipeline.v."""
from harness import core, textgen
from harness import pipe_corr as P

CORPUS = [
    "Foo, 1 U.S. at 5 hello world",                              # D1
    "Shapiro v. Thompson, 394 U. S. 618",                        # D2
    "A v. B, 550 U.S. at 556, 127 S.Ct. 1955",                   # D3
    "1 U.S. 1 (1999). blah blah 2 F.2d 2 (2005)",                # D11a
    "Foo v. Bar (2100) 1 U.S. 1",                                # D11b
    "Foo\tv. Bar, 1 U.S. 1", "Foo v. Bar, 1 U.S. 1", "\tv. Bar, 1 U.S. 1",   # D12
    "Foo v. Bar, 1 U.S. 1, 5 (1999). Id. at 6. Bar at 7.",
    "See Lissner v. Test, 1 U.S. 1 (1982); Roe, supra, at 5.",
    "Nobelman at 332, 113 S.Ct. 2106", "Johnson, 515 U. S. 304, 309",
    "Mass. Gen. Laws ch. 1, § 2 (West 1999) (barring unjust laws)", "1 Minn. L. Rev. 1, 5 (1999)",
    "Smith v. Jones (1999) 1 Cal. 4th 1, 5 (holding x (y) z) (en banc)", "1 U.S. 1 (overruling (a) and b) (1999)",
    "", " ", "§", "Id.", "supra", "1 U.S. 1",
    # D23: short forms whose token does not end with the page (the pin-cite prefix must then be empty)
    "Foo, 19 CO at 12M, 15 (holding x)", "Foo, 19 CO at 12M-14 and", "See Foo, 3 F.3d at 5 (6th Cir.), 7-8.",
    # short forms whose page has inner punctuation (the pin-cite pattern re-matches only its leading digits)
    "Foo, 1 Unemployment Ins. Rep. at 1234.56, 2 U.S. 3 (1801).", "85 FERC at 61,012 86 FERC 61,345",
    "See Bar, supra note 5, at 240.", "Id. note 3, at 7. Foo, 1 U.S. at 5 note 2, at 9.",
]
JOKE = "eyecite"


def run(ctx, monitors, n_docs, n_ra=0.3, n_boundary=0):
    """monitors: list of (name, fn(text, run, run_ra_or_None) -> (shape, message) or None)"""
    rng = ctx.rng
    docs = list(CORPUS) + [JOKE]
    for _ in range(n_docs):
        r = rng.random()
        d = textgen.document(rng, hostile=r < 0.35, pool=["U.S.", "S. Ct.", "F.3d", "Thompson", "Cooke", "Cal. 4th"] if r > 0.8 else None)
        if rng.random() < 0.15:
            d = textgen.mutate(rng, d)
        docs.append(d)
    for _ in range(n_boundary):
        docs.append(textgen.boundary_year_doc(rng))
    cases = []
    rx_cases, rx_seen = [], set()
    import json, os
    try:
        slots = json.load(open(os.path.join(core.COQ, "Gen", "gen_meta.json"))).get("meta_group_names", {})
    except Exception:  # noqa
        slots = {}
    for d in docs:
        run = P.run_document(d, False)
        if run["out"][0] != "ok":
            ctx.count("get_citations raised " + run["out"][1] + " (C04's subject)")
            for name, mon in monitors:
                if name == "C04":
                    ctx.violation(None, f"get_citations raised {run['out'][1]}", dict(stream="find", text=d))
            continue
        cs = run["out"][1]
        nt = len(cs) >= 2
        ctx.case("find", d, nt, dict(text=d, citations=[(type(c).__name__, c.span(), c.full_span()) for c in cs])
                 if nt and len(ctx.samples) < 6 else None)
        ctx.count(f"document with {min(len(cs), 5)}{'+' if len(cs) >= 5 else ''} citations")
        for c in cs:
            ctx.count("citation " + type(c).__name__)
        bad = P.check_contract(run["rec"])
        if bad:
            ctx.divergences.append(("search-contract", "a regex match violates the span contract assumed by the theorems: "
                                    + repr(bad[0])[:300], dict(text=d)))
        if P.defyear_unmet(run["rec"]):
            ctx.count("document on which the premise defyear_ok of the C17 theorem is unmet (monitor only)")
        badt = P.check_tokens(run["words"])
        if badt:
            ctx.divergences.append(("token-contract", "a special token violates the regex facts assumed by the theorems: "
                                    + repr(badt[0])[:300], dict(text=d)))
        run_ra = None
        if rng.random() < n_ra or d in CORPUS:
            run_ra = P.run_document(d, True)
        for name, mon in monitors:
            r = mon(d, run, run_ra)
            if r:
                shape, msg = r
                ctx.violation(shape, f"{name}: {msg}", dict(stream="find", text=d))
        inp, exp = P.case_for(d, run, False)
        cases.append((inp, exp, dict(stream="find", text=d)))
        if slots and len(rx_cases) < 1500:
            for c_ in P.regex_cases(run["rec"], slots):
                if c_[0] not in rx_seen and len(c_[0]) < 4000:
                    rx_seen.add(c_[0])
                    rx_cases.append(c_)
        if run_ra is not None and run_ra["out"][0] == "ok":
            inp, exp = P.case_for(d, run_ra, True)
            cases.append((inp, exp, dict(stream="find", text=d, remove_ambiguous=True)))
    ctx.streams.append("find")
    core.corr_run(ctx, "pipe", P.PRE, "run_pipe", "pipe_eqb", cases, shard=25, ty=P.TY)
    # get_citations as a function of (text, current year) only: extractor table, tokenizer, metadata and
    # reference searches, is_valid_name all computed inside the model (Model/E2EClosed.v)
    from harness import e2e
    e2e.run_closed(ctx, e2e.short_docs(rng, 80 if ctx.tier == "thorough" else 10))
    # the metadata searches recomputed by the engine model on the regenerated pattern ASTs
    ctx.streams.append("regex-oracle")
    ctx.count("regex-oracle: recorded metadata searches recomputed by the engine model", len(rx_cases))
    core.corr_run(ctx, "rxo", P.PRE_RX, "rx_run", "rx_eqb", rx_cases, shard=60, ty=P.RX_TY)
