"""eyecite Token objects <-> Coq terms of Model/Tokenize.v, and direct monitors."""
from harness import coqemit as E

KIND = {
    "CitationToken": "KCitation",
    "SectionToken": "KSection",
    "SupraToken": "KSupra",
    "IdToken": "KId",
    "ParagraphToken": "KParagraph",
    "StopWordToken": "KStopWord",
    "CaseReferenceToken": "KCaseRef",
}


class EdMap:
    """edition value -> small nat id (Edition is a frozen dataclass: equal fields = equal id)"""

    def __init__(self):
        self.ids = {}

    def id(self, ed):
        if ed not in self.ids:
            self.ids[ed] = len(self.ids)
        return self.ids[ed]

    def nominative_ids(self):
        from eyecite.tokenizers import NOMINATIVE_REPORTER_NAMES

        return sorted(i for ed, i in self.ids.items() if ed.reporter.short_name in NOMINATIVE_REPORTER_NAMES)


def groups_term(g):
    return "[" + "; ".join(f"({E.s(k)}, {E.opt(v, E.s)})" for k, v in g.items()) + "]"


def tok_term(t, edmap, sort_editions=False):
    k = KIND[type(t).__name__]
    ex = [edmap.id(e) for e in getattr(t, "exact_editions", ())]
    va = [edmap.id(e) for e in getattr(t, "variation_editions", ())]
    if sort_editions:
        ex, va = sorted(ex), sorted(va)
    return (f"(mk {k} {t.start}%nat {t.end}%nat {E.s(t.data)} {groups_term(t.groups)} "
            f"{E.b(getattr(t, 'short', False))} {E.lst([str(i) for i in ex], 'nat')} {E.lst([str(i) for i in va], 'nat')})")


def elem_term(x, edmap, sort_editions=False):
    if isinstance(x, str):
        return f"(W {E.s(x)})"
    return f"(T {tok_term(x, edmap, sort_editions)})"


def tokout_term(all_tokens, citation_tokens, edmap, sort_editions=False):
    a = "[" + "; ".join(elem_term(x, edmap, sort_editions) for x in all_tokens) + "]"
    c = "[" + "; ".join(f"({i}%nat, {tok_term(t, edmap, sort_editions)})" for i, t in citation_tokens) + "]"
    return f"({a}, {c})"


def tok_json(t):
    return dict(kind=type(t).__name__, start=t.start, end=t.end, data=t.data, groups=dict(t.groups),
                short=getattr(t, "short", None))


def monitor_tokens(text, all_tokens, citation_tokens):
    """C12 on the implementation's output.  -> violated clause or None"""
    if "".join(str(t) for t in all_tokens) != text:
        return "concatenated tokens differ from the text"
    specials = [(i, t) for i, t in enumerate(all_tokens) if not isinstance(t, str)]
    if len(specials) != len(citation_tokens) or any(i != j or a is not b for (i, a), (j, b) in zip(specials, citation_tokens)):
        return "index list does not point at exactly the special tokens"
    prev_end = 0
    for i, t in citation_tokens:
        if not (0 <= t.start <= t.end <= len(text)) or text[t.start:t.end] != str(t):
            return "special token offsets do not index its text"
        if t.start < prev_end:
            return "special tokens overlap or are out of order"
        prev_end = t.end
    pos = 0
    for x in all_tokens:
        if not isinstance(x, str) and x.start != pos:
            return "special token start differs from the length of the preceding tokens"
        pos += len(x)
    return None
