"""C07 -- resolution never guesses between candidates; id. follows only its predecessor."""
import itertools

from harness import core
from harness import coqemit as E
from harness import resolve_corr as R

LEVEL_TEXT = (
    "proof: for EVERY citation list and every position, membership of a short/supra/reference/id citation in a "
    "group is characterised by the candidate set of the earlier full citations: attached only when exactly one "
    "distinct candidate key exists (Props/C07.v: C07_short, C07_supra, C07_reference iff-statements, C07_id). "
    "Tied to resolve.py by exhaustive small-scope + sampled + extracted-list correspondence and an independent "
    "candidate-set monitor."
)
RULE = R.__dict__.get("RULE", "") or (
    "resolve: every sequence up to length 3 (quick) / 4 (thorough) over a 24-symbol alphabet of citation kinds "
    "(exhaustive), sampled longer sequences, and lists extracted from generated documents; the monitor recomputes "
    "the admissible candidate set of every non-full citation from the property text. Non-trivial = some group has "
    ">= 2 members; distinct by the symbol sequence / document."
)
ASSUMPTIONS = [
    "hash_sha256 o json.dumps is injective on the hashed dictionaries",
    "strip_punct(antecedent) is computed by the model (Model/StripPunct.v on the regenerated re.sub chain) inside the kernel for every correspondence case; the model is compared with eyecite.utils.strip_punct in C07's strip-punct stream",
    "re.match(r'(?:at )?(\\d+)', pin) is hand-modelled (pin_number); validated by the correspondence stream",
]


PRE_SP = """From EV Require Import Base.Str Base.Corr Regex.Syntax Model.StripPunct Gen.Unicode Gen.StripPunct.
Open Scope N_scope.
Definition sp (s : str) : str := strip_punct U strip_punct_steps s.
"""

SP_ALPHA = ['"', "'", "`", "(", ")", ".", ",", "?", "-", " ", "a", "\n"]
SP_WIDE = list("\"'`([{<>}]).,;:@#$%&?!- \t\n\x0b\x1c\x85\xa0aB9_") + ["\u2019", "\u3000", "\u00e9", "\u200b"]
SP_CORPUS = ["Foo", "Smith,", "Bar.", "Bar.) ", 'Bar."', "O'Brien", "Roe,'' ", "``Doe''", "U.S.", "et al. ", "(Jones)",
             "x' y", "a...b", "a--b", "Inc.]\n", " .", "a. \n", "a.\n\n", "'tis", "a ''", ". .", "..", "a.)x"]


def strip_punct_stream(ctx):
    """eyecite.utils.strip_punct against the model, on the text alone."""
    from eyecite.utils import strip_punct

    th = ctx.tier == "thorough"
    maxlen = 5 if th else 3
    strings = ["".join(t) for L in range(maxlen + 1) for t in itertools.product(SP_ALPHA, repeat=L)]
    ctx.exhaustive["strip-punct: strings<=%d over %d punctuation/space/letter characters" % (maxlen, len(SP_ALPHA))] = len(strings)
    rng = ctx.rng
    names = ["Foo", "Smith", "O'Brien", "Bar", "Inc.", "Co.", "U.S.", "et al.", "D'Amato", "Fitz-Hugh"]
    for _ in range(6000 if th else 1200):
        if rng.random() < 0.5:
            n = rng.choice([4, 5, 6, 8, 12, 20])
            strings.append("".join(rng.choice(SP_WIDE) for _ in range(n)))
        else:
            parts = []
            for _ in range(rng.randint(1, 3)):
                parts.append(rng.choice(["", '"', "``", "(", "[", " ", "'"]) + rng.choice(names)
                             + rng.choice(["", ",", ".", ".)", '."', "''", "' ", "...", "--", "?", ". ", ".\n", ";"]))
            strings.append(rng.choice(["", " "]).join(parts))
    strings = SP_CORPUS + strings
    cases = []
    for s in strings:
        try:
            out = strip_punct(s)
        except Exception as e:  # noqa
            ctx.divergence("strip-punct", f"strip_punct raised {type(e).__name__}", dict(text=s))
            continue
        nt = out != s
        ctx.case("strip-punct", s, nt, dict(text=s, out=out) if nt and len(s) > 4 and len(ctx.samples) < 12 else None)
        ctx.count("strip_punct changed input" if nt else "strip_punct left input unchanged")
        cases.append((E.s(s), E.s(out), dict(text=s, impl_output=out)))
    ctx.streams.append("strip-punct")
    core.corr_run(ctx, "strip-punct", PRE_SP, "sp", "str_eqb", cases, shard=700)


def run(ctx):
    th = ctx.tier == "thorough"
    strip_punct_stream(ctx)
    R.run_stream(ctx, [("C07", lambda c, g, mk: R.monitor_c07(c, g))],
                 exhaustive_len=3 if not th else 4, n_sampled=1500 if not th else 20000, max_len=9,
                 n_docs=60 if not th else 600)
