"""C07 -- resolution never guesses between candidates; id. follows only its predecessor."""
from harness import resolve_corr as R

LEVEL_TEXT = (
    "proof: for EVERY citation list and every position, membership of a short/supra/reference/id citation in a "
    "group is characterised by the candidate set of the earlier full citations: attached only when exactly one "
    "distinct candidate key exists (Props/C07.v: C07_short, C07_supra, C07_reference iff-statements, C07_id). "
    "Tied to resolve.py by exhaustive small-scope + sampled + extracted-list correspondence and an independent "
    "candidate-set monitor."
)
RULE = R.__dict__.get("RULE", "") or (
    "resolve: every sequence up to length 3 (quick) / 4 (thorough) over a 24-symbol alphabet of citation kinds "
    "(exhaustive), sampled longer sequences, and lists extracted from generated documents; the monitor recomputes "
    "the admissible candidate set of every non-full citation from the property text. Non-trivial = some group has "
    ">= 2 members; distinct by the symbol sequence / document."
)
ASSUMPTIONS = [
    "hash_sha256 o json.dumps is injective on the hashed dictionaries",
    "strip_punct(antecedent) enters the model as a value computed by the implementation (oracle field)",
    "re.match(r'(?:at )?(\\d+)', pin) is hand-modelled (pin_number); validated by the correspondence stream",
]


def run(ctx):
    th = ctx.tier == "thorough"
    R.run_stream(ctx, [("C07", lambda c, g, mk: R.monitor_c07(c, g))],
                 exhaustive_len=3 if not th else 4, n_sampled=1500 if not th else 20000, max_len=9,
                 n_docs=60 if not th else 600)
