"""C08 -- resolution is online: later citations never change earlier groupings."""
from harness import resolve_corr as R

LEVEL_TEXT = (
    "proof: for EVERY citation list l1 ++ l2, resolve l1 = restrict |l1| (resolve (l1 ++ l2)) (same keys, members, "
    "order), and every non-full member is preceded in its group by a full citation with the group's key "
    "(Props/C08.v). Tied to resolve.py by correspondence and by resolving every prefix of every explored list."
)
RULE = (
    "resolve: every sequence up to length 3 (quick) / 4 (thorough) over a 24-symbol alphabet (exhaustive), sampled "
    "longer sequences, extracted lists; for each, every prefix is resolved on fresh copies and compared with the "
    "restriction. Non-trivial = some group has >= 2 members; distinct by the symbol sequence / document."
)
ASSUMPTIONS = [
    "hash_sha256 o json.dumps is injective on the hashed dictionaries",
    "strip_punct(antecedent) is computed by the model (Model/StripPunct.v on the regenerated re.sub chain) inside the kernel for every correspondence case; the model is compared with eyecite.utils.strip_punct in C07's strip-punct stream",
]


def run(ctx):
    th = ctx.tier == "thorough"
    R.run_stream(ctx, [("C08", R.monitor_c08)],
                 exhaustive_len=3 if not th else 4, n_sampled=800 if not th else 8000, max_len=8,
                 n_docs=40 if not th else 400)
