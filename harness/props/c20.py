"""C20 -- cleaning is composable, idempotent and preserves content."""
import itertools
import re

from harness import coqemit as E
from harness import core

LEVEL_TEXT = (
    "proof: composition law, ValueError on unknown names, and for each text cleaner (as the pattern/replacement the "
    "live function passes to re.sub, regenerated every run) idempotence, no-run-left and all-other-characters-kept "
    "for ALL strings; html cleaner proved on an element-tree model. Partial: re.sub == collapse and lxml == tree "
    "model are tied by correspondence only."
)
RULE = (
    "streams: (1) every string of length <=4 (quick) / <=6 (thorough) over {space,tab,NBSP,newline,_,a} x 3 cleaners, "
    "exhaustive; (2) seeded random strings over an alphabet with every Unicode \\s character; (3) step lists over the "
    "cleaner names plus unknown names; (4) generated element trees rendered to HTML. A case is non-trivial when the "
    "cleaner changes its input (or the step list has >=2 steps / the tree has a hidden or blank node); distinct by (stream, input)."
)
ASSUMPTIONS = [
    "re.sub(CLASS{k,}, repl, s) equals the run-collapsing function `collapse` (correspondence stream, not a theorem)",
    "lxml.html + the XPath query equal `html_clean` on the generated tree grammar (correspondence stream)",
    "Python's \\s table is the one swept from the running interpreter into Gen/Unicode.v",
]

PRE = """From EV Require Import Base.Str Base.Corr Regex.Syntax Model.Clean Model.CleanRe Gen.Unicode Gen.Cleaners.
Open Scope N_scope.
Definition getf (o : option (str -> str)) : str -> str := match o with Some f => f | None => fun _ => [0;0;0] end.
Definition cl_inline := getf (cleaner_of U pat_inline_whitespace repl_inline_whitespace).
Definition cl_all := getf (cleaner_of U pat_all_whitespace repl_all_whitespace).
Definition cl_us := getf (cleaner_of U pat_underscores repl_underscores).
Definition cl (i : nat) : str -> str := match i with 0%nat => cl_inline | 1%nat => cl_all | _ => cl_us end.
Definition lookup (n : str) : option (str -> str) :=
  if str_eqb n NAME_INLINE then Some cl_inline else
  if str_eqb n NAME_ALL then Some cl_all else
  if str_eqb n NAME_US then Some cl_us else None.
Definition cres_eqb (a b : cres str) : bool :=
  match a, b with COk x, COk y => str_eqb x y | CValueError, CValueError => true | _, _ => false end.
Definition is_xml_ws (c : N) : bool := N.eqb c 32 || N.eqb c 9 || N.eqb c 10 || N.eqb c 13.
Definition hidden (t : str) : bool := existsb (str_eqb t) [TAG_STYLE; TAG_LINK; TAG_HEAD; TAG_SCRIPT].
Definition is_head (t : str) : bool := str_eqb t TAG_HEAD.
""".replace("NAME_INLINE", E.s("inline_whitespace")).replace("NAME_ALL", E.s("all_whitespace")).replace(
    "NAME_US", E.s("underscores")).replace("TAG_STYLE", E.s("style")).replace("TAG_LINK", E.s("link")).replace(
    "TAG_HEAD", E.s("head")).replace("TAG_SCRIPT", E.s("script"))

NAMES = ["inline_whitespace", "all_whitespace", "underscores"]
WS_RE = re.compile(r"\s")


def spec_class(i):
    """The class each cleaner is *meant* to remove (independent of the code)."""
    if i == 0:
        return lambda c: c in " \t"
    if i == 1:
        return lambda c: bool(WS_RE.fullmatch(c))
    return lambda c: c == "_"


def monitor_clean(i, s, out, f):
    """Direct property monitor on the implementation.  -> violated clause or None"""
    P = spec_class(i)
    if f(out) != out:
        return "not idempotent"
    if [c for c in out if not P(c)] != [c for c in s if not P(c)]:
        return "other characters changed"
    k = 1 if i < 2 else 2
    # no run of length >= k is left, except the single replacement space
    runs = re.findall(r"(?:%s)+" % "|".join(re.escape(c) for c in set(out) if P(c)) if any(P(c) for c in out) else r"(?!)", out)
    for r in runs:
        if i < 2:
            if r != " ":
                return f"run {r!r} left"
        elif len(r) >= k:
            return f"run {r!r} left"
    return None


# ---------------- html trees

INLINE = ["i", "em", "b", "span", "u"]
HIDDEN = ["script", "style"]


def gen_tree(rng, depth=0, block_ok=True):
    """-> (tag, text, [(child, tail)])"""
    tags = INLINE + (["p", "div"] if block_ok and depth < 2 else []) + HIDDEN
    tag = rng.choice(tags) if depth else "div"
    text = gen_text(rng, tag in HIDDEN)
    kids = []
    if tag not in HIDDEN and depth < 3:
        for _ in range(rng.choice([0, 0, 1, 1, 2, 3])):
            child = gen_tree(rng, depth + 1, block_ok and tag == "div")
            kids.append((child, gen_text(rng, False)))
    return (tag, text, kids)


def gen_text(rng, raw):
    n = rng.choice([0, 0, 1, 1, 2, 3, 5])
    alpha = ["x", "y", "Z", "1", " ", " ", "\n", "\t", " ", ".", ",", "é"]
    if not raw:
        alpha += ["&", "<", ">"]
    return "".join(rng.choice(alpha) for _ in range(n))


def esc(t):
    return t.replace("&", "&amp;").replace("<", "&lt;").replace(">", "&gt;")


def render(node):
    tag, text, kids = node
    inner = (text if tag in HIDDEN else esc(text)) + "".join(render(c) + esc(t) for c, t in kids)
    return f"<{tag}>{inner}</{tag}>"


def tree_term(node):
    tag, text, kids = node
    ks = "; ".join(f"({tree_term(c)}, {E.s(t)})" for c, t in kids)
    return f"(Elem {E.s(tag)} {E.s(text)} [{ks}])"


def tree_visible(node, in_head=False):
    """expected visible text nodes, from the generator's own knowledge: nothing inside script/style/head
    (at any depth for head: a page's <title> is not visible text)"""
    tag, text, kids = node
    out = []
    in_head = in_head or tag == "head"

    def own(s):
        if not in_head and tag not in ("style", "link", "script") and s.strip(" \t\n\r") != "":
            out.append(s)

    own(text)
    for c, t in kids:
        out.extend(tree_visible(c, in_head))
        own(t)
    return out


def gen_page(rng):
    """a whole document: <html><head> title / style / script / meta </head><body> tree </body></html>"""
    head_kids = []
    for _ in range(rng.choice([0, 1, 2, 3])):
        k = rng.choice(["title", "title", "style", "script", "meta"])
        if k == "meta":
            continue            # void element, rendered separately below
        txt = gen_text(rng, k != "title") or rng.choice(["T", "My Title 1 U.S. 1"])
        if k == "title":
            txt = txt.replace("<", "").replace(">", "").replace("&", "")
        head_kids.append(((k, txt, []), rng.choice(["", "\n", " "])))
    body = ("body", "", [(gen_tree(rng), "")])
    return ("html", "", [(("head", "", head_kids), ""), (body, "")])


def tree_nontrivial(node):
    tag, text, kids = node
    return tag in HIDDEN or tag == "head" or (text != "" and text.strip(" \t\n\r") == "") or any(tree_nontrivial(c) for c, _ in kids)


def run(ctx):
    import eyecite.clean as clean
    from eyecite import clean_text

    rng = ctx.rng
    thorough = ctx.tier == "thorough"
    fs = [clean.cleaners_lookup.get(n) for n in NAMES]
    if any(f is None for f in fs):
        ctx.violation(None, "cleaners_lookup lacks a documented cleaner name", dict(names=NAMES))
        return

    # ---- stream 1+2: strings x cleaners
    alpha = [" ", "\t", " ", "\n", "_", "a"]
    maxlen = 6 if thorough else 4
    strings = ["".join(t) for L in range(maxlen + 1) for t in itertools.product(alpha, repeat=L)]
    ctx.exhaustive["strings<=%d over {space,tab,NBSP,newline,_,a} x 3 cleaners" % maxlen] = len(strings) * 3
    ws_chars = [chr(c) for c in range(0x3100) if WS_RE.fullmatch(chr(c))]
    wide = ws_chars + list("ab_ _\t") + ["​", "﻿", "\u0085", "é", "§"]
    for _ in range(3000 if thorough else 600):
        n = rng.choice([1, 2, 3, 5, 8, 13, 30])
        strings.append("".join(rng.choice(wide) for _ in range(n)))
    corpus = ["a \t b__c\n", "___", "_", "a_b__c___d", " \t \n", "  ", "\x1c\x1d", "a  b", "\r\n\r\n"]
    strings = corpus + strings
    cases = []
    for s in strings:
        for i, f in enumerate(fs):
            try:
                out = f(s)
            except Exception as e:  # noqa
                ctx.violation(None, f"cleaner {NAMES[i]} raised {type(e).__name__}", dict(cleaner=NAMES[i], text=s))
                continue
            nt = out != s
            ctx.case("strings", (i, s), nt, dict(cleaner=NAMES[i], text=s, out=out) if nt and len(s) > 3 else None)
            ctx.count("cleaner changed input" if nt else "cleaner left input unchanged")
            bad = monitor_clean(i, s, out, f)
            if bad:
                ctx.violation(None, f"{NAMES[i]}: {bad}", dict(cleaner=NAMES[i], text=s, output=out))
            cases.append((f"({i}%nat, {E.s(s)})", E.s(out), dict(cleaner=NAMES[i], text=s, impl_output=out)))
    ctx.streams.append("strings")
    core.corr_run(ctx, "strings", PRE, "fun p => cl (fst p) (snd p)", "str_eqb", cases, shard=1500)

    # ---- stream 3: step lists
    names = NAMES + ["nope", "", "HTML", "all_whitespace "]
    cases = []
    # every list of up to 3 cleaner names (repeats included) x every string up to length 4 over {space, tab, _, a}
    small = ["".join(t) for L in range(5) for t in itertools.product(" \t_a", repeat=L)]
    combos = [(list(st), x) for L in range(4) for st in itertools.product(NAMES, repeat=L) for x in (small if L >= 2 else small[:40])]
    if not thorough:
        combos = [c for c in combos if len(c[0]) < 3] + rng.sample([c for c in combos if len(c[0]) == 3], 2500)
    ctx.exhaustive["steps: lists of <=%d cleaner names x strings <=4 over {space,tab,_,a}" % (3 if thorough else 2)] = len(combos)
    for _ in range(400 if thorough else 120):
        combos.append(([rng.choice(names) for _ in range(rng.choice([0, 1, 2, 2, 3, 4]))],
                       "".join(rng.choice(wide) for _ in range(rng.choice([0, 3, 8])))))
    combos.append((["inline_whitespace", "underscores", "inline_whitespace"], "a __ b"))
    for steps, s in combos:
        try:
            out = clean_text(s, steps)
            exp = f"(COk {E.s(out)})"
            res = out
        except ValueError:
            exp = "CValueError"
            res = "ValueError"
        except Exception as e:  # noqa
            ctx.violation(None, f"clean_text raised {type(e).__name__}", dict(text=s, steps=steps))
            continue
        # monitor: sequential application / ValueError iff first unknown name reached
        want = s
        for st in steps:
            if st not in clean.cleaners_lookup:
                want = "ValueError"
                break
            want = clean.cleaners_lookup[st](want)
        if want != res:
            ctx.violation(None, "clean_text differs from sequential application", dict(text=s, steps=steps, got=res, want=want))
        ctx.case("steps", (tuple(steps), s), len(steps) >= 2, dict(steps=steps, text=s, result=res) if len(steps) >= 2 else None)
        ctx.count("clean_text -> ValueError" if res == "ValueError" else "clean_text -> str")
        st_term = "[" + "; ".join(f"SName {E.s(n)}" for n in steps) + "]"
        cases.append((f"({E.s(s)}, {st_term})", exp, dict(text=s, steps=steps, impl=res)))
    ctx.streams.append("steps")
    core.corr_run(ctx, "steps", PRE, "fun p => clean_text lookup (fst p) (snd p)", "cres_eqb", cases)

    # ---- stream 4: element trees for the html cleaner
    cases = []
    for k_ in range(1500 if thorough else 300):
        # every fourth case is a whole page with a <head> (title, style, script) in front of the body
        tree = gen_page(rng) if k_ % 4 == 3 else gen_tree(rng)
        src = render(tree)
        try:
            out = clean.html(src)
        except Exception as e:  # noqa
            ctx.violation(None, f"html cleaner raised {type(e).__name__}", dict(source=src))
            continue
        want = " ".join(tree_visible(tree))
        nt = tree_nontrivial(tree)
        ctx.case("html", src, nt, dict(source=src, out=out) if nt and len(ctx.samples) < 10 else None)
        ctx.count("html tree with hidden/blank node" if nt else "html tree plain")
        if out != want:
            ctx.violation(None, "html cleaner output is not the visible text nodes joined by spaces",
                          dict(source=src, got=out, want=want))
        cases.append((tree_term(tree), E.s(out), dict(source=src, impl_output=out)))
    ctx.streams.append("html")
    core.corr_run(ctx, "html", PRE, "html_clean is_xml_ws hidden is_head", "str_eqb", cases)
