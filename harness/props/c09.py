"""C09 -- annotation is purely additive."""
import itertools

from harness import annot_corr as AC
from harness import core

LEVEL_TEXT = (
    "proof: for EVERY plain text, annotation list (unsorted/overlapping/touching/empty spans in range), mode, balance "
    "oracle, tolerance and -- with a source text -- EVERY diff script that accounts for both texts, the model of "
    "annotate_citations returns pieces whose Orig parts concatenate to the target text (Props/C09.v). Tied to "
    "annotate.py by small-scope exhaustive + generated correspondence (both diff engines, three modes) and a "
    "sentinel-stripping monitor on the real output."
)
RULE = (
    "annotate: every single span and every ordered pair of spans over the plain text 'abcd' x sources obtained by "
    "inserting <=1 (quick) / <=2 (thorough) of {<i>,</i>,' ',<b>} or by deleting/replacing one character x 3 modes "
    "(dmp; difflib sampled), plus generated plain/source pairs with random and overlapping span sets. Non-trivial = "
    "a source text differing from the plain text is given or two spans overlap; distinct by the whole configuration."
)
ASSUMPTIONS = [
    "diff contract diff_wf (amounts account for both texts, '=' segments equal): checked on every script the engines return",
    "is_balanced_html (lxml) enters the model as the table of results recorded during the run; the theorem holds for every oracle",
    "before/after strings contain no backslash (wrap_html_tags builds a re.sub template from them)",
    "bisect on the sorted offsets = number of leading offsets <= x / < x",
]


def configs(ctx):
    th = ctx.tier == "thorough"
    rng = ctx.rng
    plain = "abcd"
    inserts = ["<i>", "</i>", " ", "<b>"]
    srcs = [s for s, _ in AC.forced_sources(plain, inserts, 2 if th else 1)]
    if not th:
        srcs += [s for s, _ in rng.sample(AC.forced_sources(plain, inserts, 2), 25)]
    # deletions / replacements / equal
    srcs += [plain[:i] + plain[i + 1:] for i in range(4)] + [plain[:i] + "X" + plain[i + 1:] for i in range(4)]
    srcs += [plain, "", "<i>ab</i>cd", "a<i>b</i>c<i>d</i>", "<i>a<b>bc</i>d</b>"]
    spans = AC.all_spans(4)
    span_sets = [[s] for s in spans] + [[a, b] for a in spans for b in spans]
    ctx.exhaustive["annotate: sources(%d) x span sets(%d) x 3 modes over 'abcd' (dmp)" % (len(srcs), len(span_sets))] = \
        len(srcs) * len(span_sets) * 3
    out = []
    # corpus first: witnesses of repaired defects
    out.append(dict(plain="ab", spans=[(1, 1)], source="a<i>b", mode="unchecked", dmp=True))       # D13
    out.append(dict(plain="ab", spans=[(0, 0)], source="a<i>b", mode="unchecked", dmp=True))       # D15
    out.append(dict(plain="Id. at 3; id. at 5", spans=[(0, 8), (10, 13)], source="<i>Id. at 3; id.</i> at 5", mode="skip", dmp=True))  # D6
    out.append(dict(plain="abcd xyz", spans=[(0, 0), (5, 6)], source="abcd", mode="unchecked", dmp=True))
    # the empty annotation list is an annotation set too: the output must still be the TARGET text
    for src in srcs + ["<p>foo  <i>1 U.S.</i> 1 bar</p>", None]:
        for mode in ("unchecked", "skip", "wrap"):
            out.append(dict(plain=plain, spans=[], source=src, mode=mode, dmp=True))
            out.append(dict(plain=plain, spans=[], source=src, mode=mode, dmp=False))
    for src in srcs:
        for ss in span_sets:
            for mode in ("unchecked", "skip", "wrap"):
                if not th and len(ss) == 2 and rng.random() < 0.75:
                    continue
                out.append(dict(plain=plain, spans=ss, source=src, mode=mode, dmp=True, ba=rng.random() < 0.25))
    for _ in range(6000 if th else 700):
        p, s = AC.gen_pair(rng)
        k = rng.choice([0, 1, 2, 3, 5])
        out.append(dict(plain=p, spans=AC.gen_spans(rng, len(p), k), source=rng.choice([s, s, s, None, p]),
                        mode=rng.choice(["unchecked", "skip", "wrap"]), dmp=rng.random() < 0.6, ba=rng.random() < 0.4))
    return out


def run(ctx):
    cfgs = configs(ctx)
    mon = [("C09", lambda cf, annots, out: AC.monitor_additive(cf["plain"], cf["source"], out))]
    cases = AC.run_cases(ctx, cfgs, mon)
    ctx.streams.append("annotate")
    core.corr_run(ctx, "annotate", AC.PRE, "run_annot", "rstr_eqb", cases, shard=800,
                  ty="(list (str * bool) * str * list annot * option str * steps * mode) * result str")
