"""C06 -- resolution output is a faithful, ordered partition."""
from harness import resolve_corr as R

LEVEL_TEXT = (
    "proof: for EVERY citation list (object identity = position) on which resolution returns, the groups are "
    "pairwise-disjoint sub-sequences of the input, each starts with a full citation whose hash key is the group key, "
    "every full citation is grouped, two fulls share a group iff their keys are equal, keys are distinct, no unknown "
    "citation appears (Props/C06.v, one invariant over the fold). Tied to resolve.py by exhaustive small-scope + "
    "sampled + extracted-list correspondence; sha256/JSON hashing is represented by its key (assumed injective)."
)
RULE = (
    "resolve: every sequence up to length 3 (quick) / 4 (thorough) over a 24-symbol alphabet of citation kinds "
    "(exhaustive), sampled longer sequences, and lists extracted from generated documents. Non-trivial = resolution "
    "returns and some group has >= 2 members; distinct by the symbol sequence / document."
)
ASSUMPTIONS = [
    "hash_sha256 o json.dumps is injective on the hashed dictionaries (equality of Resources = equality of keys)",
    "strip_punct(antecedent) is computed by the model (Model/StripPunct.v on the regenerated re.sub chain) inside the kernel for every correspondence case; the model is compared with eyecite.utils.strip_punct in C07's strip-punct stream",
]


def run(ctx):
    th = ctx.tier == "thorough"
    R.run_stream(ctx, [("C06", lambda c, g, mk: R.monitor_c06(c, g))],
                 exhaustive_len=3 if not th else 4, n_sampled=1500 if not th else 20000, max_len=9,
                 n_docs=60 if not th else 600)
