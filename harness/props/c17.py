"""C17 -- extracted metadata is text taken from the citation's own extent."""
from harness import pipe_corr as P
from harness import pipe_stream

LEVEL_TEXT = (
    "proof: for EVERY text, token stream (C12) and regex behaviour respecting the match-object contract, every textual "
    "metadata value of every citation returned by the model of get_citations is an infix of the text inside the "
    "citation's full span, or -- for parallel full case citations sharing a defined start -- inside the span of a "
    "returned citation starting at the same place (Proofs/PipeMeta.v). Tied to the code by field-by-field "
    "correspondence with recorded regex calls; the easter-egg result for 'eyecite' is a known finding. The closing "
    "clause of the property (never from a different, unrelated citation) is NOT a theorem: on documents whose sentences "
    "hold one citation each, with ground truth from the generator, the implementation violates it in two ways that are "
    "listed as known findings (the `extra` group running into the next citation; the case-name scan crossing the "
    "previous citation)."
)
RULE = (
    "find: corpus of defect witnesses + seeded citation-dense documents (consecutive citations with and without case "
    "names, parallel cites, California-style leading years, nested parentheticals, hostile fragments). Non-trivial = "
    "at least two citations returned; distinct by the document text. neighbours: 2-3 sentences, one citation of a different "
    "case each (own names / own year present or absent), every extracted year and party compared with what was written "
    "for that citation."
)
ASSUMPTIONS = [
    "regex searches respect the span contract search_ok (checked on every recorded call)",
    "token stream satisfies C12",
    "the court id lookup (courts-db) is outside the model; the court field is not a text field of C17",
]
KNOWN_JOKE = "joke-cite"


def mon(text, run, run_ra):
    bad = P.monitor_metadata(text, run["out"][1])
    if bad:
        return (KNOWN_JOKE if text == "eyecite" else None, bad)
    return None


def run(ctx):
    th = ctx.tier == "thorough"
    pipe_stream.run(ctx, [("C17", mon)], 1500 if th else 170)
    run_neighbours(ctx, 1500 if th else 200)


# ---- second sentence of C17: "never takes its year, parties or other metadata from text that belongs to a
# different, unrelated citation" -- documents with ground truth: every sentence holds one citation of a different
# case with its own names and year
SHAPE_EXTRA = "extra-runs-into-next-citation"
SHAPE_NAME = "case-name-scan-crosses-previous-citation"


def neighbour_docs(rng, n):
    from harness import textgen

    out = []
    reps = ["U.S.", "F.2d", "F.3d", "S. Ct.", "Cal. 4th", "N.E.2d"]
    years = ["1954", "1971", "1993", "1999", "2005", "2012"]
    fill = ["That case is old.", "We disagree.", "The point is settled.", ""]
    for _ in range(n):
        k = rng.choice([2, 2, 3])
        ys = rng.sample(years, k)
        names = rng.sample(textgen.NAMES, 2 * k)
        sents = []
        for i in range(k):
            named = rng.random() < 0.6
            dated = rng.random() < 0.7
            cite = f"{rng.choice([1, 3, 12])} {rng.choice(reps)} {rng.choice([1, 45, 345])}"
            lead = rng.choice(["", "See ", "We rely on ", "Compare "])
            txt = lead + (f"{names[2 * i]} v. {names[2 * i + 1]}, " if named else "") + cite + (f" ({ys[i]})" if dated else "") + "."
            sents.append(dict(text=txt, cite=cite, names=(names[2 * i], names[2 * i + 1]) if named else None,
                              year=ys[i] if dated else None))
            if rng.random() < 0.5:
                f_ = rng.choice(fill)
                if f_:
                    sents.append(dict(text=f_, cite=None, names=None, year=None))
        pos = 0
        for s_ in sents:
            s_["start"] = pos
            pos += len(s_["text"]) + 1
            s_["end"] = pos - 1
        out.append((" ".join(s_["text"] for s_ in sents), sents))
    return out


def run_neighbours(ctx, n):
    from eyecite import get_citations
    from eyecite.models import FullCaseCitation

    for doc, sents in neighbour_docs(ctx.rng, n):
        try:
            cs = [c for c in get_citations(doc) if isinstance(c, FullCaseCitation)]
        except Exception:  # noqa
            continue
        cited = [s_ for s_ in sents if s_["cite"]]
        ctx.case("neighbours", doc, len(cs) >= 2, dict(text=doc) if len(ctx.samples) < 12 and len(cs) >= 2 else None)
        ctx.count("document of unrelated one-citation sentences")
        for c in cs:
            own = [s_ for s_ in cited if s_["start"] <= c.span()[0] and c.span()[1] <= s_["end"]]
            if len(own) != 1:
                continue
            own = own[0]
            others = [s_ for s_ in cited if s_ is not own]
            md = c.metadata
            bad = None
            shape = None
            # the mechanism of the second known finding, read off the results: an EARLIER extracted citation that lies in
            # another sentence shares this citation's (defined) full-span start, i.e. the backward scan for the case
            # name (to 'v.' or a stop word such as 'See') crossed it and is_parallel_citation copied its metadata
            inherited = c.full_span_start is not None and any(
                d is not c and d.span()[0] < c.span()[0] and d.full_span_start == c.full_span_start
                and not (own["start"] <= d.span()[0] < own["end"]) for d in cs)
            prev = {"year": None}
            for d in cs:
                if d is not c and d.span()[0] < c.span()[0] and d.full_span_start == c.full_span_start:
                    prev = {"year": d.metadata.year}
            if md.year and md.year != own["year"] and any(md.year == o["year"] for o in others):
                bad = f"year {md.year!r} of {c.matched_text()!r} is the year written for a different citation"
                donors = [o for o in others if o["year"] == md.year]
                if own["year"] is None and any(o["start"] > own["start"] and o["cite"] in (md.extra or "") for o in donors):
                    shape = SHAPE_EXTRA
                elif inherited and prev["year"] == md.year:
                    shape = SHAPE_NAME
                elif inherited and any(o["start"] > own["start"] and o["cite"] in (md.extra or "") for o in donors):
                    shape = SHAPE_EXTRA      # both at once: names from the previous, year from the next
            for fld in ("plaintiff", "defendant"):
                v = getattr(md, fld, None)
                if v and not (own["names"] and v in own["text"]) and any(o["names"] and v in o["names"] for o in others):
                    bad = bad or f"{fld} {v!r} of {c.matched_text()!r} is a party of a different citation"
                    if shape is None and inherited:
                        shape = SHAPE_NAME
            if bad:
                ctx.violation(shape, "C17: " + bad, dict(stream="neighbours", text=doc))
                break
    ctx.streams.append("neighbours")
