"""C17 -- extracted metadata is text taken from the citation's own extent."""
from harness import pipe_corr as P
from harness import pipe_stream

LEVEL_TEXT = (
    "proof: for EVERY text, token stream (C12) and regex behaviour respecting the match-object contract, every textual "
    "metadata value of every citation returned by the model of get_citations is an infix of the text inside the "
    "citation's full span, or -- for parallel full case citations sharing a defined start -- inside the span of a "
    "returned citation starting at the same place (Proofs/PipeMeta.v). Tied to the code by field-by-field "
    "correspondence with recorded regex calls; the easter-egg result for 'eyecite' is a known finding."
)
RULE = (
    "find: corpus of defect witnesses + seeded citation-dense documents (consecutive citations with and without case "
    "names, parallel cites, California-style leading years, nested parentheticals, hostile fragments). Non-trivial = "
    "at least two citations returned; distinct by the document text."
)
ASSUMPTIONS = [
    "regex searches respect the span contract search_ok (checked on every recorded call)",
    "token stream satisfies C12",
    "the court id lookup (courts-db) is outside the model; the court field is not a text field of C17",
]
KNOWN_JOKE = "joke-cite"


def mon(text, run, run_ra):
    bad = P.monitor_metadata(text, run["out"][1])
    if bad:
        return (KNOWN_JOKE if text == "eyecite" else None, bad)
    return None


def run(ctx):
    th = ctx.tier == "thorough"
    pipe_stream.run(ctx, [("C17", mon)], 1500 if th else 170)
