"""C14 -- the Hyperscan tokenizer is a drop-in replacement for the default one."""
import os
import shutil
import tempfile

from harness import coqemit as E
from harness import core, textgen

LEVEL_TEXT = (
    "proof (partial): the byte-offset -> str-offset table built by incremental UTF-8 decoding maps b to i exactly when "
    "b is a requested offset and the byte position of character boundary i (offsets inside a multi-byte character are "
    "skipped); a hit is kept iff both ends are boundaries; every reported token comes from a hit and a successful "
    "re-match and indexes its own text, WHATEVER Hyperscan reports; the cache logic always yields a database that is "
    "the freshly compiled one or one the loader accepted (Props/C14.v). NOT a theorem: that Hyperscan's scan reports "
    "every candidate of re.finditer, and that a damaged cache never loads as a different valid database -- both are "
    "statements about a C++ engine and are covered by the differential and fault-enumeration streams only."
)
RULE = (
    "hs-offsets: every single byte hit (bs <= be) over a text mixing 1/2/3/4-byte characters x 2 extractors, plus "
    "random multi-hit lists, replayed through HyperscanTokenizer.extract_tokens with a stub database; engine: "
    "generated legal text with multi-byte characters before/after/between/inside citations, candidates compared with "
    "Tokenizer.extract_tokens; cache: truncation length classes, bit/byte corruptions of header and body, appended "
    "bytes, garbage, empty file applied to a freshly written cache (small extractor list), construction + tokens "
    "compared with the no-cache run. Non-trivial = hit offsets include a non-boundary / text has a multi-byte "
    "character / the fault changes the file; distinct by the configuration."
)
ASSUMPTIONS = [
    "bytes.decode('utf8') on a slice of a valid encoding starting at a character boundary succeeds exactly when the "
    "slice ends at a boundary (modelled by decode_len; validated by the hs-offsets stream)",
    "Hyperscan reports hits with byte offsets inside the text",
    "engine agreement and cache-deserialiser integrity are NOT proved (C++ engine): differential / fault enumeration only",
]
KNOWN = "hs-multibyte-neighbour"
KNOWN_SEP = "hs-ascii-separator"      # U+001C..U+001F: \\s for Python, not for Hyperscan

PRE = """From EV Require Import Base.Str Base.Corr Model.Hyperscan.
Open Scope N_scope.
Definition rm_of (tbl : list (nat * nat * option (nat * nat))) (i : nat) (_ : str) (s : nat) : option (nat * nat) :=
  match find (fun r => Nat.eqb (fst (fst r)) i && Nat.eqb (snd (fst r)) s) tbl with
  | Some r => snd r | None => None end.
Definition run_hs (c : list (nat * nat * option (nat * nat)) * str * list hit) : list (nat * nat * nat * str) :=
  match c with (tbl, text, hits) =>
    map (fun t => (h_idx t, h_start t, h_end t, h_data t)) (extract (rm_of tbl) text hits) end.
Definition hs_eqb := list_eqb (pair_eqb (pair_eqb (pair_eqb Nat.eqb Nat.eqb) Nat.eqb) str_eqb).
"""
TY = ("list (nat * nat * option (nat * nat)) * str * list hit", "list (nat * nat * nat * str)")


class StubDB:
    def __init__(self, hits):
        self.hits = hits

    def scan(self, data, match_event_handler=None, **kw):
        for idx, bs, be in self.hits:
            match_event_handler(idx, bs, be, 0, None)


def hs_offsets(ctx):
    from eyecite.models import IdToken, TokenExtractor
    from eyecite.tokenizers import HyperscanTokenizer

    rng = ctx.rng
    th = ctx.tier == "thorough"
    exts = [TokenExtractor(r"(a*é?)", IdToken.from_match), TokenExtractor(r"[^a-z]?(b|€+)", IdToken.from_match)]
    texts = ["aé€\U0001d518b", "ééa", "€€", "b\U0001f600a", "", "abc", "¿ÿa\ufffd", "\ufeffa¿b"]
    cases = []
    for text in texts:
        nb = len(text.encode("utf8"))
        pairs = [(bs, be) for bs in range(nb + 1) for be in range(bs, nb + 1)]
        hitlists = [[(i, bs, be)] for (bs, be) in pairs for i in (0, 1)]
        ctx.exhaustive[f"hs-offsets: all single byte hits over {text!r} x 2 extractors"] = len(hitlists)
        for _ in range(400 if th else 60):
            k = rng.choice([2, 3, 5])
            hitlists.append([(rng.randrange(2),) + rng.choice(pairs) for _ in range(k)])
        bounds = set()
        pos = 0
        for ch in text:
            bounds.add(pos)
            pos += len(ch.encode("utf8"))
        bounds.add(pos)
        for hits in hitlists:
            tk = HyperscanTokenizer(extractors=exts)
            tk._db = StubDB(hits)
            try:
                toks = list(tk.extract_tokens(text))
            except Exception as e:  # noqa
                ctx.violation(None, f"HyperscanTokenizer.extract_tokens raised {type(e).__name__} on replayed hits",
                              dict(stream="hs-offsets", text=text, hits=hits))
                continue
            nt = any(o not in bounds for _, bs, be in hits for o in (bs, be))
            ctx.case("hs-offsets", (text, tuple(hits)), nt, dict(text=text, hits=hits, tokens=[(t.start, t.end, t.data) for t in toks])
                     if nt and len(hits) > 1 and len(ctx.samples) < 4 else None)
            ctx.count("hit list with a non-boundary offset" if nt else "hit list on boundaries only")
            # monitor: reported tokens index their own text
            for t in toks:
                if not (0 <= t.start <= t.end <= len(text)) or text[t.start:t.end] != t.data:
                    ctx.violation(None, "a reported token does not index its own text", dict(stream="hs-offsets", text=text, hits=hits))
            # model inputs: in-place re-match table for every (idx, start) the model may ask
            tbl = {}
            for i, e in enumerate(exts):
                for s in range(len(text) + 1):
                    m = e.compiled_regex.match(text, s)
                    tbl[(i, s)] = None if m is None else m.span(1)
            tt = "[" + "; ".join(f"({i}%nat, {s_}%nat, " + ("None" if v is None else f"Some ({v[0]}%nat, {v[1]}%nat)") + ")"
                                 for (i, s_), v in tbl.items()) + "]"
            ht = "[" + "; ".join(f"({i}%nat, ({bs}%nat, {be}%nat))" for i, bs, be in hits) + "]"
            # extractor index of each yielded token: tokens are yielded in hit order
            b2c = {}
            pos_ = 0
            for ci, ch in enumerate(text):
                b2c[pos_] = ci
                pos_ += len(ch.encode("utf8"))
            b2c[pos_] = len(text)
            idxs = []
            for i, bs, be in hits:
                if bs in b2c and be in b2c and exts[i].compiled_regex.match(text, b2c[bs]):
                    idxs.append(i)
            if len(idxs) != len(toks):
                ctx.violation(None, "a hit is kept although an end is inside a character, or dropped although both ends are boundaries",
                              dict(stream="hs-offsets", text=text, hits=hits, tokens=[(t.start, t.end, t.data) for t in toks]))
                continue
            exp = "[" + "; ".join(f"({i}%nat, {t.start}%nat, {t.end}%nat, {E.s(t.data)})" for i, t in zip(idxs, toks)) + "]"
            cases.append((f"({tt}, {E.s(text)}, {ht})", exp, dict(stream="hs-offsets", text=text, hits=hits)))
    ctx.streams.append("hs-offsets")
    core.corr_run(ctx, "hsoff", PRE, "run_hs", "hs_eqb", cases, shard=150, ty=TY)


def engine(ctx):
    from eyecite.tokenizers import HyperscanTokenizer, Tokenizer

    rng = ctx.rng
    th = ctx.tier == "thorough"
    cache = os.path.join(core.WORK, "hs_cache")
    os.makedirs(cache, exist_ok=True)
    hs = HyperscanTokenizer(cache_dir=cache)
    ref = Tokenizer()
    MB = ["“", "”", "’", "—", "–", "é", "ñ", "§", "¶", "ü", "‘", "¿", "ÿ", "\ufffd", "\ufeff", "乿", "\u07ff", "\U0001f600", "߿"]
    docs = ["¿Qué? ÿ See 1 U.S. 1 and id. at 5.", "\ufeff\ufffd Foo v. Bar, 1 F.3d 2 (1999).", "乿亿 see 1 U.S. 1",
            "“1 U.S. 1”", "é1 U.S. 1", "1 U.S. 1é", "See “Foo v. Bar, 1 U.S. 1” at 5.", "42 U.S.C. § 1983", "¶ 5, 1 F.3d 2—3",
            "Id. at 5” and “supra, at 6",
            # D19: the re-match on a slice let `^` match at the slice start, so the optional blank of the
            # volume-less nominative patterns swallowed the boundary character
            "100 Holmes, at 99", "x Holmes, at 99", "100 Holmes, 99", "See Cooke, 515 and 3 Chase 4",
            # D21: the re-match was cut at the end Hyperscan reported, where `$` and optional tails match artificially
            "1 U.S. __x", "See 12 F.3d ___a and 1 U.S. _b", "Pub. L. 111-148, §§ 5", "x§y§z 1 U.S. 1\n",
            # the ASCII information separators are whitespace for Python's \s but not for Hyperscan (known finding)
            "foo\x1cid.\x1c bar", "foo\x1fsupra\x1f bar", "a\x1d1 U.S. 1\x1e b"]
    from eyecite.tokenizers import AhocorasickTokenizer
    ac_sel = AhocorasickTokenizer()
    for _ in range(200 if th else 30):
        d = textgen.document(rng, n_events=rng.choice([1, 2, 3]), pool=["U.S.", "F.3d", "S. Ct.", "Cal. 4th", "N.E.2d"])
        # splice multi-byte characters at word boundaries and inside words (stated domain: no non-ASCII whitespace/digits)
        out = ""
        for ch in d:
            if rng.random() < 0.06:
                out += rng.choice(MB)
            out += ch
        docs.append(out)

    def key(t):
        return (type(t).__name__, t.start, t.end, t.data, tuple(sorted((k, v) for k, v in t.groups.items())),
                getattr(t, "short", None))

    for d in docs:
        if any(ord(c) > 127 and (c.isspace() or c.isdigit()) for c in d):
            continue
        try:
            a = list(hs.extract_tokens(d))
        except Exception as e:  # noqa
            ctx.violation(None, f"HyperscanTokenizer raised {type(e).__name__}", dict(stream="engine", text=d))
            continue
        b = list(ref.extract_tokens(d))
        ka, kb = {key(t) for t in a}, {key(t) for t in b}
        nt = any(ord(c) > 127 for c in d)
        ctx.case("engine", d, nt, dict(text=d, reference_candidates=len(kb), hyperscan_candidates=len(ka)) if nt and len(ctx.samples) < 8 else None)
        ctx.count("engine document with multi-byte characters" if nt else "engine document ascii")
        for t in b:
            if key(t) not in ka:
                # classify: candidate whose boundary character (before group 1 or after it) is non-ASCII
                before = d[t.start - 1] if t.start > 0 else "a"
                after = d[t.end] if t.end < len(d) else "a"
                shape = KNOWN if (ord(before) > 127 or ord(after) > 127) else (
                    KNOWN_SEP if (before in "\x1c\x1d\x1e\x1f" or after in "\x1c\x1d\x1e\x1f") else None)
                ctx.violation(shape, f"Hyperscan misses the reference candidate {t.data!r} at {(t.start, t.end)}", dict(stream="engine", text=d))
                break
        for t in a:
            if not (0 <= t.start <= t.end <= len(d)) or d[t.start:t.end] != t.data:
                ctx.violation(None, "a Hyperscan token does not index its own text", dict(stream="engine", text=d))
        # every ADDITIONAL token must be a genuine match of some extractor's pattern at those offsets, in the
        # real context of the text (the match may start up to one boundary character earlier)
        extras = [t for t in a if key(t) not in kb]
        if extras:
            sel = ac_sel.get_extractors(d)
            for t in extras[:6]:
                genuine = False
                for e in sel:
                    # as repaired (D21) the token is what the Python pattern matches from the hit's start in the real
                    # text: genuineness = some extractor's pattern matches there with group 1 at the token's offsets
                    for s0 in range(max(0, t.start - 2), t.start + 1):
                        m = e.compiled_regex.match(d, s0)
                        if m and m.span(1) == (t.start, t.end) and m.groupdict() == t.groups:
                            genuine = True
                            break
                    if genuine:
                        break
                ctx.count("additional Hyperscan token checked for genuineness")
                if not genuine:
                    ctx.violation(None, f"Hyperscan reports the token {t.data!r} at {(t.start, t.end)} which no extractor pattern "
                                        "matches at those offsets in the real text", dict(stream="engine", text=d))
                    break
    ctx.streams.append("engine")


def cache_faults(ctx):
    from eyecite.tokenizers import EXTRACTORS, HyperscanTokenizer

    rng = ctx.rng
    th = ctx.tier == "thorough"
    exts = EXTRACTORS[:30] + EXTRACTORS[-5:]
    probe = "See Foo v. Bar, 1 A. 1 (1999). Id. at 5; supra, at 3 § 2 and 12 A.2d 4."
    base = [(type(t).__name__, t.start, t.end) for t in HyperscanTokenizer(extractors=exts).extract_tokens(probe)]
    d = tempfile.mkdtemp(prefix="hsc", dir=core.WORK)
    try:
        tk = HyperscanTokenizer(extractors=exts, cache_dir=d)
        tk.hyperscan_db
        files = os.listdir(d)
        if len(files) != 1:
            ctx.notes.append(f"cache directory holds {files}")
            return
        path = os.path.join(d, files[0])
        good = open(path, "rb").read()
        n = len(good)
        faults = [("absent", None), ("empty", b""), ("trunc1", good[:1]), ("trunc-header", good[:16]), ("trunc-half", good[:n // 2]),
                  ("trunc-last", good[:-1]), ("appended", good + b"\x00garbage"), ("garbage", bytes(rng.randrange(256) for _ in range(200))),
                  ("version-field", good[:4] + bytes([good[4] ^ 0xFF]) + good[5:]), ("magic", b"\x00" + good[1:]),
                  ("intact", good)]
        # every byte of the header on its own (magic, version, platform, crc, length fields)
        for k in range(0, min(40, n)):
            faults.append((f"header-byte@{k}", good[:k] + bytes([good[k] ^ 0x01]) + good[k + 1:]))
        for k in range(30 if th else 6):
            i = rng.randrange(n)
            faults.append((f"bitflip@{i}", good[:i] + bytes([good[i] ^ (1 << rng.randrange(8))]) + good[i + 1:]))
        for k in range(20 if th else 3):
            cut = rng.randrange(n)
            faults.append((f"trunc@{cut}", good[:cut]))
        for name, data in faults:
            if data is None:
                if os.path.exists(path):
                    os.remove(path)
            else:
                with open(path, "wb") as f:
                    f.write(data)
            ctx.case("cache", name, data != good, dict(fault=name) if len(ctx.samples) < 10 else None)
            ctx.count("cache fault " + name.split("@")[0])
            try:
                t2 = HyperscanTokenizer(extractors=exts, cache_dir=d)
                got = [(type(t).__name__, t.start, t.end) for t in t2.extract_tokens(probe)]
            except Exception as e:  # noqa
                ctx.violation(None, f"cache fault '{name}': construction or scan raised {type(e).__name__}", dict(stream="cache", fault=name))
                continue
            if got != base:
                ctx.violation(None, f"cache fault '{name}': tokens differ from the run without a cache", dict(stream="cache", fault=name, got=got, want=base))
        # a cache directory shared by different configurations (other extractor order, sub-list, another
        # library version's list): every configuration must behave as it does without a cache
        with open(path, "wb") as f:
            f.write(good)
        variants = [("reversed", exts[::-1]), ("rotated", exts[7:] + exts[:7]), ("sublist", exts[:20]),
                    ("swapped-pair", [exts[1], exts[0]] + exts[2:])]
        for k in range(6 if th else 2):
            sh = list(exts)
            rng.shuffle(sh)
            variants.append((f"shuffled#{k}", sh))
        for name, ex2 in variants * 2:      # second pass: every variant's own file now exists too
            want = sorted((type(t).__name__, t.start, t.end) for t in HyperscanTokenizer(extractors=ex2).extract_tokens(probe))
            ctx.case("cache", "shared-dir " + name, True, None)
            ctx.count("cache shared with another configuration")
            try:
                t2 = HyperscanTokenizer(extractors=ex2, cache_dir=d)
                got = sorted((type(t).__name__, t.start, t.end) for t in t2.extract_tokens(probe))
            except Exception as e:  # noqa
                ctx.violation(None, f"shared cache directory ({name}): construction or scan raised {type(e).__name__}",
                              dict(stream="cache", fault="shared-dir " + name))
                continue
            if got != want:
                ctx.violation(None, f"shared cache directory ({name}): tokens differ from the run without a cache",
                              dict(stream="cache", fault="shared-dir " + name, got=got, want=want))
    finally:
        shutil.rmtree(d, ignore_errors=True)
    ctx.streams.append("cache")


def cold_start(ctx):
    """a second thread uses a fresh tokenizer while the first one is still compiling the database (no cache):
    it must get the reference tokens, not an error from a half-initialised database"""
    import threading
    import time

    from eyecite.tokenizers import EXTRACTORS, HyperscanTokenizer, Tokenizer

    exts = EXTRACTORS[:900] + EXTRACTORS[-5:]
    probe = "See Foo v. Bar, 1 Ala. 1, 3 (1990). Id. at 4."
    want = sorted({(type(t).__name__, t.start, t.end) for t in Tokenizer(extractors=exts).extract_tokens(probe)})
    for delay in (0.05, 0.3, 0.8):
        tk = HyperscanTokenizer(extractors=exts)
        res = {}

        def first():
            try:
                tk.hyperscan_db
                res["a"] = "ok"
            except Exception as e:  # noqa
                res["a"] = type(e).__name__

        def second():
            time.sleep(delay)
            try:
                res["b"] = sorted({(type(t).__name__, t.start, t.end) for t in tk.extract_tokens(probe)})
            except Exception as e:  # noqa
                res["b"] = type(e).__name__

        ths = [threading.Thread(target=first), threading.Thread(target=second)]
        for t in ths:
            t.start()
        for t in ths:
            t.join()
        ctx.case("cold-start", delay, True, None)
        ctx.count("cold start: second thread during the first compilation")
        if res.get("a") != "ok" or res.get("b") != want:
            ctx.violation(None, f"a thread using the tokenizer while another one is still compiling its database got {str(res.get('b'))[:120]} "
                                f"(compiling thread: {res.get('a')})", dict(stream="cold-start", delay=delay, text=probe))
            break
    ctx.streams.append("cold-start")


def run(ctx):
    hs_offsets(ctx)
    cold_start(ctx)
    engine(ctx)
    cache_faults(ctx)
