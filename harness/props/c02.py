"""C02 -- reported offsets index the text they claim to index."""
from harness import pipe_corr as P
from harness import pipe_stream

LEVEL_TEXT = (
    "proof: for EVERY text, every token stream with the partition property proved in C12, and EVERY behaviour of the "
    "regex searches that respects the span contract of a match object, every citation returned by the model of "
    "get_citations (plain-text mode) has 0 <= full start <= span start <= span end <= full end <= len(text), its "
    "matched text is a prefix of text[span], its pin-cite span contains its span and (for case/short/supra/id "
    "citations) the captured pin cite (Proofs/PipeOffsets.v). The model is tied to find.py/helpers.py by "
    "field-by-field correspondence on generated documents, with every regex call recorded and its contract checked. "
    "Partial: markup mode is covered by the monitor only; the easter-egg result for the text 'eyecite' is a known finding."
)
RULE = (
    "find: corpus of defect witnesses + seeded citation-dense documents (grammar-generated, nominative-reporter party "
    "names, hostile fragments, character mutations) through get_citations; all three tokenizers in thorough. "
    "Non-trivial = at least two citations returned; distinct by the document text."
)
ASSUMPTIONS = [
    "regex searches respect the span contract search_ok (match inside the window, groups inside the match, forward "
    "matches start at 0, backward matches end at the window end, pin_cite group starts at 0, parenthetical group last): "
    "checked on every recorded call",
    "token stream satisfies C12 (proved for the model of Tokenizer.tokenize)",
    "short-form citation tokens end with their page group (regex fact about the extractor templates; monitored)",
]
KNOWN_JOKE = "joke-cite"


def mon(text, run, run_ra):
    bad = P.monitor_offsets(text, run["out"][1])
    if bad:
        return (KNOWN_JOKE if text == "eyecite" else None, bad)
    return None


def run(ctx):
    th = ctx.tier == "thorough"
    pipe_stream.run(ctx, [("C02", mon)], 1500 if th else 170)
    # markup mode: offsets refer to the cleaned text
    from eyecite import clean_text, get_citations
    from harness import annot_corr as AC
    for _ in range(300 if th else 40):
        plain, src = AC.gen_pair(ctx.rng)
        markup = "<p>" + src + "</p>"
        try:
            cs = get_citations(markup_text=markup, clean_steps=["html", "all_whitespace"])
            cleaned = clean_text(markup, ["html", "all_whitespace"])
        except Exception:  # noqa
            ctx.count("markup mode raised (C04's subject)")
            continue
        ctx.case("find-markup", markup, len(cs) >= 1, None)
        ctx.count("markup document")
        bad = P.monitor_offsets(cleaned, cs)
        if bad:
            ctx.violation(None, "C02 (markup mode): " + bad, dict(stream="find-markup", markup=markup))
    ctx.streams.append("find-markup")
