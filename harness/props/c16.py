"""C16 -- citation equality identifies the cited document, not its spelling or context."""
import itertools

from harness import coqemit as E
from harness import core, textgen, tokutil
from harness import resolve_corr as R

LEVEL_TEXT = (
    "proof: citation equality = equality of hash keys; it is an equivalence; for case citations with a page it holds "
    "exactly when class, volume, page and corrected reporter agree; metadata and spans do not enter the key; "
    "placeholder-page/id./unknown citations equal only themselves; kinds never mix; and BY REFLECTION over the "
    "regenerated reporter-string table (~4,800 strings) every string that maps unambiguously to an edition normalises "
    "to the same reporter as the edition's own name (Props/C16.v). Partial: that merged tokens carry exactly the "
    "table's edition sets, and re-parsing of normalised citation text, are covered by the database sweep stream only. "
    "sha256 o JSON is assumed injective."
)
RULE = (
    "sweep: for sampled (quick) / all (thorough) reporter strings s of the live database, '1 s 2' is extracted, "
    "compared (==, hash, Resource) with the extraction of its normalised text, re-normalised (fixed point), and "
    "compared with context/metadata variants; pairs: all pairs within pools of extracted and factory-built citations: "
    "Python == / hash / Resource equality vs key equality of the model, equivalence laws, cross-kind and identity "
    "laws. Non-trivial = the string is a variation (differs from its normalised form) / the pair is equal; distinct "
    "by string / pair."
)
ASSUMPTIONS = [
    "hash_sha256 o json.dumps is injective on the hashed dictionaries; Python's hash() of the 256-bit integer does not collide on the explored pairs",
    "edition ids are value-equality classes of the Edition dataclass (generator)",
]

PRE = R.PRE + """
Definition keq (p : cit * cit) : bool :=
  match key_of (fst p), key_of (snd p) with
  | Ok a, Ok b => key_eqb a b
  | _, _ => false
  end.
"""


def _ext_for(s):
    from eyecite.tokenizers import EXTRACTORS
    return [e for e in EXTRACTORS if s in e.strings and not (e.extra or {}).get("short")]


def run(ctx):
    from eyecite import get_citations
    from eyecite.models import (CaseCitation, FullCaseCitation, FullJournalCitation, FullLawCitation, IdCitation,
                                Resource, ShortCaseCitation, UnknownCitation)

    rng = ctx.rng
    th = ctx.tier == "thorough"
    db = textgen.db()
    strings = sorted(set(db["reporters"]) | set(db["journals"]))
    if not th:
        strings = rng.sample(strings, 350) + ["U. S.", "U.S.", "F. 2d", "S.Ct.", "Cra.", "Wall."] + list(textgen.NOMINATIVE)
    else:
        ctx.exhaustive["sweep: every reporter/journal string of the database"] = len(strings)

    def one(text, want_rep):
        cs = [c for c in get_citations(text) if c.groups.get("reporter") == want_rep and isinstance(c, (FullCaseCitation, FullJournalCitation))]
        return cs[0] if cs else None

    for s in strings:
        t1 = f"1 {s} 2"
        try:
            c1 = one(t1, s)
        except Exception:  # noqa
            continue
        if c1 is None:
            ctx.count("sweep: string not extracted in the minimal form")
            continue
        norm = c1.corrected_citation()
        nt = norm != t1
        ctx.case("sweep", s, nt, dict(string=s, normalised=norm) if nt and len(ctx.samples) < 5 else None)
        ctx.count("sweep: variation" if nt else "sweep: canonical spelling")
        if c1.edition_guess is not None:
            rep2 = c1.edition_guess.short_name
            c2 = one(norm, rep2)
            if c2 is None:
                ctx.count("sweep: normalised text not re-extracted with the canonical reporter (other shape)")
            else:
                if not (isinstance(c1, FullCaseCitation) and isinstance(c2, FullCaseCitation)):
                    # journal citations hash every group (raw reporter spelling included): the property's
                    # variation clause is about case citations only
                    ctx.count("sweep: journal variation (equality not claimed by the property)")
                elif not (c1 == c2 and hash(c1) == hash(c2) and Resource(c1) == Resource(c2)):
                    ctx.violation(None, f"the unambiguous variation {s!r} is not equal to its canonical spelling {rep2!r}",
                                  dict(stream="sweep", text=t1, normalised=norm))
                if c2.corrected_citation() != norm:
                    ctx.violation(None, "normalised citation text is not a fixed point of normalisation",
                                  dict(stream="sweep", text=t1, normalised=norm, again=c2.corrected_citation()))
        if isinstance(c1, FullCaseCitation):
            # a different WRITTEN volume is a different document (ground truth from the text, not from the groups)
            t5 = f"347 {s} 2"
            try:
                c5 = one(t5, s)
            except Exception:  # noqa
                c5 = None
            if c5 is not None and c5.span()[1] == len(t5):
                if c5.span()[0] == 0 and c1.span()[0] == 0 and (c5 == c1 or hash(c5) == hash(c1)):
                    ctx.violation(None, f"citations written with different volumes ('1 {s} 2', '347 {s} 2') compare equal",
                                  dict(stream="sweep", a=t1, b=t5))
                elif c5.span()[0] != 0:
                    ctx.count("sweep: three-digit volume not part of the citation (volume-less pattern only)")
                    if s in textgen.NOMINATIVE and any(k.span() == (0, len(t5)) for k in get_citations(t5)) is False and \
                            any(len(e_.regex) and "volume>[1-9]" in e_.regex and s in e_.strings for e_ in _ext_for(s)):
                        ctx.violation(None, f"'347 {s} 2' is not extracted with its volume although a pattern with a free volume exists",
                                      dict(stream="sweep", text=t5))
            # context / metadata do not matter (as long as the year does not change the edition guess)
            t3 = f"See Foo v. Bar, 1 {s} 2, 5 (overruling Baz)."
            try:
                c3 = one(t3, s)
            except Exception:  # noqa
                c3 = None
            if c3 is not None and c3.edition_guess == c1.edition_guess and not (c3 == c1 and hash(c3) == hash(c1)):
                ctx.violation(None, "equality depends on context/metadata", dict(stream="sweep", a=t1, b=t3))
            # a year must not matter when the string names a single candidate edition
            cands = list(c1.exact_editions) or list(c1.variation_editions)
            if len(cands) == 1:
                e = cands[0]
                yr = (e.end.year + 6) if e.end is not None else ((e.start.year - 6) if e.start is not None else 1950)
                t4 = f"Foo v. Bar, 1 {s} 2 ({min(max(yr, 1601), 2026)})."
                try:
                    c4 = one(t4, s)
                except Exception:  # noqa
                    c4 = None
                if c4 is not None and not (c4 == c1 and hash(c4) == hash(c1)):
                    ctx.violation(None, "equality depends on the year although the reporter string names a single edition",
                                  dict(stream="sweep", a=t1, b=t4))
    ctx.streams.append("sweep")

    # ---- pairs within pools
    pool = []
    docs = ["1 U.S. 1; 1 U. S. 1; 1 U.S. 2; 2 U.S. 1; 1 U.S. ___; 1 U.S. ___. Id. at 3. § 5. 1 U.S. at 1; Foo, 1 U. S., at 1",
            # placeholder pages in short forms too: each is equal only to itself
            "Carpenter, 585 U.S., at ___ (slip op., at 11); Carpenter, 585 U.S., at ___ (slip op., at 15); 585 U.S. at __",
            # nominative reporters: the volume matters also when the volume-less pattern cannot take it
            "347 Cooke 1; 999 Cooke 1; 5 Cooke 10; 5 Tenn. (Cooke) 10; 347 Thompson 1; 12 Thompson 1; 347 Holmes 20; 999 Holmes 20",
            "1 Minn. L. Rev. 1; 1 Minn. L. Rev. 1; 1 Minn. L. Rev. 2; 42 U.S.C. § 1983; 42 U.S.C. § 1983; 42 U.S.C. § 1984"]
    # same volume and page in sibling series of one reporter (F. / F.2d / F.3d, A. / A.2d ...): different documents
    from reporters_db import REPORTERS
    multi = sorted(k for k, v in REPORTERS.items() if any(len(r["editions"]) >= 2 for r in v))
    sib = ["100 F. 200; 100 F.2d 200; 100 F.3d 200; 100 F. 2d 200"]
    for root in rng.sample(multi, 8 if th else 3):
        eds_ = [e for r in REPORTERS[root] for e in r["editions"]][:3]
        sib.append("; ".join(f"7 {e} 9" for e in eds_))
    docs += sib
    for _ in range(25 if th else 6):
        docs.append(textgen.document(rng, n_events=8, pool=["U.S.", "U. S.", "F.2d", "F. 2d", "S. Ct.", "S.Ct."]))
    for d in docs:
        try:
            pool += get_citations(d)
        except Exception:  # noqa
            pass
    pool += [R.make(s) for s in ["fullA", "fullAdup", "fullB", "fullPlaceholder", "fullPlaceholder", "law", "journal", "shortA", "idNoPin", "unknown"]]
    pool = [c for c in pool if type(c).__name__ != "ReferenceCitation" and type(c).__name__ != "SupraCitation"][: (140 if th else 70)]
    edmap = tokutil.EdMap()
    terms = [R.cit_term(c, i, edmap) for i, c in enumerate(pool)]
    cases = []
    eq = {}
    for i, j in itertools.product(range(len(pool)), repeat=2):
        a, b = pool[i], pool[j]
        e = (a == b)
        eq[(i, j)] = e
        if e != (hash(a) == hash(b)):
            ctx.violation(None, "== and hash() disagree", dict(stream="pairs", a=R.describe(a), b=R.describe(b)))
        if isinstance(a, (FullCaseCitation, FullLawCitation, FullJournalCitation)) and isinstance(b, (FullCaseCitation, FullLawCitation, FullJournalCitation)):
            if e != (Resource(a) == Resource(b)):
                ctx.violation(None, "citation equality and Resource equality disagree", dict(stream="pairs", a=R.describe(a), b=R.describe(b)))
        if e and type(a) is not type(b):
            ctx.violation(None, "citations of different kinds compare equal", dict(stream="pairs", a=R.describe(a), b=R.describe(b)))
        # placeholder page read off the WRITTEN text (underscores where the page stands), not off groups["page"]
        def placeholder(c):
            if not isinstance(c, CaseCitation):
                return False
            pg = c.groups.get("page")
            if pg is None or (isinstance(pg, str) and pg != "" and set(pg) <= {"_"}):
                return True
            return c.matched_text().rstrip().endswith("_")
        ident = isinstance(a, (IdCitation, UnknownCitation)) or placeholder(a)
        if ident and e != (i == j):
            ctx.violation(None, "an identity-hashed citation is equal to another object (or not to itself)", dict(stream="pairs", a=R.describe(a), b=R.describe(b)))
        if isinstance(a, CaseCitation) and isinstance(b, CaseCitation) and type(a) is type(b) and a.groups.get("page") and b.groups.get("page"):
            want = (a.groups.get("volume") == b.groups.get("volume") and a.groups["page"] == b.groups["page"]
                    and R.norm_rep(a) == R.norm_rep(b))
            if e != want:
                ctx.violation(None, "case citations equal although volume/page/normalised reporter differ (or vice versa)",
                              dict(stream="pairs", a=R.describe(a), b=R.describe(b)))
        ctx.case("pairs", (i, j), e and i != j, dict(a=R.describe(a), b=R.describe(b)) if e and i != j and len(ctx.samples) < 8 else None)
        ctx.count("pair equal" if e else "pair different")
        cases.append((f"({terms[i]}, {terms[j]})", E.b(e), dict(stream="pairs", a=R.describe(a), b=R.describe(b), impl=e)))
    n = len(pool)
    for i in range(n):
        if not eq[(i, i)]:
            ctx.violation(None, "equality is not reflexive", dict(stream="pairs", a=R.describe(pool[i])))
    for i, j in itertools.combinations(range(n), 2):
        if eq[(i, j)] != eq[(j, i)]:
            ctx.violation(None, "equality is not symmetric", dict(stream="pairs", a=R.describe(pool[i]), b=R.describe(pool[j])))
        if eq[(i, j)]:
            for k in range(n):
                if eq[(j, k)] and not eq[(i, k)]:
                    ctx.violation(None, "equality is not transitive", dict(stream="pairs"))
    ctx.streams.append("pairs")
    core.corr_run(ctx, "pairs", PRE, "keq", "Bool.eqb", cases, shard=400, ty=("cit * cit", "bool"))
