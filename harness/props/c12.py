"""C12 -- the token stream partitions the text."""
import copy
import itertools
import os

from harness import coqemit as E
from harness import core, textgen, tokutil

LEVEL_TEXT = (
    "proof: for ALL texts and ALL well-formed candidate lists (any tokenizer, any order/overlap/duplicates) the "
    "model of Tokenizer.tokenize returns a stream whose concatenation is the text, whose special tokens index their "
    "own text, are increasing and non-overlapping, and whose index list is exact (Props/C12.v). The model is tied "
    "to the Python loop by exhaustive small-scope + sampled correspondence through the documented extract_tokens "
    "override, and to the three shipped tokenizers on generated legal text. Closed end to end (Props/C12.v C12_text_*): "
    "for the default tokenizer as a function of the TEXT ALONE -- candidates computed by the model of re.finditer / "
    "Token.from_match / the Aho-Corasick pre-filter on the verified engine over the regenerated extractor table -- the "
    "same four statements hold with no hypothesis; that model is tied to extract_tokens and tokenize by the extract / "
    "tokens streams."
)
RULE = (
    "tokenize-core: every single candidate and every ordered pair of candidates over the 7-character text 'ab cd e' "
    "(36 intervals x token kinds {nominative citation, citation, stop word[, short citation, id]}), sampled triples and "
    "sampled 4-8 candidate configurations over longer texts; tokenize-full: generated citation-dense documents through "
    "Tokenizer, AhocorasickTokenizer, HyperscanTokenizer. Non-trivial = at least two candidates overlap or merge "
    "(core) / the text yields at least two special tokens (full); distinct by (stream, text, candidates). extract / tokens: "
    "short citation-dense documents, the model is given the text only and must reproduce list(extract_tokens(text)) of "
    "Tokenizer and AhocorasickTokenizer (order included) and default_tokenizer.tokenize(text)."
)
ASSUMPTIONS = [
    "candidates are well-formed (cand_wf): 0<=start<=end<=len(text) and data = text[start:end] -- true of re.finditer group 1 "
    "and of the Hyperscan re-match (C14); checked on every candidate list of the tokenize-full stream",
    "sorted() is stable; list.pop/append as modelled",
]

PRE = """From EV Require Import Base.Str Base.Corr Model.Tokenize Model.TokenizeEq.
Open Scope N_scope.
Definition NOM : list nat := NOMIDS.
Definition runtok (c : str * list tok) := tokenize (fst c) (nominative_by NOM) (snd c).
"""


def make_editions():
    from eyecite.models import Edition, Reporter

    def ed(short, src="reporters"):
        return Edition(reporter=Reporter(short_name=short, name=short, cite_type="state", source=src),
                       short_name=short, start=None, end=None)

    return dict(nom=ed("Thompson"), us=ed("U.S."), us2=ed("F.2d"), nom2=ed("Cooke"))


def make_token(kind, s, e, text, eds, gvar=0):
    from eyecite.models import CitationToken, IdToken, StopWordToken, SectionToken

    data = text[s:e]
    if kind == "nom":
        return CitationToken(data, s, e, {"volume": "1"} if gvar else {}, exact_editions=[eds["nom"]])
    if kind == "nomv":
        return CitationToken(data, s, e, {"volume": "1"} if gvar else {}, variation_editions=[eds["nom2"]])
    if kind == "cit":
        return CitationToken(data, s, e, {"volume": "1"} if gvar else {}, exact_editions=[eds["us"]])
    if kind == "cit2":
        return CitationToken(data, s, e, {"volume": "1"} if gvar else {}, exact_editions=[eds["us2"]], variation_editions=[eds["us"]])
    if kind == "short":
        return CitationToken(data, s, e, {"volume": "1"} if gvar else {}, exact_editions=[eds["us"]], short=True)
    if kind == "stop":
        return StopWordToken(data, s, e, {"stop_word": "v"} if not gvar else {"stop_word": "see"})
    if kind == "id":
        return IdToken(data, s, e, {})
    if kind == "sec":
        return SectionToken(data, s, e, {})
    raise ValueError(kind)


def core_tokenizer(cands):
    from eyecite.tokenizers import Tokenizer

    class CoreTokenizer(Tokenizer):
        def extract_tokens(self, text):
            return iter(copy.deepcopy(cands))

    return CoreTokenizer(extractors=[])


def run_core(ctx, edmap, eds):
    rng = ctx.rng
    thorough = ctx.tier == "thorough"
    text = "ab cd e"
    intervals = [(s, e) for s in range(8) for e in range(s, 8)]
    configs = []
    kinds_all = ["nom", "nomv", "cit", "cit2", "short", "stop", "id", "sec"]
    for (s, e) in intervals:
        for k in kinds_all:
            for g in (0, 1):
                configs.append((text, [(k, s, e, g)]))
    k3 = ["nom", "cit", "stop"]
    pair_cfgs = [(text, [(ka, a[0], a[1], 0), (kb, b[0], b[1], 0)])
                 for a in intervals for b in intervals for ka in k3 for kb in k3]
    ctx.exhaustive["tokenize-core: all single candidates (36 intervals x 8 kinds x 2 groups)"] = len(configs)
    ctx.exhaustive["tokenize-core: all ordered pairs (36 intervals x {nom,cit,stop})^2"] = len(pair_cfgs)
    configs += pair_cfgs
    # corpus: minimal forms of earlier findings (D2: nominative pop must rewind the offset)
    configs += [
        (text, [("nom", 0, 2, 0), ("nom", 1, 1, 0)]),
        (text, [("nom", 0, 5, 0), ("cit", 3, 7, 0)]),
        (text, [("nom", 0, 5, 0), ("nom", 2, 6, 0), ("cit", 3, 7, 0)]),
        (text, [("cit", 0, 2, 0), ("cit", 0, 2, 0), ("cit2", 0, 2, 0), ("short", 0, 2, 0)]),
    ]
    for _ in range(20000 if thorough else 2500):
        cs = []
        for _ in range(3):
            s = rng.randrange(8)
            e = rng.randrange(s, 8)
            cs.append((rng.choice(kinds_all), s, e, rng.choice([0, 0, 1])))
        configs.append((text, cs))
    long_texts = ["Shapiro v. Thompson, 394 U. S. 618", "a  b Chase 1, 2 Cooke 3 see id. at 4 ", " x§y supra, at 5 v. z",
                  "", " ", "  ", "abc"]
    for _ in range(4000 if thorough else 600):
        t = rng.choice(long_texts)
        cs = []
        for _ in range(rng.choice([0, 1, 2, 4, 6, 8])):
            s = rng.randrange(len(t) + 1)
            e = min(len(t), s + rng.choice([0, 0, 1, 2, 3, 5, 9, 14]))
            cs.append((rng.choice(kinds_all), s, e, rng.choice([0, 0, 1])))
        configs.append((t, cs))

    cases = []
    for t, cs in configs:
        cands = [make_token(k, s, e, t, eds, g) for (k, s, e, g) in cs]
        tk = core_tokenizer(cands)
        try:
            all_tokens, cit_tokens = tk.tokenize(t)
        except Exception as ex:  # noqa
            ctx.violation(None, f"Tokenizer.tokenize raised {type(ex).__name__} on well-formed candidates",
                          dict(stream="tokenize-core", text=t, candidates=cs))
            continue
        overlap = any(a[1] < b[2] and b[1] < a[2] or (a[1], a[2]) == (b[1], b[2]) for a, b in itertools.combinations(cs, 2))
        ctx.case("tokenize-core", (t, tuple(cs)), overlap,
                 dict(text=t, candidates=cs, tokens=[x if isinstance(x, str) else tokutil.tok_json(x) for x in all_tokens])
                 if overlap and len(cs) == 3 and len(ctx.samples) < 4 else None)
        ctx.count(f"core candidates={min(len(cs), 4)}{'+' if len(cs) >= 4 else ''}")
        bad = tokutil.monitor_tokens(t, all_tokens, cit_tokens)
        if bad:
            ctx.violation(None, "tokenize-core: " + bad, dict(stream="tokenize-core", text=t, candidates=cs,
                          tokens=[x if isinstance(x, str) else tokutil.tok_json(x) for x in all_tokens]))
        inp = f"({E.s(t)}, [" + "; ".join(tokutil.tok_term(c, edmap) for c in cands) + "])"
        cases.append((inp, tokutil.tokout_term(all_tokens, cit_tokens, edmap), dict(stream="tokenize-core", text=t, candidates=cs)))
    return cases


def tokenizers():
    from eyecite.tokenizers import AhocorasickTokenizer, HyperscanTokenizer, Tokenizer

    res = [("Tokenizer", Tokenizer()), ("AhocorasickTokenizer", AhocorasickTokenizer())]
    try:
        cache = os.path.join(core.WORK, "hs_cache")
        os.makedirs(cache, exist_ok=True)
        hs = HyperscanTokenizer(cache_dir=cache)
        hs.hyperscan_db  # compile now
        res.append(("HyperscanTokenizer", hs))
    except Exception as e:  # noqa
        res.append(("HyperscanTokenizer", e))
    return res


def run_full(ctx, edmap):
    rng = ctx.rng
    thorough = ctx.tier == "thorough"
    docs = ["Shapiro v. Thompson, 394 U. S. 618", "Foo v. Bar, 1 Chase 5, 2 Cooke 7 (1999)", "See 1 Bee 1; id. at 3.",
            "Gilmer v. Deady, 3 Holmes 4, 5 U.S. 6", "Kern v. Thompson, 12 (1850)", "Jones v. Cooke, 7.", "See Smith v. Chase, 3; Bee, 4 (1801).",
            # characters a caller might think harmless at the edges: byte order marks, zero-width and control characters
            "\ufeffSee Roe v. Wade, 410 U.S. 113 (1973). Id. at 120.", "\ufeff\ufeff1 U.S. 1", "1 U.S. 1\ufeff", "\u200bSee 1 U.S. 1\u200b",
            "\x00See 1 U.S. 1\x00", "\ufeff"]
    for _ in range(40 if thorough else 8):
        # a nominative-reporter name used as a party name and NOT followed by a real citation (the match is kept)
        docs.append(f"{rng.choice(textgen.NAMES)} v. {rng.choice(textgen.NOMINATIVE)}, {rng.choice([3, 7, 12, 40])}"
                    + rng.choice([".", " (1850).", "; see id.", " and so on"]))
    for _ in range(400 if thorough else 60):
        docs.append(textgen.document(rng, hostile=rng.random() < 0.3,
                                     pool=textgen.NOMINATIVE + ["U.S.", "U. S.", "F.2d", "S. Ct."] if rng.random() < 0.4 else None))
    cases = []
    for name, tk in tokenizers():
        if isinstance(tk, Exception):
            ctx.notes.append(f"{name} could not be constructed: {tk!r}")
            continue
        for d in docs:
            try:
                cands = list(tk.extract_tokens(d))
                cands_copy = copy.deepcopy(cands)
                all_tokens, cit_tokens = tk.tokenize(d)
            except Exception as ex:  # noqa
                # a raise is C04's subject, not C12's
                ctx.count(f"{name} raised {type(ex).__name__} (left to C04)")
                continue
            wf = all(0 <= c.start <= c.end <= len(d) and d[c.start:c.end] == c.data for c in cands)
            nt = len(cit_tokens) >= 2
            ctx.case("tokenize-full", (name, d), nt,
                     dict(tokenizer=name, text=d, n_candidates=len(cands), n_special=len(cit_tokens)) if nt and len(ctx.samples) < 8 else None)
            ctx.count(f"full {name}")
            bad = tokutil.monitor_tokens(d, all_tokens, cit_tokens)
            if bad:
                ctx.violation(None, f"{name}: " + bad, dict(stream="tokenize-full", tokenizer=name, text=d))
            if not wf:
                # the theorem's premise cand_wf fails: the monitor above decides; no model comparison
                ctx.count(f"{name}: ill-formed candidate (token text differs from text[start:end])")
                continue
            if name == "Tokenizer" and len(cands) > 60:
                continue
            inp = f"({E.s(d)}, [" + "; ".join(tokutil.tok_term(c, edmap) for c in cands_copy) + "])"
            cases.append((inp, tokutil.tokout_term(all_tokens, cit_tokens, edmap), dict(stream="tokenize-full", tokenizer=name, text=d)))
    return cases


def run(ctx):
    edmap = tokutil.EdMap()
    eds = make_editions()
    for e in eds.values():
        edmap.id(e)
    cases = run_core(ctx, edmap, eds)
    cases_full = run_full(ctx, edmap)
    pre = PRE.replace("NOMIDS", E.lst([str(i) for i in edmap.nominative_ids()], "nat"))
    ctx.streams += ["tokenize-core", "tokenize-full"]
    core.corr_run(ctx, "tokcore", pre, "runtok", "tokout_eqb", cases, shard=500)
    core.corr_run(ctx, "tokfull", pre, "runtok", "tokout_eqb", cases_full, shard=60)
    # the model computing candidates and the token stream from the text alone (Model/Extract.v, Model/E2E.v)
    from harness import e2e
    th = ctx.tier == "thorough"
    docs = e2e.short_docs(ctx.rng, 60 if th else 8)
    e2e.run_extract(ctx, docs, 20 if th else 3)
    e2e.run_tokens(ctx, docs)
