"""C13 -- the Aho-Corasick pre-filter is lossless."""
import json
import os
import re

from harness import core, regen, retrans, textgen
from harness.coqemit import s as E_s

LEVEL_TEXT = (
    "proof: a required-literal analysis (Regex/Literal.v) proved sound w.r.t. a declarative regex semantics "
    "(Regex/LiteralSound.v) is run BY THE KERNEL on every one of the ~6,800 patterns regenerated from the live "
    "EXTRACTORS list (16 reflection lemmas): every string a pattern can match contains one of its filter strings "
    "after the filter's normalisation, for every text (case-sensitive extractors) or for every text free of the "
    "offending case variants (the three case-insensitive extractors: known finding). Per-extractor, hence valid for "
    "every sub-list. Tied to Python by regenerating the table on each run, by pattern-derived words checked against "
    "the compiled patterns, and by differential runs of the two tokenizers. On the EXECUTABLE tokenizer model "
    "(Model/Extract.v: re.finditer by the verified engine over the live table) the statement is proved outright "
    "(C13_tokenizers_agree): for every text free of the offending case variants the pre-filtered candidate list equals "
    "the reference candidate list, in order; for every text it is a sub-list (C13_filter_sub). That model is tied to "
    "both tokenizers' extract_tokens by the extract stream, and the engine to the compiled patterns by the regex stream."
)
RULE = (
    "words: for sampled (quick) / all (thorough) extractors, random words derived from the pattern's AST plus "
    "near-miss mutations; a word counts when the compiled pattern matches it (then the filter must select the "
    "extractor). tokenizers: generated documents through AhocorasickTokenizer and Tokenizer with the full list and "
    "with random sub-lists. Non-trivial = the pattern matches the word / the document yields >= 1 special token; "
    "distinct by (extractor index, word) / (document, sub-list seed). regex: pattern-derived words, engine model vs "
    "compiled pattern (span and group 1). extract: short documents, the model given the text only vs "
    "list(extract_tokens(text)) of both tokenizers."
)
ASSUMPTIONS = [
    "every match reported by Python's re has a derivation in the declarative semantics M (Regex/Decl.v); exercised by the words stream",
    "pyahocorasick's iter reports every occurrence of every added word (selection compared on every case)",
    "str.lower() per character is the table swept from the running interpreter (Gen/Lower.v); U+03A3 is never treated as exact",
]
KNOWN_SHAPE = "casefold-offending-char"


def strict_failures():
    """-> (extractors failing the full-strength check, extractors failing even the partial one)"""
    body = ("From EV Require Import Base.Str Gen.ExtractorsData.\nFrom Coq Require Import NArith.\n"
            "Eval vm_compute in all_strict_failures.\nEval vm_compute in all_partial_failures.\n")
    vals = core.coq_eval("C13_failures", body, 600)
    return [int(x) for x in vals[0]], [int(x) for x in vals[1]]


def run(ctx):
    from eyecite.tokenizers import EXTRACTORS, AhocorasickTokenizer, Tokenizer

    rng = ctx.rng
    th = ctx.tier == "thorough"
    meta = json.load(open(os.path.join(core.COQ, "Gen", "gen_meta.json")))
    offending = set(meta.get("offending_chars", []))

    # ---- the kernel's verdict per extractor
    try:
        fails, pfails = strict_failures()
    except core.CoqEvalError as e:
        ctx.proof_failures.append("cannot evaluate the per-extractor failure lists: " + str(e)[-500:])
        fails, pfails = [], []
    for idx in fails:
        e = EXTRACTORS[idx] if idx < len(EXTRACTORS) else None
        if idx not in pfails:
            # fails for every text but passes for texts free of the offending case variants: the known finding
            ctx.count("extractor failing the strict literal check (known: case-insensitive letter classes)")
            continue
        # an extractor whose strings are not implied by its pattern even on ordinary text: search for a witness
        found = False
        if e is not None:
            ci = bool(e.flags & re.I)
            ast = retrans.parse(e.regex, e.flags)[0]
            for _ in range(6000):
                w = regen.word(rng, ast, ci)
                if any(ord(c) in offending for c in w):
                    continue
                if e.compiled_regex.search(w) and not any((s.lower() if ci else s) in (w.lower() if ci else w) for s in e.strings):
                    ctx.violation(None, f"extractor #{idx} matches a text that contains none of its filter strings",
                                  dict(stream="words", extractor=idx, regex=e.regex[:300], strings=list(e.strings)[:20], text=w))
                    found = True
                    break
        if not found:
            ctx.proof_failures.append(f"extractor #{idx}: the kernel-run literal check fails (strings {list(e.strings)[:10] if e else '?'}) "
                                      f"and no witness text was found")
    ctx.notes.append(f"strict-check failures: {fails}; partial-check failures: {pfails}")

    ac = AhocorasickTokenizer()
    ref = Tokenizer()

    def selected_ids(tk, text):
        return {id(x) for x in tk.get_extractors(text)}

    # ---- words stream
    idxs = list(range(len(EXTRACTORS)))
    if not th:
        idxs = rng.sample(idxs, 500) + idxs[-5:]
    rx_words = []
    for idx in idxs:
        e = EXTRACTORS[idx]
        if not e.strings:
            continue
        ci = bool(e.flags & re.I)
        ast = retrans.parse(e.regex, e.flags)[0]
        for k in range(6 if not th else 8):
            w = regen.word(rng, ast, ci, exotic=0.15 if ci else 0.0)
            if k % 3 == 2:
                w = textgen.mutate(rng, w)
            w = rng.choice(["", " ", "See ", "x"]) + w + rng.choice(["", " ", ".", " y"])
            m = e.compiled_regex.search(w)
            if k < 2 and len(w) < 80:
                rx_words.append((idx, w, m))
            ctx.case("words", (idx, w), bool(m), dict(extractor=idx, word=w, strings=e.strings[:3]) if m and len(ctx.samples) < 5 else None)
            ctx.count("word matched by its pattern" if m else "word not matched")
            if not m:
                continue
            if id(e) not in selected_ids(ac, w):
                has_off = any(ord(c) in offending for c in w)
                ctx.violation(KNOWN_SHAPE if (ci and has_off) else None,
                              f"extractor #{idx} matches the text but the Aho-Corasick filter skips it",
                              dict(stream="words", extractor=idx, text=w, strings=e.strings[:5]))
    ctx.streams.append("words")
    # ---- regex stream: the engine model on the regenerated extractor ASTs vs the compiled patterns
    per = (len(EXTRACTORS) + 15) // 16
    by_shard = {}
    for idx, w, m in rx_words:
        exp = "None" if m is None else f"(Some ({m.start()}, {m.end()}, Some ({m.start(1)}, {m.end(1)})))"
        by_shard.setdefault(idx // per, []).append((f"({idx}%N, {E_s(w)})", exp, dict(stream="regex", extractor=idx, word=w,
                                                                                   python=None if m is None else (m.span(), m.span(1)))))
    for k, cs_ in sorted(by_shard.items()):
        pre = (f"From EV Require Import Base.Str Base.Corr Regex.Syntax Regex.Decl Regex.Match Regex.C13Check Gen.Unicode Gen.Extractors_{k:02d}.\n"
               "From Coq Require Import NArith.\nOpen Scope nat_scope.\n"
               f"Definition rx13 (c : N * str) : option (nat * nat * option (nat * nat)) :=\n"
               f"  match find (fun x => N.eqb (row_idx x) (fst c)) shard_{k:02d} with\n"
               "  | Some x => match search U (row_ci x) (snd c) (row_re x) with\n"
               "              | Some (i, j, cp) => Some (i, j, cap_get 1 cp)\n              | None => None end\n"
               "  | None => Some (0, 0, None)\n  end.\n"
               "Definition rx13_eqb := opt_eqb (pair_eqb (pair_eqb Nat.eqb Nat.eqb) (opt_eqb (pair_eqb Nat.eqb Nat.eqb))).\n")
        core.corr_run(ctx, f"rx13_{k:02d}", pre, "rx13", "rx13_eqb", cs_, shard=200, ty=("N * str", "option (nat * nat * option (nat * nat))"))
    ctx.streams.append("regex")

    # ---- corpus: the known finding's witnesses (must stay classified, never silently disappear)
    for w in ["Foo, ſupra, at 5", "ıd. at 5", "İd. at 5", "ſee 1 U.S. 1"]:
        a = [str(t) for _, t in ac.tokenize(w)[1]]
        b = [str(t) for _, t in ref.tokenize(w)[1]]
        ctx.case("corpus", w, True, dict(text=w, reference_tokens=b, filtered_tokens=a))
        if a != b:
            ctx.violation(KNOWN_SHAPE, "Aho-Corasick tokenizer misses a token next to a non-ASCII case variant", dict(stream="corpus", text=w))

    # ---- tokenizer differential, full list and sub-lists
    docs = []
    for _ in range(300 if th else 40):
        docs.append(textgen.document(rng, hostile=rng.random() < 0.3))
    for d in docs:
        try:
            a = ac.tokenize(d)
            b = ref.tokenize(d)
        except Exception:  # noqa
            ctx.count("tokenize raised (left to C04)")
            continue
        nt = len(b[1]) >= 1
        ctx.case("tokenizers", d, nt, None)
        ctx.count("document, full extractor list")
        if [(type(t).__name__, t.start, t.end, t.groups) for _, t in a[1]] != [(type(t).__name__, t.start, t.end, t.groups) for _, t in b[1]] \
                or [str(x) for x in a[0]] != [str(x) for x in b[0]]:
            has_off = any(ord(c) in offending for c in d)
            ctx.violation(KNOWN_SHAPE if has_off else None, "filtered and unfiltered tokenizers produce different token streams",
                          dict(stream="tokenizers", text=d))
    for k in range(40 if th else 8):
        sub = rng.sample(EXTRACTORS, rng.choice([1, 5, 50, 400])) + (EXTRACTORS[-5:] if rng.random() < 0.5 else [])
        try:
            ac2 = AhocorasickTokenizer(extractors=sub)
        except Exception as ex:  # noqa
            ctx.violation(None, f"AhocorasickTokenizer(extractors=sub-list) raised {type(ex).__name__}", dict(stream="sublists", n=len(sub)))
            continue
        ref2 = Tokenizer(extractors=sub)
        subset = {id(x) for x in sub}
        for d in rng.sample(docs, min(len(docs), 10)) + ["1 U.S. 1", "Id. at 5; supra, at 3 § 2"]:
            try:
                sel = ac2.get_extractors(d)
                a = ac2.tokenize(d)
                b = ref2.tokenize(d)
            except Exception as ex:  # noqa
                ctx.violation(None, f"sub-list tokenizer raised {type(ex).__name__}", dict(stream="sublists", text=d, n=len(sub)))
                continue
            ctx.case("sublists", (k, d), len(b[1]) >= 1, None)
            ctx.count("document, custom extractor sub-list")
            if any(id(x) not in subset for x in sel):
                ctx.violation(None, "the filter returns an extractor that is not in the custom list", dict(stream="sublists", text=d, n=len(sub)))
            if [(type(t).__name__, t.start, t.end) for _, t in a[1]] != [(type(t).__name__, t.start, t.end) for _, t in b[1]]:
                has_off = any(ord(c) in offending for c in d)
                ctx.violation(KNOWN_SHAPE if has_off else None, "filtered and unfiltered tokenizers differ on a custom extractor list",
                              dict(stream="sublists", text=d, n=len(sub)))
    ctx.streams += ["tokenizers", "sublists"]
    # the executable tokenizer model on both extractor selections (every extractor / Aho-Corasick pre-filter)
    from harness import e2e
    docs_e = e2e.short_docs(rng, 40 if th else 6, max_len=120)
    e2e.run_extract(ctx, docs_e, len(docs_e))
