"""C11 -- 'skip' and 'wrap' modes keep well-formed markup well-formed."""
import itertools

from harness import annot_corr as AC
from harness import coqemit as E
from harness import core

LEVEL_TEXT = (
    "proof: on the tag grammar (text without < > &, tags <n>, </n>, <n/>), for EVERY well-formed source, plain text = "
    "its text content, forced-alignment diff, span set (overlapping/touching/unsorted) and before/after pair "
    "<a>/</a>: the model's 'wrap' and 'skip' outputs lex to a well-formed token sequence whose text content is the "
    "plain text (Props/C11.v; a stack-machine/Dyck-insertion argument over the annotation loop, wrap_html_tags and "
    "maybe_balance_style_tags). Partial: lxml is the judge in the property; the model's is_balanced_html agrees with "
    "lxml on whole-token strings of the grammar (validated exhaustively to 4 tokens and on every span the stream "
    "produces), attributes/entities/comments are exercised only by the generated-tree stream with lxml as judge."
)
RULE = (
    "tags-lxml: every token sequence up to length 4 (quick) / 5 (thorough) over {x, <i>, </i>, <b>, </b>, <i/>} plus "
    "sampled longer ones: model is_balanced_html vs eyecite.utils.is_balanced_html; annotate-tags: generated element "
    "trees (nested i/em/b/span/p/div, text from an alphabet disjoint from tag-name characters) x random span sets x "
    "{skip, wrap} x both engines, judged by lxml (parses, text content unchanged, wrap: every requested character "
    "annotated) and compared with the model. Non-trivial = some span cuts an element boundary (span text unbalanced); "
    "distinct by the configuration."
)
ASSUMPTIONS = [
    "lxml's etree.fromstring('<div>'+s+'</div>') succeeds exactly when s is well-formed on the grammar (whole-token strings)",
    "both diff engines return the forced alignment when the text alphabet is disjoint from tag characters (checked per document)",
    "before/after strings are one opening and one closing tag of the same name",
]

PRE_TAGS = """From EV Require Import Base.Str Base.Corr Model.Tags.
Open Scope N_scope.
"""

TEXT_ALPHA = "XYZ019 .,;"
TAGS = ["i", "em", "b", "span", "p", "div"]


def gen_tree(rng, depth=0):
    out = ""
    for _ in range(rng.choice([1, 2, 3, 4])):
        r = rng.random()
        if r < 0.5 or depth >= 3:
            out += "".join(rng.choice(TEXT_ALPHA) for _ in range(rng.choice([1, 2, 4, 7])))
        elif r < 0.93:
            t = rng.choice(TAGS)
            out += f"<{t}>" + gen_tree(rng, depth + 1) + f"</{t}>"
        else:
            out += "<br/>"
    return out


def text_content(src):
    import re
    return re.sub(r"<[^>]+>", "", src)


def run(ctx):
    import eyecite.utils as U
    from lxml import etree

    rng = ctx.rng
    th = ctx.tier == "thorough"
    # ---- tags-lxml: the model's balance test vs lxml on whole-token strings
    toks = ["x", "<i>", "</i>", "<b>", "</b>", "<i/>"]
    strings = ["".join(t) for L in range(0, (5 if th else 4) + 1) for t in itertools.product(toks, repeat=L)]
    ctx.exhaustive[f"tags-lxml: token sequences up to length {5 if th else 4} over 6 tokens"] = len(strings)
    for _ in range(3000 if th else 400):
        strings.append("".join(rng.choice(toks + ["<em>", "</em>", "Y "]) for _ in range(rng.choice([5, 6, 8, 12]))))
    cases = []
    for s in strings:
        r = U.is_balanced_html(s)
        ctx.case("tags-lxml", s, "<" in s, None)
        ctx.count("tags-lxml balanced" if r else "tags-lxml unbalanced")
        cases.append((E.s(s), E.b(r), dict(stream="tags-lxml", text=s, lxml=r)))
    ctx.streams.append("tags-lxml")
    core.corr_run(ctx, "tagslxml", PRE_TAGS, "is_balanced_html", "Bool.eqb", cases, shard=1500, ty=("str", "bool"))

    # ---- annotate-tags
    cfgs = []
    docs = ["X<i>Y</i>Z", "<i>XY</i> <b>Z0</b>", "<p>X <em>Y.</em> Z</p><p>0 1</p>", "X<i>Y<b>Z</b>0</i>1"]
    for _ in range(600 if th else 80):
        docs.append(gen_tree(rng))
    for src in docs:
        plain = text_content(src)
        if not plain:
            continue
        for _ in range(6 if th else 3):
            spans = [s for s in AC.gen_spans(rng, len(plain), rng.choice([1, 2, 3])) if s[0] < s[1]]
            if rng.random() < 0.25:
                # empty annotations as well, in particular at the very start and the very end of the document
                spans = spans + [rng.choice([(0, 0), (len(plain), len(plain)), (1, 1)])]
            if not spans:
                continue
            for mode in ("skip", "wrap"):
                cfgs.append(dict(plain=plain, spans=spans, source=src, mode=mode, dmp=rng.random() < 0.75))
    acases = []
    for cf in cfgs:
        plain, spans, src, mode, dmp = cf["plain"], cf["spans"], cf["source"], cf["mode"], cf["dmp"]
        steps = AC.diff_steps(plain, src, dmp) if src != plain else []
        if any(o == "-" for o, _ in steps):
            ctx.count("diff engine did not return the forced alignment (engine assumption; skipped)")
            continue
        # the shape eyecite's documentation annotates with: attributes with blanks, dots, hashes, dashes
        open_a = "<a>" if rng.random() < 0.5 else '<a href="#c-1.x" class="c d">'
        annots = [((s, e), open_a, "</a>") for s, e in spans]
        out, table = AC.run_annotate(plain, annots, src, mode, dmp)
        nt = any(v is False for v in table.values())
        ctx.case("annotate-tags", (src, tuple(spans), mode, dmp), nt, dict(source=src, spans=spans, mode=mode, out=out) if nt and len(ctx.samples) < 8 else None)
        ctx.count(f"annotate-tags {mode}")
        if isinstance(out, tuple):
            ctx.violation(None, f"annotate_citations raised {out[1]}", dict(stream="annotate-tags", **{k: cf[k] for k in ("plain", "spans", "source", "mode")}))
            continue
        try:
            root = etree.fromstring("<div>" + out + "</div>")
        except etree.XMLSyntaxError as ex:
            ctx.violation(None, f"'{mode}' mode output is not well-formed: {str(ex)[:80]}", dict(stream="annotate-tags", plain=plain, spans=spans, source=src, mode=mode, use_dmp=dmp, output=out))
            continue
        if "".join(root.itertext()) != plain:
            ctx.violation(None, f"'{mode}' mode changed the text content", dict(stream="annotate-tags", plain=plain, spans=spans, source=src, mode=mode, output=out))
        if mode == "wrap":
            covered = set()
            for s, e in spans:
                covered |= set(range(s, e))
            want = "".join(plain[i] for i in sorted(covered))
            got = "".join("".join(a.itertext()) for a in root.iter("a"))
            if got != want:
                ctx.violation(None, "'wrap' mode did not annotate exactly the requested characters", dict(stream="annotate-tags", plain=plain, spans=spans, source=src, output=out))
        desc = dict(stream="annotate-tags", plain=plain, spans=spans, source=src, mode=mode, use_dmp=dmp, impl=out)
        acases.append((AC.case_term(table, plain, annots, src, steps, mode), AC.expected_term(out), desc))
    ctx.streams.append("annotate-tags")
    core.corr_run(ctx, "anntags", AC.PRE, "run_annot", "rstr_eqb", acases, shard=300,
                  ty=("list (str * bool) * str * list annot * option str * steps * mode", "result str"))
