"""C03 -- citations come back in document order, unique and non-overlapping."""
import itertools

from harness import coqemit as E
from harness import core, textgen

LEVEL_TEXT = (
    "proof: for ALL lists of citations (arbitrary spans/full spans/kinds) filter_citations returns a list strictly "
    "increasing in span order (document order, no identical spans), drops nothing but references (beyond same-span "
    "duplicates), keeps every non-reference under the documented merge, and is idempotent (Props/C03.v). Partial: "
    "that spans of *extracted* citations never overlap depends on the whole extraction pipeline; it is covered by the "
    "monitor on generated documents, not by a theorem."
)
RULE = (
    "filter: every list of <=2 citations over items {reference?} x span x full span with endpoints 0..3 (span inside "
    "full span), exhaustive, plus sampled lists of 3-6 citations with unconstrained full spans, through "
    "eyecite.helpers.filter_citations on real citation objects; find: generated citation-dense documents (parallel "
    "cites, short-form parallels, string cites, names reused as references) through get_citations and the two-step "
    "flow extract_reference_citations + filter_citations. Non-trivial = the list contains a reference or two "
    "citations with overlapping full spans / the document yields >=2 citations; distinct by the configuration."
)
ASSUMPTIONS = [
    "dict insertion order and sorted() stability as modelled",
    "span()/full_span() of a citation object are read once per use (no mutation during filtering)",
]

PRE = """From EV Require Import Base.Str Base.Corr Model.Filter.
Open Scope Z_scope.
Definition mkf (i : nat) (r : bool) (a b c d : Z) : fc := {| f_id := i; f_ref := r; f_span := (a, b); f_full := (c, d) |}.
Definition run_filter (l : list fc) : list nat := map f_id (filter_citations l).
"""


def make_cit(kind, span, full):
    from eyecite.models import (CaseReferenceToken, CitationToken, FullCaseCitation, IdCitation, IdToken,
                                ReferenceCitation, ShortCaseCitation)

    if kind == "ref":
        return ReferenceCitation(CaseReferenceToken("x", span[0], span[1]), 0, span_start=span[0], span_end=span[1],
                                 full_span_start=full[0], full_span_end=full[1])
    if kind == "id":
        return IdCitation(IdToken("Id.", span[0], span[1]), 0, full_span_start=full[0], full_span_end=full[1])
    cls = FullCaseCitation if kind == "full" else ShortCaseCitation
    tok = CitationToken("1 U.S. 1", span[0], span[1], {"volume": "1", "reporter": "U.S.", "page": "1"})
    return cls(tok, 0, full_span_start=full[0], full_span_end=full[1])


def laws(items, f):
    """monitor on the implementation: items = [(kind, span, full)], f = filter_citations"""
    cits = [make_cit(*it) for it in items]
    out = f(list(cits))
    pos = {id(c): i for i, c in enumerate(cits)}
    ids = [pos.get(id(c), -1) for c in out]
    if -1 in ids:
        return ids, "result contains an object that was not in the input"
    spans = [c.span() for c in out]
    if any(not a < b for a, b in zip(spans, spans[1:])):
        return ids, "result is not strictly increasing in span order"
    last = {}
    for i, it in enumerate(items):
        last[it[1]] = i
    for sp, i in last.items():
        if items[i][0] != "ref" and i not in ids:
            return ids, "a non-reference citation was dropped"
    for i in ids:
        if last[items[i][1]] != i:
            return ids, "a citation superseded by a later same-span citation was returned"
    again = f(list(out))
    if [id(c) for c in again] != [id(c) for c in out]:
        return ids, "filter_citations is not idempotent"
    return ids, None


def run(ctx):
    from eyecite.helpers import filter_citations

    th = ctx.tier == "thorough"
    rng = ctx.rng
    M = 4 if th else 3
    spans = [(a, b) for a in range(M + 1) for b in range(a, M + 1)]
    items = [(k, sp, (a, b)) for k in ("ref", "full") for sp in spans for a in range(sp[0] + 1) for b in range(sp[1], M + 1)]
    lists = [[]] + [[a] for a in items] + [[a, b] for a in items for b in items]
    ctx.exhaustive[f"filter: all lists of <=2 citations over {len(items)} items (endpoints 0..{M})"] = len(lists)
    allsp = [(a, b) for a in range(6) for b in range(a, 6)]
    corpus = [[("short", (8, 23), (8, 23)), ("full", (25, 39), (0, 39))],
              [("id", (1, 2), (1, 2)), ("short", (3, 6), (0, 6)), ("ref", (4, 6), (4, 6))]]
    lists = corpus + lists
    for _ in range(40000 if th else 4000):
        n = rng.choice([3, 3, 4, 5, 6])
        lists.append([(rng.choice(["ref", "ref", "full", "short", "id"]), rng.choice(allsp), rng.choice(allsp)) for _ in range(n)])
    cases = []
    for items_ in lists:
        try:
            ids, bad = laws(items_, filter_citations)
        except Exception as e:  # noqa
            ctx.violation(None, f"filter_citations raised {type(e).__name__}", dict(stream="filter", items=items_))
            continue
        nt = any(k == "ref" for k, _, _ in items_) or any(
            max(a[2][0], b[2][0]) < min(a[2][1], b[2][1]) for a, b in itertools.combinations(items_, 2))
        ctx.case("filter", tuple(items_), nt, dict(items=items_, kept=ids) if nt and len(items_) >= 3 and len(ctx.samples) < 5 else None)
        ctx.count(f"filter list len={len(items_)}")
        if bad:
            ctx.violation(None, "C03: " + bad, dict(stream="filter", items=items_, kept=ids))
        # merge law: add references, filter again
        if items_ and rng.random() < 0.3:
            cits = [make_cit(*it) for it in items_]
            f1 = filter_citations(list(cits))
            extra = [make_cit("ref", rng.choice(allsp), rng.choice(allsp)) for _ in range(rng.choice([1, 2]))]
            f2 = filter_citations(list(f1) + extra)
            for c in f1:
                if type(c).__name__ != "ReferenceCitation" and all(x.span() != c.span() for x in extra) and not any(c is d for d in f2):
                    ctx.violation(None, "C03: merging reference citations dropped a non-reference citation",
                                  dict(stream="filter-merge", items=items_, extra=[(x.span(), x.full_span()) for x in extra]))
        inp = "[" + "; ".join(
            f"mkf {i}%nat {E.b(k == 'ref')} {E.z(sp[0])} {E.z(sp[1])} {E.z(fu[0])} {E.z(fu[1])}" for i, (k, sp, fu) in enumerate(items_)) + "]"
        cases.append((inp, E.lst([str(i) for i in ids], "nat"), dict(stream="filter", items=items_, impl=ids)))
    ctx.streams.append("filter")
    core.corr_run(ctx, "filter", PRE, "run_filter", "list_eqb Nat.eqb", cases, shard=1500, ty="list fc * list nat")

    # ---- find stream: document order and non-overlap of extraction results; two-step flow
    from eyecite import get_citations
    from eyecite.find import extract_reference_citations
    from eyecite.models import Document, FullCaseCitation, ReferenceCitation

    docs = ["A v. B, 550 U.S. at 556, 127 S.Ct. 1955", "Foo v. Bar, 1 U.S. 1, 2 S. Ct. 2 (1999). Bar at 5. Id. at 6.",
            "See Roe v. Wade, 410 U.S. 113, 120; Doe v. Bolton, 410 U.S. 179. Roe at 121; Doe at 180."]
    for _ in range(1500 if th else 150):
        docs.append(textgen.document(rng, n_events=rng.choice([3, 5, 8]), pool=rng.choice([None, ["U.S.", "S. Ct.", "F.3d", "L. Ed. 2d"]])))
    # chained numbers: the page of one citation is at the same time the volume of the next one (candidates that
    # overlap in one number), with nominative and ordinary reporters on either side
    docs += ["See 2 Cooke, 93 Wn. App. 526, 529 (1999).", "1 Thompson 394 U. S. 618", "In re Cooke, 93 Wn. App. 526"]
    # D24: a reference to an earlier case that runs into the volume of the next citation, with another citation
    # (section mark, id.) inside the full span of that next citation in between
    docs += ["Foo, 1 Unemployment Ins. Rep. at 1234.56, 2 U.S. 3 (1801).", "85 FERC at 61,012 86 FERC 61,345",
             "Foo, 85 FERC at 61,012, 86 FERC 61,345", "Bar, 1 U.S. at 5-6 2 U.S. 3"]
    docs += ["Foo v. Smith, 5 U.S. 5 (1999). Bar v. Baz, § 3, Smith at 1 U.S. 1 (2000).",
             "Foo v. Smith, 5 U.S. 5 (1999). See Bar v. Baz, Id. Smith at 1 U.S. 1 (2000)."]
    for _ in range(200 if th else 30):
        a, b, c_, d_ = rng.sample(textgen.NAMES, 4)
        mid = rng.choice(["§ 3, ", "Id. ", "id. at 4, ", "§§ 3-4; ", "", "42 U.S.C. § 1983, "])
        ref = rng.choice([a, b])
        docs.append(f"{a} v. {b}, {rng.choice([5, 12])} U.S. {rng.choice([5, 99])} (1999). {rng.choice(['', 'See '])}{c_} v. {d_}, {mid}"
                    f"{ref} at {rng.choice([1, 12])} {rng.choice(['U.S.', 'F.3d', 'S. Ct.'])} {rng.choice([1, 45])} (2000).")
    for _ in range(300 if th else 40):
        r1 = rng.choice(textgen.NOMINATIVE + ["U.S.", "F.2d", "Mass."])
        r2 = rng.choice(["U. S.", "Wn. App.", "F.3d", "S. Ct."] + textgen.NOMINATIVE)
        mid = rng.choice([3, 12, 93, 394])
        lead = rng.choice(["See ", "", "In re ", f"{rng.choice(textgen.NAMES)} v. "])
        v1 = rng.choice(["", "2 ", "12 ", "347 "])
        docs.append(f"{lead}{v1}{r1}{rng.choice([',', ''])} {mid} {r2} {rng.choice([5, 526])}{rng.choice(['', ', 529 (1999).', '.'])}")
    for d in docs:
        try:
            cs = get_citations(d)
        except Exception:  # noqa
            ctx.count("get_citations raised (left to C04)")
            continue
        nt = len(cs) >= 2
        ctx.case("find", d, nt, dict(text=d, spans=[c.span() for c in cs]) if nt and len(ctx.samples) < 9 else None)
        ctx.count("document")
        sp = [c.span() for c in cs]
        for a, b in zip(sp, sp[1:]):
            if not (a[0] < b[0] or (a[0] == b[0] and a[1] < b[1])):
                ctx.violation(None, "C03: citations are not returned in increasing order of position", dict(stream="find", text=d, spans=sp))
                break
            if b[0] < a[1]:
                ctx.violation(None, "C03: two returned citations have overlapping spans", dict(stream="find", text=d, spans=sp))
                break
        # documented two-step flow with resolved case names
        fulls = [c for c in cs if isinstance(c, FullCaseCitation)]
        if fulls:
            doc = Document(plain_text=d)
            extra = []
            for f in fulls[:3]:
                f.metadata.resolved_case_name_short = f.metadata.resolved_case_name_short or (f.metadata.defendant or "Zed")
                extra += extract_reference_citations(f, doc)
            merged = filter_citations(list(cs) + extra)
            again = filter_citations(list(merged))
            ctx.count("two-step merge")
            for c in cs:
                if not isinstance(c, ReferenceCitation) and all(x.span() != c.span() for x in extra) and not any(c is m for m in merged):
                    ctx.violation(None, "C03: two-step merge dropped a non-reference citation", dict(stream="find-merge", text=d))
            msp = [c.span() for c in merged]
            if any(not a < b for a, b in zip(msp, msp[1:])):
                ctx.violation(None, "C03: merged result is not in document order", dict(stream="find-merge", text=d, spans=msp))
            if [id(c) for c in again] != [id(c) for c in merged]:
                ctx.violation(None, "C03: filtering the merged result again changes it", dict(stream="find-merge", text=d))
    ctx.streams.append("find")
