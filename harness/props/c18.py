"""C18 -- year and edition guesses are sound; disambiguation only removes."""
import datetime

from harness import pipe_corr as P
from harness import pipe_stream

LEVEL_TEXT = (
    "proof: for every text/token stream/regex behaviour, every citation returned by the model has a numeric year only "
    "if 1600 <= year <= highest and it is get_year of the textual year; a guessed edition is one of the candidates "
    "(exact if any, else variations), a single candidate is always guessed, several candidates need a year and the "
    "guess is the only candidate publishing then (Model/Editions.v lemmas, for every value of the current year); "
    "remove_ambiguous=True is exactly the default result filtered (Proofs/PipeYear.v, Proofs/EditionsProofs.v). "
    "Tied to the code by field-by-field correspondence (year, edition guess) on generated documents with years on "
    "both sides of every boundary."
)
RULE = (
    "find: corpus + seeded documents with years 1599/1600/1601/.../next year/next year+1/2100 in every position "
    "(after the citation, California style before it, with court, in brackets) and reporter strings with one, several "
    "and no year-compatible edition; each document also run with remove_ambiguous=True (30% sampled; corpus always). "
    "Non-trivial = at least two citations; distinct by document text."
)
ASSUMPTIONS = [
    "year strings are the \\d{4} captures of the metadata patterns (int() of other numerals is not modelled)",
    "datetime.now().year and date.today().year enter as parameters; theorems hold for every value",
]


def mon(text, run, run_ra):
    import datetime
    if run_ra is None or run_ra["out"][0] != "ok":
        cs_ra = None
    else:
        cs_ra = run_ra["out"][1]
    cs = run["out"][1]
    bad = P.monitor_years(cs, cs_ra if cs_ra is not None else [c for c in cs if not hasattr(c, "edition_guess") or c.edition_guess], datetime.date.today().year + 1)   # 'next year', from the property text, not from the module
    return ("joke-cite" if text == "eyecite" else None, bad) if bad else None


def run(ctx):
    th = ctx.tier == "thorough"
    pipe_stream.run(ctx, [("C18", mon)], 1200 if th else 120, n_ra=1.0, n_boundary=1500 if th else 160)
