"""C15 -- extraction is a pure function of its input."""
import json
import os
import subprocess
import threading

from harness import core, textgen
from harness import c15_worker as W

LEVEL_TEXT = (
    "proof (partial): every source of order- and history-dependence in the modelled code is made explicit and "
    "quantified over: the Aho-Corasick selection returns the same list whatever order/multiplicity hits are reported "
    "in; the token stream depends on the candidate order only through the relative order of candidates covering the "
    "same characters (stable sort), hence not at all when no two candidates tie; edition de-duplication is "
    "order-preserving; memoisation cells are transparent sequentially and under EVERY interleaving of any number of "
    "threads (Props/C15.v). Real CPython thread schedules and hash randomisation are runtime facts covered by the "
    "multi-seed / multi-thread / history stream only."
)
RULE = (
    "runtime: texts (emphasis on two patterns matching the same characters: 'supra,§,', '1 CCH Unemployment Ins. Rep. 1', "
    "generated documents with colliding reporters) are extracted in fresh subprocesses under 8 (quick) / 32 (thorough) "
    "PYTHONHASHSEED values, twice in-process, from 8 threads sharing default_tokenizer, and interleaved with unrelated "
    "texts; the canonical serialisations (kinds, spans, groups, metadata, candidate editions in order, guess, value "
    "hashes) must be identical. Non-trivial = the text yields a citation; distinct by (text, options)."
)
ASSUMPTIONS = [
    "re.compile / database construction are pure functions of the pattern (the value cached in a memo cell)",
    "real thread schedules inside C extensions and CPython's hash randomisation are sampled, not proved",
]


def run(ctx):
    from eyecite import get_citations

    rng = ctx.rng
    th = ctx.tier == "thorough"
    texts = ["supra,§,", "1 CCH Unemployment Ins. Rep. 1", "Foo v. Bar, 1 U.S. 1 (1999). Id. at 5.", "1 U. S. 1; 1 U.S. 1; 1 Wall. 1",
             "See § 5 supra, at 3.", "id.,§", "Id. supra", "1 F. 2", "2 Cranch 1", "1 Tex. 1, 2 (1999)", "eyecite",
             "Shapiro v. Thompson, 394 U. S. 618", "1 A. 2d 3; 1 A.2d 3", "1 Mass. App. Ct. 1; 1 Mass. 1",
             # several candidate editions (their order must not depend on the hash seed), two sharing a short name
             "1 Allen 1; 1 B.R. 1; 1 Col. 1; 1 Bailey 1", "1 Rutgers Race & L. Rev. 1", "5 S.W.2d 10; 1 Wash. 1; 1 Dall. 1"]
    for _ in range(120 if th else 30):
        texts.append(textgen.document(rng, hostile=rng.random() < 0.2))
    # court parentheticals: a full court string followed (in a later text) by a proper prefix of it, so that any
    # state kept between calls by the court lookup would show
    try:
        from courts_db import courts
        cs_ = [c["citation_string"] for c in courts if c.get("citation_string") and " " in c["citation_string"]]
        for full in (rng.sample(cs_, 40 if th else 10) + ["N.J. Super. App. Div.", "Bankr. S.D."]):
            words = full.split(" ")
            texts.append(f"Foo v. Bar, 1 U.S. 1 ({full} 1953).")
            texts.append(f"Baz v. Qux, 2 U.S. 2 ({' '.join(words[:rng.randrange(1, len(words))])} 1946).")
    except Exception:  # noqa
        pass
    jobs = [dict(text=t, ra=False) for t in texts] + [dict(text=t, ra=True) for t in texts[:10]]
    os.makedirs(os.path.join(core.WORK, "c15"), exist_ok=True)
    jf = os.path.join(core.WORK, "c15", f"jobs_{os.getpid()}.json")
    json.dump(jobs, open(jf, "w"))

    # in-process reference (this process runs with PYTHONHASHSEED fixed by ./check)
    def local(job):
        try:
            return json.dumps(dict(ok=W.serialise(get_citations(job["text"], remove_ambiguous=job["ra"]))), sort_keys=True, ensure_ascii=True)
        except Exception as e:  # noqa
            return json.dumps(dict(err=type(e).__name__))

    base = [local(j) for j in jobs]
    for j, b in zip(jobs, base):
        nt = '"ok": [{' in b
        ctx.case("runtime", (j["text"], j["ra"]), nt, dict(text=j["text"], ra=j["ra"]) if nt and len(ctx.samples) < 6 else None)

    def diff(kind, j, a, b):
        ctx.violation(None, f"extraction result differs {kind}", dict(stream="runtime", text=j["text"], remove_ambiguous=j["ra"],
                                                                        kind=kind, first=a[:600], second=b[:600]))

    # repeated calls and history independence
    again = [local(j) for j in reversed(jobs)][::-1]
    for j, a, b in zip(jobs, base, again):
        ctx.count("repeat call")
        if a != b:
            diff("between two calls in one process (different call history)", j, a, b)
    # earlier results are not modified by later calls
    keep = get_citations(texts[2])
    before = json.dumps(W.serialise(keep), sort_keys=True)
    for t in texts[:8]:
        get_citations(t)
    if json.dumps(W.serialise(keep), sort_keys=True) != before:
        ctx.violation(None, "a result returned earlier was modified by later calls", dict(stream="runtime", text=texts[2]))
    # the arguments are not modified: option lists (with and without the html step, with plain and with markup text)
    import copy as _copy
    for steps0, kw in ([["all_whitespace"], dict(markup_text="<p>See <i>Foo</i> v. <i>Bar</i>, 1 U.S. 1. <i>Bar</i> at 5.</p>")],
                       [["html", "all_whitespace"], dict(markup_text="<p>See <i>Foo</i> v. <i>Bar</i>, 1 U.S. 1.</p>")],
                       [["all_whitespace", "underscores"], dict(plain_text="See  Foo v. Bar, 1 U.S. __ .")],
                       [[], dict(plain_text="1 U.S. 1")]):
        steps = _copy.copy(steps0)
        try:
            get_citations(clean_steps=steps, **kw)
        except Exception:  # noqa
            pass            # a raise is C04's subject; the arguments must be intact either way
        ctx.count("argument immutability call")
        if steps != steps0:
            ctx.violation(None, f"get_citations modified the clean_steps list it was given: {steps0} -> {steps}",
                          dict(stream="runtime", clean_steps=steps0, after=steps, kwargs={k: v for k, v in kw.items()}))
    # threads sharing the default tokenizer
    results = {}

    def worker(k):
        results[k] = [local(j) for j in jobs[:: (1 if th else 2)]]

    ths = [threading.Thread(target=worker, args=(k,)) for k in range(8)]
    for t in ths:
        t.start()
    for t in ths:
        t.join()
    sub = jobs[:: (1 if th else 2)]
    bsub = base[:: (1 if th else 2)]
    for k, res in results.items():
        for j, a, b in zip(sub, bsub, res):
            ctx.count("threaded call")
            if a != b:
                diff(f"in thread {k} of 8 sharing the default tokenizer", j, a, b)
    # every text alone in its own fresh process (no history at all) vs the in-process result with history
    iso = list(range(len(texts)))[- (90 if th else 26):] + list(range(0, min(len(texts), 8)))
    iso_procs = []
    for k in iso:
        f1 = os.path.join(core.WORK, "c15", f"iso_{os.getpid()}_{k}.json")
        json.dump([jobs[k]], open(f1, "w"))
        iso_procs.append((k, f1, subprocess.Popen([core.PY, "-m", "harness.c15_worker", f1], cwd=core.VERIF, env=core.env_for_python(),
                                                   stdout=subprocess.PIPE, stderr=subprocess.DEVNULL, text=True)))
        if len(iso_procs) % 16 == 0:
            for _, _, p_ in iso_procs[-16:]:
                p_.wait()
    for k, f1, p_ in iso_procs:
        out, _ = p_.communicate(timeout=600)
        ctx.count("isolated fresh-process call")
        line = out.strip().split("\n")[-1] if out.strip() else ""
        if line != base[k]:
            diff("between a fresh process that saw only this text and a process that processed other texts before", jobs[k], line, base[k])
        try:
            os.remove(f1)
        except OSError:
            pass
    # cold start: the first calls of a fresh process come from several threads at once (lazy initialisation
    # of anything shared by the default tokenizer would show here and nowhere else)
    cold_jobs = [k for k in range(len(jobs)) if '"ok": [{' in base[k]][:4]
    if cold_jobs:
        fc = os.path.join(core.WORK, "c15", f"cold_{os.getpid()}.json")
        json.dump([jobs[k] for k in cold_jobs], open(fc, "w"))
        cps = [subprocess.Popen([core.PY, "-m", "harness.c15_worker", fc, f"--threads={nthreads}"], cwd=core.VERIF,
                                env=core.env_for_python(), stdout=subprocess.PIPE, stderr=subprocess.DEVNULL, text=True)
               for nthreads in ([2, 4, 4, 8] * (3 if th else 1))]
        for p_ in cps:
            out, _ = p_.communicate(timeout=900)
            per = {}
            for line in out.strip().split("\n"):
                if "\t" in line:
                    k_, v_ = line.split("\t", 1)
                    per.setdefault(k_, []).append(v_)
            if not per:
                ctx.divergences.append(("harness", "cold-start thread worker printed nothing", None))
            for k_, lines in per.items():
                for jk, line in zip(cold_jobs, lines):
                    ctx.count("cold-start threaded call (first calls of a fresh process)")
                    if line != base[jk]:
                        diff(f"when the first calls of a fresh process come from concurrent threads (thread {k_})", jobs[jk], line, base[jk])
        try:
            os.remove(fc)
        except OSError:
            pass
    # fresh processes under different hash seeds
    seeds = list(range(1, 33 if th else 9))
    procs = []
    for s in seeds:
        env = core.env_for_python()
        env["PYTHONHASHSEED"] = str(s)
        procs.append((s, subprocess.Popen([core.PY, "-m", "harness.c15_worker", jf], cwd=core.VERIF, env=env,
                                          stdout=subprocess.PIPE, stderr=subprocess.DEVNULL, text=True)))
    for s, p in procs:
        out, _ = p.communicate(timeout=1200)
        lines = out.strip().split("\n")
        if len(lines) != len(jobs):
            ctx.divergences.append(("runtime", f"worker with PYTHONHASHSEED={s} produced {len(lines)} results for {len(jobs)} jobs", None))
            continue
        for j, a, b in zip(jobs, base, lines):
            ctx.count("fresh-process call")
            if a != b:
                diff(f"under PYTHONHASHSEED={s} (fresh process)", j, a, b)
    ctx.exhaustive[f"runtime: {len(jobs)} jobs x {len(seeds)} hash seeds"] = len(jobs) * len(seeds)
    try:
        os.remove(jf)
    except OSError:
        pass
    ctx.streams.append("runtime")
