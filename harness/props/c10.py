"""C10 -- annotations enclose exactly the cited characters, in order."""
import itertools

from harness import annot_corr as AC
from harness import coqemit as E
from harness import core

LEVEL_TEXT = (
    "proof: (a) without a source, an annotation not overlapping an earlier one appears exactly as "
    "before+text[s:e]+after at its position; (b) for ANY diff script accounting for both texts the offset translation "
    "is total (non-empty plain text), in range, monotone, and bisect_left <= bisect_right; (c) for insert-only scripts "
    "(forced alignment) a span's start maps to its first plain character's source position and its end to one past "
    "its last (Props/C10.v). That both diff engines return insert-only scripts on forced-alignment pairs is validated "
    "on every generated pair, not proved."
)
RULE = (
    "updater: all offsets of every (a, b) pair from: 'abcd' with <=2 insertions of foreign strings (forced alignment, "
    "both engines), single deletions/replacements, generated plain/source pairs; annotate: single spans and pairs over "
    "'abcd' x forced sources (mode unchecked) with the exact-enclosure monitor. Non-trivial = source differs from "
    "plain; distinct by the configuration."
)
ASSUMPTIONS = [
    "both diff engines return an insert-only script when the source is the plain text plus inserted foreign characters "
    "(checked on every forced-alignment pair of the run)",
    "bisect on the sorted offsets = number of leading offsets <= x / < x",
    "an empty before-text has no offsets to translate (SpanUpdater('', b).update raises IndexError): excluded by hypothesis 0 < la",
]


def run(ctx):
    th = ctx.tier == "thorough"
    rng = ctx.rng
    plain = "abcd"
    inserts = ["<i>", "</i>", " ", "\n", "<p>"]
    forced = AC.forced_sources(plain, inserts, 2)
    if not th:
        forced = AC.forced_sources(plain, inserts, 1) + rng.sample(forced, 60)
    # ---- updater stream: monotone / in range / model correspondence, both engines
    pairs = [(plain, s) for s, _ in forced]
    pairs += [(plain, plain[:i] + plain[i + 1:]) for i in range(4)] + [(plain, plain[:i] + "X" + plain[i + 1:]) for i in range(4)]
    pairs += [("ab", "a<i>b"), ("abcd xyz", "abcd"), ("a", ""), ("foo bar", "foo baz bar"), ("12 34 56", "12 78 34")]
    for _ in range(2000 if th else 250):
        pairs.append(AC.gen_pair(rng))
    # one text repeats a passage the other has only once (common head and tail overlap), in both directions
    pairs += [("1 U.S. 1; 1 U.S. 1", "1 U.S. 1"), ("abab", "ab"), ("Id. at 2. Id. at 2.", "Id. at 2."), ("ab", "abab"), ("aaa", "a"), ("a", "aaa")]
    for _ in range(300 if th else 40):
        x = " ".join(rng.choice(["Id.", "at", "2", "1", "U.S.", "see", "x"]) for _ in range(rng.choice([1, 2, 3])))
        sep = rng.choice(["; ", " ", ". ", "<i>", ""])
        rep = sep.join([x] * rng.choice([2, 3]))
        part = rng.choice([x, x + sep, sep + x, x[: max(1, len(x) // 2)], rep[: len(rep) - 1]])
        pairs.append((rep, part) if rng.random() < 0.6 else (part, rep))
    ucases = []
    for a, b in pairs:
        for dmp in (True, False):
            bad = AC.monitor_updater(a, b, dmp)
            ctx.case("updater", (a, b, dmp), a != b, dict(before=a, after=b, engine="dmp" if dmp else "difflib") if len(ctx.samples) < 3 else None)
            ctx.count("updater pair " + ("dmp" if dmp else "difflib"))
            if bad:
                ctx.violation(None, "C10: " + bad, dict(stream="updater", before=a, after=b, use_dmp=dmp))
            if a == "" or a == b:
                continue
            steps = AC.diff_steps(a, b, dmp)
            if not AC.steps_wf(steps, a, b):
                ctx.count("diff engine returned a script violating diff_wf")
                ctx.divergences.append(("diff-contract", f"get_diff_steps{'' if dmp else '_builtin'} returned a script that does not account "
                                        f"for both texts (premise steps_ok of the C10 theorems): {steps!r}",
                                        dict(stream="updater", before=a, after=b, use_dmp=dmp)))
                continue
            from bisect import bisect_left, bisect_right
            from eyecite.annotate import SpanUpdater
            u = SpanUpdater(a, b, use_dmp=dmp)
            xs = list(range(len(a) + 1))
            exp = "[" + "; ".join(f"(Ok {E.z(u.update(x, bisect_left))}, Ok {E.z(u.update(x, bisect_right))})" for x in xs) + "]"
            inp = f"({AC.steps_term(steps)}, [" + "; ".join(E.z(x) for x in xs) + "])"
            ucases.append((inp, exp, dict(stream="updater", before=a, after=b, use_dmp=dmp, steps=steps)))
    # engine assumption: forced pairs give insert-only scripts
    for s, pos in forced:
        for dmp in (True, False):
            st = AC.diff_steps(plain, s, dmp)
            if any(o == "-" for o, _ in st):
                ctx.notes.append(f"engine {'dmp' if dmp else 'difflib'} returned a non-insert-only script on a forced-alignment pair {s!r}")
                ctx.count("forced pair with deletions (engine assumption violated)")
    ctx.streams.append("updater")
    core.corr_run(ctx, "updater", AC.PRE, "run_update", "upd_eqb", ucases, shard=400,
                  ty="(steps * list Z) * list (result Z * result Z)")

    # ---- annotate stream with exact-placement monitors
    spans = AC.all_spans(4)
    span_sets = [[s] for s in spans] + [[a, b] for a in spans for b in spans]
    cfgs = [dict(plain="ab", spans=[(0, 0)], source="a<i>b", mode="unchecked", dmp=True, pos=[0, 4])]
    for ss in span_sets:
        cfgs.append(dict(plain=plain, spans=ss, source=None, mode="unchecked", dmp=True, pos=None))
    for s, pos in forced:
        for ss in span_sets:
            if len(ss) == 2 and rng.random() < (0.0 if th else 0.8):
                continue
            cfgs.append(dict(plain=plain, spans=ss, source=s, mode="unchecked", dmp=rng.random() < 0.7, pos=pos))
    ctx.exhaustive["annotate-exact: forced sources(%d) x span sets over 'abcd'" % len(forced)] = len(cfgs)

    # long texts with recurring lines (the line-mode heuristics of the diff library must not be used:
    # the diff has to stay minimal), inserted material foreign to the plain alphabet
    lines = ["it is so ordered by the court.", "see 1 u.s. 1 at 5.", "the judgment is affirmed.", "id. at 7.", ""]
    for _ in range(200 if th else 30):
        plain_l = "\n".join(rng.choice(lines) for _ in range(rng.choice([6, 9, 14])))
        src, pos = "", []
        for ch in plain_l:
            if rng.random() < 0.04:
                src += rng.choice(["<I>", "</I>", "<P>", "\t", "\r"])
            pos.append(len(src))
            src += ch
        if len(plain_l) < 120 or src == plain_l:
            continue
        sp = []
        for _ in range(rng.choice([1, 2, 3])):
            a = rng.randrange(len(plain_l))
            sp.append((a, min(len(plain_l), a + rng.choice([3, 8, 20]))))
        cfgs.append(dict(plain=plain_l, spans=sp, source=src, mode="unchecked", dmp=True, pos=pos))

    def mon(cf, annots, out):
        if cf["source"] is None:
            return AC.monitor_exact_plain(cf["plain"], annots, out)
        st = AC.diff_steps(cf["plain"], cf["source"], cf["dmp"])
        return AC.monitor_forced(cf["plain"], cf["source"], cf["pos"], annots, out)

    # known finding: difflib's longest-block heuristic is not a minimal diff, so with use_dmp=False an
    # annotation can enclose the wrong characters even for insertion-only sources
    cfgs.append(dict(plain="abab", spans=[(0, 2)], source="aZbZab", mode="unchecked", dmp=False, pos=[0, 2, 4, 5]))
    cases = AC.run_cases(ctx, cfgs, [("C10", mon)], shape_of=lambda cf: "difflib-non-minimal-diff" if (
        not cf["dmp"] and cf["source"] and any(o == "-" for o, _ in AC.diff_steps(cf["plain"], cf["source"], False))) else None)
    ctx.streams.append("annotate-exact")
    core.corr_run(ctx, "annotx", AC.PRE, "run_annot", "rstr_eqb", cases, shard=800,
                  ty="(list (str * bool) * str * list annot * option str * steps * mode) * result str")
