"""C05 -- unambiguous references are grouped with the case they refer to."""
import itertools

from harness import core, tokutil
from harness import resolve_corr as R

LEVEL_TEXT = (
    "proof: for EVERY scenario (distinct cases with distinct (volume, reporter, page) keys and party names that do "
    "not occur in each other, any interleaving of full / short / supra / reference / id. / other events after the "
    "full citation of their case, any pin cites) the model of resolve_citations applied to the rendered citation "
    "list yields exactly one resource per cited case, attaches every reference to the case the author intended "
    "whenever the intended target is defined (unique reporter+volume or antecedent name; id. after a resolved "
    "citation with a plausible pin), and attaches the others to nothing (Props/C05.v). Partial: that extraction turns "
    "the written document into the rendered list is C01 (stream): scenario documents are extracted and resolved end "
    "to end and compared with the intended grouping."
)
RULE = (
    "scenario: all event sequences of length <= 3 after the full citations of 1-2 cases (exhaustive in quick for 2 "
    "cases with colliding reporter+volume; more in thorough) plus sampled scenarios with 1-4 cases and up to 10 events, "
    "written as running text, extracted with get_citations and resolved; the grouping is compared with the intended "
    "one computed by the generator, and the extracted list is fed to the model. Non-trivial = at least one non-full "
    "event; distinct by the scenario."
)
ASSUMPTIONS = [
    "extraction produces, for each written event, the citation the scenario model renders (C01; checked per document: "
    "documents where the number or kinds of extracted citations differ are counted and left to C01)",
    "hash_sha256 o json.dumps injective; strip_punct(antecedent) as computed by the implementation",
]

NAMES = ["Alvarez", "Benedetti", "Cromwell", "Dunleavy", "Esposito", "Farnsworth", "Grimaldi", "Hollister", "Iverson",
         "Jablonski", "Kowalczyk", "Lindqvist", "Montgomery", "Nakamura", "Oyelaran", "Pemberton",
         # names with inner punctuation: the antecedent pattern captures only part of them
         "O'Brien", "D'Amato", "Fitz-Hugh", "MacDonald"]
REPS = ["U.S.", "F.3d", "F.2d", "P.2d", "N.E.2d", "A.2d"]
FILLERS = ["The court held otherwise", "We disagree", "That argument fails", "This is settled", "Nothing suggests otherwise"]


def gen_cases(rng, k, collide):
    names = rng.sample(NAMES, 2 * k)
    cases = []
    for i in range(k):
        if collide and i > 0 and rng.random() < 0.7:
            vol, rep = cases[0]["vol"], cases[0]["rep"]
        else:
            vol, rep = rng.choice([1, 12, 300, 410]), rng.choice(REPS)
        page = rng.choice([1, 50, 113, 900]) + 7 * i
        cases.append(dict(vol=vol, rep=rep, page=page, pl=names[2 * i], df=names[2 * i + 1]))
    # distinct keys
    keys = {(c["vol"], c["rep"], c["page"]) for c in cases}
    if len(keys) != len(cases):
        return gen_cases(rng, k, collide)
    return cases


def write_event(cases, e):
    kind = e[0]
    if kind == "full":
        c = cases[e[1]]
        return f"{c['pl']} v. {c['df']}, {c['vol']} {c['rep']} {c['page']} (1999)"
    if kind == "short":
        c = cases[e[1]]
        return (f"{c['df']}, " if e[2] else "") + f"{c['vol']} {c['rep']} at {e[3]}"
    if kind == "supra":
        return f"{cases[e[1]]['df']}, supra"
    if kind == "ref":
        return f"{cases[e[1]]['df']} at {e[2]}"
    if kind == "id":
        return "Id." if e[1] is None else f"Id. at {e[1]}"
    if kind == "other":
        return "§ 12"
    raise ValueError(kind)


KIND_CLASS = {"full": "FullCaseCitation", "short": "ShortCaseCitation", "supra": "SupraCitation", "ref": "ReferenceCitation",
              "id": "IdCitation", "other": "UnknownCitation"}


def intended(cases, events, mx):
    prev = None
    cited = set()
    out = []
    for e in events:
        t = None
        if e[0] == "full":
            t = e[1]
            cited.add(e[1])
        elif e[0] == "short":
            c = cases[e[1]]
            uniq = all(j == e[1] or (cases[j]["vol"], cases[j]["rep"]) != (c["vol"], c["rep"]) for j in cited)
            t = e[1] if (e[2] or uniq) else None
        elif e[0] in ("supra", "ref"):
            t = e[1]
        elif e[0] == "id":
            if prev is not None:
                pg = cases[prev]["page"]
                if e[1] is None or pg <= e[1] <= pg + mx:
                    t = prev
        out.append(t)
        prev = t
    return out


def gen_events(rng, cases, n):
    evs = []
    cited = []
    for _ in range(n):
        r = rng.random()
        if not cited or r < 0.25:
            i = rng.randrange(len(cases))
            evs.append(("full", i))
            if i not in cited:
                cited.append(i)
            continue
        i = rng.choice(cited)
        pg = cases[i]["page"]
        if r < 0.45:
            evs.append(("short", i, rng.random() < 0.5, pg + rng.choice([0, 3, 40])))
        elif r < 0.6:
            evs.append(("supra", i))
        elif r < 0.7:
            evs.append(("ref", i, pg + rng.choice([1, 9])))
        elif r < 0.95:
            evs.append(("id", rng.choice([None, pg + 2, pg + 100, pg + 5000, max(pg - 1, 0), pg])))
        else:
            evs.append(("other",))
    return evs


def small_scenarios(rng, max_len):
    """all event sequences up to max_len after the full citations of two colliding cases"""
    cases = [dict(vol=1, rep="U.S.", page=10, pl="Alvarez", df="Benedetti"), dict(vol=1, rep="U.S.", page=300, pl="Cromwell", df="Dunleavy")]
    alphabet = [("short", 0, False, 12), ("short", 0, True, 12), ("short", 1, True, 305), ("supra", 0), ("supra", 1), ("ref", 0, 14),
                ("id", None), ("id", 11), ("id", 5000), ("other",), ("full", 0)]
    out = []
    for L in range(0, max_len + 1):
        for t in itertools.product(alphabet, repeat=L):
            out.append((cases, [("full", 0), ("full", 1)] + list(t)))
    return out


def run(ctx):
    from eyecite import get_citations, resolve_citations
    from eyecite.resolve import MAX_OPINION_PAGE_COUNT

    rng = ctx.rng
    th = ctx.tier == "thorough"
    scen = small_scenarios(rng, 3 if th else 2)
    ctx.exhaustive["scenario: all event sequences up to length %d over 11 events after two colliding cases" % (3 if th else 2)] = len(scen)
    for _ in range(3000 if th else 300):
        k = rng.choice([1, 2, 2, 3, 4])
        cases = gen_cases(rng, k, collide=rng.random() < 0.6)
        scen.append((cases, gen_events(rng, cases, rng.choice([2, 4, 6, 10]))))
    edmap = tokutil.EdMap()
    cases_model = []
    for cases, events in scen:
        parts = []
        for e in events:
            parts.append(write_event(cases, e))
            if rng.random() < 0.3:
                parts.append(rng.choice(FILLERS))
        text = " ".join(p if p.endswith(".") else p + "." for p in parts)
        try:
            cs = get_citations(text)
        except Exception as ex:  # noqa
            ctx.violation(None, f"get_citations raised {type(ex).__name__}", dict(stream="scenario", text=text))
            continue
        kinds = [type(c).__name__ for c in cs]
        want_kinds = [KIND_CLASS[e[0]] for e in events]
        nt = any(e[0] != "full" for e in events)
        if kinds != want_kinds:
            ctx.count("scenario document extracted differently from the scenario model (left to C01)")
            continue
        ctx.case("scenario", text, nt, dict(text=text, events=[list(map(str, e)) for e in events]) if nt and len(ctx.samples) < 6 else None)
        ctx.count(f"scenario with {len(cases)} cases")
        out = R.run_impl(cs)
        if out[0] != "ok":
            ctx.violation(None, f"resolve_citations raised {out[1]}", dict(stream="scenario", text=text))
            continue
        groups = out[1]
        where = {p: g for g in groups for p in g}
        want = intended(cases, events, MAX_OPINION_PAGE_COUNT)
        first_full = {}
        for n, e in enumerate(events):
            if e[0] == "full" and e[1] not in first_full:
                first_full[e[1]] = n
        if len(groups) != len(first_full):
            ctx.violation(None, f"{len(groups)} resources for {len(first_full)} distinct cases", dict(stream="scenario", text=text, groups=groups))
        for n, t in enumerate(want):
            g = where.get(n)
            if t is None:
                if g is not None:
                    ctx.violation(None, f"citation #{n} ({events[n]}) should be left out but is attached to the group of #{g[0]}",
                                  dict(stream="scenario", text=text, events=[list(map(str, e)) for e in events], groups=groups))
            else:
                if g is None or g[0] != first_full[t]:
                    ctx.violation(None, f"citation #{n} ({events[n]}) should be grouped with case {t} (first cited at #{first_full[t]}) "
                                        f"but is in {'no group' if g is None else 'the group of #%d' % g[0]}",
                                  dict(stream="scenario", text=text, events=[list(map(str, e)) for e in events], groups=groups))
        inp = "[" + "; ".join(R.cit_term(c, i, edmap) for i, c in enumerate(cs)) + "]"
        cases_model.append((inp, R.expected_term(out), dict(stream="scenario", text=text, impl=out[:2])))
    ctx.streams.append("scenario")
    core.corr_run(ctx, "scen", R.PRE, "run_resolve", "res_eqb", cases_model, shard=200, ty=("list cit", "result (list (list nat))"))
