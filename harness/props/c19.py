"""C19 -- markup mode only adds well-founded reference citations."""
import re

from harness import annot_corr as AC
from harness import coqemit as E
from harness import core, textgen

LEVEL_TEXT = (
    "proof (partial): (a) the non-reference citations accumulated by extraction do not depend on the reference oracle "
    "(cite_run_nonrefs_independent); (b) for ALL citation lists, inserting reference citations that do not share a "
    "span with a non-reference leaves the non-reference citations returned by filter_citations unchanged, in order "
    "(filter_nonrefs_insensitive); (c) the four offset translations of a markup match give "
    "0 <= full start <= start <= end <= full end <= len(cleaned text) for ANY diff script (markup_ref_offsets); "
    "(d) pin-cited references start at or after the end of their citation's span and lie inside the text (C02). "
    "NOT a theorem: that a markup reference lies after its citation and contains the name under arbitrary diff "
    "scripts, and lxml's html cleaner -- covered by the markup stream."
)
RULE = (
    "markup: generated legal text marked up with <em>/<i> around party names (with and without trailing punctuation), "
    "paragraphs, entities and whitespace variants, cleaned with ['html','all_whitespace'] / ['html','inline_whitespace']; "
    "get_citations(markup_text=...) vs get_citations(clean_text(...)); markup-ref: the four update calls on generated "
    "(markup, cleaned) pairs vs the model. Non-trivial = markup mode returns at least one reference citation; "
    "distinct by the markup document."
)
ASSUMPTIONS = [
    "lxml's html cleaner is an oracle (the harness passes its output); diff scripts satisfy diff_wf (checked)",
    "reference spans are name spans and never coincide with a token-based span (hypothesis of the filter theorem; monitored)",
]

PRE = AC.PRE + """
From EV Require Import Model.Markup.
Definition run_mref (c : steps * Z * Z * Z * Z * Z) : result (Z * Z * Z * Z) :=
  match c with (st, sm, ms, me, gs, ge) =>
    match markup_ref (mk st) sm ms me gs ge with
    | Ok r => Ok (r_full_start r, r_full_end r, r_start r, r_end r)
    | Err e => Err e
    end end.
Definition mref_eqb := result_eqb (pair_eqb (pair_eqb (pair_eqb Z.eqb Z.eqb) Z.eqb) Z.eqb).
"""


def markup_doc(rng):
    """(markup, expectation hints)"""
    names = ["Smith", "Jones", "Roe", "Wade", "Brown", "Lissner", "Katz", "Miranda", "Halper", "Nobelman"]
    if rng.random() < 0.25:
        # names the validity rule rejects (two letters, abbreviation, number, lower case, disallowed) next to valid ones
        names = names[:4] + ["Li", "Wu", "Ng", "Co.", "State", "People", "1234", "smith", "Commonwealth"]
    pl, df = rng.sample(names, 2)
    vol, rep, page = rng.choice([1, 12, 410, 550]), rng.choice(["U.S.", "F.3d", "S. Ct.", "F. Supp. 2d"]), rng.choice([1, 113, 544])
    it = rng.choice(["em", "i"])
    pieces = []
    pieces.append(rng.choice(["See ", "In ", "", "<p>In "]))
    if rng.random() < 0.7:
        pieces.append(f"<{it}>{pl} v. {df}</{it}>, {vol} {rep} {page}")
    else:
        pieces.append(f"<{it}>{pl}</{it}> v. <{it}>{df}</{it}>, {vol} {rep} {page}")
    if rng.random() < 0.7:
        pieces.append(f", {page + 3}")
    if rng.random() < 0.45:
        pieces.append(f", {vol + 100} {rng.choice(['S. Ct.', 'L. Ed. 2d', 'F.2d'])} {page + 900}")     # parallel citation
    if rng.random() < 0.7:
        pieces.append(f" ({rng.choice([1973, 1999, 2007])})")
    pieces.append(rng.choice([". ", ".\n", ".</p>\n<p>", ". &nbsp;", ".  "]))
    for _ in range(rng.choice([1, 2, 3])):
        who = rng.choice([pl, df, df, rng.choice(names)])
        form = rng.random()
        if form < 0.35:
            pieces.append(f"The court in <{it}>{who}</{it}> held otherwise")
        elif form < 0.55:
            pieces.append(f"As <{it}>{who},</{it}> makes clear")
        elif form < 0.7:
            pieces.append(f"<{it}>{who}</{it}> at {page + 5}")
        elif form < 0.85:
            pieces.append(f"{who} at {page + 7}")
        else:
            pieces.append(f"<{it}>Id.</{it}> at {page + 2}")
        pieces.append(rng.choice([". ", "; ", ".\n", ". <b>Note</b> "]))
    if rng.random() < 0.4:
        pieces.append(f"See also {rng.choice(names)} v. {rng.choice(names)}, {vol + 1} {rep} {page + 10}.")
    if pieces[0].startswith("<p>"):
        pieces.append("</p>")
    return "".join(pieces), (pl, df)


def valid_name_rule(name):
    """the name-validity rule as documented ("excludes strings like Co., numbers or lower case strs"; longer than
    two characters; not one of the disallowed generic names), written out here so that a change of
    utils.is_valid_name does not change the oracle"""
    generic = {"state", "united states", "people", "commonwealth", "mass"}
    return (isinstance(name, str) and len(name) > 2 and name[0].isupper() and not name.endswith(".")
            and not name.isdigit() and name.lower() not in generic)


def canon(c):
    return (type(c).__name__, c.span(), c.full_span(), tuple(sorted(c.groups.items())),
            tuple(sorted((k, v) for k, v in c.metadata.__dict__.items() if v is not None)))


def run(ctx):
    from bisect import bisect_left, bisect_right
    from eyecite import clean_text, get_citations
    from eyecite.annotate import SpanUpdater
    from eyecite.models import FullCaseCitation, ReferenceCitation
    from eyecite.utils import is_valid_name

    rng = ctx.rng
    th = ctx.tier == "thorough"
    docs = [("<p>In <em>Foo v. Bar</em>, 1 U.S. 1, 5 (1999), the court held. <em>Bar</em> was decided. As <i>Foo,</i> said at 7. Bar at 8.</p>", None)]
    for _ in range(1200 if th else 140):
        docs.append(markup_doc(rng))
    mcases = []
    for markup, hint in docs:
        steps = rng.choice([["html", "all_whitespace"], ["html", "inline_whitespace"], ["html"]])
        try:
            cleaned = clean_text(markup, steps)
            a = get_citations(markup_text=markup, clean_steps=steps)
            b = get_citations(cleaned)
        except Exception as e:  # noqa
            ctx.violation(None, f"markup mode raised {type(e).__name__}", dict(stream="markup", markup=markup, steps=steps))
            continue
        refs = [c for c in a if isinstance(c, ReferenceCitation)]
        nt = len(refs) >= 1
        ctx.case("markup", markup, nt, dict(markup=markup, steps=steps, references=[(c.span(), cleaned[c.span()[0]:c.span()[1]]) for c in refs])
                 if nt and len(ctx.samples) < 6 else None)
        ctx.count(f"markup document with {min(len(refs), 3)}{'+' if len(refs) >= 3 else ''} references")
        na = [canon(c) for c in a if not isinstance(c, ReferenceCitation)]
        nb = [canon(c) for c in b if not isinstance(c, ReferenceCitation)]
        if na != nb:
            ctx.violation(None, "markup mode changes the non-reference citations of the cleaned text",
                          dict(stream="markup", markup=markup, steps=steps, markup_mode=na[:6], plain_mode=nb[:6]))
        # every reference of the plain run is also returned in markup mode
        rb = {canon(c) for c in b if isinstance(c, ReferenceCitation)}
        ra = {canon(c) for c in refs}
        fulls = [c for c in a if isinstance(c, FullCaseCitation)]
        for r in refs:
            (ss, se), (fs, fe) = r.span(), r.full_span()
            if not (0 <= fs <= ss <= se <= fe <= len(cleaned)):
                ctx.violation(None, f"reference citation offsets invalid in the cleaned text: full {fs, fe} span {ss, se} len {len(cleaned)}",
                              dict(stream="markup", markup=markup, steps=steps))
                continue
            txt = re.sub(r"\s+", " ", cleaned[ss:se])
            names = []
            for f in fulls:
                if f.span()[0] < ss or f.span() == r.span():
                    for k in ReferenceCitation.name_fields:
                        v = getattr(f.metadata, k, None)
                        if v and valid_name_rule(v):
                            names.append(re.sub(r"\s+", " ", v))
            if any(f.span()[0] < ss for f in fulls) is False:
                ctx.violation(None, "a reference citation does not lie after any full case citation", dict(stream="markup", markup=markup, steps=steps, ref=(ss, se)))
            elif not any(n in txt for n in names):
                ctx.violation(None, f"reference text {txt!r} contains no valid party name of an earlier full case citation",
                              dict(stream="markup", markup=markup, steps=steps, ref=(ss, se), names=names))
        # model correspondence of the four offset translations on this (markup, cleaned) pair
        if cleaned and markup and cleaned != markup:
            st = AC.diff_steps(markup, cleaned, True)
            if AC.steps_wf(st, markup, cleaned):
                u = SpanUpdater(markup, cleaned)
                for _ in range(3):
                    sm = rng.randrange(len(markup) + 1)
                    rest = len(markup) - sm
                    ms = rng.randrange(rest + 1)
                    me = rng.randrange(ms, rest + 1)
                    gs = rng.randrange(ms, me + 1)
                    ge = rng.randrange(gs, me + 1)
                    exp = (u.update(sm + ms, bisect_left), u.update(sm + me, bisect_right), u.update(sm + gs, bisect_left), u.update(sm + ge, bisect_right))
                    if not (0 <= exp[0] <= exp[2] <= exp[3] <= exp[1] <= len(cleaned)):
                        ctx.violation(None, "translated markup match offsets are not ordered/in range", dict(stream="markup-ref", markup=markup, cleaned=cleaned, match=(sm, ms, me, gs, ge), got=exp))
                    mcases.append((f"({AC.steps_term(st)}, {sm}, {ms}, {me}, {gs}, {ge})",
                                   "(Ok (" + ", ".join(E.z(x) for x in exp) + "))", dict(stream="markup-ref", markup=markup, match=(sm, ms, me, gs, ge))))
    ctx.streams += ["markup", "markup-ref"]
    core.corr_run(ctx, "mref", PRE, "run_mref", "mref_eqb", mcases, shard=300, ty=("steps * Z * Z * Z * Z * Z", "result (Z * Z * Z * Z)"))
