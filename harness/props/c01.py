"""C01 -- standard citation forms are recognised with exact components and offsets."""
import re

from harness import core, textgen

LEVEL_TEXT = (
    "proof (partial): the '$full_cite' template family (volume reporter[,] [at] page: ~4,800 of the ~6,800 live "
    "extractors, recognised BY THE KERNEL on the regenerated patterns) is handled by a generic theorem over the "
    "declarative regex semantics: for every extractor of the family, every reporter string registered for it (checked "
    "by reflection with a verified matcher), every volume, page, optional comma and neutral context, the written form "
    "'vol REPORTER page' / 'vol REPORTER at page' is in the pattern's language with group 1 spanning exactly the "
    "written citation (Props/C01.v). NOT a theorem: that exactly one citation results (interaction of all patterns "
    "and engine priorities), the metadata clauses and the full-span clause for rich forms, and other template families "
    "-- covered by the ground-truth streams (exhaustive over database strings and example citations, sampled rich forms)."
)
RULE = (
    "examples: every example citation of reporters-db (~900) in neutral prose must yield exactly one full citation "
    "spanning it; minimal: every database string of the template family (exhaustive in thorough, sampled in quick) in "
    "the forms 'vol R page' and 'vol R at page' with generated numbers and contexts; rich: generated full-case "
    "(parties, pin, court, year, parenthetical), short, supra, id and journal forms with known components. "
    "Non-trivial = the reporter string is a variation or contains punctuation/spaces (minimal), or the form carries "
    ">= 2 optional components (rich); distinct by the written text."
)
ASSUMPTIONS = [
    "every match reported by Python's re has a derivation in the declarative semantics and vice versa for the template "
    "family (engine agreement is not proved); alternation priorities are not modelled",
    "neutral prose: no digit or letter directly before/after the citation, pin cites followed by a documented terminator",
]

NAMES = ["Alvarez", "Benedetti", "Cromwell", "Dunleavy", "Esposito", "Farnsworth", "Grimaldi", "Hollister", "Iverson",
         "Jablonski", "Kowalczyk", "Lindqvist"]
SAFE_REPS = ["U.S.", "F.3d", "F.2d", "F. Supp. 2d", "S. Ct.", "L. Ed. 2d", "N.E.2d", "P.2d", "A.2d", "So. 2d", "N.W.2d", "Cal. 4th"]
TEMPLATE_RE = re.compile(r"^\(\?:\^\|\[\^a-zA-Z0-9\]\)\(\(\?P<volume>\[1-9\]\\d\*\) \(\?P<reporter>.*\),\? (at )?\(\?P<page>")


def family_strings():
    from eyecite.tokenizers import EXTRACTORS

    out = {}
    for e in EXTRACTORS:
        if e.strings and TEMPLATE_RE.match(e.regex):
            for s in e.strings:
                if s.endswith(" at") or " at " in s:
                    continue      # the string itself contains the short-form marker: outside the written-form domain
                out.setdefault(s, set()).add(bool(e.extra.get("short")))
    return sorted(out)


def run(ctx):
    from eyecite import get_citations
    from eyecite.models import (FullCaseCitation, FullJournalCitation, FullLawCitation, IdCitation, ShortCaseCitation,
                                SupraCitation)
    from eyecite.tokenizers import EDITIONS_LOOKUP
    from reporters_db import JOURNALS, LAWS, REPORTERS

    rng = ctx.rng
    th = ctx.tier == "thorough"
    FULL = (FullCaseCitation, FullLawCitation, FullJournalCitation)

    def cites(text, kinds):
        return [c for c in get_citations(text) if isinstance(c, kinds)]

    # ---- examples of reporters-db
    n = 0
    for src, db in (("reporters", REPORTERS), ("laws", LAWS), ("journals", JOURNALS)):
        for key, cluster in db.items():
            for source in cluster:
                for ex in source.get("examples", []):
                    n += 1
                    text = f"See {ex}; and"
                    try:
                        cs = cites(text, FULL)
                    except Exception as e:  # noqa
                        ctx.violation(None, f"get_citations raised {type(e).__name__}", dict(stream="examples", text=text))
                        continue
                    ctx.case("examples", ex, True, dict(example=ex, key=key) if len(ctx.samples) < 3 else None)
                    ctx.count("example " + src)
                    end = 4 + len(ex)
                    exact = len(cs) == 1 and cs[0].span() == (4, end)
                    # statutes: trailing subsections of the example are the citation's pin cite, not part of its core
                    with_pin = (len(cs) == 1 and src == "laws" and cs[0].span()[0] == 4 and cs[0].span()[1] < end
                                and text[cs[0].span()[1]:end].strip(", ") == (cs[0].metadata.pin_cite or ""))
                    if not (exact or with_pin):
                        ctx.violation(None, f"database example {ex!r} ({key}) is not extracted as exactly one full citation spanning it",
                                      dict(stream="examples", text=text, got=[(type(c).__name__, c.span()) for c in cs]))
    ctx.exhaustive["examples: every example citation of reporters-db"] = n

    # ---- minimal forms over the template family
    from eyecite.tokenizers import EXTRACTORS
    by_string = {}
    for ex in EXTRACTORS:
        for st in ex.strings:
            by_string.setdefault(st, []).append(ex)
    fam = family_strings()
    # strings whose candidate editions include two different reporters sharing one abbreviation are always included
    def eds_of(R):
        out = set()
        for ex in by_string.get(R, []):
            out |= set(ex.extra.get("exact_editions", [])) | set(ex.extra.get("variation_editions", []))
        return out
    shared = [R for R in fam if len({e.short_name for e in eds_of(R)}) < len(eds_of(R))]
    # nominative reporters (a second, volume-less pattern matches inside the written citation: D18) always included
    from eyecite.tokenizers import NOMINATIVE_REPORTER_NAMES
    nomi = [R for R in fam if R in NOMINATIVE_REPORTER_NAMES]
    strings = fam if th else sorted(set(rng.sample(fam, 400)) | set(shared) | set(nomi))
    if th:
        ctx.exhaustive["minimal: every database string of the $full_cite family x 2 forms"] = 2 * len(fam)
    pairs = []
    for R in strings:
        # volumes of one, two and three digits for the nominative reporters (their volume-less pattern takes at
        # most two digits), one sampled volume otherwise
        for v_ in ([1, 12, 347] if R in nomi else [rng.choice([1, 2, 12, 347, 550])]):
            pairs.append((R, v_))
    for R, vol in pairs:
        page = rng.choice([1, 7, 99, 1955])
        pre = rng.choice(["See ", "", "(", "In "])
        for short in (False, True):
            core_ = f"{vol} {R} at {page}" if short else f"{vol} {R} {page}"
            text = pre + core_ + rng.choice([".", ";", ")", " and so on", ""])
            try:
                cs = cites(text, (ShortCaseCitation,) if short else FULL)
            except Exception as e:  # noqa
                ctx.violation(None, f"get_citations raised {type(e).__name__}", dict(stream="minimal", text=text))
                continue
            nt = (" " in R or "." in R)
            ctx.case("minimal", text, nt, dict(text=text) if nt and len(ctx.samples) < 6 else None)
            ctx.count("minimal short" if short else "minimal full")
            s0 = len(pre)
            good = [c for c in cs if c.span()[0] == s0]
            if len(cs) != 1 or not good:
                ctx.violation(None, f"the written form {core_!r} is not extracted as exactly one {'short' if short else 'full'} citation",
                              dict(stream="minimal", text=text, got=[(type(c).__name__, c.span(), dict(c.groups)) for c in cs]))
                continue
            c = good[0]
            want_end = s0 + len(core_)
            same_structure = c.groups.get("reporter") == R
            if not same_structure:
                # a second pattern with a different group structure (nominative reporter, trailing comma
                # variation) matches the same characters: the property only asks for the span then
                ctx.count("minimal: matched by a pattern with a different group structure")
                if c.span() != (s0, want_end):
                    ctx.violation(None, f"span of {core_!r} differs from the written citation",
                                  dict(stream="minimal", text=text, span=c.span(), groups=dict(c.groups)))
                continue
            if c.span() != (s0, want_end) or c.groups.get("volume") != str(vol) or c.groups.get("page") != str(page):
                ctx.violation(None, f"span or groups of {core_!r} differ from the written components",
                              dict(stream="minimal", text=text, span=c.span(), groups=dict(c.groups)))
            # every edition of every pattern that matches exactly these characters (same group structure)
            want = set()
            for ex in by_string.get(R, []):
                if bool(ex.extra.get("short")) != short:
                    continue
                m = ex.compiled_regex.search(text)
                if m and m.span(1) == (s0, want_end) and m.groupdict().get("reporter") == R:
                    want |= set(ex.extra.get("exact_editions", [])) | set(ex.extra.get("variation_editions", []))
            if not (want and want <= set(c.all_editions)):
                ctx.violation(None, f"an edition the written reporter {R!r} names is not among the candidate editions",
                              dict(stream="minimal", text=text))

    # ---- rich forms with ground truth
    import datetime
    this_year = datetime.date.today().year
    for _ in range(3000 if th else 300):
        pl, df = rng.sample(NAMES, 2)
        R = rng.choice(SAFE_REPS)
        vol, page = rng.choice([1, 12, 347]), rng.choice([1, 99, 1955])
        pin = rng.choice([None, str(page + 3), f"{page + 3}-{page + 5}", f"{page + 1}, {page + 9}"])
        # well-formed years: the whole accepted range 1600 .. next year, both ends included
        year = rng.choice([None, "1999", "2007", "1600", "1601", str(this_year), str(this_year + 1)])
        paren = rng.choice([None, None, "per curiam", "holding that (a) applies", "1964 amendments discussed", "2d Cir. decision below"])
        form = rng.choice(["full", "full", "short", "supra", "id", "journal", "parallel"])
        pre = rng.choice(["See ", "In ", ""])
        term = rng.choice([".", ";", ""])
        if form == "full":
            core_ = f"{vol} {R} {page}"
            text = f"{pre}{pl} v. {df}, {core_}" + (f", {pin}" if pin else "") + (f" ({year})" if year else "") + (f" ({paren})" if paren and year else "") + term
            cs = cites(text, FULL)
            ok = len(cs) == 1
            c = cs[0] if cs else None
            s0 = text.index(core_)
            checks = []
            if c is not None:
                checks = [("span", c.span() == (s0, s0 + len(core_))), ("pin", c.metadata.pin_cite == pin),
                          ("year", c.metadata.year == year), ("numeric year", c.year == (int(year) if year else None)),
                          ("defendant", c.metadata.defendant == df),
                          ("plaintiff suffix", bool(c.metadata.plaintiff) and pl.endswith(c.metadata.plaintiff)),
                          ("parenthetical", c.metadata.parenthetical == (paren if year else None)),
                          ("full span start", c.full_span()[0] == text.index(pl) + len(pl) - len(c.metadata.plaintiff or "")),
                          ("full span end", c.full_span()[1] >= s0 + len(core_) and text[max(c.full_span()[1], 0):].strip(" .;") == "" or
                           text[c.full_span()[1]:].lstrip().startswith(tuple(".;")) or c.full_span()[1] == len(text))]
        elif form == "parallel":
            # full case citation with a parallel cite, optionally followed later by a name-pincite mention of a party
            R2 = rng.choice([x for x in SAFE_REPS if x != R] or SAFE_REPS)
            core_, core2 = f"{vol} {R} {page}", f"{vol + 1} {R2} {page + 7}"
            later = rng.choice(["", f" Later, {df} at {page + 2}.", f" See {pl} at {page + 1}, supra."])
            text = f"{pre}{pl} v. {df}, {core_}, {core2}" + (f" ({year})" if year else "") + "." + later
            cs = cites(text, FULL)
            ok = len(cs) == 2
            c = cs[1] if ok else None
            s0 = text.index(core2)
            checks = []
            if ok:
                a = cs[0]
                checks = [("first span", a.span() == (text.index(core_), text.index(core_) + len(core_))),
                          ("span", c.span() == (s0, s0 + len(core2))),
                          ("defendant of the first citation", a.metadata.defendant == df),
                          ("defendant", c.metadata.defendant == df),
                          ("plaintiff suffix", bool(c.metadata.plaintiff) and pl.endswith(c.metadata.plaintiff)),
                          ("year", c.metadata.year == year and a.metadata.year == year),
                          ("numeric year", c.year == (int(year) if year else None))]
        elif form == "short":
            p0 = str(page + 2)
            core_ = f"{vol} {R} at {p0}"
            text = f"{pre}{df}, {core_}{term}"
            cs = cites(text, (ShortCaseCitation,))
            ok = len(cs) == 1
            c = cs[0] if cs else None
            s0 = text.index(core_)
            checks = [] if c is None else [("span", c.span() == (s0, s0 + len(core_))), ("antecedent", c.metadata.antecedent_guess == df),
                                           ("page", c.groups.get("page") == p0)]
        elif form == "supra":
            p0 = pin or str(page)
            text = f"{pre}{df}, supra, at {p0}{term if term else '.'}"
            cs = cites(text, (SupraCitation,))
            ok = len(cs) == 1
            c = cs[0] if cs else None
            s0 = text.index("supra,")
            checks = [] if c is None else [("span", c.span() == (s0, text.index(p0) + len(p0))), ("antecedent", c.metadata.antecedent_guess == df),
                                           ("pin", c.metadata.pin_cite == f"at {p0}")]
        elif form == "id":
            p0 = str(page + 1)
            text = f"{pre}{pl} v. {df}, {vol} {R} {page}. Id. at {p0}{term if term else '.'}"
            cs = cites(text, (IdCitation,))
            ok = len(cs) == 1
            c = cs[0] if cs else None
            s0 = text.index("Id.")
            checks = [] if c is None else [("span", c.span() == (s0, text.rindex(p0) + len(p0))), ("pin", c.metadata.pin_cite == f"at {p0}")]
        else:
            J = rng.choice(["Minn. L. Rev.", "Harv. L. Rev.", "Yale L.J."])
            core_ = f"{vol} {J} {page}"
            text = f"{pre}{core_}" + (f", {pin}" if pin else "") + (f" ({year})" if year else "") + term
            cs = cites(text, (FullJournalCitation,))
            ok = len(cs) == 1
            c = cs[0] if cs else None
            s0 = text.index(core_)
            checks = [] if c is None else [("span", c.span() == (s0, s0 + len(core_))), ("pin", c.metadata.pin_cite == pin), ("year", c.metadata.year == year),
                                           ("numeric year", c.year == (int(year) if year else None))]
        n_opt = sum(x is not None for x in (pin, year, paren))
        ctx.case("rich", text, n_opt >= 2, dict(form=form, text=text) if n_opt >= 2 and len(ctx.samples) < 10 else None)
        ctx.count("rich " + form)
        if not ok:
            ctx.violation(None, f"rich {form} form: expected exactly one citation", dict(stream="rich", text=text, got=[type(x).__name__ for x in cs]))
            continue
        for name, good in checks:
            if not good:
                ctx.violation(None, f"rich {form} form: {name} differs from the written component", dict(stream="rich", text=text, field=name,
                              span=c.span(), full_span=c.full_span(), metadata={k: v for k, v in c.metadata.__dict__.items() if v is not None}))
                break
    ctx.streams += ["examples", "minimal", "rich"]
