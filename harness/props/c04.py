"""C04 -- extraction, resolution and annotation never raise on any string."""
import os

from harness import core, textgen
from harness import pipe_corr as P
from harness import resolve_corr as R

LEVEL_TEXT = (
    "proof (partial): in the models, where every raising Python operation of the modelled code is an explicit Err "
    "value, extraction returns Ok for every text/token stream/regex behaviour (tokens carrying the groups their "
    "patterns guarantee), resolution returns Ok for every list of well-formed citations, annotation returns Ok for "
    "every in-range annotation set, mode, source and diff script; the Hyperscan hit filter and the tokenizer loop are "
    "total functions (Props/C04.v). Not representable in a functional model: exceptions inside C extensions (lxml, "
    "hyperscan, pyahocorasick, regex), recursion/memory limits; these are covered by the hostile-fragment stream over "
    "all 3 x 2 x 3 configurations only."
)
RULE = (
    "hostile: grammar-generated legal text spliced with hostile fragments (NBSP and other Unicode spaces, non-ASCII "
    "digits, NUL, lone brackets, lone surrogates, long digit runs, section signs glued to words) x {reference, "
    "Aho-Corasick, Hyperscan} x {plain, remove_ambiguous} -> get_citations -> resolve_citations -> annotate_citations "
    "in {unchecked, skip, wrap}; monitor: no exception escapes. The model correspondence (exceptions as a five-value "
    "enum) runs on the default tokenizer. Non-trivial = the document yields at least one citation; distinct by "
    "(tokenizer, text)."
)
ASSUMPTIONS = [
    "special tokens carry the groups their extractor patterns guarantee (page for short forms, stop_word, an edition "
    "from a known source); regex searches respect the match-object contract",
    "exceptions raised inside C extensions are outside the model (stream only)",
]

EXTRA = ["1 Minn. L. Rev. ___. Id. at 5.", "42 U.S.C. § 1983", "\ud800 1 U.S. 1", "1 U.S. 1 \udfff", "\x00", "((((", "))))",
         "1" * 2000 + " U.S. 1", "1 U.S. " + "9" * 5000 + ". Id. at 5.", "1 U.S. 5. Id. at " + "9" * 5000 + ".", "1 U.S. ² Id. at 5.", "§" * 50, "Id. " * 40, "supra " * 30, "v. " * 30, "1 U.S. ____ (", "(1999) 1 U.S. 1",
         "Foo v. Bar, 1 U.S. 1 (" + "(" * 50, "١ U.S. ١", "1 U.S. ²", "２ F.３d ４", "Id. at ²", "1 U.S. 1. Id. at ١٢",
         "\n\n\n", "a b 1 U.S. 1", "<i>1 U.S. 1</i>", "1 U.S. 1 </i>", "&amp; 1 U.S. 1 &", "eyecite"]


def run(ctx):
    from eyecite import annotate_citations, get_citations, resolve_citations
    from eyecite.tokenizers import AhocorasickTokenizer, HyperscanTokenizer, Tokenizer

    rng = ctx.rng
    th = ctx.tier == "thorough"
    cache = os.path.join(core.WORK, "hs_cache")
    os.makedirs(cache, exist_ok=True)
    toks = [("AhocorasickTokenizer", AhocorasickTokenizer()), ("HyperscanTokenizer", HyperscanTokenizer(cache_dir=cache))]
    ref = ("Tokenizer", Tokenizer())
    docs = list(EXTRA)
    for _ in range(1200 if th else 110):
        d = textgen.document(rng, hostile=True)
        for _ in range(rng.choice([0, 1, 3])):
            d = textgen.mutate(rng, d)
        docs.append(d)
    pipe_cases = []
    for k, d in enumerate(docs):
        use = toks + ([ref] if (th or k % 6 == 0 or d in EXTRA) else [])
        for name, tk in use:
            for ra in (False, True):
                stage = "get_citations"
                try:
                    cs = get_citations(d, remove_ambiguous=ra, tokenizer=tk)
                    stage = "resolve_citations"
                    res = resolve_citations(cs)
                    spans = [(c.span(), "<a>", "</a>") for c in cs]
                    for mode in ("unchecked", "skip", "wrap"):
                        stage = f"annotate_citations[{mode}]"
                        annotate_citations(d, spans, unbalanced_tags=mode)
                    ok = True
                except Exception as e:  # noqa
                    ok = False
                    ctx.violation(None, f"{stage} raised {type(e).__name__} with {name}, remove_ambiguous={ra}",
                                  dict(stream="hostile", tokenizer=name, remove_ambiguous=ra, text=d, stage=stage, error=repr(e)[:200]))
                ctx.case("hostile", (name, ra, d), ok and len(cs) >= 1, dict(tokenizer=name, text=d[:200], n=len(cs) if ok else None)
                         if ok and cs and len(ctx.samples) < 6 else None)
                ctx.count(f"{name} ra={ra}")
        # model correspondence (exception enum included) on the default tokenizer
        if k % 2 == 0 or d in EXTRA:
            run_ = P.run_document(d, False)
            bad = P.check_contract(run_["rec"])
            if bad:
                ctx.divergences.append(("search-contract", "a regex match violates the assumed span contract: " + repr(bad[0])[:300], dict(text=d)))
            inp, exp = P.case_for(d, run_, False)
            pipe_cases.append((inp, exp, dict(stream="hostile-model", text=d)))
    ctx.streams += ["hostile", "hostile-model"]
    core.corr_run(ctx, "pipe04", P.PRE, "run_pipe", "pipe_eqb", pipe_cases, shard=20, ty=P.TY)
