"""Shared by C09, C10, C11: annotate_citations / SpanUpdater vs Model/Annotate.v."""
import itertools
from bisect import bisect_left, bisect_right

from harness import coqemit as E
from harness import core

PRE = """From EV Require Import Base.Str Base.PyVal Base.Corr Model.Annotate Gen.Consts.
Open Scope Z_scope.
Definition bal_of (tbl : list (str * bool)) (s : str) : bool :=
  match find (fun p => str_eqb (fst p) s) tbl with Some p => snd p | None => true end.
Definition mka (s e : Z) (b a : str) : annot := {| a_start := s; a_end := e; a_before := b; a_after := a |}.
Definition run_annot (c : list (str * bool) * str * list annot * option str * steps * mode) : result str :=
  match c with
  | (tbl, plain, annots, source, st, md) =>
      match annotate_citations (bal_of tbl) (Z.of_N balance_tolerance) plain annots source st md with
      | Ok ps => Ok (render ps)
      | Err e => Err e
      end
  end.
Definition rstr_eqb := result_eqb str_eqb.
Definition run_update (c : steps * list Z) : list (result Z * result Z) :=
  map (fun x => (update (mk (fst c)) false x, update (mk (fst c)) true x)) (snd c).
Definition rz_eqb := result_eqb Z.eqb.
Definition upd_eqb := list_eqb (pair_eqb rz_eqb rz_eqb).
"""

OPS = {"=": "OpEq", "+": "OpIns", "-": "OpDel"}
MODES = {"unchecked": "Unchecked", "skip": "Skip", "wrap": "Wrap"}
B, A = "⟦", "⟧"      # sentinel before/after strings; never part of generated texts
# realistic markers: the characters an <a href=...> annotation carries (blank, dot, quote, hash, brackets, bar,
# dash, braces, parentheses) between sentinels that keep them unique; no backslash (stated assumption: 'wrap' mode
# passes before/after through a re.sub template)
B2, A2 = "⟦a href='x.html#p-1' class=\"c [1]|{2} (3)\"⟧", "⟦/a .⟧"
PAIRS = [(B2, A2), (B, A)]
EXN = {"AttributeError": "AttrNone", "KeyError": "KeyErr", "IndexError": "IndexErr", "ValueError": "ValueErr",
       "TypeError": "TypeErr"}


def steps_term(steps):
    return "[" + "; ".join(f"({OPS[o]}, {n}%nat)" for o, n in steps) + "]"


def diff_steps(a, b, use_dmp=True):
    from eyecite.annotate import SpanUpdater

    f = SpanUpdater.get_diff_steps if use_dmp else SpanUpdater.get_diff_steps_builtin
    return [(o, int(n)) for o, n in f(a, b)]


def steps_wf(steps, a, b):
    """the diff contract (diff_wf): amounts account for both texts and '=' segments are equal"""
    i = j = 0
    for o, n in steps:
        if n <= 0:
            return False
        if o == "=":
            if a[i:i + n] != b[j:j + n]:
                return False
            i += n
            j += n
        elif o == "+":
            j += n
        else:
            i += n
    return i == len(a) and j == len(b)


def run_annotate(plain, annots, source, mode, use_dmp):
    """-> (output or ('err', name), balance table)"""
    import eyecite.annotate as ann

    table = {}
    real = ann.is_balanced_html

    def rec(s):
        r = real(s)
        table[s] = r
        return r

    ann.is_balanced_html = rec
    try:
        out = ann.annotate_citations(plain, annots, source_text=source, unbalanced_tags=mode, use_dmp=use_dmp)
    except Exception as e:  # noqa
        out = ("err", type(e).__name__)
    finally:
        ann.is_balanced_html = real
    return out, table


def case_term(table, plain, annots, source, steps, mode):
    tbl = "[" + "; ".join(f"({E.s(k)}, {E.b(v)})" for k, v in table.items()) + "]"
    an = "[" + "; ".join(f"(mka {E.z(s)} {E.z(e)} {E.s(b)} {E.s(a)})" for (s, e), b, a in annots) + "]"
    return f"({tbl}, {E.s(plain)}, {an}, {E.opt(source, E.s)}, {steps_term(steps)}, {MODES[mode]})"


def expected_term(out):
    if isinstance(out, tuple):
        return f"(Err {EXN.get(out[1], 'TypeErr')})"
    return f"(Ok {E.s(out)})"


def strip_sentinels(s):
    for b, a in PAIRS:
        s = s.replace(b, "").replace(a, "")
    return s


# ---------------- monitors

def monitor_additive(plain, source, out):
    target = source if source else plain
    if isinstance(out, tuple):
        return f"annotate_citations raised {out[1]}"
    if strip_sentinels(out) != target:
        return "removing the inserted strings does not give the target text"
    return None


def monitor_exact_plain(text, annots, out):
    """C10 without source: each non-empty annotation not overlapping an earlier one appears exactly once as
    before+text[s:e]+after at the right place, in span order."""
    if isinstance(out, tuple):
        return None
    maxend = 0
    for (s, e), b, a in sorted(annots):
        if s < e and s >= maxend:
            want = b + text[s:e] + a
            ok = False
            i = out.find(want)
            while i != -1:
                if strip_sentinels(out[:i]) == text[:s]:
                    ok = True
                    break
                i = out.find(want, i + 1)
            if not ok:
                return f"annotation {(s, e)} does not appear as before+text[start:end]+after at its position"
        maxend = max(maxend, e)
    return None


def monitor_forced(plain, source, pos, annots, out):
    """C10 with a source obtained by inserting foreign characters; pos[i] = position of plain[i] in source."""
    if isinstance(out, tuple):
        return None
    maxend = 0
    for (s, e), b, a in sorted(annots):
        if s < e and s >= maxend:
            ps, pe = pos[s], pos[e - 1] + 1
            want = b + source[ps:pe] + a
            i = out.find(want)
            ok = False
            while i != -1:
                if strip_sentinels(out[:i]) == source[:ps]:
                    ok = True
                    break
                i = out.find(want, i + 1)
            if not ok:
                return (f"annotation {(s, e)} does not enclose exactly source[{ps}:{pe}] "
                        f"(first to last plain character of its span)")
        maxend = max(maxend, e)
    return None


def monitor_updater(a, b, use_dmp):
    """C10: translation monotone and within the source, for every offset."""
    from eyecite.annotate import SpanUpdater

    if a == "":
        return None     # no offsets exist in an empty text (D14: documented domain)
    try:
        u = SpanUpdater(a, b, use_dmp=use_dmp)
        L = [u.update(x, bisect_left) for x in range(len(a) + 1)]
        R = [u.update(x, bisect_right) for x in range(len(a) + 1)]
    except Exception as e:  # noqa
        return f"SpanUpdater raised {type(e).__name__}"
    for x in range(len(a) + 1):
        if not (0 <= L[x] <= len(b) and 0 <= R[x] <= len(b)):
            return f"offset {x} is translated outside the source"
        if x and (L[x - 1] > L[x] or R[x - 1] > R[x]):
            return f"translation is not monotone at offset {x}"
        if L[x] > R[x]:
            return f"bisect_left translation exceeds bisect_right translation at offset {x}"
    return None


# ---------------- generators

def forced_sources(plain, inserts, max_ins):
    """all sources obtained from `plain` by inserting up to max_ins foreign strings; -> (source, pos)"""
    res = []
    slots = range(len(plain) + 1)
    for k in range(0, max_ins + 1):
        for where in itertools.combinations_with_replacement(slots, k):
            for what in itertools.product(inserts, repeat=k):
                src = ""
                pos = []
                wi = 0
                for i in range(len(plain) + 1):
                    while wi < k and where[wi] == i:
                        src += what[wi]
                        wi += 1
                    if i < len(plain):
                        pos.append(len(src))
                        src += plain[i]
                res.append((src, pos))
    return res


def all_spans(n):
    return [(s, e) for s in range(n + 1) for e in range(s, n + 1)]


def gen_pair(rng):
    """a (plain, source) pair with tag insertion, whitespace changes, replacements"""
    words = ["See", "Foo", "v.", "Bar,", "1", "U.S.", "1", "(1999).", "Id.", "at", "3;", "id.", "at", "5"]
    n = rng.choice([2, 4, 6, 9])
    ws = [rng.choice(words) for _ in range(n)]
    plain = " ".join(ws)
    src = ""
    opened = []
    for i, w in enumerate(ws):
        r = rng.random()
        if r < 0.25:
            t = rng.choice(["i", "em", "b", "p"])
            src += f"<{t}>"
            opened.append(t)
        src += w
        if opened and rng.random() < 0.5:
            src += f"</{opened.pop()}>"
        if i + 1 < len(ws):
            src += rng.choice([" ", " ", "  ", "\n", " \n ", "&nbsp;", " "])
    while opened and rng.random() < 0.7:
        src += f"</{opened.pop()}>"
    if rng.random() < 0.2 and plain:
        i = rng.randrange(len(plain))
        src = src.replace(plain[i], "X", 1)
    return plain, src


def gen_spans(rng, n, k):
    out = []
    for _ in range(k):
        s = rng.randrange(n + 1)
        e = min(n, s + rng.choice([0, 1, 2, 3, 5, 8]))
        out.append((s, e))
    return out


def run_cases(ctx, configs, monitors, shape_of=None):
    """configs: list of dict(plain, spans, source, mode, dmp, pos=None).  Runs the implementation, the
    monitors, and returns correspondence cases."""
    cases = []
    for cf in configs:
        plain, spans, source, mode, dmp = cf["plain"], cf["spans"], cf["source"], cf["mode"], cf["dmp"]
        b_, a_ = PAIRS[0] if cf.get("ba") else (B, A)
        annots = [((s, e), b_, a_) for s, e in spans]
        out, table = run_annotate(plain, annots, source, mode, dmp)
        steps = []
        if source and source != plain:
            steps = diff_steps(plain, source, dmp)
            if not steps_wf(steps, plain, source):
                ctx.count("diff engine returned a script violating diff_wf")
                continue
        over = any(a[0] < b[1] and b[0] < a[1] for a, b in itertools.combinations(spans, 2))
        nt = bool(source and source != plain) or over
        ctx.case("annotate", (plain, tuple(spans), source, mode, dmp), nt,
                 dict(plain=plain, spans=spans, source=source, mode=mode, dmp=dmp, out=out)
                 if nt and len(spans) >= 2 and len(ctx.samples) < 6 else None)
        ctx.count(f"annotate mode={mode} engine={'dmp' if dmp else 'difflib'} source={'yes' if source else 'no'}")
        if cf.get("ba"):
            ctx.count("annotate with markers containing blanks, quotes, dots, brackets (href-like)")
        for name, mon in monitors:
            bad = mon(cf, annots, out)
            if bad:
                ctx.violation(shape_of(cf) if shape_of else None, f"{name}: {bad}", dict(stream="annotate", plain=plain, spans=spans, source=source,
                                                            mode=mode, use_dmp=dmp, output=out))
        desc = dict(stream="annotate", plain=plain, spans=spans, source=source, mode=mode, use_dmp=dmp, impl=out)
        cases.append((case_term(table, plain, annots, source, steps, mode), expected_term(out), desc))
    return cases
