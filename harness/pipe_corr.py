"""get_citations (plain-text mode) vs Model/Pipeline.v: recording oracle for the
regex searches, case construction, canonical comparison, and the direct
monitors for C02 / C17 / C18."""
import datetime

from harness import coqemit as E
from harness import core, tokutil

PRE = """From EV Require Import Base.Str Base.PyVal Base.Corr Model.Tokenize Model.TokenizeEq Model.Editions Model.Filter Model.Pipeline.
From EV Require Import Gen.Unicode Gen.Consts.
Open Scope Z_scope.
Definition pat_eqb (a b : pat) : bool :=
  match a, b with
  | PPostFull, PPostFull | PPreFull, PPreFull | PPostShort, PPostShort | PPostLaw, PPostLaw
  | PPostJournal, PPostJournal | PShortAnte, PShortAnte | PSupraAnte, PSupraAnte
  | PDefYear, PDefYear | PYearMatch, PYearMatch => true
  | _, _ => false
  end.
Definition missing : mres := {| m_start := 0; m_end := 0; m_groups := [([95;95;109;105;115;115]%N, None)] |}.
Definition search_of (tbl : list (pat * str * option mres)) (p : pat) (s : str) : option mres :=
  match find (fun r => pat_eqb (fst (fst r)) p && str_eqb (snd (fst r)) s) tbl with
  | Some r => snd r
  | None => Some missing
  end.
Definition names_eqb := list_eqb (pair_eqb str_eqb str_eqb).
Definition refs_of (tbl : list (list (str * str) * str * list (nat * nat * list (str * option str))))
           (names : list (str * str)) (s : str) :=
  match find (fun r => names_eqb (fst (fst r)) names && str_eqb (snd (fst r)) s) tbl with
  | Some r => snd r
  | None => [(0%nat, 0%nat, [([95;95;109;105;115;115]%N, None)])]
  end.
Definition valid_of (tbl : list (str * bool)) (s : str) : bool :=
  match find (fun r => str_eqb (fst r) s) tbl with Some r => snd r | None => false end.
Definition ed_of (tbl : list edition) (i : nat) : option edition := find (fun e => Nat.eqb (e_id e) i) tbl.
Definition src_of (tbl : list (nat * nat)) (i : nat) : nat :=
  match find (fun r => Nat.eqb (fst r) i) tbl with Some r => snd r | None => 9%nat end.
Definition is_space (c : N) : bool := in_ranges tbl_space c.
Definition mkm (s e : nat) (g : list (str * option (nat * nat))) : mres := {| m_start := s; m_end := e; m_groups := g |}.
Definition mke (i : nat) (n : str) (s e : option Z) : edition := {| e_id := i; e_name := n; e_start := s; e_end := e |}.
Definition cls_code (c : ccls) : nat :=
  match c with CFullCase => 0 | CFullLaw => 1 | CFullJournal => 2 | CShort => 3 | CSupra => 4 | CId => 5 | CUnknown => 6 | CRef => 7 end%nat.
(* canonical view of a citation: class, offsets, text fields, year, guessed edition *)
Definition canon (c : pcit) : nat * list Z * list (option str) * option Z * option nat :=
  (cls_code (p_cls c),
   [fst (span_of c); snd (span_of c); fst (full_span_of c); snd (full_span_of c);
    fst (span_with_pincite c); snd (span_with_pincite c)],
   [p_pin c; p_parenthetical c; p_year_s c; p_plaintiff c; p_defendant c; p_extra c; p_antecedent c;
    p_volume c; p_publisher c; p_month c; p_day c],
   p_year c, match p_guess c with Some e => Some (e_id e) | None => None end).
Definition canon_eqb :=
  pair_eqb (pair_eqb (pair_eqb (pair_eqb Nat.eqb (list_eqb Z.eqb)) (list_eqb ostr_eqb)) (opt_eqb Z.eqb)) (opt_eqb Nat.eqb).
Definition run_pipe (c : (list (pat * str * option mres)) *
                         (list (list (str * str) * str * list (nat * nat * list (str * option str)))) *
                         (list (str * bool)) * (list edition) * (list (nat * nat)) * Z *
                         str * list elem * list (nat * tok) * bool)
  : result (list (nat * list Z * list (option str) * option Z * option nat)) :=
  match c with
  | (stbl, rtbl, vtbl, etbl, srctbl, this_year, text, words, cits, ra) =>
      match get_citations (search_of stbl) (refs_of rtbl) (N.to_nat MAX_MATCH_CHARS) (N.to_nat BACKWARD_SEEK)
                          DT (Z.of_N highest_valid_year) this_year (ed_of etbl) (src_of srctbl)
                          (valid_of vtbl) is_space text words cits ra with
      | Ok l => Ok (map canon l)
      | Err e => Err e
      end
  end.
Definition pipe_eqb := result_eqb (list_eqb canon_eqb).
"""
TY = ("(list (pat * str * option mres)) * (list (list (str * str) * str * list (nat * nat * list (str * option str)))) * "
      "(list (str * bool)) * (list edition) * (list (nat * nat)) * Z * str * list elem * list (nat * tok) * bool",
      "result (list (nat * list Z * list (option str) * option Z * option nat))")

CLS = {"FullCaseCitation": 0, "FullLawCitation": 1, "FullJournalCitation": 2, "ShortCaseCitation": 3, "SupraCitation": 4,
       "IdCitation": 5, "UnknownCitation": 6, "ReferenceCitation": 7}
EXN = {"AttributeError": "AttrNone", "KeyError": "KeyErr", "IndexError": "IndexErr", "ValueError": "ValueErr",
       "TypeError": "TypeErr"}
SRC = {"reporters": 0, "laws": 1, "journals": 2}


def pattern_ids():
    import eyecite.regexes as R

    ids = {}
    for name, pid, fwd in [("POST_FULL_CITATION_REGEX", "PPostFull", True), ("PRE_FULL_CITATION_REGEX", "PPreFull", False),
                           ("POST_SHORT_CITATION_REGEX", "PPostShort", True), ("POST_LAW_CITATION_REGEX", "PPostLaw", True),
                           ("POST_JOURNAL_CITATION_REGEX", "PPostJournal", True),
                           ("SHORT_CITE_ANTECEDENT_REGEX", "PShortAnte", False), ("SUPRA_ANTECEDENT_REGEX", "PSupraAnte", False)]:
        rx = getattr(R, name)
        ids[rf"^(?:{rx})" if fwd else rf"(?:{rx})$"] = pid
    ids[R.DEFENDANT_YEAR_REGEX] = "PDefYear"
    ids[R.YEAR_REGEX] = "PYearMatch"
    return ids


class Recorder:
    """Stands in for the `regex` module inside eyecite.helpers, and for `re` and
    is_valid_name inside eyecite.find, while one document is processed."""

    def __init__(self):
        import eyecite.find as find
        import eyecite.helpers as helpers

        self.find, self.helpers = find, helpers
        self.real_regex = helpers.re
        self.real_re = find.re
        self.real_valid = find.is_valid_name
        self.ids = pattern_ids()
        self.searches = {}     # (pid, text) -> None | dict
        self.refs = {}         # (names tuple, text) -> list
        self.valid = {}
        self.unknown = []
        self.contract = []     # violated span contracts

    # -- regex proxy for helpers
    def _rec(self, how, pattern, text, flags):
        m = getattr(self.real_regex, how)(pattern, text, flags=flags)
        pid = self.ids.get(pattern)
        if pid is None:
            self.unknown.append(pattern[:60])
            return m
        if m is None:
            self.searches[(pid, text)] = None
        else:
            gs = {}
            for name in m.groupdict():
                a, b = m.span(name)
                gs[name] = None if a < 0 else (a, b)
            self.searches[(pid, text)] = dict(start=m.start(), end=m.end(), groups=gs)
        return m

    def __enter__(self):
        rec = self

        class RegexProxy:
            X = rec.real_regex.X

            def search(self, pattern, text, flags=0):
                return rec._rec("search", pattern, text, flags)

            def match(self, pattern, text, flags=0):
                return rec._rec("match", pattern, text, flags)

            def fullmatch(self, pattern, text, flags=0):
                return rec._rec("fullmatch", pattern, text, flags)

            def sub(self, *a, **k):
                return rec.real_regex.sub(*a, **k)

        class CompiledProxy:
            def __init__(self, pattern):
                self.p = rec.real_re.compile(pattern)
                self.names = tuple((k, None) for k in self.p.groupindex if k != "pin_cite")

            def finditer(self, text):
                ms = list(self.p.finditer(text))
                rec.pending_refs = (self.p, text, ms)
                return iter(ms)

        class ReProxy:
            def compile(self, pattern, flags=0):
                return CompiledProxy(pattern)

            def __getattr__(self, name):
                return getattr(rec.real_re, name)

        def valid(name):
            r = rec.real_valid(name)
            rec.valid[name] = r
            return r

        self.helpers.re = RegexProxy()
        self.find.re = ReProxy()
        self.find.is_valid_name = valid
        self.pending_refs = None
        real_extract = self.find.extract_pincited_reference_citations
        self.real_extract = real_extract

        def extract(citation, plain_text):
            rec.pending_refs = None
            out = real_extract(citation, plain_text)
            if rec.pending_refs is not None:
                p, text, ms = rec.pending_refs
                names = []
                for key in ("plaintiff", "defendant"):
                    v = getattr(citation.metadata, key, None)
                    if v and rec.real_valid(v):
                        names.append((key, v))
                rec.refs[(tuple(names), text)] = [(m.start(), m.end(), dict(m.groupdict())) for m in ms]
            return out

        self.find.extract_pincited_reference_citations = extract
        return self

    def __exit__(self, *a):
        self.helpers.re = self.real_regex
        self.find.re = self.real_re
        self.find.is_valid_name = self.real_valid
        self.find.extract_pincited_reference_citations = self.real_extract


def check_contract(rec):
    """search_ok: the span contract the theorems assume of every match object"""
    bad = []
    for (pid, text), r in rec.searches.items():
        if r is None:
            if pid == "PPostShort":
                bad.append((pid, text, "POST_SHORT_CITATION_REGEX did not match (it matches the empty string)"))
            continue
        if not (0 <= r["start"] <= r["end"] <= len(text)):
            bad.append((pid, text, "match span outside the window"))
        for k, sp in r["groups"].items():
            if sp is not None and not (r["start"] <= sp[0] <= sp[1] <= r["end"]):
                bad.append((pid, text, f"group {k} outside the match"))
        if pid in ("PPostFull", "PPostShort", "PPostLaw", "PPostJournal") and r["start"] != 0:
            bad.append((pid, text, "forward match does not start at 0"))
        if pid in ("PPreFull", "PShortAnte", "PSupraAnte") and r["end"] != len(text):
            bad.append((pid, text, "backward match does not end at the end of the window"))
        if pid in ("PPostFull", "PPostShort", "PPostJournal", "PPostLaw") and r["groups"].get("pin_cite") and r["groups"]["pin_cite"][0] != 0:
            bad.append((pid, text, "pin_cite group does not start at offset 0"))
        if pid == "PPostFull" and r["groups"].get("parenthetical"):
            a, b = r["groups"]["parenthetical"]
            if not b < r["end"]:
                bad.append((pid, text, "parenthetical group is not followed by its closing parenthesis"))
            for k, sp in r["groups"].items():
                if k != "parenthetical" and sp is not None and sp[1] > a:
                    bad.append((pid, text, f"group {k} ends after the parenthetical group starts"))
        if pid == "PShortAnte" and not r["groups"].get("antecedent"):
            bad.append((pid, text, "short-form antecedent pattern matched without its antecedent group"))
    return bad


def check_tokens(words):
    """tok_ok: the regex facts about special tokens that the pipeline theorems assume"""
    bad = []
    for w in words:
        if isinstance(w, str):
            continue
        name = type(w).__name__
        if name == "CitationToken":
            if w.short:
                # (the page need not end the token: 11 short-form patterns put text after it -- handled by the code since
                # D23 and by the model; only the presence of the group is a premise)
                if "page" not in w.groups:
                    bad.append((str(w), "short-form citation token without a page group"))
            else:
                eds = list(w.exact_editions) or list(w.variation_editions)
                if not any(e.reporter.source in SRC for e in eds):
                    bad.append((str(w), "citation token without an edition from a known source"))
        if name in ("CitationToken", "IdToken", "SupraToken", "SectionToken") and not (w.start < w.end):
            bad.append((str(w), "empty special token"))
        if name == "StopWordToken" and "stop_word" not in w.groups:
            bad.append((str(w), "stop-word token without the stop_word group"))
    return bad


def defyear_unmet(rec):
    """defyear_ok (premise of the C17 theorem): a DEFENDANT_YEAR match with a year has a non-empty defendant"""
    n = 0
    for (pid, text), r in rec.searches.items():
        if pid == "PDefYear" and r is not None:
            y, d = r["groups"].get("year"), r["groups"].get("defendant")
            if y and y[1] > y[0] and not (d and d[1] > d[0]):
                n += 1
    return n


def canon_py(c, edmap):
    from eyecite.models import ResourceCitation

    md = c.metadata
    sp, fs, ps = c.span(), c.full_span(), c.span_with_pincite()
    fields = [md.pin_cite, md.parenthetical, getattr(md, "year", None), getattr(md, "plaintiff", None),
              getattr(md, "defendant", None), getattr(md, "extra", None), getattr(md, "antecedent_guess", None),
              getattr(md, "volume", None), getattr(md, "publisher", None), getattr(md, "month", None), getattr(md, "day", None)]
    year = getattr(c, "year", None)
    guess = None
    if isinstance(c, ResourceCitation) and c.edition_guess is not None:
        guess = edmap.id(c.edition_guess)
    return (CLS[type(c).__name__], [sp[0], sp[1], fs[0], fs[1], ps[0], ps[1]], fields, year, guess)


def canon_term(cn):
    cls, offs, fields, year, guess = cn
    return (f"({cls}%nat, [" + "; ".join(E.z(x) for x in offs) + "], [" + "; ".join(E.opt(f, E.s) for f in fields) + "], "
            + E.opt(year, E.z) + ", " + E.opt(guess, lambda g: f"{g}%nat") + ")")


def mres_term(r):
    if r is None:
        return "None"
    gs = "[" + "; ".join(f"({E.s(k)}, " + ("None" if v is None else f"Some ({v[0]}%nat, {v[1]}%nat)") + ")" for k, v in r["groups"].items()) + "]"
    return f"(Some (mkm {r['start']}%nat {r['end']}%nat {gs}))"


def run_document(text, remove_ambiguous=False, tokenizer=None):
    """-> dict(out=('ok', citations)|('err', name), rec, words, cit_tokens)"""
    from eyecite import get_citations
    from eyecite.tokenizers import default_tokenizer

    tk = tokenizer or default_tokenizer
    words, cit_tokens = tk.tokenize(text)
    with Recorder() as rec:
        try:
            cs = get_citations(text, remove_ambiguous=remove_ambiguous, tokenizer=tk)
            out = ("ok", cs)
        except Exception as e:  # noqa
            out = ("err", type(e).__name__)
    return dict(out=out, rec=rec, words=words, cit_tokens=cit_tokens)


def case_for(text, run, remove_ambiguous):
    """Coq terms (input, expected) for one document."""
    edmap = tokutil.EdMap()
    words, cit_tokens, rec = run["words"], run["cit_tokens"], run["rec"]
    wt = "[" + "; ".join(tokutil.elem_term(x, edmap) for x in words) + "]"
    ct = "[" + "; ".join(f"({i}%nat, {tokutil.tok_term(t, edmap)})" for i, t in cit_tokens) + "]"
    if run["out"][0] == "ok":
        exp = "(Ok [" + "; ".join(canon_term(canon_py(c, edmap)) for c in run["out"][1]) + "])"
    else:
        exp = f"(Err {EXN.get(run['out'][1], 'TypeErr')})"
    stbl = "[" + "; ".join(f"({pid}, {E.s(t)}, {mres_term(r)})" for (pid, t), r in rec.searches.items()) + "]"
    rtbl = "[" + "; ".join(
        "([" + "; ".join(f"({E.s(k)}, {E.s(v)})" for k, v in names) + f"], {E.s(t)}, ["
        + "; ".join(f"({a}%nat, {b}%nat, [" + "; ".join(f"({E.s(k)}, {E.opt(v, E.s)})" for k, v in gd.items()) + "])" for a, b, gd in ms)
        + "])" for (names, t), ms in rec.refs.items()) + "]"
    vtbl = "[" + "; ".join(f"({E.s(k)}, {E.b(v)})" for k, v in rec.valid.items()) + "]"
    etbl = "[" + "; ".join(
        f"mke {i}%nat {E.s(ed.short_name)} {E.opt(None if ed.start is None else ed.start.year, E.z)} "
        f"{E.opt(None if ed.end is None else ed.end.year, E.z)}" for ed, i in edmap.ids.items()) + "]"
    srctbl = "[" + "; ".join(f"({i}%nat, {SRC.get(ed.reporter.source, 9)}%nat)" for ed, i in edmap.ids.items()) + "]"
    ty = datetime.datetime.now().year
    inp = f"({stbl}, {rtbl}, {vtbl}, {etbl}, {srctbl}, {E.z(ty)}, {E.s(text)}, {wt}, {ct}, {E.b(remove_ambiguous)})"
    return inp, exp


# ------------------------------------------------------------------ direct monitors

TEXT_FIELDS = ["pin_cite", "year", "plaintiff", "defendant", "antecedent_guess", "extra", "publisher", "month", "day", "volume"]


def monitor_offsets(text, cs):
    """C02"""
    from eyecite.models import FullCaseCitation, IdCitation, ShortCaseCitation, SupraCitation

    for c in cs:
        (ss, se), (fs, fe), (ps, pe) = c.span(), c.full_span(), c.span_with_pincite()
        if not (0 <= fs <= ss <= se <= fe <= len(text)):
            return f"{type(c).__name__} {c.matched_text()!r}: offsets not ordered/in range: full {fs, fe} span {ss, se} len {len(text)}"
        if not text[ss:se].startswith(c.matched_text()):
            return f"{type(c).__name__}: text[span]={text[ss:se]!r} does not start with matched text {c.matched_text()!r}"
        if not (ps <= ss and se <= pe and 0 <= ps and pe <= len(text)):
            return f"{type(c).__name__} {c.matched_text()!r}: pin-cite span {ps, pe} does not contain span {ss, se}"
        pin = c.metadata.pin_cite
        if pin and isinstance(c, (FullCaseCitation, ShortCaseCitation, SupraCitation, IdCitation)):
            if pin not in text[ps:pe]:
                return f"{type(c).__name__} {c.matched_text()!r}: pin cite {pin!r} not inside text[{ps}:{pe}]={text[ps:pe]!r}"
    return None


def monitor_metadata(text, cs):
    """C17"""
    from eyecite.models import FullCaseCitation

    for k, c in enumerate(cs):
        fs, fe = c.full_span()
        # joint extent of parallel citations sharing the start
        lo, hi = fs, fe
        if isinstance(c, FullCaseCitation) and c.full_span_start is not None:
            for d in cs:
                if isinstance(d, FullCaseCitation) and d.full_span_start == c.full_span_start:
                    lo, hi = min(lo, d.full_span()[0]), max(hi, d.full_span()[1])
        region = text[max(lo, 0):hi]
        vals = {f: getattr(c.metadata, f, None) for f in TEXT_FIELDS}
        if isinstance(c, FullCaseCitation):
            vals["parenthetical"] = c.metadata.parenthetical
        for f, v in vals.items():
            if v and isinstance(v, str) and v not in region:
                return f"{type(c).__name__} {c.matched_text()!r}: metadata {f}={v!r} is not inside its extent text[{lo}:{hi}]"
    return None


def monitor_years(cs, cs_ra, highest):
    """C18"""
    from eyecite.models import ResourceCitation

    for c in cs:
        if not isinstance(c, ResourceCitation):
            continue
        if c.year is not None:
            ys = c.metadata.year
            if not (1600 <= c.year <= highest):
                return f"{c.matched_text()!r}: year {c.year} outside the accepted range"
            if not ys or not ys[:4].isdigit() or int(ys[:4]) != c.year:
                return f"{c.matched_text()!r}: numeric year {c.year} does not equal the leading digits of {ys!r}"
        cands = list(c.exact_editions) or list(c.variation_editions)
        g = c.edition_guess
        if g is not None and g not in cands:
            return f"{c.matched_text()!r}: guessed edition is not one of the candidates"
        if len(cands) == 1 and g is None:
            return f"{c.matched_text()!r}: single candidate edition but no guess"
        if len(cands) > 1 and g is not None and not c.year:
            return f"{c.matched_text()!r}: several candidate editions, no year, but a guess was made"
        if len(cands) > 1 and g is not None and c.year:
            # own year (not inherited from a parallel citation sharing the start): the guess must be the only
            # candidate publishing in that year
            shared = getattr(c, "full_span_start", None) is not None and sum(
                1 for d in cs if getattr(d, "full_span_start", None) == c.full_span_start) > 1
            if not shared:
                import datetime
                now = datetime.datetime.now().year
                pub = [e for e in cands if c.year <= now and (e.start is None or e.start.year <= c.year)
                       and (e.end is None or e.end.year >= c.year)]
                if pub != [g]:
                    return (f"{c.matched_text()!r} ({c.year}): guessed {g.short_name} ({g.reporter.name}) although the candidates "
                            f"publishing in {c.year} are {[e.reporter.name for e in pub]}")
    want = [c for c in cs if not isinstance(c, ResourceCitation) or c.edition_guess]
    if [(type(c).__name__, c.span()) for c in want] != [(type(c).__name__, c.span()) for c in cs_ra]:
        return "remove_ambiguous=True is not the default result minus unguessed resource citations"
    return None


# ------------------------------------------------------------------ regex oracle vs the engine model
PIDS = ["PPostFull", "PPreFull", "PPostShort", "PPostLaw", "PPostJournal", "PShortAnte", "PSupraAnte", "PDefYear", "PYearMatch"]
PRE_RX = """From EV Require Import Base.Str Base.Corr Regex.Syntax Regex.Decl Regex.Match Gen.Unicode Gen.MetaRegex.
Open Scope nat_scope.
Definition rx_table (pid : nat) : re * nat :=
  match pid with
  | 0 => (meta_PPostFull, length meta_PPostFull_names) | 1 => (meta_PPreFull, length meta_PPreFull_names)
  | 2 => (meta_PPostShort, length meta_PPostShort_names) | 3 => (meta_PPostLaw, length meta_PPostLaw_names)
  | 4 => (meta_PPostJournal, length meta_PPostJournal_names) | 5 => (meta_PShortAnte, length meta_PShortAnte_names)
  | 6 => (meta_PSupraAnte, length meta_PSupraAnte_names) | 7 => (meta_PDefYear, length meta_PDefYear_names)
  | _ => (meta_PYearMatch, length meta_PYearMatch_names)
  end.
Definition rx_run (c : nat * str) : option (nat * nat * list (option (nat * nat))) :=
  let (r, ng) := rx_table (fst c) in
  let res := if Nat.eqb (fst c) 8
             then match m URX false (snd c) r 0 [] (fun j cp => if Nat.eqb j (length (snd c)) then Some (j, cp) else None) with
                  | Some (j, cp) => Some (0, j, cp) | None => None end
             else search URX false (snd c) r in
  match res with
  | Some (i, j, cp) => Some (i, j, map (fun n => cap_get n cp) (seq 1 ng))
  | None => None
  end.
Definition rx_eqb := opt_eqb (pair_eqb (pair_eqb Nat.eqb Nat.eqb) (list_eqb (opt_eqb (pair_eqb Nat.eqb Nat.eqb)))).
"""
RX_TY = ("nat * str", "option (nat * nat * list (option (nat * nat)))")


def regex_cases(rec, slots):
    """one case per recorded metadata search: the engine model on the generated AST must return the same
    span and captures as the `regex` module did"""
    out = []
    for (pid, text), r in rec.searches.items():
        names = slots.get(pid, {})
        ng = len(set(names.values()))
        if r is None:
            exp = "None"
        else:
            sp = [None] * ng
            for k, v in r["groups"].items():
                if k in names and v is not None:
                    sp[names[k] - 1] = v
            exp = (f"(Some ({r['start']}, {r['end']}, [" + "; ".join("None" if v is None else f"Some ({v[0]}, {v[1]})" for v in sp) + "]))")
        out.append((f"({PIDS.index(pid)}, {E.s(text)})", exp, dict(stream="regex-oracle", pattern=pid, window=text, python=r)))
    return out
