"""End-to-end streams: the model computes from the TEXT ALONE (Model/Extract.v on the regenerated
extractor table -> Model/Tokenize.v -> Model/Pipeline.v with the engine's metadata searches) and
is compared with the implementation.

  extract   : list(tokenizer.extract_tokens(text)) for Tokenizer (every extractor) and
              AhocorasickTokenizer (pre-filter) vs Model/E2E.v candidates_text_ref / candidates_text
  tokens    : default_tokenizer.tokenize(text) vs tokenize_text
  find-e2e  : get_citations(text) vs get_citations_text (only the reference-citation matches,
              is_valid_name answers and the current year still come from the run)
"""
import datetime

from harness import coqemit as E
from harness import core, tokutil
from harness import pipe_corr as P


class GenEdMap:
    """edition -> the id the generated tables use (harness/gen_extractors.py:edition_table)"""

    def __init__(self):
        from harness import gen_extractors

        self.ids = gen_extractors.edition_table()

    def id(self, ed):
        return self.ids[ed]


PRE = """From EV Require Import Base.Str Base.PyVal Base.Corr Model.Tokenize Model.TokenizeEq Model.Editions Model.Filter Model.Pipeline Model.Extract Model.E2E Model.RefEngine Model.E2EClosed.
From EV Require Import Gen.Unicode Gen.Consts.
Open Scope Z_scope.
Definition names_eqb := list_eqb (pair_eqb str_eqb str_eqb).
Definition refs_of (tbl : list (list (str * str) * str * list (nat * nat * list (str * option str))))
           (names : list (str * str)) (s : str) :=
  match find (fun r => names_eqb (fst (fst r)) names && str_eqb (snd (fst r)) s) tbl with
  | Some r => snd r
  | None => [(0%nat, 0%nat, [([95;95;109;105;115;115]%N, None)])]
  end.
Definition valid_of (tbl : list (str * bool)) (s : str) : bool :=
  match find (fun r => str_eqb (fst r) s) tbl with Some r => snd r | None => false end.
Definition cls_code (c : ccls) : nat :=
  match c with CFullCase => 0 | CFullLaw => 1 | CFullJournal => 2 | CShort => 3 | CSupra => 4 | CId => 5 | CUnknown => 6 | CRef => 7 end%nat.
Definition canon (c : pcit) : nat * list Z * list (option str) * option Z * option nat :=
  (cls_code (p_cls c),
   [fst (span_of c); snd (span_of c); fst (full_span_of c); snd (full_span_of c);
    fst (span_with_pincite c); snd (span_with_pincite c)],
   [p_pin c; p_parenthetical c; p_year_s c; p_plaintiff c; p_defendant c; p_extra c; p_antecedent c;
    p_volume c; p_publisher c; p_month c; p_day c],
   p_year c, match p_guess c with Some e => Some (e_id e) | None => None end).
Definition canon_eqb :=
  pair_eqb (pair_eqb (pair_eqb (pair_eqb Nat.eqb (list_eqb Z.eqb)) (list_eqb ostr_eqb)) (opt_eqb Z.eqb)) (opt_eqb Nat.eqb).
Definition run_e2e (c : (list (list (str * str) * str * list (nat * nat * list (str * option str)))) *
                        (list (str * bool)) * Z * str * bool)
  : result (list (nat * list Z * list (option str) * option Z * option nat)) :=
  match c with
  | (rtbl, vtbl, this_year, text, ra) =>
      match get_citations_text (refs_of rtbl) (valid_of vtbl) this_year text ra with
      | Ok l => Ok (map canon l)
      | Err e => Err e
      end
  end.
Definition e2e_eqb := result_eqb (list_eqb canon_eqb).
Definition run_closed (c : Z * str * bool) :=
  match get_citations_closed (fst (fst c)) (snd (fst c)) (snd c) with
  | Ok l => Ok (map canon l)
  | Err e => Err e
  end.
Definition run_refs (c : list (str * str) * str) := refs_engine (fst c) (snd c).
Definition refs_eqb := list_eqb (pair_eqb (pair_eqb Nat.eqb Nat.eqb) (list_eqb (pair_eqb str_eqb ostr_eqb))).
Definition run_extract (c : bool * str) : list tok :=
  if fst c then candidates_text_ref (snd c) else candidates_text (snd c).
Definition toks_eqb := list_eqb tok_eqb.
Definition run_tokens (s : str) := tokenize_text s.
"""
TY = ("(list (list (str * str) * str * list (nat * nat * list (str * option str)))) * (list (str * bool)) * Z * str * bool",
      "result (list (nat * list Z * list (option str) * option Z * option nat))")


def case_e2e(text, run, ra, edmap):
    rec = run["rec"]
    if run["out"][0] == "ok":
        exp = "(Ok [" + "; ".join(P.canon_term(P.canon_py(c, edmap)) for c in run["out"][1]) + "])"
    else:
        exp = f"(Err {P.EXN.get(run['out'][1], 'TypeErr')})"
    rtbl = "[" + "; ".join(
        "([" + "; ".join(f"({E.s(k)}, {E.s(v)})" for k, v in names) + f"], {E.s(t)}, ["
        + "; ".join(f"({a}%nat, {b}%nat, [" + "; ".join(f"({E.s(k)}, {E.opt(v, E.s)})" for k, v in gd.items()) + "])" for a, b, gd in ms)
        + "])" for (names, t), ms in rec.refs.items()) + "]"
    vtbl = "[" + "; ".join(f"({E.s(k)}, {E.b(v)})" for k, v in rec.valid.items()) + "]"
    ty = datetime.datetime.now().year
    return f"({rtbl}, {vtbl}, {E.z(ty)}, {E.s(text)}, {E.b(ra)})", exp


def short_docs(rng, n, max_len=160):
    """citation-dense documents short enough for the in-kernel engine to scan with every selected extractor"""
    from harness import textgen

    docs = ["Foo v. Bar, 1 U.S. 1 (1999). Id. at 5.", "See 347 Cooke 1", "Shapiro v. Thompson, 394 U. S. 618",
            "A v. B, 550 U.S. at 556, 127 S.Ct. 1955", "Mass. Gen. Laws ch. 1, § 2 (West 1999)", "1 Minn. L. Rev. 1, 5 (1999)",
            "Bar, supra, at 3; § 5.\nId.", "", " ", "eyecite", "Kern v. Thompson, 12 Cooke 7", "1 U.S. 1; 1 U. S. 1 (1801)"]
    tries = 0
    while len(docs) < n + 12 and tries < 50 * n:
        tries += 1
        d = textgen.document(rng, n_events=rng.choice([1, 2, 3]), hostile=rng.random() < 0.3)
        if len(d) <= max_len:
            docs.append(d)
    return docs


def run_extract(ctx, docs, n_ref):
    """candidates from the text: model vs Tokenizer (first n_ref documents) and AhocorasickTokenizer (all)"""
    from eyecite.tokenizers import AhocorasickTokenizer, Tokenizer

    edmap = GenEdMap()
    ac, ref = AhocorasickTokenizer(), Tokenizer()
    cases = []
    for k, d in enumerate(docs):
        for is_ref, tk in ((False, ac), (True, ref)):
            if is_ref and k >= n_ref:
                continue
            try:
                cands = list(tk.extract_tokens(d))
            except Exception:  # noqa
                ctx.count("extract_tokens raised (left to C04)")
                continue
            nt = len(cands) >= 2
            ctx.case("extract", (is_ref, d), nt, dict(text=d, tokenizer=type(tk).__name__, n_candidates=len(cands))
                     if nt and len(ctx.samples) < 10 else None)
            ctx.count("extract " + type(tk).__name__)
            exp = "[" + "; ".join(tokutil.tok_term(c, edmap) for c in cands) + "]"
            cases.append((f"({E.b(is_ref)}, {E.s(d)})", exp, dict(stream="extract", tokenizer=type(tk).__name__, text=d)))
    ctx.streams.append("extract")
    core.corr_run(ctx, "extract", PRE, "run_extract", "toks_eqb", cases, shard=3, timeout=1500, ty=("bool * str", "list tok"))


def run_tokens(ctx, docs):
    from eyecite.tokenizers import default_tokenizer

    edmap = GenEdMap()
    cases = []
    for d in docs:
        try:
            all_tokens, cit_tokens = default_tokenizer.tokenize(d)
        except Exception:  # noqa
            continue
        nt = len(cit_tokens) >= 2
        ctx.case("tokens", d, nt, None)
        ctx.count("tokens from the text alone")
        cases.append((E.s(d), tokutil.tokout_term(all_tokens, cit_tokens, edmap), dict(stream="tokens", text=d)))
    ctx.streams.append("tokens")
    core.corr_run(ctx, "e2etok", PRE, "run_tokens", "tokout_eqb", cases, shard=3, timeout=1500,
                  ty=("str", "list elem * list (nat * tok)"))


def run_find(ctx, docs, p_ra=0.3):
    edmap = GenEdMap()
    cases = []
    for d in docs:
        for ra in ([False, True] if ctx.rng.random() < p_ra else [False]):
            run = P.run_document(d, ra)
            nt = run["out"][0] == "ok" and len(run["out"][1]) >= 2
            ctx.case("find-e2e", (d, ra), nt, dict(text=d, remove_ambiguous=ra) if nt and len(ctx.samples) < 10 else None)
            ctx.count("find-e2e document")
            inp, exp = case_e2e(d, run, ra, edmap)
            cases.append((inp, exp, dict(stream="find-e2e", text=d, remove_ambiguous=ra)))
    ctx.streams.append("find-e2e")
    core.corr_run(ctx, "e2e", PRE, "run_e2e", "e2e_eqb", cases, shard=3, timeout=1500, ty=TY)


def run_closed(ctx, docs, p_ra=0.3):
    """get_citations(text) vs the model evaluated on (current year, text) ALONE -- no data from the run enters the
    model; plus the two former oracles on every call the run made (reference pattern, is_valid_name)"""
    edmap = GenEdMap()
    cases, rcases, vcases = [], [], []
    seen_r, seen_v = set(), set()
    ty = datetime.datetime.now().year
    for d in docs:
        for ra in ([False, True] if ctx.rng.random() < p_ra else [False]):
            run = P.run_document(d, ra)
            nt = run["out"][0] == "ok" and len(run["out"][1]) >= 2
            ctx.case("find-closed", (d, ra), nt, dict(text=d, remove_ambiguous=ra) if nt and len(ctx.samples) < 10 else None)
            ctx.count("find-closed document")
            # the premises the closed theorems keep (search_ok, short_page_ok): checked on every recorded call / token
            bad = P.check_contract(run["rec"])
            if bad:
                ctx.divergences.append(("search-contract", "a regex match violates the span contract assumed by the closed "
                                        "theorems: " + repr(bad[0])[:300], dict(text=d)))
            badt = P.check_tokens(run["words"])
            if badt:
                ctx.divergences.append(("token-contract", "a special token violates the regex facts assumed by the closed "
                                        "theorems: " + repr(badt[0])[:300], dict(text=d)))
            if run["out"][0] == "ok":
                exp = "(Ok [" + "; ".join(P.canon_term(P.canon_py(c, edmap)) for c in run["out"][1]) + "])"
            else:
                exp = f"(Err {P.EXN.get(run['out'][1], 'TypeErr')})"
            cases.append((f"({E.z(ty)}, {E.s(d)}, {E.b(ra)})", exp, dict(stream="find-closed", text=d, remove_ambiguous=ra)))
            for (names, t), ms in run["rec"].refs.items():
                key = (names, t)
                if key in seen_r or len(t) > 400:
                    continue
                seen_r.add(key)
                inp = "([" + "; ".join(f"({E.s(k)}, {E.s(v)})" for k, v in names) + f"], {E.s(t)})"
                exp = "[" + "; ".join(f"({a}%nat, {b}%nat, [" + "; ".join(f"({E.s(k)}, {E.opt(v, E.s)})" for k, v in gd.items()) + "])"
                                      for a, b, gd in ms) + "]"
                ctx.case("ref-oracle", key, bool(ms), None)
                rcases.append((inp, exp, dict(stream="ref-oracle", names=list(names), text=t)))
            for k, v in run["rec"].valid.items():
                if k not in seen_v:
                    seen_v.add(k)
                    ctx.case("valid-oracle", k, v, None)
                    vcases.append((E.s(k), E.b(v), dict(stream="valid-oracle", name=k, python=v)))
    # is_valid_name on its own corner cases as well
    from eyecite.utils import DISALLOWED_NAMES, is_valid_name
    for k in (["", "Ab", "Abc", "abc", "Abc.", "123", "١٢٣", "State", "United States", "ǅabc", "Σας", "ΑΣ", "İstanbul", "ßabc", "Éa b"]
              + [x.title() for x in DISALLOWED_NAMES[:8]] + list(DISALLOWED_NAMES[:8])):
        if k not in seen_v:
            seen_v.add(k)
            v = bool(is_valid_name(k))
            ctx.case("valid-oracle", k, v, None)
            vcases.append((E.s(k), E.b(v), dict(stream="valid-oracle", name=k, python=v)))
    # on how many of these documents do the two text-level premises of the closed theorems hold?  (kernel-evaluated;
    # on those, the monitors' verdict is ALSO a theorem about the model, and the model equals the implementation)
    try:
        texts = sorted({d for d in docs})
        body = ("From EV Require Import Base.Str Model.Pipeline Model.E2E Proofs.ClosedFinal.\n"
                "Definition texts_ : list str := [" + "; ".join(E.s(t) for t in texts) + "].\n"
                "Eval vm_compute in (map (fun s => ws_cleanb s && negb (str_eqb s s_eyecite)) texts_).\n")
        vals = core.coq_eval(f"{ctx.cid}_closed_premises", body, 900)
        n_ok = sum(1 for v in vals[0] if v == "true" or v is True)
        ctx.count("find-closed documents on which the premises of the closed theorems hold", n_ok)
        ctx.count("find-closed documents on which a premise fails (whitespace other than U+0020, easter egg)",
                  len(texts) - n_ok)
    except Exception as e:  # noqa
        ctx.notes.append("closed-premise evaluation failed: " + str(e)[-300:])
    ctx.streams += ["find-closed", "ref-oracle", "valid-oracle"]
    core.corr_run(ctx, "closed", PRE, "run_closed", "e2e_eqb", cases, shard=3, timeout=1500, ty=("Z * str * bool", TY[1]))
    core.corr_run(ctx, "refor", PRE, "run_refs", "refs_eqb", rcases, shard=40, timeout=900,
                  ty=("list (str * str) * str", "list (nat * nat * list (str * option str))"))
    core.corr_run(ctx, "validor", PRE, "is_valid_name", "Bool.eqb", vcases, shard=400, timeout=600, ty=("str", "bool"))
