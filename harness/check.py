"""CLI:  check <Cxx> [--tier quick|thorough] [--replay FILE]
exit 0 = property held on everything explored; exit 1 + VIOLATION line otherwise."""
import argparse
import importlib
import json
import os
import sys
import traceback
import logging

logging.disable(logging.WARNING)

from harness import core


def main():
    ap = argparse.ArgumentParser()
    ap.add_argument("cid")
    ap.add_argument("--tier", default=os.environ.get("VERIF_TIER") or "quick")
    ap.add_argument("--replay", default=None)
    ap.add_argument("--no-build", action="store_true", help="developer shortcut: skip gen+make")
    args = ap.parse_args()
    cid = args.cid.upper()
    tier = args.tier if args.tier in ("quick", "thorough") else "quick"
    try:
        seed = int(os.environ.get("VERIF_SEED", "20260930"))
    except ValueError:
        seed = 20260930
    ctx = core.Ctx(cid, tier, seed)
    mod = importlib.import_module(f"harness.props.{cid.lower()}")

    if args.replay:
        obj = json.load(open(args.replay))
        rc = mod.replay(ctx, obj) if hasattr(mod, "replay") else 2
        sys.exit(rc)

    if not args.no_build:
        ok, msg = core.run_gen()
        if not ok:
            ctx.proof_failures.append("translation of the live /repo aborted (model data are stale): " + msg[-800:])
        ok, log = core.build()
        if not ok:
            # make -k is not used: the first failing file is what matters; the
            # property's own obligations are decided by check_props below
            ctx.notes.append("make reported an error: " + log.strip()[-600:])
            # build what this property needs; if THAT fails, a proof obligation of this property (or the
            # regenerated data it rests on) no longer checks -- compiled files on disk are stale and
            # nothing they say is believed
            ok2, log2 = core.build(targets=getattr(mod, "TARGETS", [f"Props/{cid}.vo"]))
            if not ok2:
                ctx.proof_failures.append("the proof obligations of this property no longer build: " + log2.strip()[-900:])
    bad = core.source_scan()
    if bad:
        ctx.proof_failures.append("forbidden constructs in the development: " + "; ".join(bad[:10]))
    ctx.props = core.check_props(cid)
    for f in ctx.props["failures"]:
        ctx.proof_failures.append(f)
    if ctx.props.get("unprinted"):
        ctx.proof_failures.append("theorems without Print Assumptions: " + ", ".join(ctx.props["unprinted"]))

    try:
        mod.run(ctx)
    except core.CoqEvalError as e:
        ctx.divergences.append(("coq-eval", "the model could not be evaluated: " + str(e)[-1200:], None))
    except Exception:
        ctx.divergences.append(("harness", "harness error: " + traceback.format_exc()[-1500:], None))

    if tier == "thorough" and not ctx.proof_failures and os.environ.get("VERIF_NO_COQCHK") != "1":
        ctx.coqchk = core.run_coqchk(cid)
        if ctx.coqchk["rc"] != 0:
            ctx.proof_failures.append("coqchk failed: " + ctx.coqchk["report"][-600:])

    rc = core.finish(ctx, mod.LEVEL_TEXT, mod.RULE, mod.ASSUMPTIONS, getattr(mod, "extra_coverage", lambda c: None)(ctx))
    sys.exit(rc)


if __name__ == "__main__":
    main()
