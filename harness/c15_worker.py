"""Runs in a fresh interpreter (own PYTHONHASHSEED): extracts citations for the texts in the
JSON file given as argv[1] and prints one canonical serialisation per line."""
import json
import logging
import sys

logging.disable(logging.WARNING)


def serialise(cs):
    from eyecite.models import CaseCitation, IdCitation, ResourceCitation, UnknownCitation

    out = []
    for c in cs:
        d = dict(kind=type(c).__name__, span=list(c.span()), full_span=list(c.full_span()),
                 pin_span=list(c.span_with_pincite()), text=c.matched_text(),
                 groups=sorted((k, v) for k, v in c.groups.items()),
                 metadata=sorted((k, v) for k, v in c.metadata.__dict__.items() if v is not None))
        if isinstance(c, ResourceCitation):
            d["exact"] = [e.short_name + "|" + e.reporter.short_name for e in c.exact_editions]
            d["variation"] = [e.short_name + "|" + e.reporter.short_name for e in c.variation_editions]
            d["guess"] = c.edition_guess.short_name if c.edition_guess else None
            d["all"] = [e.short_name + "|" + e.reporter.short_name + "|" + str(e.start) for e in c.all_editions]
            d["year"] = c.year
        by_identity = isinstance(c, (IdCitation, UnknownCitation)) or (isinstance(c, CaseCitation) and c.groups.get("page") is None)
        if not by_identity:
            d["hash"] = hash(c) if False else str(c.__hash__() % (1 << 61))   # value hashes must agree across processes
        out.append(d)
    return out


def cold_threads(jobs, n):
    """the FIRST calls of this process come from n threads at once (behind a barrier); one line per thread and job"""
    import threading

    from eyecite import get_citations

    barrier = threading.Barrier(n)
    res = {}

    def work(k):
        barrier.wait()
        out = []
        for job in jobs:
            try:
                cs = get_citations(job["text"], remove_ambiguous=job.get("ra", False))
                out.append(json.dumps(dict(ok=serialise(cs)), sort_keys=True, ensure_ascii=True))
            except Exception as e:  # noqa
                out.append(json.dumps(dict(err=type(e).__name__)))
        res[k] = out

    ths = [threading.Thread(target=work, args=(k,)) for k in range(n)]
    for t in ths:
        t.start()
    for t in ths:
        t.join()
    for k in range(n):
        for line in res.get(k, []):
            print(f"{k}\t{line}")


def main():
    from eyecite import get_citations

    if len(sys.argv) > 2 and sys.argv[2].startswith("--threads="):
        cold_threads(json.load(open(sys.argv[1])), int(sys.argv[2].split("=")[1]))
        return
    jobs = json.load(open(sys.argv[1]))
    for job in jobs:
        try:
            cs = get_citations(job["text"], remove_ambiguous=job.get("ra", False))
            print(json.dumps(dict(ok=serialise(cs)), sort_keys=True, ensure_ascii=True))
        except Exception as e:  # noqa
            print(json.dumps(dict(err=type(e).__name__)))


if __name__ == "__main__":
    main()
