"""Runs in a fresh interpreter (own PYTHONHASHSEED): extracts citations for the texts in the
JSON file given as argv[1] and prints one canonical serialisation per line."""
import json
import logging
import sys

logging.disable(logging.WARNING)


def serialise(cs):
    from eyecite.models import CaseCitation, IdCitation, ResourceCitation, UnknownCitation

    out = []
    for c in cs:
        d = dict(kind=type(c).__name__, span=list(c.span()), full_span=list(c.full_span()),
                 pin_span=list(c.span_with_pincite()), text=c.matched_text(),
                 groups=sorted((k, v) for k, v in c.groups.items()),
                 metadata=sorted((k, v) for k, v in c.metadata.__dict__.items() if v is not None))
        if isinstance(c, ResourceCitation):
            d["exact"] = [e.short_name + "|" + e.reporter.short_name for e in c.exact_editions]
            d["variation"] = [e.short_name + "|" + e.reporter.short_name for e in c.variation_editions]
            d["guess"] = c.edition_guess.short_name if c.edition_guess else None
            d["year"] = c.year
        by_identity = isinstance(c, (IdCitation, UnknownCitation)) or (isinstance(c, CaseCitation) and c.groups.get("page") is None)
        if not by_identity:
            d["hash"] = hash(c) if False else str(c.__hash__() % (1 << 61))   # value hashes must agree across processes
        out.append(d)
    return out


def main():
    from eyecite import get_citations

    jobs = json.load(open(sys.argv[1]))
    for job in jobs:
        try:
            cs = get_citations(job["text"], remove_ambiguous=job.get("ra", False))
            print(json.dumps(dict(ok=serialise(cs)), sort_keys=True, ensure_ascii=True))
        except Exception as e:  # noqa
            print(json.dumps(dict(err=type(e).__name__)))


if __name__ == "__main__":
    main()
