From EV Require Import Base.Str Base.PyVal Model.Annotate Model.Tags Proofs.AnnotateProofs.
Open Scope Z_scope.
Axiom run_app : forall a b st,
  run st (a ++ b) = match run st a with Some st' => run st' b | None => None end.
Goal forall x m y n st, 
  run st (x ++ TOpen n :: m ++ TClose n :: y) = run st (x ++ m ++ y).
Proof.
  intros x m y n st. rewrite !run_app. Show. destruct (run st x) as [st'|]; [|reflexivity].
  cbn [run]. rewrite !run_app. Show.
