From EV Require Import Base.Str Regex.Syntax Regex.C13Check Regex.CapBody Model.Tokenize Model.Pipeline Model.Extract Model.E2E.
From EV Require Import Gen.ExtractTable.
Definition row_meta_ok (x : xrow) : bool :=
  match x_kind (snd x) with
  | KCitation =>
      x_short (snd x) ||
      existsb (fun i => src_of_gen i <=? 2)%nat
              (match x_exact (snd x) with [] => x_var (snd x) | l => l end)
  | KStopWord => existsb (fun kn => str_eqb g_stop_word (fst kn)) (x_names (snd x))
  | _ => true
  end.
Definition row_meta_ok_head (x : xrow) : bool :=
  match x_kind (snd x) with
  | KCitation =>
      x_short (snd x) ||
      match (match x_exact (snd x) with [] => x_var (snd x) | l => l end) with
      | i :: _ => (src_of_gen i <=? 2)%nat | [] => false end
  | KStopWord => existsb (fun kn => str_eqb g_stop_word (fst kn)) (x_names (snd x))
  | _ => true
  end.
Definition row_nonnull (x : xrow) : bool :=
  forallb (fun r' => 0 <? minlen r')%nat (group_body 1 (row_re (fst x))).
Time Eval vm_compute in length xtable.
Time Eval vm_compute in forallb row_meta_ok xtable.
Time Eval vm_compute in forallb row_meta_ok_head xtable.
Time Eval vm_compute in forallb row_nonnull xtable.
Time Eval vm_compute in map (fun x => row_idx (fst x)) (filter (fun x => negb (row_nonnull x)) xtable).
Time Eval vm_compute in map (fun x => row_idx (fst x)) (filter (fun x => negb (row_meta_ok x)) xtable).
