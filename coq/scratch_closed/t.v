From EV Require Import Proofs.ExtractProofs.
