(* Model/Pure.v -- the sources of order- and history-dependence that C15 is about,
   made explicit: the order in which candidate tokens are generated, the
   selection of extractors by the Aho-Corasick filter, and memoisation cells
   shared between calls and threads. *)
From EV Require Import Base.Str Model.Tokenize.

(* ---- selection of extractors (as repaired: list order, whatever order and
   multiplicity the automaton reports hits in) ---- *)
Section Select.
  Variable E : Type.
  Variable eqb : E -> E -> bool.
  Definition select (exts : list E) (unfiltered : E -> bool) (hits : list E) : list E :=
    filter (fun e => unfiltered e || existsb (eqb e) hits) exts.
End Select.

(* ---- candidate order: the key the tokenizer sorts on ---- *)
Definition tkey (t : tok) : nat * nat := (t_start t, t_end t).
Definition tkey_eqb (a b : nat * nat) : bool := Nat.eqb (fst a) (fst b) && Nat.eqb (snd a) (snd b).
(* the candidates with a given key, in generation order *)
Definition with_key (k : nat * nat) (l : list tok) : list tok := filter (fun t => tkey_eqb (tkey t) k) l.

(* ---- memoisation cells (TokenExtractor._compiled_regex, HyperscanTokenizer._db):
   "if not hasattr: compute and store; return stored" ---- *)
Section Memo.
  Variable K V : Type.
  Variable keqb : K -> K -> bool.
  Variable f : K -> V.                 (* the pure computation being cached (re.compile, database build) *)

  Definition memo := list (K * V).

  Fixpoint mfind (k : K) (m : memo) : option V :=
    match m with
    | [] => None
    | (k', v) :: r => if keqb k k' then Some v else mfind k r
    end.

  (* sequential use *)
  Definition get (m : memo) (k : K) : V * memo :=
    match mfind k m with
    | Some v => (v, m)
    | None => (f k, (k, f k) :: m)
    end.

  (* threads: each thread performs a list of lookups; a lookup is two steps (check the
     cell; on a miss compute and store) that other threads may interleave with *)
  Record thread := {
    todo : list K;            (* keys still to look up *)
    pending : option K;       (* a miss was observed for this key; the store has not happened yet *)
    got : list (K * V)        (* results obtained so far, most recent first *)
  }.

  Definition tstep (m : memo) (t : thread) : memo * thread :=
    match pending t with
    | Some k => ((k, f k) :: m, {| todo := todo t; pending := None; got := (k, f k) :: got t |})
    | None =>
        match todo t with
        | [] => (m, t)
        | k :: r =>
            match mfind k m with
            | Some v => (m, {| todo := r; pending := None; got := (k, v) :: got t |})
            | None => (m, {| todo := r; pending := Some k; got := got t |})
            end
        end
    end.

  Fixpoint set_nth {A} (i : nat) (x : A) (l : list A) : list A :=
    match l, i with
    | [], _ => []
    | _ :: r, O => x :: r
    | y :: r, S j => y :: set_nth j x r
    end.

  (* one scheduling decision: thread number i takes a step *)
  Definition sched_step (s : memo * list thread) (i : nat) : memo * list thread :=
    match nth_error (snd s) i with
    | Some t => let (m', t') := tstep (fst s) t in (m', set_nth i t' (snd s))
    | None => s
    end.

  Definition run_schedule (s : memo * list thread) (schedule : list nat) : memo * list thread :=
    fold_left sched_step schedule s.

  Definition memo_ok (m : memo) : Prop := forall k v, mfind k m = Some v -> v = f k.
  Definition thread_ok (t : thread) : Prop := forall k v, In (k, v) (got t) -> v = f k.
End Memo.
