(* Model/Tags.v -- well-formedness of markup on the tag grammar used by C11:
   text characters other than '<' '>' '&', and tags <n>, </n>, <n/> with an
   alphanumeric name.  is_balanced_html (lxml) on this grammar = `balanced`;
   the agreement is validated by the correspondence stream, not proved. *)
From EV Require Import Base.Str.
Open Scope N_scope.

Inductive ttok := TText (c : N) | TOpen (n : str) | TClose (n : str) | TEmpty (n : str).

Definition LTc : N := 60.   (* < *)
Definition GTc : N := 62.   (* > *)
Definition AMP : N := 38.   (* & *)
Definition SLASH : N := 47. (* / *)

Definition is_name_char (c : N) : bool :=
  ((48 <=? c) && (c <=? 57)) || ((65 <=? c) && (c <=? 90)) || ((97 <=? c) && (c <=? 122)).

Definition is_text_char (c : N) : bool := negb (N.eqb c LTc || N.eqb c GTc || N.eqb c AMP).

(* longest prefix of name characters *)
Fixpoint take_name (s : str) : str * str :=
  match s with
  | c :: t => if is_name_char c then let (n, r) := take_name t in (c :: n, r) else ([], s)
  | [] => ([], [])
  end.

(* one tag after the '<': (token, rest) *)
Definition lex_tag (s : str) : option (ttok * str) :=
  match s with
  | c :: t =>
      if N.eqb c SLASH then
        match take_name t with
        | ((_ :: _) as n, g :: r) => if N.eqb g GTc then Some (TClose n, r) else None
        | _ => None
        end
      else
        match take_name s with
        | ((_ :: _) as n, g :: r) =>
            if N.eqb g GTc then Some (TOpen n, r)
            else if N.eqb g SLASH then
              match r with g2 :: r2 => if N.eqb g2 GTc then Some (TEmpty n, r2) else None | [] => None end
            else None
        | _ => None
        end
  | [] => None
  end.

Fixpoint lex_go (fuel : nat) (s : str) : option (list ttok) :=
  match fuel with
  | O => match s with [] => Some [] | _ => None end
  | S f =>
      match s with
      | [] => Some []
      | c :: t =>
          if N.eqb c LTc then
            match lex_tag t with
            | Some (tk, r) => match lex_go f r with Some l => Some (tk :: l) | None => None end
            | None => None
            end
          else if is_text_char c then
            match lex_go f t with Some l => Some (TText c :: l) | None => None end
          else None
      end
  end.
Definition lex (s : str) : option (list ttok) := lex_go (length s) s.

Definition tok_str (t : ttok) : str :=
  match t with
  | TText c => [c]
  | TOpen n => LTc :: n ++ [GTc]
  | TClose n => LTc :: SLASH :: n ++ [GTc]
  | TEmpty n => LTc :: n ++ [SLASH; GTc]
  end.
Definition unlex (l : list ttok) : str := concat (map tok_str l).

(* the stack machine *)
Fixpoint run (stack : list str) (l : list ttok) : option (list str) :=
  match l with
  | [] => Some stack
  | TText _ :: r | TEmpty _ :: r => run stack r
  | TOpen n :: r => run (n :: stack) r
  | TClose n :: r =>
      match stack with
      | m :: st => if str_eqb m n then run st r else None
      | [] => None
      end
  end.

Definition wf (l : list ttok) : bool := match run [] l with Some [] => true | _ => false end.

Definition balanced (s : str) : bool :=
  match lex s with Some l => wf l | None => false end.

(* is_balanced_html: fast path for strings without angle brackets *)
Definition is_balanced_html (s : str) : bool :=
  if negb (existsb (fun c => N.eqb c LTc || N.eqb c GTc) s) then true else balanced s.

Definition text_of (l : list ttok) : str :=
  flat_map (fun t => match t with TText c => [c] | _ => [] end) l.

(* positions (in the rendered source) of the text characters of a token list starting at offset p *)
Fixpoint text_positions_from (p : Z) (l : list ttok) : list Z :=
  match l with
  | [] => []
  | TText _ :: r => p :: text_positions_from (p + 1)%Z r
  | t :: r => text_positions_from (p + Z.of_nat (length (tok_str t)))%Z r
  end.
Definition text_positions (l : list ttok) : list Z := text_positions_from 0%Z l.

Definition valid_name (n : str) : bool :=
  match n with [] => false | _ => forallb is_name_char n end.
Definition valid_tok (t : ttok) : bool :=
  match t with
  | TText c => is_text_char c
  | TOpen n | TClose n | TEmpty n => valid_name n
  end.
