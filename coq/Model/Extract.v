(* Model/Extract.v -- eyecite/tokenizers.py: Tokenizer.extract_tokens,
   AhocorasickTokenizer.get_extractors, TokenExtractor.get_matches (re.finditer)
   and eyecite/models.py: Token.from_match, computed from the TEXT ALONE by the
   engine of Regex/Match.v on the extractor table regenerated from the live
   EXTRACTORS list (Gen/Extractors_NN.v, Gen/ExtractorIndex.v).

   With Model/Tokenize.v and Model/Pipeline.v this closes the model of
   get_citations: text -> candidates -> token stream -> citations, with no
   token or regex-match data taken from the implementation. *)
From EV Require Import Base.Str Regex.Syntax Regex.Decl Regex.Match Regex.C13Check Model.Tokenize.

(* what the translator records per extractor besides the pattern row *)
Record xinfo := {
  x_kind : kind;               (* token class of the constructor *)
  x_short : bool;              (* extra["short"] *)
  x_exact : list nat;          (* extra["exact_editions"], edition ids *)
  x_var : list nat;            (* extra["variation_editions"] *)
  x_names : list (str * nat)   (* pattern.groupindex: group name -> group number *)
}.

Definition xrow := (row * xinfo)%type.

Section X.
  Variable U : utables.

  (* ---- re.finditer ------------------------------------------------------ *)
  Section F.
    Variable ci : bool.
    Variable s : str.
    Variable r : re.

    (* SRE_OP_SUCCESS with state->must_advance: the match attempted at the scanner's start
       position must not be empty *)
    Definition match_at_adv (i : nat) : option mresult :=
      m U ci s r i [] (fun j c => if Nat.eqb j i then None else Some (j, c)).

    (* sre search() from `pos`: must_advance applies to the first start position only *)
    Definition search_adv (pos : nat) (adv : bool) : option (nat * nat * caps) :=
      match (if adv then match_at_adv pos else match_at U ci s r pos) with
      | Some (j, c) => Some (pos, j, c)
      | None =>
          if (pos <? length s)%nat then search_from U ci s r (S (length s - pos)) (S pos) else None
      end.

    (* the scanner: after a match the next search starts at its end; after an EMPTY match the
       next match at that position must be non-empty *)
    Fixpoint finditer_from (fuel pos : nat) (adv : bool) : list (nat * nat * caps) :=
      match fuel with
      | O => []
      | S f =>
          match search_adv pos adv with
          | None => []
          | Some (i, j, c) => (i, j, c) :: finditer_from f j (Nat.eqb i j)
          end
      end.

    Definition finditer : list (nat * nat * caps) := finditer_from (2 * length s + 3) 0 false.
  End F.

  (* ---- Token.from_match -------------------------------------------------- *)
  Definition group_text (s : str) (c : caps) (n : nat) : option str :=
    match cap_get n c with
    | Some (a, b) => Some (slice s a b)
    | None => None
    end.

  (* m.span(1), m[1], m.groupdict(); None when group 1 did not participate (Python would build a
     token with data None and span (-1,-1): no extractor pattern allows it -- see group1_total) *)
  Definition tok_of (x : xinfo) (s : str) (mt : nat * nat * caps) : option tok :=
    let c := snd mt in
    match cap_get 1 c with
    | None => None
    | Some (a, b) =>
        Some {| t_kind := x_kind x; t_start := a; t_end := b; t_data := slice s a b;
                t_groups := map (fun kn => (fst kn, group_text s c (snd kn))) (x_names x);
                t_short := x_short x; t_exact := x_exact x; t_var := x_var x |}
    end.

  Fixpoint somes {A} (l : list (option A)) : list A :=
    match l with
    | [] => []
    | Some a :: l' => a :: somes l'
    | None :: l' => somes l'
    end.

  Definition tokens_of (x : xrow) (s : str) : list tok :=
    somes (map (tok_of (snd x) s) (finditer (row_ci (fst x)) s (row_re (fst x)))).

  (* ---- get_extractors ---------------------------------------------------- *)
  (* AhocorasickTokenizer.get_extractors: extractors without strings always run; a case-sensitive
     extractor runs when one of its strings occurs in the text, a case-insensitive one when one of
     its lowered strings occurs in text.lower() (= low); list order is kept *)
  Definition selected_x (s low : str) (x : xrow) : bool :=
    match row_lits (fst x) with
    | [] => true
    | lits => existsb (fun l => infixb l (if row_ci (fst x) then low else s)) lits
    end.

  Definition get_extractors_ac (table : list xrow) (s low : str) : list xrow :=
    filter (selected_x s low) table.

  (* ---- extract_tokens ---------------------------------------------------- *)
  Definition extract_with (xs : list xrow) (s : str) : list tok :=
    flat_map (fun x => tokens_of x s) xs.

  (* Tokenizer.extract_tokens (every extractor) and AhocorasickTokenizer.extract_tokens *)
  Definition extract_all (table : list xrow) (s : str) : list tok := extract_with table s.
  Definition extract_ac (table : list xrow) (s low : str) : list tok :=
    extract_with (get_extractors_ac table s low) s.
End X.

(* text.lower() one character at a time (Gen/Lower.v: lower1); U+03A3 lowers context-dependently
   in Python -- theorems quantify over every lowered text allowed by Regex/Literal.v:NormOf *)
Definition lower_str (lower1 : N -> str) (s : str) : str := flat_map lower1 s.

(* ---- assembling the table from the generated files ------------------------ *)
Fixpoint zip_table (rows : list row) (idx : list (N * kind * bool * list nat * list nat))
         (ns : list (N * nat)) (name_sets : list (list (str * nat))) : option (list xrow) :=
  match rows, idx, ns with
  | [], [], [] => Some []
  | x :: rows', (i, k, sh, ex, va) :: idx', (i', n) :: ns' =>
      if N.eqb (row_idx x) i && N.eqb i i' then
        match nth_error name_sets n, zip_table rows' idx' ns' name_sets with
        | Some names, Some rest =>
            Some ((x, {| x_kind := k; x_short := sh; x_exact := ex; x_var := va; x_names := names |}) :: rest)
        | _, _ => None
        end
      else None
  | _, _, _ => None
  end.

(* every match of the pattern sets group 1 (checked per extractor by the harness on all matches it
   sees; structural sufficient condition: the pattern is  prefix . Group 1 body . suffix  with
   group-free prefix/suffix, or Group 1 body itself) *)
Fixpoint has_group (r : re) : bool :=
  match r with
  | Group _ _ => true
  | Cat a b | Alt a b => has_group a || has_group b
  | Rep _ _ a | Look a => has_group a
  | _ => false
  end.

Definition group1_total (r : re) : bool :=
  match r with
  | Group 1 _ => true
  | Cat a (Cat (Group 1 _) b) => negb (has_group a) && negb (has_group b)
  | Cat a (Group 1 _) => negb (has_group a)
  | Cat (Group 1 _) b => negb (has_group b)
  | _ => false
  end.
