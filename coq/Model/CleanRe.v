(* Model/CleanRe.v -- the three text cleaners as instances of `collapse`,
   derived from the pattern and replacement that the live functions pass to
   re.sub (recorded by the translator into Gen/Cleaners.v). *)
From EV Require Import Base.Str Regex.Syntax Model.Clean.

Definition cleaner_of (U : utables) (pat : re) (repl : str) : option (str -> str) :=
  match as_run_pattern U false pat with
  | Some (P, k) => Some (collapse P k repl)
  | None => None
  end.

(* what the laws of C20 need about a recognised cleaner: it is a "+" cleaner
   (k = 1, replacement one character of the class) or a "{2,}" cleaner with
   empty replacement *)
Inductive cleaner_kind := KPlus (sp : N) | KTwo.

Definition classify (U : utables) (pat : re) (repl : str) : option ((N -> bool) * cleaner_kind) :=
  match as_run_pattern U false pat with
  | Some (P, 1) => match repl with [sp] => if P sp then Some (P, KPlus sp) else None | _ => None end
  | Some (P, 2) => match repl with [] => Some (P, KTwo) | _ => None end
  | _ => None
  end.
