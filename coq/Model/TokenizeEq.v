(* Model/TokenizeEq.v -- boolean equalities on tokenizer outputs, used by the
   correspondence check (the implementation's output is compared field by field). *)
From EV Require Import Base.Str Base.Corr Model.Tokenize.

Fixpoint glist_eqb' (a b : groups) : bool :=
  match a, b with
  | [], [] => true
  | (k1, v1) :: a', (k2, v2) :: b' => str_eqb k1 k2 && ostr_eqb v1 v2 && glist_eqb' a' b'
  | _, _ => false
  end.

Definition tok_eqb (a b : tok) : bool :=
  kind_eqb (t_kind a) (t_kind b) && Nat.eqb (t_start a) (t_start b) && Nat.eqb (t_end a) (t_end b)
  && str_eqb (t_data a) (t_data b) && groups_eqb (t_groups a) (t_groups b)
  && Bool.eqb (t_short a) (t_short b)
  && list_eqb Nat.eqb (t_exact a) (t_exact b) && list_eqb Nat.eqb (t_var a) (t_var b).

Definition elem_eqb (a b : elem) : bool :=
  match a, b with
  | W x, W y => str_eqb x y
  | T x, T y => tok_eqb x y
  | _, _ => false
  end.

Definition tokout_eqb (a b : list elem * list (nat * tok)) : bool :=
  list_eqb elem_eqb (fst a) (fst b) &&
  list_eqb (pair_eqb Nat.eqb tok_eqb) (snd a) (snd b).

(* token_is_from_nominative_reporter, given the ids of the editions whose
   reporter short name is in NOMINATIVE_REPORTER_NAMES *)
Definition nominative_by (nom_ids : list nat) (t : tok) : bool :=
  match t_kind t with
  | KCitation =>
      match t_exact t with
      | e :: _ => existsb (Nat.eqb e) nom_ids
      | [] => match t_var t with
              | e :: _ => existsb (Nat.eqb e) nom_ids
              | [] => false
              end
      end
  | _ => false
  end.

Definition mk (k : kind) (s e : nat) (d : str) (g : groups) (sh : bool) (ex va : list nat) : tok :=
  {| t_kind := k; t_start := s; t_end := e; t_data := d; t_groups := g;
     t_short := sh; t_exact := ex; t_var := va |}.
