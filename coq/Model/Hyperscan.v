(* Model/Hyperscan.v -- eyecite/tokenizers.py:HyperscanTokenizer.extract_tokens:
   UTF-8 encoding of the text, the byte-offset -> str-offset table built by
   incremental decoding, the filtering of hits, and the re-match; plus the
   cache logic of hyperscan_db as a small state machine. *)
From EV Require Import Base.Str Base.PyVal.
Open Scope N_scope.

(* ---- UTF-8 (code points < 0x110000; lone surrogates are not encodable: see DESIGN) ---- *)
Definition enc (c : N) : list N :=
  if c <? 128 then [c]
  else if c <? 2048 then [192 + c / 64; 128 + c mod 64]
  else if c <? 65536 then [224 + c / 4096; 128 + (c / 64) mod 64; 128 + c mod 64]
  else [240 + c / 262144; 128 + (c / 4096) mod 64; 128 + (c / 64) mod 64; 128 + c mod 64].

Definition utf8 (s : str) : list N := flat_map enc s.

Definition valid_cp (c : N) : Prop := c < 1114112.

(* length of the sequence announced by a lead byte; None for a continuation
   byte or an invalid lead *)
Definition seq_len (b : N) : option nat :=
  if b <? 128 then Some 1%nat
  else if b <? 192 then None
  else if b <? 224 then Some 2%nat
  else if b <? 240 then Some 3%nat
  else if b <? 248 then Some 4%nat
  else None.

Definition is_cont (b : N) : bool := (128 <=? b) && (b <? 192).

(* len(bs.decode("utf8")) for a byte string cut out of a valid encoding at a
   character boundary: number of complete sequences, None = UnicodeDecodeError
   (truncated sequence or a continuation byte in lead position) *)
Fixpoint dec_len (fuel : nat) (bs : list N) : option nat :=
  match fuel with
  | O => match bs with [] => Some 0%nat | _ => None end
  | S f =>
      match bs with
      | [] => Some 0%nat
      | b :: rest =>
          match seq_len b with
          | None => None
          | Some n =>
              if (n <=? length bs)%nat && forallb is_cont (firstn (n - 1) rest)
              then match dec_len f (skipn (n - 1) rest) with
                   | Some k => Some (S k)
                   | None => None
                   end
              else None
          end
      end
  end.
Definition decode_len (bs : list N) : option nat := dec_len (length bs) bs.

(* ---- sorted(set(offsets)) ---- *)
Fixpoint insert_uniq (x : nat) (l : list nat) : list nat :=
  match l with
  | [] => [x]
  | y :: l' => if (x <? y)%nat then x :: l else if (x =? y)%nat then l else y :: insert_uniq x l'
  end.
Definition sort_uniq (l : list nat) : list nat := fold_right insert_uniq [] l.

(* ---- the offset table ---- *)
Fixpoint table_go (bytes : list N) (offs : list nat) (last stro : nat) : list (nat * nat) :=
  match offs with
  | [] => []
  | b :: r =>
      match decode_len (slice bytes last b) with
      | Some k => (b, (stro + k)%nat) :: table_go bytes r b (stro + k)%nat
      | None => table_go bytes r last stro      (* offsets inside a character are skipped *)
      end
  end.

Definition hit := (nat * (nat * nat))%type.     (* (extractor index, (byte start, byte end)) *)

Definition offset_table (text : str) (hits : list hit) : list (nat * nat) :=
  table_go (utf8 text) (sort_uniq (flat_map (fun h => [fst (snd h); snd (snd h)]) hits)) 0 0.

Fixpoint tlookup (b : nat) (t : list (nat * nat)) : option nat :=
  match t with
  | [] => None
  | (b', i) :: t' => if (b =? b')%nat then Some i else tlookup b t'
  end.

(* hits whose two ends are character boundaries, translated to str offsets *)
Definition translate (text : str) (hits : list hit) : list (nat * (nat * nat)) :=
  let t := offset_table text hits in
  flat_map (fun h =>
              match tlookup (fst (snd h)) t, tlookup (snd (snd h)) t with
              | Some s, Some e => [(fst h, (s, e))]
              | _, _ => []
              end) hits.

(* byte position of character boundary i *)
Definition bpos (text : str) (i : nat) : nat := length (utf8 (firstn i text)).

(* ---- re-match and token construction ---- *)
Section Rematch.
  (* extractor.compiled_regex.match(text, s) (as repaired: matched in place from the start of the hit, so
     that anchors and boundaries see the real context, and NOT cut at the end Hyperscan reported, where
     `$` would match artificially): absolute span of group 1, or None *)
  Variable rematch : nat -> str -> nat -> option (nat * nat).

  Record htok := { h_idx : nat; h_start : nat; h_end : nat; h_data : str }.

  Definition extract (text : str) (hits : list hit) : list htok :=
    flat_map (fun x =>
                let '(idx, (s, e)) := x in
                match rematch idx text s with
                | Some (a, b) => [{| h_idx := idx; h_start := a; h_end := b; h_data := slice text a b |}]
                | None => []          (* as repaired: a hit Python's pattern rejects is skipped *)
                end) (translate text hits).
End Rematch.

(* ---- the cache logic of hyperscan_db (as repaired: every hyperscan error
   raised by loadb, not only InvalidError, falls back to recompilation) ---- *)
Inductive cache_state := NoCacheDir | CacheAbsent | CacheFile (bytes : list N).
Inductive load_result (DB : Type) := LoadOk (db : DB) | LoadError.
Arguments LoadOk {DB} db.
Arguments LoadError {DB}.

Section Cache.
  Variable DB : Type.
  Variable loadb : list N -> load_result DB.     (* hyperscan.loadb: a database, or a hyperscan.error *)
  Variable compiled : DB.                        (* Database().compile(expressions, flags) *)
  Variable dumpb : DB -> list N.

  (* (database used, cache state afterwards) *)
  Definition get_db (c : cache_state) : DB * cache_state :=
    match c with
    | NoCacheDir => (compiled, NoCacheDir)
    | CacheAbsent => (compiled, CacheFile (dumpb compiled))
    | CacheFile bs =>
        match loadb bs with
        | LoadOk db => (db, c)
        | LoadError => (compiled, CacheFile (dumpb compiled))
        end
    end.
End Cache.
