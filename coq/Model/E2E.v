(* Model/E2E.v -- eyecite.find.get_citations computed from the text alone:
   Model/Extract.v (extract_tokens with the Aho-Corasick pre-filter, on the regenerated
   extractor table) -> Model/Tokenize.v (Tokenizer.tokenize) -> Model/Pipeline.v
   (get_citations) with the metadata searches computed by the engine
   (Model/SearchEngine.v on Gen/MetaRegex.v).  What still enters from outside: the reference
   pattern matches and is_valid_name answers (refs, valid: dynamic patterns built from party
   names), and the current year. *)
From EV Require Import Base.Str Base.PyVal Regex.Syntax Regex.Decl Regex.Match Regex.C13Check.
From EV Require Import Model.Tokenize Model.TokenizeEq Model.Editions Model.Filter Model.Pipeline Model.SearchEngine Model.Extract.
From EV Require Import Gen.Unicode Gen.Lower Gen.Consts Gen.MetaRegex Gen.ExtractorIndex Gen.ExtractTable.

Definition meta_table (p : pat) : re * list (str * nat) :=
  match p with
  | PPostFull => (meta_PPostFull, meta_PPostFull_names)
  | PPreFull => (meta_PPreFull, meta_PPreFull_names)
  | PPostShort => (meta_PPostShort, meta_PPostShort_names)
  | PPostLaw => (meta_PPostLaw, meta_PPostLaw_names)
  | PPostJournal => (meta_PPostJournal, meta_PPostJournal_names)
  | PShortAnte => (meta_PShortAnte, meta_PShortAnte_names)
  | PSupraAnte => (meta_PSupraAnte, meta_PSupraAnte_names)
  | PDefYear => (meta_PDefYear, meta_PDefYear_names)
  | PYearMatch => (meta_PYearMatch, meta_PYearMatch_names)
  end.

(* eyecite/helpers.py imports the third-party `regex` module as re: the metadata patterns are run with ITS
   character classes (Gen/Unicode.v: URX), the extractor and reference patterns with the stdlib's (U) *)
Definition UM : utables := URX.

Definition ed_of_gen (i : nat) : option edition := nth_error editions_tbl i.
Definition src_of_gen (i : nat) : nat :=
  match nth_error edition_src i with Some p => snd p | None => 9%nat end.
Definition is_space_gen (c : N) : bool := in_ranges tbl_space c.

(* AhocorasickTokenizer (the default tokenizer): candidates, then the token stream *)
Definition candidates_text (s : str) : list tok := extract_ac U xtable s (lower_str lower1 s).
Definition candidates_text_ref (s : str) : list tok := extract_all U xtable s.
Definition tokenize_text (s : str) : list elem * list (nat * tok) :=
  tokenize s (nominative_by nominative_ids) (candidates_text s).

Section G.
  Variable refs : list (str * str) -> str -> list (nat * nat * list (str * option str)).
  Variable valid : str -> bool.
  Variable this_year : Z.

  Definition get_citations_text (s : str) (remove_ambiguous : bool) : result (list pcit) :=
    let (words, cits) := tokenize_text s in
    get_citations (engine_search UM meta_table) refs (N.to_nat MAX_MATCH_CHARS) (N.to_nat BACKWARD_SEEK)
                  DT (Z.of_N highest_valid_year) this_year ed_of_gen src_of_gen valid is_space_gen
                  s words cits remove_ambiguous.
End G.
