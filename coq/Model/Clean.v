(* Model/Clean.v -- eyecite/clean.py.
   clean_text is a fold over steps; the three text cleaners are run-collapsing
   functions (re.sub of a one-class repetition by a constant).  The html
   cleaner is modelled on an element tree (visible text nodes). *)
From EV Require Import Base.Str.

(* ---------- run collapsing: re.sub(CLASS{k,}, repl, s) ---------- *)
Section Collapse.
  Variable P : N -> bool.     (* the character class *)
  Variable k : nat.           (* minimal run length (1 for "+", 2 for "__+") *)
  Variable repl : str.        (* replacement *)

  Definition flush (p : str) : str :=
    match p with
    | [] => []
    | _ => if k <=? length p then repl else p
    end.

  (* pending = the P-characters of the run being read *)
  Fixpoint go (pending : str) (s : str) : str :=
    match s with
    | [] => flush pending
    | c :: t => if P c then go (pending ++ [c]) t
                else flush pending ++ c :: go [] t
    end.

  Definition collapse (s : str) : str := go [] s.
End Collapse.

(* character classes; ws_table is instantiated from Gen (Python's \s) *)
Definition is_inline_ws (c : N) : bool := N.eqb c 32 || N.eqb c 9.
Definition is_underscore (c : N) : bool := N.eqb c 95.

Definition inline_whitespace (s : str) : str := collapse is_inline_ws 1 [32%N] s.
Definition all_whitespace (tbl : list (N * N)) (s : str) : str :=
  collapse (in_ranges tbl) 1 [32%N] s.
Definition underscores (s : str) : str := collapse is_underscore 2 [] s.

(* ---------- clean_text ---------- *)
Inductive step :=
| SName (name : str)                 (* a string step, looked up in cleaners_lookup *)
| SFun (f : str -> str).             (* a custom callable *)

Inductive cres (A : Type) := COk (x : A) | CValueError.
Arguments COk {A} x.
Arguments CValueError {A}.

Section CleanText.
  Variable lookup : str -> option (str -> str).   (* cleaners_lookup *)

  Definition apply_step (st : step) (t : str) : cres str :=
    match st with
    | SName n => match lookup n with Some f => COk (f t) | None => CValueError end
    | SFun f => COk (f t)
    end.

  Fixpoint clean_text (t : str) (steps : list step) : cres str :=
    match steps with
    | [] => COk t
    | st :: rest =>
        match apply_step st t with
        | COk t' => clean_text t' rest
        | CValueError => CValueError
        end
    end.

  Definition cbind {A B} (x : cres A) (f : A -> cres B) : cres B :=
    match x with COk a => f a | CValueError => CValueError end.
End CleanText.

(* ---------- html cleaner on an element-tree model ---------- *)
(* lxml.html tree as seen by  //text()[normalize-space() and not(parent::style
   | parent::link | ancestor::head | parent::script)]  (as repaired: every text
   nested in <head>, e.g. the <title>, is excluded, not only head's own text):
   every element has a tag, a text (before the first child), children, and each
   child has a tail. *)
Inductive node :=
| Elem (tag : str) (text : str) (children : list (node * str)).  (* child, tail *)

Section Html.
  Variable ws : N -> bool.            (* XPath whitespace: space, \t, \n, \r *)
  Variable hidden : str -> bool.      (* tag in {style, link, head, script} *)
  Variable is_head : str -> bool.     (* tag = head *)

  Definition nonblank (s : str) : bool := existsb (fun c => negb (ws c)) s.

  (* text nodes in document order that satisfy the predicate; the tail of a
     child belongs to the *parent* element (XPath parent axis of a tail text
     node is the enclosing element); inh = some proper ancestor is <head> *)
  Fixpoint visible_in (inh : bool) (n : node) : list str :=
    match n with
    | Elem tag text children =>
        let own (s : str) := if negb (hidden tag || inh) && nonblank s then [s] else [] in
        let inh' := inh || is_head tag in
        own text ++
        (fix kids (l : list (node * str)) : list str :=
           match l with
           | [] => []
           | (c, tail) :: l' => visible_in inh' c ++ own tail ++ kids l'
           end) children
    end.

  Definition visible (n : node) : list str := visible_in false n.

  Fixpoint join_sp (l : list str) : str :=
    match l with
    | [] => []
    | [s] => s
    | s :: l' => s ++ 32%N :: join_sp l'
    end.

  Definition html_clean (n : node) : str := join_sp (visible n).
End Html.
