(* Model/Resolve.v -- eyecite/resolve.py:resolve_citations with the default
   resolvers, and the hash keys of eyecite/models.py (CaseCitation.__hash__,
   ResourceCitation.__hash__, id-hashed kinds, Resource.__hash__). *)
From EV Require Import Base.Str Base.PyVal Model.Tokenize.

Inductive cls := FullCase | FullLaw | FullJournal | ShortCase | Supra | Ref | IdC | Unknown.

Definition cls_eqb (a b : cls) : bool :=
  match a, b with
  | FullCase, FullCase | FullLaw, FullLaw | FullJournal, FullJournal | ShortCase, ShortCase
  | Supra, Supra | Ref, Ref | IdC, IdC | Unknown, Unknown => true
  | _, _ => false
  end.

Definition is_full (c : cls) : bool :=
  match c with FullCase | FullLaw | FullJournal => true | _ => false end.

Record cit := {
  oid : nat;                          (* object identity: position in the input list *)
  c_cls : cls;
  c_groups : groups;                  (* citation.groups *)
  c_guess : option str;               (* edition_guess.short_name *)
  c_eds : list (str * nat);           (* all_editions: (short_name, edition id), exact first *)
  c_plaintiff : option str;
  c_defendant : option str;
  c_antecedent : option str;          (* metadata.antecedent_guess *)
  c_ante_stripped : str;              (* strip_punct(antecedent_guess) -- oracle value, used only when antecedent is truthy *)
  c_pin : option str;                 (* metadata.pin_cite *)
  c_names : list str;                 (* reference citation: truthy values of the four name fields *)
  c_meta_values : list str            (* full citation: truthy string values of metadata.__dict__ *)
}.

(* dict.get(k): None when absent or when the value is None *)
Definition gget (k : str) (g : groups) : option str :=
  match glookup k g with Some v => v | None => None end.

Definition truthy_s (o : option str) : bool :=
  match o with Some (_ :: _) => true | _ => false end.

Definition k_volume : str := [118;111;108;117;109;101]%N.
Definition k_page : str := [112;97;103;101]%N.
Definition k_reporter : str := [114;101;112;111;114;116;101;114]%N.

(* ---- hash keys ---- *)
Inductive key :=
| KCase (c : cls) (vol : option (option str)) (page : str) (rep : option str)
| KGroups (c : cls) (g : groups) (eds : list nat)
| KId (o : nat).

Definition oostr_eqb (a b : option (option str)) : bool :=
  match a, b with
  | None, None => true
  | Some x, Some y => ostr_eqb x y
  | _, _ => false
  end.

Fixpoint lnat_eqb (a b : list nat) : bool :=
  match a, b with
  | [], [] => true
  | x :: a', y :: b' => Nat.eqb x y && lnat_eqb a' b'
  | _, _ => false
  end.

Fixpoint glist_eqb (a b : groups) : bool :=
  match a, b with
  | [], [] => true
  | (k1, v1) :: a', (k2, v2) :: b' => str_eqb k1 k2 && ostr_eqb v1 v2 && glist_eqb a' b'
  | _, _ => false
  end.

(* structural equality: the groups inside a key are sorted by name, as
   json.dumps(sort_keys=True) serialises them before hashing *)
Definition key_eqb (a b : key) : bool :=
  match a, b with
  | KCase c1 v1 p1 r1, KCase c2 v2 p2 r2 =>
      cls_eqb c1 c2 && oostr_eqb v1 v2 && str_eqb p1 p2 && ostr_eqb r1 r2
  | KGroups c1 g1 e1, KGroups c2 g2 e2 => cls_eqb c1 c2 && glist_eqb g1 g2 && lnat_eqb e1 e2
  | KId x, KId y => Nat.eqb x y
  | _, _ => false
  end.

(* lexicographic comparison of strings by code point (Python str <=) *)
Fixpoint str_leb (a b : str) : bool :=
  match a, b with
  | [], _ => true
  | _ :: _, [] => false
  | x :: a', y :: b' => if N.ltb x y then true else if N.ltb y x then false else str_leb a' b'
  end.

Fixpoint insert_ed (x : str * nat) (l : list (str * nat)) : list (str * nat) :=
  match l with
  | [] => [x]
  | y :: l' => if str_leb (fst y) (fst x) then y :: insert_ed x l' else x :: l
  end.
Definition sort_eds (l : list (str * nat)) : list (str * nat) := fold_right insert_ed [] l.

Fixpoint insert_g (x : str * option str) (l : groups) : groups :=
  match l with
  | [] => [x]
  | y :: l' => if str_leb (fst y) (fst x) then y :: insert_g x l' else x :: l
  end.
Definition sort_groups (g : groups) : groups := fold_right insert_g [] g.

(* corrected_reporter(): KeyError when there is neither a guess nor a reporter
   group; None when the reporter group did not participate in the match *)
Definition corrected_reporter (c : cit) : result (option str) :=
  match c_guess c with
  | Some r => Ok (Some r)
  | None => match glookup k_reporter (c_groups c) with
            | Some v => Ok v
            | None => Err KeyErr
            end
  end.

(* __hash__ of the citation classes *)
Definition key_of (c : cit) : result key :=
  match c_cls c with
  | FullCase | ShortCase =>
      match glookup k_page (c_groups c) with
      | None => Err KeyErr                      (* groups["page"] *)
      | Some None => Ok (KId (oid c))           (* placeholder page: hash by identity *)
      | Some (Some p) =>
          do r <- corrected_reporter c ;;
          Ok (KCase (c_cls c) (glookup k_volume (c_groups c)) p r)
      end
  | FullLaw | FullJournal =>
      Ok (KGroups (c_cls c) (sort_groups (c_groups c)) (map snd (sort_eds (c_eds c))))
  | IdC | Unknown => Ok (KId (oid c))
  | Supra | Ref => Ok (KGroups (c_cls c) (sort_groups (c_groups c)) [])
  end.

(* ---- the resolvers ---- *)
Definition full_entry := (cit * key)%type.

Fixpoint dedup_keys (l : list key) (seen : list key) : list key :=
  match l with
  | [] => []
  | k :: l' => if existsb (key_eqb k) seen then dedup_keys l' seen
               else k :: dedup_keys l' (k :: seen)
  end.

(* "matches = list(set(matches)); return matches[0] if len(matches) == 1 else None" *)
Definition unique_key (l : list key) : option key :=
  match dedup_keys l [] with
  | [k] => Some k
  | _ => None
  end.

Definition ante_matches (ag : str) (f : cit) : bool :=
  cls_eqb (c_cls f) FullCase &&
  ((truthy_s (c_defendant f) && match c_defendant f with Some d => infixb ag d | None => false end)
   || (truthy_s (c_plaintiff f) && match c_plaintiff f with Some p => infixb ag p | None => false end)).

Definition filter_by_antecedent (fulls : list full_entry) (ag : str) : option key :=
  unique_key (map snd (filter (fun fk => ante_matches ag (fst fk)) fulls)).

Definition ref_matches (names : list str) (f : cit) : bool :=
  existsb (fun v => existsb (str_eqb v) names) (c_meta_values f).

Definition resolve_ref (c : cit) (fulls : list full_entry) : option key :=
  match c_names c with
  | [] => None
  | names => unique_key (map snd (filter (fun fk => ref_matches names (fst fk)) fulls))
  end.

Definition resolve_supra (c : cit) (fulls : list full_entry) : option key :=
  if truthy_s (c_antecedent c) then filter_by_antecedent fulls (c_ante_stripped c) else None.

Definition resolve_short (c : cit) (fulls : list full_entry) : result (option key) :=
  (* short_citation.corrected_reporter() is evaluated once per FullCaseCitation
     seen so far (never when there is none); a KeyError propagates *)
  (fix go (l : list full_entry) (acc : list full_entry) : result (option key) :=
     match l with
     | [] =>
         let cands := rev acc in
         match dedup_keys (map snd cands) [] with
         | [_] => Ok (match cands with (_, k) :: _ => Some k | [] => None end)
         | _ => if truthy_s (c_antecedent c)
                then Ok (filter_by_antecedent cands (c_ante_stripped c))
                else Ok None
         end
     | (f, k) :: l' =>
         if cls_eqb (c_cls f) FullCase then
           do rc <- corrected_reporter c ;;
           do rf <- corrected_reporter f ;;
           if ostr_eqb rc rf && ostr_eqb (gget k_volume (c_groups c)) (gget k_volume (c_groups f))
           then go l' ((f, k) :: acc) else go l' acc
         else go l' acc
     end) fulls [].

Section Pin.
  Variable D : dtables.
  Variable max_pages : N.        (* MAX_OPINION_PAGE_COUNT *)

  Definition at_sp : str := [97;116;32]%N.

  (* re.match(r"(?:at )?(\d+)", pin): the digits, or None *)
  Definition pin_number (pin : str) : option str :=
    let rest := if prefixb at_sp pin then skipn 3 pin else pin in
    match take_while (in_ranges (d_nd D)) rest with
    | [] => None
    | ds => Some ds
    end.

  (* _has_invalid_pin_cite *)
  Definition has_invalid_pin (full idc : cit) : result bool :=
    if cls_eqb (c_cls full) FullCase && match gget k_page (c_groups full) with None => true | Some _ => false end
    then Ok true
    else if negb (truthy_s (c_pin idc)) then Ok false
    else
      let pg := match gget k_page (c_groups full) with Some p => p | None => [] end in
      if negb (str_isdigit D pg) then Ok false
      else
        match pin_number (match c_pin idc with Some p => p | None => [] end) with
        | None => Ok true
        | Some ds =>
            (* as repaired: a number int() refuses makes the pin cite invalid instead of raising *)
            match py_int D pg, py_int D ds with
            | Some page, Some pin => Ok (N.ltb pin page || N.ltb (page + max_pages) pin)
            | _, _ => Ok true
            end
        end.

  (* ---- the fold ---- *)
  Record rst := {
    res : list (key * list cit);     (* resolutions, in insertion order; members in append order *)
    fulls : list full_entry;         (* resolved_full_cites *)
    lastr : option key               (* last_resolution *)
  }.

  Fixpoint group_of (k : key) (r : list (key * list cit)) : option (list cit) :=
    match r with
    | [] => None
    | (k', m) :: r' => if key_eqb k k' then Some m else group_of k r'
    end.

  Fixpoint add_member (k : key) (c : cit) (r : list (key * list cit)) : list (key * list cit) :=
    match r with
    | [] => [(k, [c])]
    | (k', m) :: r' => if key_eqb k k' then (k', m ++ [c]) :: r' else (k', m) :: add_member k c r'
    end.

  Definition resolve_id (c : cit) (s : rst) : result (option key) :=
    match lastr s with
    | None => Ok None
    | Some k =>
        match group_of k (res s) with
        | Some (full :: _) =>
            do bad <- has_invalid_pin full c ;;
            Ok (if bad then None else Some k)
        | _ => Err IndexErr      (* resolutions[last_resolution][0] on an empty list *)
        end
    end.

  Definition step (s : rst) (c : cit) : result rst :=
    do rf <-
      (match c_cls c with
       | FullCase | FullLaw | FullJournal =>
           do k <- key_of c ;; Ok (Some k, fulls s ++ [(c, k)])
       | ShortCase => do r <- resolve_short c (fulls s) ;; Ok (r, fulls s)
       | Supra => Ok (resolve_supra c (fulls s), fulls s)
       | Ref => Ok (resolve_ref c (fulls s), fulls s)
       | IdC => do r <- resolve_id c s ;; Ok (r, fulls s)
       | Unknown => Ok (None, fulls s)
       end) ;;
    let (r, fl) := rf in
    Ok {| res := match r with Some k => add_member k c (res s) | None => res s end;
          fulls := fl;
          lastr := r |}.

  Definition rinit : rst := {| res := []; fulls := []; lastr := None |}.

  Fixpoint run (s : rst) (cs : list cit) : result rst :=
    match cs with
    | [] => Ok s
    | c :: cs' => do s' <- step s c ;; run s' cs'
    end.

  Definition resolve (cs : list cit) : result (list (key * list cit)) :=
    do s <- run rinit cs ;; Ok (res s).
End Pin.
