(* Model/Tokenize.v -- eyecite/tokenizers.py:Tokenizer.tokenize, append_text,
   eyecite/models.py:Token.merge / CitationToken.merge.
   The candidate list is whatever extract_tokens yields (any tokenizer). *)
From EV Require Import Base.Str.

Inductive kind := KCitation | KSection | KSupra | KId | KParagraph | KStopWord | KCaseRef.

Definition kind_eqb (a b : kind) : bool :=
  match a, b with
  | KCitation, KCitation | KSection, KSection | KSupra, KSupra | KId, KId
  | KParagraph, KParagraph | KStopWord, KStopWord | KCaseRef, KCaseRef => true
  | _, _ => false
  end.

(* regex groups: name -> matched text or None *)
Definition groups := list (str * option str).

Record tok := {
  t_kind : kind;
  t_start : nat;
  t_end : nat;
  t_data : str;
  t_groups : groups;
  t_short : bool;              (* CitationToken.short *)
  t_exact : list nat;          (* exact_editions, as edition ids (value-equality classes) *)
  t_var : list nat             (* variation_editions *)
}.

Definition ostr_eqb (a b : option str) : bool :=
  match a, b with
  | None, None => true
  | Some x, Some y => str_eqb x y
  | _, _ => false
  end.

Fixpoint glookup (k : str) (g : groups) : option (option str) :=
  match g with
  | [] => None
  | (k', v) :: g' => if str_eqb k k' then Some v else glookup k g'
  end.

(* dict equality: same keys, same values (order irrelevant) *)
Definition groups_sub (a b : groups) : bool :=
  forallb (fun kv => match glookup (fst kv) b with
                     | Some v => ostr_eqb v (snd kv)
                     | None => false
                     end) a.
Definition groups_eqb (a b : groups) : bool :=
  Nat.eqb (length a) (length b) && groups_sub a b && groups_sub b a.

(* order-preserving de-duplication (dict.fromkeys) *)
Fixpoint dedup (l : list nat) (seen : list nat) : list nat :=
  match l with
  | [] => []
  | x :: l' => if existsb (Nat.eqb x) seen then dedup l' seen else x :: dedup l' (x :: seen)
  end.

(* Token.merge / CitationToken.merge: Some merged-self, or None *)
Definition merge (self other : tok) : option tok :=
  if Nat.eqb (t_start self) (t_start other) && Nat.eqb (t_end self) (t_end other)
     && kind_eqb (t_kind self) (t_kind other) && groups_eqb (t_groups self) (t_groups other)
  then
    match t_kind self with
    | KCitation =>
        if Bool.eqb (t_short self) (t_short other) then
          Some {| t_kind := t_kind self; t_start := t_start self; t_end := t_end self;
                  t_data := t_data self; t_groups := t_groups self; t_short := t_short self;
                  t_exact := dedup (t_exact self ++ t_exact other) [];
                  t_var := dedup (t_var self ++ t_var other) [] |}
        else None
    | _ => Some self
    end
  else None.

(* all_tokens elements: plain words (str) or special tokens *)
Inductive elem := W (s : str) | T (t : tok).

Definition elem_str (e : elem) : str := match e with W s => s | T t => t_data t end.

(* ---- append_text: text.split(" ") with separators kept, last one removed ---- *)
Fixpoint split_sp (cur : str) (s : str) : list str :=
  match s with
  | [] => [cur]
  | c :: t => if N.eqb c 32 then cur :: split_sp [] t else split_sp (cur ++ [c]) t
  end.

Definition part_elems (p : str) : list str :=
  match p with [] => [[32%N]] | _ => [p; [32%N]] end.

Definition append_text (s : str) : list str :=
  removelast (flat_map part_elems (split_sp [] s)).

(* ---- stable sort on (start, -end) ---- *)
(* strictly smaller key: (start, -end) lexicographically *)
Definition tok_lt (a b : tok) : bool :=
  (t_start a <? t_start b) || (Nat.eqb (t_start a) (t_start b) && (t_end b <? t_end a)).

(* x is inserted in front of a list built from the elements that FOLLOW it in
   the input, so it must stay before every element with an equal key *)
Fixpoint insert_tok (x : tok) (l : list tok) : list tok :=
  match l with
  | [] => [x]
  | y :: l' => if tok_lt y x then y :: insert_tok x l' else x :: l
  end.
(* insertion from the right keeps equal keys in input order *)
Definition sort_toks (l : list tok) : list tok := fold_right insert_tok [] l.

(* ---- the loop ---- *)
Record st := {
  all_rev : list elem;           (* all_tokens, last element first *)
  cits_rev : list (nat * tok);   (* citation_tokens, last element first *)
  last : option tok;
  off : nat
}.

Definition truthy (t : tok) : bool := match t_data t with [] => false | _ => true end.

Section Loop.
  Variable text : str.
  Variable nominative : tok -> bool.   (* token_is_from_nominative_reporter *)

  Definition words (a b : nat) : list elem := map W (append_text (slice text a b)).

  Definition emit (s : st) (t : tok) (o : nat) (allr : list elem) (citsr : list (nat * tok)) : st :=
    let allr' := if o <? t_start t then rev (words o (t_start t)) ++ allr else allr in
    {| all_rev := T t :: allr';
       cits_rev := (length allr', t) :: citsr;
       last := Some t;
       off := t_end t |}.

  Definition step (s : st) (t : tok) : st :=
    let merged :=
      match last s with
      | Some lt => if truthy lt then merge lt t else None
      | None => None
      end in
    match merged with
    | Some m =>
        (* in-place update of last_token, which is the last element of both lists *)
        {| all_rev := match all_rev s with _ :: r => T m :: r | [] => [] end;
           cits_rev := match cits_rev s with (i, _) :: r => (i, m) :: r | [] => [] end;
           last := Some m;
           off := off s |}
    | None =>
        if t_start t <? off s then
          match last s with
          | Some lt =>
              if truthy lt && kind_eqb (t_kind t) KCitation && (t_end lt <? t_end t) && nominative lt then
                (* prefer the other citation: drop the nominative one, rewind *)
                emit s t (t_start lt) (tl (all_rev s)) (tl (cits_rev s))
              else s
          | None => s
          end
        else emit s t (off s) (all_rev s) (cits_rev s)
    end.

  Definition init : st := {| all_rev := []; cits_rev := []; last := None; off := 0 |}.

  Definition finish (s : st) : list elem * list (nat * tok) :=
    let allr := if off s <? length text then rev (words (off s) (length text)) ++ all_rev s
                else all_rev s in
    (rev allr, rev (cits_rev s)).

  Definition tokenize (cands : list tok) : list elem * list (nat * tok) :=
    finish (fold_left step (sort_toks cands) init).
End Loop.

(* well-formed candidate: offsets index its own text *)
Definition cand_wf (text : str) (t : tok) : Prop :=
  t_start t <= t_end t /\ t_end t <= length text /\ t_data t = slice text (t_start t) (t_end t).
