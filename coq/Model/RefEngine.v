(* Model/RefEngine.v -- the two remaining oracles of Model/Pipeline.v computed inside the model:
   find.extract_pincited_reference_citations' pattern (captured from the code by the translator,
   Gen/RefRegex.v) run by the engine through the finditer model, and utils.is_valid_name. *)
From EV Require Import Base.Str Base.PyVal Regex.Syntax Regex.Decl Regex.Match Model.Extract.
From EV Require Import Gen.Unicode Gen.Lower Gen.Consts Gen.RefRegex.

Definition name_of (names : list (str * str)) (k : str) : option str :=
  match find (fun kv => str_eqb (fst kv) k) names with Some kv => Some (snd kv) | None => None end.

Definition nth_field (n : nat) : str := nth n ref_name_fields [].

(* re.compile(pin_cite_re).finditer(remaining_text): (start, end, match.groupdict()) per match;
   groupdict has the names present in the pattern (in group order) and pin_cite *)
Definition refs_engine (names : list (str * str)) (s : str) : list (nat * nat * list (str * option str)) :=
  let r := ref_re (name_of names (nth_field 0)) (name_of names (nth_field 1))
                  (name_of names (nth_field 2)) (name_of names (nth_field 3)) in
  let present := filter (fun kn => match name_of names (fst kn) with
                                   | Some _ => true
                                   | None => negb (existsb (str_eqb (fst kn)) ref_name_fields)
                                   end) ref_names in
  map (fun mt => let '(i, j, c) := mt in
                 (i, j, map (fun kn => (fst kn, group_text s c (snd kn))) present))
      (finditer U false s r).

(* utils.is_valid_name *)
Definition ends_with (c : N) (s : str) : bool :=
  match rev s with x :: _ => N.eqb x c | [] => false end.

Definition is_valid_name (n : str) : bool :=
  (2 <? length n)%nat
  && match n with c :: _ => in_ranges tbl_upper c | [] => false end
  && negb (ends_with 46 n)
  && negb (str_isdigit DT n)
  && negb (existsb (str_eqb (lower_str lower1 n)) DISALLOWED_NAMES).
