(* Model/E2EClosed.v -- get_citations as a function of the text and the current year only:
   Model/E2E.v with the reference-pattern matches and is_valid_name computed by Model/RefEngine.v. *)
From EV Require Import Base.Str Base.PyVal Model.Pipeline Model.E2E Model.RefEngine.

Definition get_citations_closed (this_year : Z) (s : str) (remove_ambiguous : bool) : result (list pcit) :=
  get_citations_text refs_engine is_valid_name this_year s remove_ambiguous.
