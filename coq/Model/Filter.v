(* Model/Filter.v -- eyecite/helpers.py:filter_citations, overlapping_citations,
   disambiguate_reporters.  (filter_citations as repaired: the survivors of the
   full-span pass are returned sorted by span.) *)
From EV Require Import Base.Str.
Open Scope Z_scope.

Definition zspan := (Z * Z)%type.

Record fc := {
  f_id : nat;          (* object identity *)
  f_ref : bool;        (* isinstance(c, ReferenceCitation) *)
  f_span : zspan;      (* c.span() *)
  f_full : zspan       (* c.full_span() *)
}.

Definition zspan_eqb (a b : zspan) : bool := Z.eqb (fst a) (fst b) && Z.eqb (snd a) (snd b).
(* tuple comparison a < b *)
Definition zspan_ltb (a b : zspan) : bool :=
  Z.ltb (fst a) (fst b) || (Z.eqb (fst a) (fst b) && Z.ltb (snd a) (snd b)).

(* overlapping_citations: max(start_1, start_2) < min(end_1, end_2) *)
Definition overlapping (a b : zspan) : bool :=
  Z.ltb (Z.max (fst a) (fst b)) (Z.min (snd a) (snd b)).

(* {c.span(): c for c in citations}.values(): first key position, last value *)
Fixpoint dict_put (c : fc) (d : list fc) : list fc :=
  match d with
  | [] => [c]
  | x :: d' => if zspan_eqb (f_span x) (f_span c) then c :: d' else x :: dict_put c d'
  end.
Definition dedupe (l : list fc) : list fc := fold_left (fun d c => dict_put c d) l [].

(* sorted(key=...) : stable insertion sort *)
Section Sort.
  Variable key : fc -> zspan.
  Fixpoint insert_by (x : fc) (l : list fc) : list fc :=
    match l with
    | [] => [x]
    | y :: l' => if zspan_ltb (key y) (key x) then y :: insert_by x l' else x :: l
    end.
  Definition sort_by (l : list fc) : list fc := fold_right insert_by [] l.
End Sort.

(* the neighbour loop; `acc` is filtered_citations, last element first.  (As repaired: a reference
   that does not overlap the last kept citation is also checked against every kept citation.) *)
Definition fstep (acc : list fc) (c : fc) : list fc :=
  match acc with
  | [] => [c]
  | last :: rest =>
      if overlapping (f_full c) (f_full last) then
        if f_ref last then c :: rest          (* pop the reference, append c *)
        else if f_ref c then acc              (* skip the reference *)
        else c :: acc                         (* e.g. parallel full citations: keep both *)
      else if f_ref c && existsb (fun x => overlapping (f_full c) (f_full x)) acc then
        acc   (* (as repaired) a reference may also overlap an earlier, longer kept citation that is
                 not the last one: drop the reference *)
      else c :: acc
  end.

Definition filter_citations (l : list fc) : list fc :=
  match l with
  | [] => []
  | _ =>
      match sort_by f_full (dedupe l) with
      | [] => []
      | first :: rest => sort_by f_span (rev (fold_left fstep rest [first]))
      end
  end.

(* disambiguate_reporters: keep non-resource citations and resource citations
   with an edition guess *)
Definition disambiguate {A} (is_resource has_guess : A -> bool) (l : list A) : list A :=
  filter (fun c => negb (is_resource c) || has_guess c) l.
