(* Model/Pipeline.v -- eyecite/find.py:get_citations (plain-text mode) and the
   helpers it uses: eyecite/helpers.py match_on_tokens, add_post_citation,
   add_defendant, add_pre_citation, add_law_metadata, add_journal_metadata,
   extract_pin_cite, process_parenthetical, clean_pin_cite; the _extract_*
   constructors, is_parallel_citation, extract_pincited_reference_citations,
   span / full_span / span_with_pincite.
   Regular-expression searches enter through an oracle `search` (what
   regex.search returns for a pattern and a window); the theorems assume only
   the span contract of a match object (search_ok below), which the
   correspondence check validates on every recorded call.
   The model follows the repaired behaviour (DESIGN.md section 7: D1, D11, D12). *)
From EV Require Import Base.Str Base.PyVal Model.Tokenize Model.Editions Model.Filter.
Open Scope Z_scope.

(* ---------- str helpers ---------- *)
Fixpoint lstrip (P : N -> bool) (s : str) : str :=
  match s with
  | c :: t => if P c then lstrip P t else s
  | [] => []
  end.
Definition rstrip (P : N -> bool) (s : str) : str := rev (lstrip P (rev s)).
Definition strip (P : N -> bool) (s : str) : str := rstrip P (lstrip P s).

Definition in_chars (cs : list N) (c : N) : bool := existsb (N.eqb c) cs.
Definition SP : N := 32%N.
Definition COMMA : N := 44%N.
Definition LPAR : N := 40%N.
Definition RPAR : N := 41%N.
Definition SEMI : N := 59%N.

(* str.endswith *)
Definition suffixb (p s : str) : bool := prefixb (rev p) (rev s).

Definition nonempty (s : str) : bool := match s with [] => false | _ => true end.
Definition truthy_o (o : option str) : bool := match o with Some (_ :: _) => true | _ => false end.
(* x or None *)
Definition or_none (s : str) : option str := match s with [] => None | _ => Some s end.

Fixpoint ends_with (c : N) (s : str) : bool :=
  match s with
  | [] => false
  | [x] => N.eqb x c
  | _ :: t => ends_with c t
  end.

(* ---------- the regex oracle ---------- *)
Inductive pat := PPostFull | PPreFull | PPostShort | PPostLaw | PPostJournal
               | PShortAnte | PSupraAnte | PDefYear | PYearMatch.

Record mres := {
  m_start : nat;
  m_end : nat;
  m_groups : list (str * option (nat * nat))     (* groupdict as spans inside the window *)
}.

(* m[name]: the text of a group, None when it did not participate (or does not exist) *)
Fixpoint gspan (name : str) (g : list (str * option (nat * nat))) : option (nat * nat) :=
  match g with
  | [] => None
  | (k, v) :: g' => if str_eqb k name then v else gspan name g'
  end.
Definition mget (m : mres) (window : str) (name : str) : option str :=
  match gspan name (m_groups m) with
  | Some (a, b) => Some (slice window a b)
  | None => None
  end.

(* the span contract of a match object *)
Definition mres_ok (window : str) (m : mres) : Prop :=
  (m_start m <= m_end m)%nat /\ (m_end m <= length window)%nat /\
  forall k a b, In (k, Some (a, b)) (m_groups m) -> (m_start m <= a)%nat /\ (a <= b)%nat /\ (b <= m_end m)%nat.

Definition g_pin_cite : str := [112;105;110;95;99;105;116;101]%N.
Definition g_extra : str := [101;120;116;114;97]%N.
Definition g_parenthetical : str := [112;97;114;101;110;116;104;101;116;105;99;97;108]%N.
Definition g_year : str := [121;101;97;114]%N.
Definition g_court : str := [99;111;117;114;116]%N.
Definition g_antecedent : str := [97;110;116;101;99;101;100;101;110;116]%N.
Definition g_volume : str := [118;111;108;117;109;101]%N.
Definition g_publisher : str := [112;117;98;108;105;115;104;101;114]%N.
Definition g_month : str := [109;111;110;116;104]%N.
Definition g_day : str := [100;97;121]%N.
Definition g_defendant : str := [100;101;102;101;110;100;97;110;116]%N.
Definition g_page : str := [112;97;103;101]%N.
Definition g_stop_word : str := [115;116;111;112;95;119;111;114;100]%N.
Definition s_v : str := [118]%N.

(* ---------- citations ---------- *)
Inductive ccls := CFullCase | CFullLaw | CFullJournal | CShort | CSupra | CId | CUnknown | CRef.

Record pcit := {
  p_cls : ccls;
  p_tok : tok;
  p_index : nat;
  p_span_start : option Z;  p_span_end : option Z;
  p_full_start : option Z;  p_full_end : option Z;
  p_pin_start : option Z;   p_pin_end : option Z;
  p_pin : option str;
  p_parenthetical : option str;
  p_year_s : option str;    (* metadata.year *)
  p_year : option Z;        (* citation.year *)
  p_court_s : option str;   (* text of the court group (the court id lookup is outside the model) *)
  p_plaintiff : option str; p_defendant : option str;
  p_extra : option str;     p_antecedent : option str;
  p_volume : option str;    (* supra volume *)
  p_publisher : option str; p_month : option str; p_day : option str;
  p_names : list (str * option str);   (* reference citation: groupdict of the reference match *)
  p_guess : option edition
}.

Definition zs (t : tok) : Z := Z.of_nat (t_start t).
Definition ze (t : tok) : Z := Z.of_nat (t_end t).

Definition span_of (c : pcit) : Z * Z :=
  (match p_span_start c with Some x => x | None => zs (p_tok c) end,
   match p_span_end c with Some x => x | None => ze (p_tok c) end).
Definition full_span_of (c : pcit) : Z * Z :=
  (match p_full_start c with Some x => x | None => fst (span_of c) end,
   match p_full_end c with Some x => x | None => snd (span_of c) end).

Definition omin (a : option Z) (b : Z) : Z := match a with Some x => Z.min x b | None => b end.
Definition omax (a : option Z) (b : Z) : Z := match a with Some x => Z.max x b | None => b end.
Definition span_with_pincite (c : pcit) : Z * Z :=
  (omin (p_pin_start c) (omin (p_span_start c) (zs (p_tok c))),
   omax (p_pin_end c) (omax (p_span_end c) (ze (p_tok c)))).

Definition blank (cl : ccls) (t : tok) (i : nat) : pcit :=
  {| p_cls := cl; p_tok := t; p_index := i;
     p_span_start := None; p_span_end := None; p_full_start := None; p_full_end := None;
     p_pin_start := None; p_pin_end := None; p_pin := None; p_parenthetical := None;
     p_year_s := None; p_year := None; p_court_s := None; p_plaintiff := None; p_defendant := None;
     p_extra := None; p_antecedent := None; p_volume := None; p_publisher := None; p_month := None;
     p_day := None; p_names := []; p_guess := None |}.

(* ---------- field updates (attribute assignments) ---------- *)
Definition set_span_start (v : option Z) (c : pcit) : pcit :=
  {| p_cls := p_cls c; p_tok := p_tok c; p_index := p_index c; p_span_start := v; p_span_end := p_span_end c; p_full_start := p_full_start c; p_full_end := p_full_end c; p_pin_start := p_pin_start c; p_pin_end := p_pin_end c; p_pin := p_pin c; p_parenthetical := p_parenthetical c; p_year_s := p_year_s c; p_year := p_year c; p_court_s := p_court_s c; p_plaintiff := p_plaintiff c; p_defendant := p_defendant c; p_extra := p_extra c; p_antecedent := p_antecedent c; p_volume := p_volume c; p_publisher := p_publisher c; p_month := p_month c; p_day := p_day c; p_names := p_names c; p_guess := p_guess c |}.

Definition set_span_end (v : option Z) (c : pcit) : pcit :=
  {| p_cls := p_cls c; p_tok := p_tok c; p_index := p_index c; p_span_start := p_span_start c; p_span_end := v; p_full_start := p_full_start c; p_full_end := p_full_end c; p_pin_start := p_pin_start c; p_pin_end := p_pin_end c; p_pin := p_pin c; p_parenthetical := p_parenthetical c; p_year_s := p_year_s c; p_year := p_year c; p_court_s := p_court_s c; p_plaintiff := p_plaintiff c; p_defendant := p_defendant c; p_extra := p_extra c; p_antecedent := p_antecedent c; p_volume := p_volume c; p_publisher := p_publisher c; p_month := p_month c; p_day := p_day c; p_names := p_names c; p_guess := p_guess c |}.

Definition set_full_start (v : option Z) (c : pcit) : pcit :=
  {| p_cls := p_cls c; p_tok := p_tok c; p_index := p_index c; p_span_start := p_span_start c; p_span_end := p_span_end c; p_full_start := v; p_full_end := p_full_end c; p_pin_start := p_pin_start c; p_pin_end := p_pin_end c; p_pin := p_pin c; p_parenthetical := p_parenthetical c; p_year_s := p_year_s c; p_year := p_year c; p_court_s := p_court_s c; p_plaintiff := p_plaintiff c; p_defendant := p_defendant c; p_extra := p_extra c; p_antecedent := p_antecedent c; p_volume := p_volume c; p_publisher := p_publisher c; p_month := p_month c; p_day := p_day c; p_names := p_names c; p_guess := p_guess c |}.

Definition set_full_end (v : option Z) (c : pcit) : pcit :=
  {| p_cls := p_cls c; p_tok := p_tok c; p_index := p_index c; p_span_start := p_span_start c; p_span_end := p_span_end c; p_full_start := p_full_start c; p_full_end := v; p_pin_start := p_pin_start c; p_pin_end := p_pin_end c; p_pin := p_pin c; p_parenthetical := p_parenthetical c; p_year_s := p_year_s c; p_year := p_year c; p_court_s := p_court_s c; p_plaintiff := p_plaintiff c; p_defendant := p_defendant c; p_extra := p_extra c; p_antecedent := p_antecedent c; p_volume := p_volume c; p_publisher := p_publisher c; p_month := p_month c; p_day := p_day c; p_names := p_names c; p_guess := p_guess c |}.

Definition set_pin_start (v : option Z) (c : pcit) : pcit :=
  {| p_cls := p_cls c; p_tok := p_tok c; p_index := p_index c; p_span_start := p_span_start c; p_span_end := p_span_end c; p_full_start := p_full_start c; p_full_end := p_full_end c; p_pin_start := v; p_pin_end := p_pin_end c; p_pin := p_pin c; p_parenthetical := p_parenthetical c; p_year_s := p_year_s c; p_year := p_year c; p_court_s := p_court_s c; p_plaintiff := p_plaintiff c; p_defendant := p_defendant c; p_extra := p_extra c; p_antecedent := p_antecedent c; p_volume := p_volume c; p_publisher := p_publisher c; p_month := p_month c; p_day := p_day c; p_names := p_names c; p_guess := p_guess c |}.

Definition set_pin_end (v : option Z) (c : pcit) : pcit :=
  {| p_cls := p_cls c; p_tok := p_tok c; p_index := p_index c; p_span_start := p_span_start c; p_span_end := p_span_end c; p_full_start := p_full_start c; p_full_end := p_full_end c; p_pin_start := p_pin_start c; p_pin_end := v; p_pin := p_pin c; p_parenthetical := p_parenthetical c; p_year_s := p_year_s c; p_year := p_year c; p_court_s := p_court_s c; p_plaintiff := p_plaintiff c; p_defendant := p_defendant c; p_extra := p_extra c; p_antecedent := p_antecedent c; p_volume := p_volume c; p_publisher := p_publisher c; p_month := p_month c; p_day := p_day c; p_names := p_names c; p_guess := p_guess c |}.

Definition set_pin (v : option str) (c : pcit) : pcit :=
  {| p_cls := p_cls c; p_tok := p_tok c; p_index := p_index c; p_span_start := p_span_start c; p_span_end := p_span_end c; p_full_start := p_full_start c; p_full_end := p_full_end c; p_pin_start := p_pin_start c; p_pin_end := p_pin_end c; p_pin := v; p_parenthetical := p_parenthetical c; p_year_s := p_year_s c; p_year := p_year c; p_court_s := p_court_s c; p_plaintiff := p_plaintiff c; p_defendant := p_defendant c; p_extra := p_extra c; p_antecedent := p_antecedent c; p_volume := p_volume c; p_publisher := p_publisher c; p_month := p_month c; p_day := p_day c; p_names := p_names c; p_guess := p_guess c |}.

Definition set_parenthetical (v : option str) (c : pcit) : pcit :=
  {| p_cls := p_cls c; p_tok := p_tok c; p_index := p_index c; p_span_start := p_span_start c; p_span_end := p_span_end c; p_full_start := p_full_start c; p_full_end := p_full_end c; p_pin_start := p_pin_start c; p_pin_end := p_pin_end c; p_pin := p_pin c; p_parenthetical := v; p_year_s := p_year_s c; p_year := p_year c; p_court_s := p_court_s c; p_plaintiff := p_plaintiff c; p_defendant := p_defendant c; p_extra := p_extra c; p_antecedent := p_antecedent c; p_volume := p_volume c; p_publisher := p_publisher c; p_month := p_month c; p_day := p_day c; p_names := p_names c; p_guess := p_guess c |}.

Definition set_year_s (v : option str) (c : pcit) : pcit :=
  {| p_cls := p_cls c; p_tok := p_tok c; p_index := p_index c; p_span_start := p_span_start c; p_span_end := p_span_end c; p_full_start := p_full_start c; p_full_end := p_full_end c; p_pin_start := p_pin_start c; p_pin_end := p_pin_end c; p_pin := p_pin c; p_parenthetical := p_parenthetical c; p_year_s := v; p_year := p_year c; p_court_s := p_court_s c; p_plaintiff := p_plaintiff c; p_defendant := p_defendant c; p_extra := p_extra c; p_antecedent := p_antecedent c; p_volume := p_volume c; p_publisher := p_publisher c; p_month := p_month c; p_day := p_day c; p_names := p_names c; p_guess := p_guess c |}.

Definition set_year (v : option Z) (c : pcit) : pcit :=
  {| p_cls := p_cls c; p_tok := p_tok c; p_index := p_index c; p_span_start := p_span_start c; p_span_end := p_span_end c; p_full_start := p_full_start c; p_full_end := p_full_end c; p_pin_start := p_pin_start c; p_pin_end := p_pin_end c; p_pin := p_pin c; p_parenthetical := p_parenthetical c; p_year_s := p_year_s c; p_year := v; p_court_s := p_court_s c; p_plaintiff := p_plaintiff c; p_defendant := p_defendant c; p_extra := p_extra c; p_antecedent := p_antecedent c; p_volume := p_volume c; p_publisher := p_publisher c; p_month := p_month c; p_day := p_day c; p_names := p_names c; p_guess := p_guess c |}.

Definition set_court_s (v : option str) (c : pcit) : pcit :=
  {| p_cls := p_cls c; p_tok := p_tok c; p_index := p_index c; p_span_start := p_span_start c; p_span_end := p_span_end c; p_full_start := p_full_start c; p_full_end := p_full_end c; p_pin_start := p_pin_start c; p_pin_end := p_pin_end c; p_pin := p_pin c; p_parenthetical := p_parenthetical c; p_year_s := p_year_s c; p_year := p_year c; p_court_s := v; p_plaintiff := p_plaintiff c; p_defendant := p_defendant c; p_extra := p_extra c; p_antecedent := p_antecedent c; p_volume := p_volume c; p_publisher := p_publisher c; p_month := p_month c; p_day := p_day c; p_names := p_names c; p_guess := p_guess c |}.

Definition set_plaintiff (v : option str) (c : pcit) : pcit :=
  {| p_cls := p_cls c; p_tok := p_tok c; p_index := p_index c; p_span_start := p_span_start c; p_span_end := p_span_end c; p_full_start := p_full_start c; p_full_end := p_full_end c; p_pin_start := p_pin_start c; p_pin_end := p_pin_end c; p_pin := p_pin c; p_parenthetical := p_parenthetical c; p_year_s := p_year_s c; p_year := p_year c; p_court_s := p_court_s c; p_plaintiff := v; p_defendant := p_defendant c; p_extra := p_extra c; p_antecedent := p_antecedent c; p_volume := p_volume c; p_publisher := p_publisher c; p_month := p_month c; p_day := p_day c; p_names := p_names c; p_guess := p_guess c |}.

Definition set_defendant (v : option str) (c : pcit) : pcit :=
  {| p_cls := p_cls c; p_tok := p_tok c; p_index := p_index c; p_span_start := p_span_start c; p_span_end := p_span_end c; p_full_start := p_full_start c; p_full_end := p_full_end c; p_pin_start := p_pin_start c; p_pin_end := p_pin_end c; p_pin := p_pin c; p_parenthetical := p_parenthetical c; p_year_s := p_year_s c; p_year := p_year c; p_court_s := p_court_s c; p_plaintiff := p_plaintiff c; p_defendant := v; p_extra := p_extra c; p_antecedent := p_antecedent c; p_volume := p_volume c; p_publisher := p_publisher c; p_month := p_month c; p_day := p_day c; p_names := p_names c; p_guess := p_guess c |}.

Definition set_extra (v : option str) (c : pcit) : pcit :=
  {| p_cls := p_cls c; p_tok := p_tok c; p_index := p_index c; p_span_start := p_span_start c; p_span_end := p_span_end c; p_full_start := p_full_start c; p_full_end := p_full_end c; p_pin_start := p_pin_start c; p_pin_end := p_pin_end c; p_pin := p_pin c; p_parenthetical := p_parenthetical c; p_year_s := p_year_s c; p_year := p_year c; p_court_s := p_court_s c; p_plaintiff := p_plaintiff c; p_defendant := p_defendant c; p_extra := v; p_antecedent := p_antecedent c; p_volume := p_volume c; p_publisher := p_publisher c; p_month := p_month c; p_day := p_day c; p_names := p_names c; p_guess := p_guess c |}.

Definition set_antecedent (v : option str) (c : pcit) : pcit :=
  {| p_cls := p_cls c; p_tok := p_tok c; p_index := p_index c; p_span_start := p_span_start c; p_span_end := p_span_end c; p_full_start := p_full_start c; p_full_end := p_full_end c; p_pin_start := p_pin_start c; p_pin_end := p_pin_end c; p_pin := p_pin c; p_parenthetical := p_parenthetical c; p_year_s := p_year_s c; p_year := p_year c; p_court_s := p_court_s c; p_plaintiff := p_plaintiff c; p_defendant := p_defendant c; p_extra := p_extra c; p_antecedent := v; p_volume := p_volume c; p_publisher := p_publisher c; p_month := p_month c; p_day := p_day c; p_names := p_names c; p_guess := p_guess c |}.

Definition set_volume (v : option str) (c : pcit) : pcit :=
  {| p_cls := p_cls c; p_tok := p_tok c; p_index := p_index c; p_span_start := p_span_start c; p_span_end := p_span_end c; p_full_start := p_full_start c; p_full_end := p_full_end c; p_pin_start := p_pin_start c; p_pin_end := p_pin_end c; p_pin := p_pin c; p_parenthetical := p_parenthetical c; p_year_s := p_year_s c; p_year := p_year c; p_court_s := p_court_s c; p_plaintiff := p_plaintiff c; p_defendant := p_defendant c; p_extra := p_extra c; p_antecedent := p_antecedent c; p_volume := v; p_publisher := p_publisher c; p_month := p_month c; p_day := p_day c; p_names := p_names c; p_guess := p_guess c |}.

Definition set_publisher (v : option str) (c : pcit) : pcit :=
  {| p_cls := p_cls c; p_tok := p_tok c; p_index := p_index c; p_span_start := p_span_start c; p_span_end := p_span_end c; p_full_start := p_full_start c; p_full_end := p_full_end c; p_pin_start := p_pin_start c; p_pin_end := p_pin_end c; p_pin := p_pin c; p_parenthetical := p_parenthetical c; p_year_s := p_year_s c; p_year := p_year c; p_court_s := p_court_s c; p_plaintiff := p_plaintiff c; p_defendant := p_defendant c; p_extra := p_extra c; p_antecedent := p_antecedent c; p_volume := p_volume c; p_publisher := v; p_month := p_month c; p_day := p_day c; p_names := p_names c; p_guess := p_guess c |}.

Definition set_month (v : option str) (c : pcit) : pcit :=
  {| p_cls := p_cls c; p_tok := p_tok c; p_index := p_index c; p_span_start := p_span_start c; p_span_end := p_span_end c; p_full_start := p_full_start c; p_full_end := p_full_end c; p_pin_start := p_pin_start c; p_pin_end := p_pin_end c; p_pin := p_pin c; p_parenthetical := p_parenthetical c; p_year_s := p_year_s c; p_year := p_year c; p_court_s := p_court_s c; p_plaintiff := p_plaintiff c; p_defendant := p_defendant c; p_extra := p_extra c; p_antecedent := p_antecedent c; p_volume := p_volume c; p_publisher := p_publisher c; p_month := v; p_day := p_day c; p_names := p_names c; p_guess := p_guess c |}.

Definition set_day (v : option str) (c : pcit) : pcit :=
  {| p_cls := p_cls c; p_tok := p_tok c; p_index := p_index c; p_span_start := p_span_start c; p_span_end := p_span_end c; p_full_start := p_full_start c; p_full_end := p_full_end c; p_pin_start := p_pin_start c; p_pin_end := p_pin_end c; p_pin := p_pin c; p_parenthetical := p_parenthetical c; p_year_s := p_year_s c; p_year := p_year c; p_court_s := p_court_s c; p_plaintiff := p_plaintiff c; p_defendant := p_defendant c; p_extra := p_extra c; p_antecedent := p_antecedent c; p_volume := p_volume c; p_publisher := p_publisher c; p_month := p_month c; p_day := v; p_names := p_names c; p_guess := p_guess c |}.

Definition set_guess (v : option edition) (c : pcit) : pcit :=
  {| p_cls := p_cls c; p_tok := p_tok c; p_index := p_index c; p_span_start := p_span_start c; p_span_end := p_span_end c; p_full_start := p_full_start c; p_full_end := p_full_end c; p_pin_start := p_pin_start c; p_pin_end := p_pin_end c; p_pin := p_pin c; p_parenthetical := p_parenthetical c; p_year_s := p_year_s c; p_year := p_year c; p_court_s := p_court_s c; p_plaintiff := p_plaintiff c; p_defendant := p_defendant c; p_extra := p_extra c; p_antecedent := p_antecedent c; p_volume := p_volume c; p_publisher := p_publisher c; p_month := p_month c; p_day := p_day c; p_names := p_names c; p_guess := v |}.

Definition set_names (v : list (str * option str)) (c : pcit) : pcit :=
  {| p_cls := p_cls c; p_tok := p_tok c; p_index := p_index c; p_span_start := p_span_start c; p_span_end := p_span_end c; p_full_start := p_full_start c; p_full_end := p_full_end c; p_pin_start := p_pin_start c; p_pin_end := p_pin_end c; p_pin := p_pin c; p_parenthetical := p_parenthetical c; p_year_s := p_year_s c; p_year := p_year c; p_court_s := p_court_s c; p_plaintiff := p_plaintiff c; p_defendant := p_defendant c; p_extra := p_extra c; p_antecedent := p_antecedent c; p_volume := p_volume c; p_publisher := p_publisher c; p_month := p_month c; p_day := p_day c; p_names := v; p_guess := p_guess c |}.

Section Pipe.
  Variable search : pat -> str -> option mres.
  Variable refsearch : list (str * str) -> str -> list (nat * nat * list (str * option str)).
  Variable MAXC : nat.          (* MAX_MATCH_CHARS *)
  Variable BACK : nat.          (* BACKWARD_SEEK *)
  Variable D : dtables.
  Variable highest : Z.         (* _highest_valid_year *)
  Variable this_year : Z.       (* datetime.now().year *)
  Variable edition_of : nat -> option edition.     (* edition id -> Edition *)
  Variable source_of : nat -> nat.                 (* edition id -> 0 reporters / 1 laws / 2 journals *)
  Variable valid_name : str -> bool.               (* utils.is_valid_name *)
  Variable is_space : N -> bool.                   (* str.isspace *)

  (* ---------- match_on_tokens: the window ---------- *)
  Definition stops (strings_only : bool) (e : elem) : bool :=
    match e with
    | W _ => false
    | T t => strings_only || kind_eqb (t_kind t) KParagraph
    end.

  Fixpoint fwd (ws : list elem) (acc : str) (so : bool) : str :=
    match ws with
    | [] => acc
    | e :: r =>
        if stops so e then acc
        else let acc' := acc ++ elem_str e in
             if (MAXC <=? length acc')%nat then firstn MAXC acc' else fwd r acc' so
    end.
  Definition window_fwd (words : list elem) (start : nat) (prefix : str) (so : bool) : str :=
    fwd (skipn start words) prefix so.

  (* ws = the tokens from start_index down to 0 *)
  Fixpoint bwd (ws : list elem) (acc : str) (so : bool) : str :=
    match ws with
    | [] => acc
    | e :: r =>
        if stops so e then acc
        else let acc' := elem_str e ++ acc in
             if (MAXC <=? length acc')%nat then skipn (length acc' - MAXC) acc' else bwd r acc' so
    end.
  (* start_index = index - 1; index = 0 gives the empty window *)
  Definition window_bwd (words : list elem) (index : nat) (so : bool) : str :=
    bwd (rev (firstn index words)) [] so.

  (* ---------- small helpers ---------- *)
  Definition clean_pin (o : option str) : option str :=
    match o with Some s => Some (strip (in_chars [COMMA; SP]) s) | None => None end.
  Definition clean_pin_or_none (o : option str) : option str :=
    match clean_pin o with Some (c :: s) => Some (c :: s) | _ => None end.

  (* process_parenthetical *)
  Fixpoint paren_cut (s : str) (i : nat) (bal : Z) : option nat :=
    match s with
    | [] => None
    | c :: t =>
        let bal' := if N.eqb c LPAR then bal + 1 else if N.eqb c RPAR then bal - 1 else bal in
        if bal' <? 0 then Some i else paren_cut t (S i) bal'
    end.
  Definition process_parenthetical (o : option str) : option str :=
    match o with
    | None => None
    | Some s =>
        match paren_cut s 0 0 with
        | Some i => or_none (firstn i s)
        | None => match search PYearMatch s with
                  | Some _ => None
                  | None => or_none s
                  end
        end
    end.

  Definition zlen (s : str) : Z := Z.of_nat (length s).
  Definition olen (o : option str) : Z := match o with Some s => zlen s | None => 0 end.

  (* ---------- extract_pin_cite ---------- *)
  (* -> (pin_cite, span_end, parenthetical); prefix None = page group is None (TypeError) *)
  Definition extract_pin_cite (words : list elem) (index : nat) (from_end : Z) (prefix : option str)
    : result (option str * option Z * option str) :=
    match prefix with
    | None => Err TypeErr
    | Some pre =>
        let w := window_fwd words (S index) pre true in
        match search PPostShort w with
        | None => Ok (None, None, None)
        | Some m =>
            let pc := mget m w g_pin_cite in
            let extra_chars :=
              if truthy_o pc then
                match pc with Some s => zlen (rstrip (in_chars [COMMA; SP]) s) | None => 0 end
              else 0 in
            let pin := if truthy_o pc then clean_pin pc else None in
            Ok (pin, Some (from_end + Z.max (extra_chars - zlen pre) 0),
                process_parenthetical (mget m w g_parenthetical))
        end
    end.


  (* ---------- add_post_citation ---------- *)
  Definition add_post_citation (c : pcit) (words : list elem) : pcit :=
    let w := window_fwd words (S (p_index c)) [] false in
    match search PPostFull w with
    | None => c
    | Some m =>
        let se := snd (span_of c) in
        let fe0 := se + Z.of_nat (m_end m) in
        let pc := mget m w g_pin_cite in
        let rawpar := mget m w g_parenthetical in
        let par := process_parenthetical rawpar in
        let fe :=
          match rawpar, par with
          | Some r, Some p =>
              if negb (Z.eqb fe0 0) && (zlen p <? zlen r) then fe0 - (zlen r - zlen p) else fe0
          | _, _ => fe0
          end in
        let ys := mget m w g_year in
        let c1 := set_full_end (Some fe) c in
        let c2 := set_pin (clean_pin_or_none pc) c1 in
        let c3 := if truthy_o pc then set_pin_end (Some (se + olen pc)) c2 else c2 in
        let c4 := set_extra (match mget m w g_extra with
                             | Some e => or_none (strip is_space e)
                             | None => None
                             end) c3 in
        let c5 := set_parenthetical par c4 in
        let c6 := set_year_s ys c5 in
        let c7 := if truthy_o ys
                  then set_year (match ys with Some y => get_year D highest y | None => None end) c6
                  else c6 in
        if truthy_o (mget m w g_court) then set_court_s (mget m w g_court) c7 else c7
    end.

  (* ---------- add_defendant ---------- *)
  Definition join_elems (l : list elem) : str := concat (map elem_str l).

  (* ws = words[idx], words[idx-1], ... ; offset = characters between the scanned position and the citation *)
  Fixpoint def_scan (all_words : list elem) (ws : list elem) (idx : nat) (offset : Z)
    : result (option (nat * Z * option str)) :=
    match ws with
    | [] => Ok None
    | e :: r =>
        let offset1 := offset + zlen (elem_str e) in
        match e with
        | W [c] => if N.eqb c COMMA then def_scan all_words r (Nat.pred idx) offset1
                   else if N.eqb c SEMI then Ok None
                   else def_scan all_words r (Nat.pred idx) offset1
        | W s => if ends_with SEMI s then Ok None else def_scan all_words r (Nat.pred idx) offset1
        | T t =>
            if kind_eqb (t_kind t) KStopWord then
              match glookup g_stop_word (t_groups t) with
              | None => Err KeyErr
              | Some v =>
                  if ostr_eqb v (Some s_v) && (0 <? idx)%nat then
                    let joined := join_elems (slice all_words (idx - 2) idx) in
                    let pl := strip (in_chars [LPAR; SP]) joined in
                    Ok (Some (S idx, offset1 + zlen (lstrip (in_chars [LPAR; SP]) joined), Some pl))
                  else Ok (Some (S idx, offset1 - zlen (elem_str e), None))
              end
            else if ends_with SEMI (t_data t) then Ok None
            else def_scan all_words r (Nat.pred idx) offset1
        end
    end.

  Definition add_defendant (c : pcit) (words : list elem) : result pcit :=
    let idx := p_index c in
    let ws := firstn (BACK - 1) (rev (firstn idx words)) in
    do r <- def_scan words ws (Nat.pred idx) 0 ;;
    match r with
    | None => Ok c
    | Some (start_index, offset, pl) =>
        let c1 := match pl with Some p => set_plaintiff (Some p) c | None => c end in
        let c2 := set_full_start (Some (fst (span_of c) - offset)) c1 in
        let defendant := strip (in_chars [COMMA; SP; LPAR]) (join_elems (slice words start_index idx)) in
        if nonempty (strip is_space defendant) then
          match search PDefYear defendant with
          | Some m =>
              let d := mget m defendant g_defendant in
              let y := mget m defendant g_year in
              Ok (set_defendant d
                    (set_year_s y
                       (set_year (match y with Some ys => get_year D highest ys | None => None end) c2)))
          | None => Ok (set_defendant (Some defendant) c2)
          end
        else Ok c2
    end.

  (* ---------- add_pre_citation ---------- *)
  Definition add_pre_citation (c : pcit) (words : list elem) : pcit :=
    if truthy_o (p_plaintiff c) || truthy_o (p_defendant c) then c
    else
      let w := window_bwd words (p_index c) true in
      match search PPreFull w with
      | None => c
      | Some m =>
          let len := Z.of_nat (m_end m) - Z.of_nat (m_start m) in
          let ss := fst (span_of c) in
          let pc := mget m w g_pin_cite in
          let c1 := if truthy_o pc then set_pin_start (Some (ss - len)) c else c in
          set_full_start (Some (ss - len))
            (set_antecedent (mget m w g_antecedent) (set_pin (clean_pin_or_none pc) c1))
      end.

  (* ---------- add_law_metadata / add_journal_metadata ---------- *)
  Definition add_law_metadata (c : pcit) (words : list elem) : pcit :=
    let w := window_fwd words (S (p_index c)) [] true in
    match search PPostLaw w with
    | None => c
    | Some m =>
        let ys := mget m w g_year in
        let c1 := set_full_end (Some (snd (span_of c) + Z.of_nat (m_end m))) c in
        let c2 := set_pin (clean_pin_or_none (mget m w g_pin_cite)) c1 in
        let c3 := set_publisher (mget m w g_publisher) c2 in
        let c4 := set_day (mget m w g_day) c3 in
        let c5 := set_month (mget m w g_month) c4 in
        let c6 := set_parenthetical (process_parenthetical (mget m w g_parenthetical)) c5 in
        let c7 := set_year_s ys c6 in
        if truthy_o ys then set_year (match ys with Some y => get_year D highest y | None => None end) c7 else c7
    end.

  Definition add_journal_metadata (c : pcit) (words : list elem) : pcit :=
    let w := window_fwd words (S (p_index c)) [] true in
    match search PPostJournal w with
    | None => c
    | Some m =>
        let ys := mget m w g_year in
        let c1 := set_full_end (Some (snd (span_of c) + Z.of_nat (m_end m))) c in
        let c2 := set_pin (clean_pin_or_none (mget m w g_pin_cite)) c1 in
        let c3 := set_parenthetical (process_parenthetical (mget m w g_parenthetical)) c2 in
        let c4 := set_year_s ys c3 in
        if truthy_o ys then set_year (match ys with Some y => get_year D highest y | None => None end) c4 else c4
    end.

  (* ---------- guess_edition ---------- *)
  Definition editions_of (ids : list nat) : list edition :=
    flat_map (fun i => match edition_of i with Some e => [e] | None => [] end) ids.

  Definition with_guess (c : pcit) : pcit :=
    set_guess (guess_edition this_year (editions_of (t_exact (p_tok c))) (editions_of (t_var (p_tok c))) (p_year c)) c.

  (* ---------- _extract_full_citation ---------- *)
  Definition full_class (t : tok) : result ccls :=
    let ids := match t_exact t with [] => t_var t | l => l end in
    let srcs := map source_of ids in
    if existsb (Nat.eqb 0) srcs then Ok CFullCase
    else if existsb (Nat.eqb 1) srcs then Ok CFullLaw
    else if existsb (Nat.eqb 2) srcs then Ok CFullJournal
    else Err ValueErr.

  Definition extract_full (words : list elem) (i : nat) (t : tok) : result pcit :=
    do cl <- full_class t ;;
    let c := blank cl t i in
    match cl with
    | CFullCase =>
        do c2 <- add_defendant (add_post_citation c words) words ;;
        Ok (with_guess (add_pre_citation c2 words))
    | CFullLaw => Ok (with_guess (add_law_metadata c words))
    | _ => Ok (with_guess (add_journal_metadata c words))
    end.

  (* ---------- _extract_shortform_citation ---------- *)
  Definition extract_short (words : list elem) (i : nat) (t : tok) : result pcit :=
    let w := window_bwd words i true in
    let am := search PShortAnte w in
    let alen := match am with Some m => Z.of_nat (m_end m) - Z.of_nat (m_start m) | None => 0 end in
    let ante := match am with
                | Some m => match mget m w g_antecedent with
                            | Some a => Some (strip is_space a)
                            | None => None      (* m["antecedent"].strip() on None raises; see short_ante_ok *)
                            end
                | None => None
                end in
    do _ <- (match am with
             | Some m => match mget m w g_antecedent with None => Err AttrNone | Some _ => Ok tt end
             | None => Ok tt
             end) ;;
    match glookup g_page (t_groups t) with
    | None => Err KeyErr
    | Some prefix =>
        (* (as repaired) the page is used as the prefix of the pin-cite window only when the token
           really ends with it:  if page is not None and not str(cite_token).endswith(page): page = "" *)
        let prefix' := match prefix with
                       | Some pg => if suffixb pg (t_data t) then Some pg else Some []
                       | None => None
                       end in
        do r <- extract_pin_cite words i (ze t) prefix' ;;
        let '(pin, span_end, par) := r in
        let se := match span_end with Some x => if Z.eqb x 0 then 0 else x | None => 0 end in
        let c := blank CShort t i in
        Ok (with_guess
              (set_parenthetical par
                 (set_pin pin
                    (set_antecedent ante
                       (set_full_end (Some (Z.max se (ze t)))
                          (set_full_start (Some (zs t - alen))
                             (set_span_end (Some se) c)))))))
    end.

  (* ---------- _extract_supra_citation / _extract_id_citation ---------- *)
  Definition extract_supra (words : list elem) (i : nat) (t : tok) : result pcit :=
    do r <- extract_pin_cite words i (ze t) (Some []) ;;
    let '(pin, span_end, par) := r in
    let w := window_bwd words i true in
    let am := search PSupraAnte w in
    let alen := match am with Some m => Z.of_nat (m_end m) - Z.of_nat (m_start m) | None => 0 end in
    let c := blank CSupra t i in
    Ok (set_volume (match am with Some m => mget m w g_volume | None => None end)
          (set_parenthetical par
             (set_pin pin
                (set_antecedent (match am with Some m => mget m w g_antecedent | None => None end)
                   (set_span_end span_end
                      (set_full_end (Some (match span_end with
                                           | Some x => if Z.eqb x 0 then ze t else x
                                           | None => ze t
                                           end))
                         (set_full_start (Some (zs t - alen)) c))))))).

  Definition extract_id (words : list elem) (i : nat) (t : tok) : result pcit :=
    do r <- extract_pin_cite words i (ze t) (Some []) ;;
    let '(pin, span_end, par) := r in
    Ok (set_parenthetical par (set_pin pin (set_span_end span_end (blank CId t i)))).

  (* ---------- is_parallel_citation (as repaired: only defined starts compare) ---------- *)
  Definition oz_eqb (a b : option Z) : bool :=
    match a, b with Some x, Some y => Z.eqb x y | _, _ => false end.

  Definition parallel (c pre : pcit) : pcit :=
    if oz_eqb (p_full_start c) (p_full_start pre) then
      set_year (p_year pre)
        (set_year_s (p_year_s pre)
           (set_plaintiff (p_plaintiff pre) (set_defendant (p_defendant pre) c)))
    else c.

  (* ---------- extract_pincited_reference_citations ---------- *)
  Definition k_plaintiff : str := [112;108;97;105;110;116;105;102;102]%N.
  Definition k_defendant : str := g_defendant.

  Definition lookup_name (k : str) (g : list (str * option str)) : option str :=
    match glookup k g with Some v => v | None => None end.

  Definition references (text : str) (c : pcit) : list pcit :=
    let se := snd (span_of c) in
    if (zlen text <=? se) then []
    else match p_cls c with
         | CFullCase =>
             let names :=
               flat_map (fun kv => match snd kv with
                                   | Some v => if nonempty v && valid_name v then [(fst kv, v)] else []
                                   | None => []
                                   end)
                        [(k_plaintiff, p_plaintiff c); (k_defendant, p_defendant c)] in
             match names with
             | [] => []
             | _ =>
                 let rest := pyslice text se (zlen text) in
                 map (fun r =>
                        let '(a, b, gd) := r in
                        let s := Z.to_nat (se + Z.of_nat a) in
                        let e := Z.to_nat (se + Z.of_nat b) in
                        let t := {| t_kind := KCaseRef; t_start := s; t_end := e; t_data := slice rest a b;
                                    t_groups := []; t_short := false; t_exact := []; t_var := [] |} in
                        set_names gd
                          (set_pin (lookup_name g_pin_cite gd)
                             (set_plaintiff (lookup_name k_plaintiff gd)
                                (set_defendant (lookup_name k_defendant gd)
                                   (set_full_end (Some (Z.of_nat e))
                                      (set_full_start (Some (Z.of_nat s))
                                         (set_span_end (Some (Z.of_nat e))
                                            (set_span_start (Some (Z.of_nat s)) (blank CRef t 0)))))))))
                     (refsearch names rest)
             end
         | _ => []
         end.

  (* ---------- get_citations ---------- *)
  Definition is_full_case (c : pcit) : bool := match p_cls c with CFullCase => true | _ => false end.

  Definition cite_step (text : str) (words : list elem) (acc : list pcit) (it : nat * tok)
    : result (list pcit) :=          (* acc = citations, last element first *)
    let (i, t) := it in
    match t_kind t with
    | KCitation =>
        if t_short t then
          do c <- extract_short words i t ;; Ok (c :: acc)
        else
          do c0 <- extract_full words i t ;;
          let c := match acc with
                   | pre :: _ => if is_full_case c0 && is_full_case pre then parallel c0 pre else c0
                   | [] => c0
                   end in
          Ok (c :: rev (references text c) ++ acc)
    | KId => do c <- extract_id words i t ;; Ok (c :: acc)
    | KSupra => do c <- extract_supra words i t ;; Ok (c :: acc)
    | KSection => Ok (blank CUnknown t i :: acc)
    | _ => Ok acc
    end.

  Fixpoint cite_run (text : str) (words : list elem) (acc : list pcit) (its : list (nat * tok))
    : result (list pcit) :=
    match its with
    | [] => Ok acc
    | it :: r => do acc' <- cite_step text words acc it ;; cite_run text words acc' r
    end.

  Definition is_ref (c : pcit) : bool := match p_cls c with CRef => true | _ => false end.
  Definition is_resource (c : pcit) : bool :=
    match p_cls c with CFullCase | CFullLaw | CFullJournal | CShort => true | _ => false end.
  Definition has_guess (c : pcit) : bool := match p_guess c with Some _ => true | None => false end.

  Definition to_fc (ic : nat * pcit) : fc :=
    {| f_id := fst ic; f_ref := is_ref (snd ic); f_span := span_of (snd ic); f_full := full_span_of (snd ic) |}.

  Fixpoint enumerate {A} (i : nat) (l : list A) : list (nat * A) :=
    match l with [] => [] | x :: r => (i, x) :: enumerate (S i) r end.

  Definition filter_pcits (l : list pcit) : list pcit :=
    flat_map (fun f => match nth_error l (f_id f) with Some c => [c] | None => [] end)
             (filter_citations (map to_fc (enumerate 0 l))).

  (* get_citations(plain_text, remove_ambiguous) given the tokenizer's output *)
  (* the shared easter-egg list returned for the text "eyecite" (helpers.joke_cite):
     offsets (0, 99) that do not index the input -- see known findings *)
  Definition s_eyecite : str := [101;121;101;99;105;116;101]%N.
  Definition joke_cite : pcit :=
    set_extra (Some [69;121;101;99;105;116;101;32;105;115;32;97;32;99;111;108;108;97;98;111;114;97;116;105;118;101;32;99;111;109;109;117;110;105;116;121;32;101;102;102;111;114;116;46]%N)
      (set_year_s (Some [50;48;50;49]%N)
         (blank CFullCase
            {| t_kind := KCitation; t_start := 0; t_end := 99; t_data := [49;32;70;76;80;32;49]%N;
               t_groups := []; t_short := false; t_exact := []; t_var := [] |} 0)).

  Definition get_citations (text : str) (words : list elem) (cit_tokens : list (nat * tok))
             (remove_ambiguous : bool) : result (list pcit) :=
    if str_eqb text s_eyecite then Ok [joke_cite]
    else
      do acc <- cite_run text words [] cit_tokens ;;
      let l := filter_pcits (rev acc) in
      Ok (if remove_ambiguous then disambiguate is_resource has_guess l else l).
End Pipe.
