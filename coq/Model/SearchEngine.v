(* Model/SearchEngine.v -- the metadata searches of eyecite/helpers.py computed by the engine of
   Regex/Match.v on the ASTs regenerated into Gen/MetaRegex.v (instead of being an oracle). *)
From EV Require Import Base.Str Regex.Syntax Regex.Decl Regex.Match Model.Pipeline.

Definition to_mres (names : list (str * nat)) (r : nat * nat * caps) : mres :=
  let '(i, j, c) := r in
  {| m_start := i; m_end := j; m_groups := map (fun kn => (fst kn, cap_get (snd kn) c)) names |}.

Section E.
  Variable U : utables.
  Variable table : pat -> re * list (str * nat).     (* pattern AST and group names -> slots *)

  (* regex.fullmatch at position 0: the whole window must be consumed (backtracking included) *)
  Definition fullmatch_at (w : str) (r : re) : option mresult :=
    m U false w r 0%nat [] (fun j c => if Nat.eqb j (length w) then Some (j, c) else None).

  (* regex.search(pattern, window); PYearMatch is used with regex.fullmatch (as repaired, D22: a parenthetical
     is dropped only when it IS a year, not when it merely starts with one) *)
  Definition engine_search (p : pat) (w : str) : option mres :=
    let (r, names) := table p in
    match p with
    | PYearMatch =>
        match fullmatch_at w r with
        | Some (j, c) => Some (to_mres names (0%nat, j, c))
        | None => None
        end
    | _ =>
        match search U false w r with
        | Some res => Some (to_mres names res)
        | None => None
        end
    end.
End E.
