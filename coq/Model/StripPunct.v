(* Model/StripPunct.v -- eyecite/utils.py: strip_punct, as the live function defines it:
   a chain of re.sub calls (patterns and replacements regenerated from the running code on
   every run, Gen/StripPunct.v) followed by str.strip().  re.sub is modelled on the scanner
   of Model/Extract.v (re.finditer on the verified engine): every match is replaced by the
   text of a group ("\1") or by nothing, the text between matches is copied. *)
From EV Require Import Base.Str Regex.Syntax Regex.Decl Regex.Match Model.Tokenize Model.Extract Model.Pipeline.

Definition sub_piece (s : str) (g : option nat) (c : caps) : str :=
  match g with
  | None => []
  | Some n => match cap_get n c with
              | Some (a, b) => slice s a b
              | None => []                 (* an unmatched group is replaced by "" (Python >= 3.5) *)
              end
  end.

Fixpoint sub_build (s : str) (g : option nat) (pos : nat) (ms : list (nat * nat * caps)) : str :=
  match ms with
  | [] => slice s pos (length s)
  | (i, j, c) :: rest => slice s pos i ++ sub_piece s g c ++ sub_build s g j rest
  end.

Section SP.
  Variable U : utables.

  Definition re_sub (r : re) (g : option nat) (s : str) : str :=
    sub_build s g 0 (finditer U false s r).

  Definition is_space (c : N) : bool := cat_mem U CSpace c.   (* Py_UNICODE_ISSPACE: \s and str.strip() *)

  Definition sub_chain (steps : list (re * option nat)) (s : str) : str :=
    fold_left (fun t st => re_sub (fst st) (snd st) t) steps s.

  Definition strip_punct (steps : list (re * option nat)) (s : str) : str :=
    strip is_space (sub_chain steps s).
End SP.
