(* Model/Markup.v -- eyecite/find.py:find_reference_citations_from_markup: a
   regex match in the markup (offsets relative to start_in_markup) is mapped
   back to plain-text offsets with four SpanUpdater.update calls. *)
From EV Require Import Base.Str Base.PyVal Model.Annotate.
Open Scope Z_scope.

Record mref := {
  r_full_start : Z; r_full_end : Z;     (* whole match, with tags and punctuation *)
  r_start : Z; r_end : Z                (* group 1: the name *)
}.

(* start_in_markup = plain_to_markup.update(citation.span()[0], bisect_right) *)
Definition start_in_markup (p2m : updater) (span_start : Z) : result Z := update p2m true span_start.

(* ms, me = match.start(), match.end(); gs, ge = match.start(1), match.end(1) *)
Definition markup_ref (m2p : updater) (sm : Z) (ms me gs ge : Z) : result mref :=
  do fs <- update m2p false (sm + ms) ;;
  do fe <- update m2p true (sm + me) ;;
  do s <- update m2p false (sm + gs) ;;
  do e <- update m2p true (sm + ge) ;;
  Ok {| r_full_start := fs; r_full_end := fe; r_start := s; r_end := e |}.
