(* Model/Editions.v -- eyecite/models.py: Edition.includes_year,
   ResourceCitation.guess_edition; eyecite/helpers.py: get_year,
   disambiguate_reporters. *)
From EV Require Import Base.Str Base.PyVal.
Open Scope Z_scope.

Record edition := {
  e_id : nat;                 (* value-equality class of the Edition dataclass *)
  e_name : str;               (* short_name *)
  e_start : option Z;         (* start.year *)
  e_end : option Z            (* end.year *)
}.

(* Edition.includes_year(year), with datetime.now().year = this_year *)
Definition includes_year (this_year : Z) (e : edition) (y : Z) : bool :=
  (y <=? this_year) &&
  match e_start e with None => true | Some s => s <=? y end &&
  match e_end e with None => true | Some x => y <=? x end.

(* guess_edition: exact candidates if any, else variations; filter by year when
   several; accept a single survivor *)
Definition candidates (exact var : list edition) : list edition :=
  match exact with [] => var | _ => exact end.

Definition guess_edition (this_year : Z) (exact var : list edition) (year : option Z) : option edition :=
  match candidates exact var with
  | [] => None
  | eds =>
      let eds' :=
        match eds, year with
        | _ :: _ :: _, Some y => if Z.eqb y 0 then eds else filter (fun e => includes_year this_year e y) eds
        | _, _ => eds
        end in
      match eds' with [e] => Some e | _ => None end
  end.

(* get_year(word): int(word), then the accepted range *)
Definition get_year (D : dtables) (highest : Z) (word : str) : option Z :=
  match int_of D word with
  | None => None
  | Some n => let y := Z.of_N n in
              if (y <? 1600) || (highest <? y) then None else Some y
  end.

(* disambiguate_reporters *)
Definition disambiguate {A} (is_resource : A -> bool) (has_guess : A -> bool) (l : list A) : list A :=
  filter (fun c => negb (is_resource c) || has_guess c) l.
