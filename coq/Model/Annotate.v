(* Model/Annotate.v -- eyecite/annotate.py: SpanUpdater, annotate_citations;
   eyecite/utils.py: wrap_html_tags, maybe_balance_style_tags.
   (As repaired: update() clamps the range index at 0; an end translated
   before its start is moved to the start; 'skip' mode drops an annotation
   whose repaired start falls before the previous annotation's end.) *)
From EV Require Import Base.Str Base.PyVal.
Open Scope Z_scope.

(* ---------------- SpanUpdater ---------------- *)
Inductive op := OpEq | OpIns | OpDel.
Definition steps := list (op * nat).            (* the diff script: (operation, amount) *)

Inductive upd := Shift (d : Z) | Const (v : Z).
Definition updater := list (Z * upd).           (* zip(self.offsets, self.updaters) *)

Fixpoint mk_go (st : steps) (offset delta : Z) : updater :=
  match st with
  | [] => []
  | (OpEq, n) :: r => (offset, Shift delta) :: mk_go r (offset + Z.of_nat n) delta
  | (OpIns, n) :: r => mk_go r offset (delta + Z.of_nat n)
  | (OpDel, n) :: r =>
      (offset, Const (offset + delta)) :: mk_go r (offset + Z.of_nat n) (delta - Z.of_nat n)
  end.
Definition mk (st : steps) : updater := mk_go st 0 0.

(* bisect_right / bisect_left on the (sorted) offsets: number of leading
   offsets <= x  /  < x *)
Fixpoint bisect (right : bool) (u : updater) (x : Z) : nat :=
  match u with
  | [] => 0%nat
  | (o, _) :: r => if (if right then o <=? x else o <? x) then S (bisect right r x) else 0%nat
  end.

(* SpanUpdater.update: index = max(bisect(offsets, x) - 1, 0) *)
Definition update (u : updater) (right : bool) (x : Z) : result Z :=
  match nth_error u (Nat.pred (bisect right u x)) with
  | Some (_, Shift d) => Ok (x + d)
  | Some (_, Const v) => Ok v
  | None => Err IndexErr
  end.

(* the diff script accounts for both texts: "="/"-" amounts sum to |a|,
   "="/"+" amounts to |b| *)
Fixpoint steps_ok (st : steps) (la lb : Z) : Prop :=
  match st with
  | [] => la = 0 /\ lb = 0
  | (OpEq, n) :: r => Z.of_nat n <= la /\ Z.of_nat n <= lb /\ steps_ok r (la - Z.of_nat n) (lb - Z.of_nat n)
  | (OpIns, n) :: r => Z.of_nat n <= lb /\ steps_ok r la (lb - Z.of_nat n)
  | (OpDel, n) :: r => Z.of_nat n <= la /\ steps_ok r (la - Z.of_nat n) lb
  end.

(* positions in the source of the plain characters, for an insert-only script *)
Fixpoint emb_go (st : steps) (j : Z) : list Z :=
  match st with
  | [] => []
  | (OpEq, n) :: r => map (fun k => j + Z.of_nat k) (seq 0 n) ++ emb_go r (j + Z.of_nat n)
  | (OpIns, n) :: r => emb_go r (j + Z.of_nat n)
  | (OpDel, n) :: r => emb_go r j
  end.
Definition emb (st : steps) : list Z := emb_go st 0.
Definition insert_only (st : steps) : Prop :=
  Forall (fun s => match fst s with OpDel => False | _ => (0 < snd s)%nat end) st.

(* ---------------- output pieces ---------------- *)
Inductive piece := Orig (s : str) | Ins (s : str).
Definition piece_str (p : piece) : str := match p with Orig s => s | Ins s => s end.
Definition render (ps : list piece) : str := concat (map piece_str ps).
Definition strip (ps : list piece) : str :=
  concat (map (fun p => match p with Orig s => s | Ins _ => [] end) ps).

(* ---------------- wrap_html_tags: re.sub(r"(<[^>]+>)", before \1 after) ---------------- *)
Definition LT : N := 60%N.
Definition GT : N := 62%N.

(* s is the text after a '<'.  Some (body, rest): s = body ++ '>' :: rest with
   body non-empty and free of '>' *)
Fixpoint tag_body (s : str) : option (str * str) :=
  match s with
  | [] => None
  | c :: t => if N.eqb c GT then Some ([], t)
              else match tag_body t with Some (b, r) => Some (c :: b, r) | None => None end
  end.

Fixpoint wrap_go (fuel : nat) (s : str) (cur : str) (ins_before ins_after : str) : list piece :=
  (* cur = pending plain characters (in order) *)
  match fuel with
  | O => [Orig (cur ++ s)]
  | S f =>
      match s with
      | [] => [Orig cur]
      | c :: t =>
          if N.eqb c LT then
            match tag_body t with
            | Some (b :: body, rest) =>
                Orig cur :: Ins ins_before :: Orig (c :: b :: body ++ [GT]) :: Ins ins_after
                  :: wrap_go f rest [] ins_before ins_after
            | _ => wrap_go f t (cur ++ [c]) ins_before ins_after
            end
          else wrap_go f t (cur ++ [c]) ins_before ins_after
      end
  end.
(* wrap_html_tags(text, before, after) *)
Definition wrap_html_tags (text before after : str) : list piece :=
  wrap_go (S (length text)) text [] before after.

(* ---------------- maybe_balance_style_tags ---------------- *)
Fixpoint find_first (pat s : str) : option nat :=
  if prefixb pat s then Some 0%nat
  else match s with
       | [] => None
       | _ :: t => match find_first pat t with Some i => Some (S i) | None => None end
       end.

(* start index of the last match of re.finditer(re.escape(pat), s); the style
   tags cannot overlap themselves, so this is the last occurrence *)
Fixpoint find_last (pat s : str) : option nat :=
  match s with
  | [] => if prefixb pat s then Some 0%nat else None
  | _ :: t => match find_last pat t with
              | Some i => Some (S i)
              | None => if prefixb pat s then Some 0%nat else None
              end
  end.

Definition tag_open (t : str) : str := LT :: t ++ [GT].
Definition tag_close (t : str) : str := LT :: 47%N :: t ++ [GT].
Definition style_tags : list str := [[105%N]; [101%N; 109%N]; [98%N]].   (* i, em, b *)

Definition zlen {A} (s : list A) : Z := Z.of_nat (length s).

Section Balance.
  Variable tol : Z.
  Variable text : str.

  Definition balance_one (span_text : str) (se : Z * Z) (tag : str) : Z * Z :=
    let (start, end_) := se in
    let o := tag_open tag in
    let c := tag_close tag in
    let has_o := infixb o span_text in
    let has_c := infixb c span_text in
    let end1 :=
      if has_o && negb has_c then
        let ext := Z.min (end_ + zlen c + tol) (zlen text) in
        match find_first c (pyslice text start ext) with
        | Some i => start + Z.of_nat i + zlen c
        | None => end_
        end
      else end_ in
    let start1 :=
      if negb has_o && has_c then
        let ext := Z.max (start - zlen o - tol) 0 in
        match find_last o (pyslice text ext end1) with
        | Some i => ext + Z.of_nat i
        | None => start
        end
      else start in
    (start1, end1).

  Definition maybe_balance (start end_ : Z) : Z * Z :=
    fold_left (balance_one (pyslice text start end_)) style_tags (start, end_).
End Balance.

(* ---------------- annotate_citations ---------------- *)
Record annot := { a_start : Z; a_end : Z; a_before : str; a_after : str }.
Inductive mode := Unchecked | Skip | Wrap.

Fixpoint str_ltb (a b : str) : bool :=
  match a, b with
  | _, [] => false
  | [], _ :: _ => true
  | x :: a', y :: b' => if N.ltb x y then true else if N.ltb y x then false else str_ltb a' b'
  end.

(* tuple comparison ((start, end), before, after) < ... *)
Definition annot_ltb (a b : annot) : bool :=
  if a_start a <? a_start b then true else if a_start b <? a_start a then false else
  if a_end a <? a_end b then true else if a_end b <? a_end a then false else
  if str_ltb (a_before a) (a_before b) then true else if str_ltb (a_before b) (a_before a) then false else
  str_ltb (a_after a) (a_after b).

Fixpoint insert_annot (x : annot) (l : list annot) : list annot :=
  match l with
  | [] => [x]
  | y :: l' => if annot_ltb y x then y :: insert_annot x l' else x :: l
  end.
Definition sort_annots (l : list annot) : list annot := fold_right insert_annot [] l.

Section Annotate.
  Variable bal : str -> bool.        (* is_balanced_html *)
  Variable tol : Z.                  (* tolerance of maybe_balance_style_tags *)
  Variable text : str.               (* the text annotations are applied to (source if given, else plain) *)
  Variable u : option updater.       (* offset_updater *)
  Variable md : mode.

  Record ast := { out_rev : list piece; last_end : Z }.

  Definition emit (s : ast) (start end_ : Z) (a : annot) (span : list piece) : ast :=
    {| out_rev := rev (Orig (pyslice text (last_end s) start) :: Ins (a_before a) :: span ++ [Ins (a_after a)])
                  ++ out_rev s;
       last_end := end_ |}.

  Definition astep (s : ast) (a : annot) : result ast :=
    do se <- (match u with
              | Some up =>
                  do st <- update up true (a_start a) ;;
                  do en <- update up false (a_end a) ;;
                  Ok (st, if en <? st then st else en)
              | None => Ok (a_start a, a_end a)
              end) ;;
    let (start0, end_) := se in
    let clipped := start0 <? last_end s in
    let start := if clipped then last_end s else start0 in
    if clipped && (end_ <=? start) then Ok s
    else
      let span_text := pyslice text start end_ in
      match md with
      | Unchecked => Ok (emit s start end_ a [Orig span_text])
      | Wrap =>
          if bal span_text then Ok (emit s start end_ a [Orig span_text])
          else Ok (emit s start end_ a (wrap_html_tags span_text (a_after a) (a_before a)))
      | Skip =>
          if bal span_text then Ok (emit s start end_ a [Orig span_text])
          else
            let (s2, e2) := maybe_balance tol text start end_ in
            if (s2 <? last_end s) || negb (bal (pyslice text s2 e2)) then Ok s
            else Ok (emit s s2 e2 a [Orig (pyslice text s2 e2)])
      end.

  Fixpoint arun (s : ast) (l : list annot) : result ast :=
    match l with
    | [] => Ok s
    | a :: l' => do s' <- astep s a ;; arun s' l'
    end.

  Definition afinish (s : ast) : list piece :=
    rev (if last_end s <? zlen text then Orig (pyslice text (last_end s) (zlen text)) :: out_rev s
         else out_rev s).

  Definition annotate (annots : list annot) : result (list piece) :=
    do s <- arun {| out_rev := []; last_end := 0 |} (sort_annots annots) ;;
    Ok (afinish s).
End Annotate.

(* annotate_citations(plain, annotations, source_text, unbalanced_tags) with the
   diff script `st` that SpanUpdater obtains for (plain, source) *)
Definition annotate_citations (bal : str -> bool) (tol : Z) (plain : str) (annots : list annot)
           (source : option str) (st : steps) (md : mode) : result (list piece) :=
  match source with
  | Some src =>
      if negb (match src with [] => true | _ => false end) && negb (str_eqb src plain)
      then annotate bal tol src (Some (mk st)) md annots
      else annotate bal tol plain None md annots
  | None => annotate bal tol plain None md annots
  end.
