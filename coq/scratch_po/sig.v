From EV Require Import Base.Str Base.PyVal Model.Tokenize Model.Editions Model.Filter Model.Pipeline
                       Proofs.TokenizeProofs Proofs.PipeSpec Proofs.PipeWindows.
Check window_fwd. Check window_bwd. Check extract_pin_cite. Check process_parenthetical.
Check add_post_citation. Check add_defendant. Check def_scan. Check add_pre_citation.
Check add_law_metadata. Check add_journal_metadata. Check with_guess. Check full_class.
Check extract_full. Check extract_short. Check extract_supra. Check extract_id. Check parallel.
Check references. Check cite_step. Check cite_run. Check filter_pcits. Check get_citations.
Check clean_pin. Check clean_pin_or_none. Check zlen. Check olen. Check join_elems. Check editions_of.
Check is_resource. Check has_guess. Check to_fc. Check stops. Check disambiguate.
