From EV Require Import Base.Str Base.PyVal Model.Tokenize Model.Resolve Proofs.ResolveSpec Proofs.ResolveProofs Proofs.ResolveTotal Proofs.ScenarioSpec.
Definition cs := [{| cd_vol := [49%N]; cd_rep := [85%N]; cd_page := 5%N; cd_pl := [65%N]; cd_df := [66%N] |}].
Definition ev := [EFull 0; EId (Some (10^40 + 5)%N)].
Eval vm_compute in (intended cs ev 150%N).
Eval vm_compute in (match resolve DASCII 150%N (render cs ev) with Ok r => Ok (map (fun g => (fst g, map oid (snd g))) r) | Err e => Err e end).
Eval vm_compute in (digits (10^40+5)%N).
