From EV Require Import Base.Str Base.PyVal Model.Tokenize Model.Resolve Proofs.ResolveSpec Proofs.ResolveProofs.
About Inv. About resolver. About inv_groups. About inv_step. About keys_in. About step_ok. About pin_number.
