(* Proofs/TagsLex.v -- the tag grammar of Model/Tags.v: lexer round trips, the
   stack machine under insertion of well-formed segments (Dyck insertion),
   token boundaries of a rendered token list, text positions. *)
From EV Require Import Base.Str Base.PyVal Model.Annotate Model.Tags Proofs.AnnotateProofs.
Open Scope Z_scope.

Notation validl := (Forall (fun t => valid_tok t = true)).

(* ================================================================== *)
(* characters                                                          *)
(* ================================================================== *)

Lemma name_char_facts c : is_name_char c = true -> c <> LTc /\ c <> GTc /\ c <> SLASH.
Proof.
  unfold is_name_char, LTc, GTc, SLASH.
  rewrite !orb_true_iff, !andb_true_iff, !N.leb_le. lia.
Qed.

Lemma text_char_facts c : is_text_char c = true -> c <> LTc /\ c <> GTc.
Proof.
  unfold is_text_char. rewrite negb_true_iff, !orb_false_iff, !N.eqb_neq. tauto.
Qed.

Lemma name_chars_facts n :
  forallb is_name_char n = true -> ~ In LTc n /\ ~ In GTc n /\ ~ In SLASH n.
Proof.
  intros H. rewrite forallb_forall in H.
  repeat split; intros Hin; apply H in Hin; apply name_char_facts in Hin; tauto.
Qed.

Lemma valid_name_forallb n : valid_name n = true -> forallb is_name_char n = true /\ n <> [].
Proof. destruct n as [|c n]; [discriminate|]. cbn [valid_name]. intros H. split; [exact H|discriminate]. Qed.

(* ================================================================== *)
(* unlex, text_of                                                      *)
(* ================================================================== *)

Lemma unlex_cons t l : unlex (t :: l) = tok_str t ++ unlex l.
Proof. reflexivity. Qed.

Lemma unlex_app a b : unlex (a ++ b) = unlex a ++ unlex b.
Proof. unfold unlex. rewrite map_app, concat_app. reflexivity. Qed.

Lemma unlex_nil : unlex [] = [].
Proof. reflexivity. Qed.

Lemma text_of_app a b : text_of (a ++ b) = text_of a ++ text_of b.
Proof. unfold text_of. apply flat_map_app. Qed.

Lemma tok_str_len t : (1 <= length (tok_str t))%nat.
Proof. destruct t; cbn [tok_str length]; lia. Qed.

Definition is_tag (t : ttok) : bool := match t with TText _ => false | _ => true end.

Definition tag_inner (t : ttok) : str :=
  match t with
  | TText _ => []
  | TOpen n => n
  | TClose n => SLASH :: n
  | TEmpty n => n ++ [SLASH]
  end.

Lemma tok_str_tag t : is_tag t = true -> tok_str t = LTc :: tag_inner t ++ [GTc].
Proof.
  destruct t as [c|n|n|n]; cbn [is_tag tok_str tag_inner]; intros H; try discriminate; try reflexivity.
  rewrite <- app_assoc. reflexivity.
Qed.

Lemma tag_inner_ok t : is_tag t = true -> valid_tok t = true ->
  tag_inner t <> [] /\ ~ In GTc (tag_inner t) /\ ~ In LTc (tag_inner t).
Proof.
  destruct t as [c|n|n|n]; cbn [is_tag valid_tok tag_inner]; intros H Hv; try discriminate;
    apply valid_name_forallb in Hv; destruct Hv as [Hv Hne];
    apply name_chars_facts in Hv; destruct Hv as (H1 & H2 & H3).
  - tauto.
  - split; [discriminate|]. split; intros [E|E]; try tauto; discriminate.
  - split; [destruct n; discriminate|].
    split; rewrite in_app_iff; intros [E|[E|[]]]; try tauto; discriminate.
Qed.

Lemma tok_cases t : valid_tok t = true ->
  (exists c, t = TText c /\ c <> LTc /\ c <> GTc) \/ is_tag t = true.
Proof.
  destruct t as [c|n|n|n]; cbn [valid_tok is_tag]; intros H; try (right; reflexivity).
  left. exists c. split; [reflexivity|]. apply text_char_facts. exact H.
Qed.

(* head / tail view: the tail of a token contains no '<' *)
Lemma tok_str_shape t : valid_tok t = true ->
  exists h tl, tok_str t = h :: tl /\ ~ In LTc tl.
Proof.
  intros Hv. destruct (tok_cases t Hv) as [(c & -> & _ & _)|Ht].
  - exists c, []. split; [reflexivity|]. intros [].
  - rewrite (tok_str_tag t Ht). destruct (tag_inner_ok t Ht Hv) as (_ & H2 & H3).
    eexists _, _. split; [reflexivity|]. rewrite in_app_iff. intros [E|[E|[]]]; [tauto|discriminate].
Qed.

(* ================================================================== *)
(* lexer round trips                                                   *)
(* ================================================================== *)

Lemma take_name_app : forall n r, forallb is_name_char n = true ->
  match r with [] => True | c :: _ => is_name_char c = false end -> take_name (n ++ r) = (n, r).
Proof.
  induction n as [|c n IH]; intros r Hn Hr; cbn [app].
  - destruct r as [|c r]; cbn [take_name]; [reflexivity|]. rewrite Hr. reflexivity.
  - cbn [forallb] in Hn. apply andb_true_iff in Hn. destruct Hn as [Hc Hn].
    cbn [take_name]. rewrite Hc, (IH r Hn Hr). reflexivity.
Qed.

Lemma take_name_spec : forall s n r, take_name s = (n, r) -> s = n ++ r /\ forallb is_name_char n = true.
Proof.
  induction s as [|c t IH]; intros n r H; cbn [take_name] in H.
  - injection H as <- <-. split; reflexivity.
  - destruct (is_name_char c) eqn:Ec.
    + destruct (take_name t) as [n' r'] eqn:E. injection H as <- <-.
      destruct (IH _ _ eq_refl) as [-> Hn]. split; [reflexivity|].
      cbn [forallb]. rewrite Ec, Hn. reflexivity.
    + injection H as <- <-. split; reflexivity.
Qed.

Lemma lex_tag_open n r : valid_name n = true -> lex_tag (n ++ GTc :: r) = Some (TOpen n, r).
Proof.
  intros Hn. destruct n as [|c n]; [discriminate|]. cbn [valid_name] in Hn.
  pose proof (take_name_app (c :: n) (GTc :: r) Hn eq_refl) as E. cbn [app] in E.
  cbn [forallb] in Hn. apply andb_true_iff in Hn. destruct Hn as [Hc _].
  apply name_char_facts in Hc. destruct Hc as (_ & _ & Hs). apply N.eqb_neq in Hs.
  cbn [app]. unfold lex_tag. rewrite Hs, E. reflexivity.
Qed.

Lemma lex_tag_close n r : valid_name n = true -> lex_tag (SLASH :: n ++ GTc :: r) = Some (TClose n, r).
Proof.
  intros Hn. destruct n as [|c n]; [discriminate|]. cbn [valid_name] in Hn.
  pose proof (take_name_app (c :: n) (GTc :: r) Hn eq_refl) as E.
  unfold lex_tag. rewrite N.eqb_refl, E. reflexivity.
Qed.

Lemma lex_tag_empty n r : valid_name n = true -> lex_tag (n ++ SLASH :: GTc :: r) = Some (TEmpty n, r).
Proof.
  intros Hn. destruct n as [|c n]; [discriminate|]. cbn [valid_name] in Hn.
  pose proof (take_name_app (c :: n) (SLASH :: GTc :: r) Hn eq_refl) as E. cbn [app] in E.
  cbn [forallb] in Hn. apply andb_true_iff in Hn. destruct Hn as [Hc _].
  apply name_char_facts in Hc. destruct Hc as (_ & _ & Hs). apply N.eqb_neq in Hs.
  cbn [app]. unfold lex_tag. rewrite Hs, E. reflexivity.
Qed.

Lemma lex_go_unlex : forall l f, validl l -> (length (unlex l) <= f)%nat -> lex_go f (unlex l) = Some l.
Proof.
  induction l as [|t l IH]; intros f Hv Hf.
  - destruct f; reflexivity.
  - inversion Hv as [|? ? Ht Hl]; subst.
    rewrite unlex_cons in *. rewrite app_length in Hf. pose proof (tok_str_len t) as Hlen.
    destruct f as [|f]; [lia|].
    destruct t as [c|n|n|n]; cbn [tok_str app valid_tok length] in *.
    + cbn [lex_go]. destruct (text_char_facts c Ht) as [H1 _]. apply N.eqb_neq in H1.
      rewrite H1, Ht. rewrite IH; [reflexivity|assumption|lia].
    + cbn [lex_go]. rewrite N.eqb_refl. rewrite <- app_assoc. cbn [app].
      rewrite lex_tag_open by assumption.
      rewrite IH; [reflexivity|assumption|lia].
    + cbn [lex_go]. rewrite N.eqb_refl. rewrite <- app_assoc. cbn [app].
      rewrite lex_tag_close by assumption.
      rewrite IH; [reflexivity|assumption|lia].
    + cbn [lex_go]. rewrite N.eqb_refl. rewrite <- app_assoc. cbn [app].
      rewrite lex_tag_empty by assumption.
      rewrite IH; [reflexivity|assumption|lia].
Qed.

Theorem lex_unlex : forall l, Forall (fun t => valid_tok t = true) l -> lex (unlex l) = Some l.
Proof. intros l Hv. unfold lex. apply lex_go_unlex; [assumption|lia]. Qed.

Lemma lex_tag_spec s t r : lex_tag s = Some (t, r) -> valid_tok t = true /\ LTc :: s = tok_str t ++ r.
Proof.
  unfold lex_tag. destruct s as [|c s']; [discriminate|].
  destruct (N.eqb_spec c SLASH) as [->|Hc].
  - destruct (take_name s') as [[|c0 n] [|g r']] eqn:E; try discriminate.
    destruct (N.eqb_spec g GTc) as [->|]; [|discriminate]. intros H; injection H as <- <-.
    apply take_name_spec in E. destruct E as [-> Hn]. split; [exact Hn|].
    cbn [tok_str app]. rewrite <- app_assoc. reflexivity.
  - destruct (take_name (c :: s')) as [[|c0 n] [|g r']] eqn:E; try discriminate.
    apply take_name_spec in E. destruct E as [E Hn].
    destruct (N.eqb_spec g GTc) as [->|].
    + intros H; injection H as <- <-. split; [exact Hn|]. rewrite E.
      cbn [tok_str app]. rewrite <- app_assoc. reflexivity.
    + destruct (N.eqb_spec g SLASH) as [->|]; [|discriminate].
      destruct r' as [|g2 r2]; [discriminate|].
      destruct (N.eqb_spec g2 GTc) as [->|]; [|discriminate].
      intros H; injection H as <- <-. split; [exact Hn|]. rewrite E.
      cbn [tok_str app]. rewrite <- app_assoc. reflexivity.
Qed.

Lemma lex_go_spec : forall f s l, lex_go f s = Some l -> unlex l = s /\ validl l.
Proof.
  induction f as [|f IH]; intros s l H; cbn [lex_go] in H.
  - destruct s; [|discriminate]. injection H as <-. split; [reflexivity|constructor].
  - destruct s as [|c t]. { injection H as <-. split; [reflexivity|constructor]. }
    destruct (N.eqb_spec c LTc) as [->|Hc].
    + destruct (lex_tag t) as [[tk r]|] eqn:E; [|discriminate].
      destruct (lex_go f r) as [l'|] eqn:E2; [|discriminate]. injection H as <-.
      apply lex_tag_spec in E. destruct E as [Hv E].
      apply IH in E2. destruct E2 as [<- Hl].
      split; [rewrite unlex_cons; symmetry; exact E|constructor; assumption].
    + destruct (is_text_char c) eqn:Et; [|discriminate].
      destruct (lex_go f t) as [l'|] eqn:E2; [|discriminate]. injection H as <-.
      apply IH in E2. destruct E2 as [<- Hl].
      split; [reflexivity|constructor; assumption].
Qed.

Theorem unlex_lex : forall s l, lex s = Some l -> unlex l = s /\ Forall (fun t => valid_tok t = true) l.
Proof. intros s l H. unfold lex in H. eapply lex_go_spec; eassumption. Qed.

Lemma lex_tok_open n : valid_name n = true -> lex (tok_str (TOpen n)) = Some [TOpen n].
Proof.
  intros Hn. change (tok_str (TOpen n)) with (LTc :: n ++ [GTc]).
  replace (LTc :: n ++ [GTc]) with (unlex [TOpen n]) by (cbn; rewrite app_nil_r; reflexivity).
  apply lex_unlex. constructor; [exact Hn|constructor].
Qed.

(* ================================================================== *)
(* the stack machine                                                   *)
(* ================================================================== *)

Theorem run_app : forall a b st,
  run st (a ++ b) = match run st a with Some st' => run st' b | None => None end.
Proof.
  induction a as [|t a IH]; intros b st; cbn [app].
  - reflexivity.
  - destruct t as [c|n|n|n]; cbn [run]; try apply IH.
    destruct st as [|m st]; [reflexivity|]. destruct (str_eqb m n); [apply IH|reflexivity].
Qed.

Lemma run_ext : forall l st st' e, run st l = Some st' -> run (st ++ e) l = Some (st' ++ e).
Proof.
  induction l as [|t l IH]; intros st st' e H; cbn [run] in *.
  - injection H as <-. reflexivity.
  - destruct t as [c|n|n|n].
    + apply IH; assumption.
    + apply (IH (n :: st)). assumption.
    + destruct st as [|m st]; [discriminate|]. cbn [app].
      destruct (str_eqb m n); [|discriminate]. apply IH; assumption.
    + apply IH; assumption.
Qed.

Definition neutral (m : list ttok) : Prop := forall st, run st m = Some st.

Lemma wf_neutral m : wf m = true -> neutral m.
Proof.
  unfold wf. intros H st. destruct (run [] m) as [[|x r]|] eqn:E; try discriminate.
  apply (run_ext m [] [] st) in E. exact E.
Qed.

Theorem run_insert_wf : forall x m y st, wf m = true -> run st (x ++ m ++ y) = run st (x ++ y).
Proof.
  intros x m y st Hm. rewrite !run_app. destruct (run st x) as [st'|]; [|reflexivity].
  rewrite run_app, (wf_neutral m Hm st'). reflexivity.
Qed.

Theorem run_wrap_wf : forall x m y n st, wf m = true ->
  run st (x ++ TOpen n :: m ++ TClose n :: y) = run st (x ++ m ++ y).
Proof.
  intros x m y n st Hm. rewrite !run_app. destruct (run st x) as [st'|]; [|reflexivity].
  cbn [run]. rewrite !run_app. rewrite (wf_neutral m Hm (n :: st')), (wf_neutral m Hm st').
  cbn [run]. rewrite str_eqb_refl. reflexivity.
Qed.

(* observational equivalence for the machine *)
Definition req (a b : list ttok) : Prop := forall st, run st a = run st b.

Lemma req_refl a : req a a.
Proof. intros st. reflexivity. Qed.

Lemma req_app a a' b b' : req a a' -> req b b' -> req (a ++ b) (a' ++ b').
Proof.
  intros Ha Hb st. rewrite !run_app, Ha. destruct (run st a'); [apply Hb|reflexivity].
Qed.

Lemma req_wrap_neutral n m : neutral m -> req (TOpen n :: m ++ [TClose n]) m.
Proof.
  intros Hm st. cbn [run]. rewrite run_app, (Hm (n :: st)), (Hm st). cbn [run].
  rewrite str_eqb_refl. reflexivity.
Qed.

(* a token list without angle brackets is all text *)
Lemma no_angle_neutral : forall m,
  existsb (fun c => N.eqb c LTc || N.eqb c GTc) (unlex m) = false -> neutral m.
Proof.
  induction m as [|t m IH]; intros H st; [reflexivity|].
  rewrite unlex_cons, existsb_app in H. apply orb_false_iff in H. destruct H as [H1 H2].
  destruct t as [c|n|n|n]; cbn [tok_str existsb] in H1; try discriminate.
  cbn [run]. apply IH. exact H2.
Qed.

Lemma balanced_neutral m : validl m -> is_balanced_html (unlex m) = true -> neutral m.
Proof.
  intros Hv H. unfold is_balanced_html in H.
  destruct (existsb (fun c => N.eqb c LTc || N.eqb c GTc) (unlex m)) eqn:E; cbn [negb] in H.
  - unfold balanced in H. rewrite (lex_unlex m Hv) in H. apply wf_neutral. exact H.
  - apply no_angle_neutral. exact E.
Qed.

(* ================================================================== *)
(* token boundaries                                                    *)
(* ================================================================== *)

Lemma app_split_notin {A} (c : A) : forall x y a b,
  ~ In c x -> x ++ y = a ++ c :: b -> exists a', a = x ++ a' /\ y = a' ++ c :: b.
Proof.
  induction x as [|h x IH]; intros y a b Hn H; cbn [app] in *.
  - exists a. split; [reflexivity|assumption].
  - destruct a as [|h' a]; cbn [app] in H.
    + injection H as -> _. exfalso. apply Hn. left; reflexivity.
    + injection H as -> H.
      destruct (IH y a b) as (a' & -> & ->); [intros Hin; apply Hn; right; assumption|assumption|].
      exists a'. split; reflexivity.
Qed.

(* every '<' of a rendered token list starts a token *)
Lemma split_at_LT : forall ts a b, validl ts -> unlex ts = a ++ LTc :: b ->
  exists k, (k <= length ts)%nat /\ unlex (firstn k ts) = a.
Proof.
  induction ts as [|t ts IH]; intros a b Hv H.
  - destruct a; discriminate.
  - destruct a as [|c a]. { exists 0%nat. split; [lia|reflexivity]. }
    inversion Hv as [|? ? Ht Hts]; subst.
    destruct (tok_str_shape t Ht) as (h & tl & Et & Hn).
    rewrite unlex_cons, Et in H. cbn [app] in H. injection H as -> H.
    destruct (app_split_notin _ _ _ _ _ Hn H) as (a' & -> & H').
    destruct (IH a' b Hts H') as (k & Hk & Ek).
    exists (S k). split; [cbn [length]; lia|].
    cbn [firstn]. rewrite unlex_cons, Et, Ek. reflexivity.
Qed.

(* every '>' of a rendered token list ends a token *)
Lemma split_at_GT : forall ts a b, validl ts -> unlex ts = a ++ GTc :: b ->
  exists k, (k <= length ts)%nat /\ unlex (firstn k ts) = a ++ [GTc].
Proof.
  induction ts as [|t ts IH]; intros a b Hv H.
  - destruct a; discriminate.
  - inversion Hv as [|? ? Ht Hts]; subst. rewrite unlex_cons in H.
    destruct (tok_cases t Ht) as [(c & -> & HcL & HcG)|Htag].
    + cbn [tok_str app] in H. destruct a as [|c' a]; cbn [app] in H; injection H as -> H; [congruence|].
      destruct (IH a b Hts H) as (k & Hk & Ek).
      exists (S k). split; [cbn [length]; lia|].
      cbn [firstn]. rewrite unlex_cons, Ek. reflexivity.
    + destruct (tag_inner_ok t Htag Ht) as (_ & HG & _).
      rewrite (tok_str_tag t Htag) in H.
      change (LTc :: tag_inner t ++ [GTc]) with ((LTc :: tag_inner t) ++ [GTc]) in H.
      rewrite <- app_assoc in H. cbn [app] in H.
      assert (Hn : ~ In GTc (LTc :: tag_inner t)) by (intros [E|E]; [discriminate|tauto]).
      destruct (app_split_notin _ _ _ _ _ Hn H) as (a' & -> & H').
      destruct a' as [|c' a'']; cbn [app] in H'.
      * exists 1%nat. split; [cbn [length]; lia|].
        cbn [firstn]. rewrite unlex_cons, unlex_nil, app_nil_r, app_nil_r.
        rewrite (tok_str_tag t Htag). reflexivity.
      * injection H' as <- H'.
        destruct (IH a'' b Hts H') as (k & Hk & Ek).
        exists (S k). split; [cbn [length]; lia|].
        cbn [firstn]. rewrite unlex_cons, Ek, (tok_str_tag t Htag).
        cbn [app]. rewrite <- !app_assoc. reflexivity.
Qed.

Definition bnd (ts : list ttok) (k : nat) : Z := zlen (unlex (firstn k ts)).

Lemma zlen_app {A} (a b : list A) : zlen (a ++ b) = zlen a + zlen b.
Proof. unfold zlen. rewrite app_length. lia. Qed.

Lemma zlen_nonneg {A} (a : list A) : 0 <= zlen a.
Proof. unfold zlen. lia. Qed.

Lemma bnd_0 ts : bnd ts 0 = 0.
Proof. reflexivity. Qed.

Lemma bnd_all ts : bnd ts (length ts) = zlen (unlex ts).
Proof. unfold bnd. rewrite firstn_all. reflexivity. Qed.

Lemma bnd_S t ts k : bnd (t :: ts) (S k) = zlen (tok_str t) + bnd ts k.
Proof. unfold bnd. cbn [firstn]. rewrite unlex_cons, zlen_app. reflexivity. Qed.

Lemma bnd_split ts k1 k2 : (k1 <= k2)%nat ->
  bnd ts k2 = bnd ts k1 + zlen (unlex (slice ts k1 k2)).
Proof.
  intros H. unfold bnd. rewrite <- (firstn_slice_skipn ts k1 k2 H), unlex_app, zlen_app. reflexivity.
Qed.

Lemma bnd_mono ts k1 k2 : (k1 <= k2)%nat -> bnd ts k1 <= bnd ts k2.
Proof. intros H. rewrite (bnd_split ts k1 k2 H). pose proof (zlen_nonneg (unlex (slice ts k1 k2))). lia. Qed.

Lemma bnd_lt ts k1 k2 : (k1 < k2 <= length ts)%nat -> bnd ts k1 < bnd ts k2.
Proof.
  intros H. rewrite (bnd_split ts k1 k2) by lia.
  pose proof (slice_length ts k1 k2 ltac:(lia) ltac:(lia)) as Hl.
  destruct (slice ts k1 k2) as [|t r]; [cbn [length] in Hl; lia|].
  rewrite unlex_cons, zlen_app. pose proof (tok_str_len t). pose proof (zlen_nonneg (unlex r)).
  unfold zlen in *. lia.
Qed.

Lemma bnd_le_inv ts k1 k2 : (k1 <= length ts)%nat -> (k2 <= length ts)%nat ->
  bnd ts k1 <= bnd ts k2 -> (k1 <= k2)%nat.
Proof.
  intros H1 H2 H. destruct (le_lt_dec k1 k2) as [|Hlt]; [assumption|].
  pose proof (bnd_lt ts k2 k1 ltac:(lia)). lia.
Qed.

Lemma bnd_range ts k : (k <= length ts)%nat -> 0 <= bnd ts k <= zlen (unlex ts).
Proof.
  intros H. rewrite <- bnd_all. split; [apply zlen_nonneg|apply bnd_mono; assumption].
Qed.

Lemma split3 {A} (l : list A) k1 k2 : (k1 <= k2)%nat ->
  l = firstn k1 l ++ slice l k1 k2 ++ skipn k2 l.
Proof.
  intros H. rewrite app_assoc, (firstn_slice_skipn l k1 k2 H), firstn_skipn. reflexivity.
Qed.

Lemma skipn_app_len {A} (a b : list A) : skipn (length a) (a ++ b) = b.
Proof. induction a; cbn; auto. Qed.

Lemma firstn_app_len {A} (a b : list A) : firstn (length a) (a ++ b) = a.
Proof. induction a; cbn; [reflexivity|f_equal; assumption]. Qed.

Lemma pyslice_mid {A} (s a m c : list A) p q :
  s = a ++ m ++ c -> p = zlen a -> q = zlen a + zlen m -> pyslice s p q = m.
Proof.
  intros -> -> ->.
  rewrite pyslice_in by (rewrite !zlen_app; pose proof (zlen_nonneg a); pose proof (zlen_nonneg m);
                         pose proof (zlen_nonneg c); lia).
  unfold slice, zlen.
  replace (Z.to_nat (Z.of_nat (length a) + Z.of_nat (length m)) - Z.to_nat (Z.of_nat (length a)))%nat
    with (length m) by lia.
  rewrite Nat2Z.id, skipn_app_len, firstn_app_len. reflexivity.
Qed.

Lemma pyslice_bnd ts k1 k2 : (k1 <= k2)%nat ->
  pyslice (unlex ts) (bnd ts k1) (bnd ts k2) = unlex (slice ts k1 k2).
Proof.
  intros H.
  apply (pyslice_mid _ (unlex (firstn k1 ts)) _ (unlex (skipn k2 ts))).
  - rewrite <- !unlex_app, <- split3 by assumption. reflexivity.
  - reflexivity.
  - rewrite (bnd_split ts k1 k2 H). reflexivity.
Qed.

Lemma validl_firstn k (l : list ttok) : validl l -> validl (firstn k l).
Proof.
  revert l. induction k as [|k IH]; intros l H; cbn [firstn]; [constructor|].
  destruct l as [|x l]; [constructor|]. inversion H; subst. constructor; [assumption|apply IH; assumption].
Qed.

Lemma validl_skipn k (l : list ttok) : validl l -> validl (skipn k l).
Proof.
  revert l. induction k as [|k IH]; intros l H; cbn [skipn]; [assumption|].
  destruct l as [|x l]; [constructor|]. inversion H; subst. apply IH; assumption.
Qed.

Lemma validl_slice k1 k2 (l : list ttok) : validl l -> validl (slice l k1 k2).
Proof. intros H. unfold slice. apply validl_firstn, validl_skipn. exact H. Qed.

(* ================================================================== *)
(* text positions                                                      *)
(* ================================================================== *)

Lemma tpf_length : forall l p, length (text_positions_from p l) = length (text_of l).
Proof.
  induction l as [|t l IH]; intros p; [reflexivity|].
  destruct t as [c|n|n|n]; cbn [text_positions_from text_of flat_map app length]; rewrite IH; reflexivity.
Qed.

Lemma text_positions_length ts : length (text_positions ts) = length (text_of ts).
Proof. apply tpf_length. Qed.

Lemma tpf_nth : forall l p i, (i < length (text_positions_from p l))%nat ->
  exists k, (k < length l)%nat /\
    nth i (text_positions_from p l) 0 = p + bnd l k /\
    nth i (text_positions_from p l) 0 + 1 = p + bnd l (S k).
Proof.
  induction l as [|t l IH]; intros p i Hi; [cbn in Hi; lia|].
  assert (Htag : forall q, text_positions_from p (t :: l) = text_positions_from q l ->
                           q = p + zlen (tok_str t) ->
    exists k, (k < length (t :: l))%nat /\
      nth i (text_positions_from p (t :: l)) 0 = p + bnd (t :: l) k /\
      nth i (text_positions_from p (t :: l)) 0 + 1 = p + bnd (t :: l) (S k)).
  { intros q E Hq. rewrite E in *. destruct (IH q i Hi) as (k & Hk & E1 & E2).
    exists (S k). split; [cbn [length]; lia|]. rewrite !bnd_S. lia. }
  destruct t as [c|n|n|n].
  - cbn [text_positions_from] in *. destruct i as [|i]; cbn [nth].
    + exists 0%nat. split; [cbn [length]; lia|]. rewrite bnd_0, bnd_S, bnd_0.
      unfold zlen. cbn [tok_str length]. lia.
    + cbn [length] in Hi. destruct (IH (p + 1) i ltac:(lia)) as (k & Hk & E1 & E2).
      exists (S k). split; [cbn [length]; lia|]. rewrite !bnd_S.
      change (zlen (tok_str (TText c))) with 1. lia.
  - apply (Htag (p + Z.of_nat (length (tok_str (TOpen n))))); reflexivity.
  - apply (Htag (p + Z.of_nat (length (tok_str (TClose n))))); reflexivity.
  - apply (Htag (p + Z.of_nat (length (tok_str (TEmpty n))))); reflexivity.
Qed.

Lemma text_positions_nth ts i : (i < length (text_positions ts))%nat ->
  exists k, (k < length ts)%nat /\
    nth i (text_positions ts) 0 = bnd ts k /\ nth i (text_positions ts) 0 + 1 = bnd ts (S k).
Proof.
  intros Hi. destruct (tpf_nth ts 0 i Hi) as (k & Hk & E1 & E2).
  exists k. split; [assumption|]. unfold text_positions. lia.
Qed.
