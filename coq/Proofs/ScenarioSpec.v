(* Proofs/ScenarioSpec.v -- scenario documents for C05: distinct cases first cited
   in full and later referred to by short form, supra, reference or id.  `render`
   gives the citation list that extraction produces for the scenario (C01);
   `intended` is the grouping the author meant.  No proofs here. *)
From EV Require Import Base.Str Base.PyVal Model.Tokenize Model.Resolve Proofs.ResolveSpec.
Open Scope N_scope.

Record case_desc := {
  cd_vol : str; cd_rep : str;
  cd_page : N;                 (* first page *)
  cd_pl : str; cd_df : str     (* party names *)
}.

Inductive event :=
| EFull (i : nat)                        (* full citation of case i *)
| EShort (i : nat) (ante : bool) (pin : N)   (* "Df, V R at PIN" / "V R at PIN" *)
| ESupra (i : nat)                       (* "Df, supra" *)
| ERef (i : nat)                         (* "Df at PIN" *)
| EId (pin : option N)                   (* "Id." / "Id. at PIN" *)
| EOther.                                (* a section-sign citation *)

(* decimal rendering of a number with ASCII digits *)
Fixpoint digits_fuel (fuel : nat) (n : N) (acc : str) : str :=
  match fuel with
  | O => acc
  | S f => let d := 48 + n mod 10 in
           if n <? 10 then d :: acc else digits_fuel f (n / 10) (d :: acc)
  end.
Definition digits (n : N) : str := digits_fuel 40 n [].

Definition AT : str := [97; 116; 32].     (* "at " *)
Definition DASCII : dtables := {| d_nd := [(48, 57)]; d_isdigit := [(48, 57)]; d_maxdigits := 4300 |}.

Definition the_case (cases : list case_desc) (i : nat) : case_desc :=
  nth i cases {| cd_vol := []; cd_rep := []; cd_page := 0; cd_pl := []; cd_df := [] |}.

Definition case_groups (c : case_desc) (page : str) : groups :=
  [(k_volume, Some (cd_vol c)); (k_reporter, Some (cd_rep c)); (k_page, Some page)].

Definition base_cit (o : nat) (cl : cls) : cit :=
  {| oid := o; c_cls := cl; c_groups := []; c_guess := None; c_eds := []; c_plaintiff := None;
     c_defendant := None; c_antecedent := None; c_ante_stripped := []; c_pin := None; c_names := [];
     c_meta_values := [] |}.

Definition render_event (cases : list case_desc) (o : nat) (e : event) : cit :=
  match e with
  | EFull i =>
      let c := the_case cases i in
      {| oid := o; c_cls := FullCase; c_groups := case_groups c (digits (cd_page c)); c_guess := None; c_eds := [];
         c_plaintiff := Some (cd_pl c); c_defendant := Some (cd_df c); c_antecedent := None;
         c_ante_stripped := []; c_pin := None; c_names := [];
         c_meta_values := [cd_pl c; cd_df c] |}
  | EShort i ante pin =>
      let c := the_case cases i in
      {| oid := o; c_cls := ShortCase; c_groups := case_groups c (digits pin); c_guess := None; c_eds := [];
         c_plaintiff := None; c_defendant := None;
         c_antecedent := if ante then Some (cd_df c) else None;
         c_ante_stripped := if ante then cd_df c else [];
         c_pin := Some (digits pin); c_names := []; c_meta_values := [] |}
  | ESupra i =>
      let c := the_case cases i in
      {| oid := o; c_cls := Supra; c_groups := []; c_guess := None; c_eds := []; c_plaintiff := None;
         c_defendant := None; c_antecedent := Some (cd_df c); c_ante_stripped := cd_df c;
         c_pin := None; c_names := []; c_meta_values := [] |}
  | ERef i =>
      let c := the_case cases i in
      {| oid := o; c_cls := Ref; c_groups := []; c_guess := None; c_eds := []; c_plaintiff := None;
         c_defendant := Some (cd_df c); c_antecedent := None; c_ante_stripped := [];
         c_pin := None; c_names := [cd_df c]; c_meta_values := [] |}
  | EId pin =>
      {| oid := o; c_cls := IdC; c_groups := []; c_guess := None; c_eds := []; c_plaintiff := None;
         c_defendant := None; c_antecedent := None; c_ante_stripped := [];
         c_pin := match pin with Some p => Some (AT ++ digits p) | None => None end;
         c_names := []; c_meta_values := [] |}
  | EOther => base_cit o Unknown
  end.

Fixpoint render_from (cases : list case_desc) (o : nat) (evs : list event) : list cit :=
  match evs with
  | [] => []
  | e :: r => render_event cases o e :: render_from cases (S o) r
  end.
Definition render (cases : list case_desc) (evs : list event) : list cit := render_from cases 0 evs.

(* ---- well-formed scenarios ---- *)
Definition case_key (c : case_desc) : key :=
  KCase FullCase (Some (Some (cd_vol c))) (digits (cd_page c)) (Some (cd_rep c)).

(* the cases whose full citation occurs among the first n events *)
Definition cited_before (evs : list event) (n : nat) (i : nat) : bool :=
  existsb (fun e => match e with EFull j => Nat.eqb i j | _ => false end) (firstn n evs).

Definition same_rv (a b : case_desc) : bool := str_eqb (cd_vol a) (cd_vol b) && str_eqb (cd_rep a) (cd_rep b).

Record scenario_ok (cases : list case_desc) (evs : list event) (mx : N) : Prop := {
  (* distinct cases have distinct (volume, reporter, page) *)
  so_keys : forall i j, (i < length cases)%nat -> (j < length cases)%nat -> i <> j ->
              case_key (the_case cases i) <> case_key (the_case cases j);
  (* party names are non-empty and the defendant (used as antecedent / reference name) of a case
     occurs in no party name of another case *)
  so_names : forall i, (i < length cases)%nat -> cd_df (the_case cases i) <> [] /\ cd_pl (the_case cases i) <> [];
  so_disjoint : forall i j, (i < length cases)%nat -> (j < length cases)%nat -> i <> j ->
              infixb (cd_df (the_case cases i)) (cd_df (the_case cases j)) = false /\
              infixb (cd_df (the_case cases i)) (cd_pl (the_case cases j)) = false;
  (* every event names an existing case, and non-full events come after the full citation of their case *)
  so_events : forall n e, nth_error evs n = Some e ->
              match e with
              | EFull i => (i < length cases)%nat
              | EShort i _ _ | ESupra i | ERef i => (i < length cases)%nat /\ cited_before evs n i = true
              | _ => True
              end;
  so_pages : forall i, (i < length cases)%nat -> cd_page (the_case cases i) + mx < 10 ^ 30
}.

(* ---- the intended grouping ---- *)
(* case attached to each of the first n events (last element of the result = event n-1) *)
Definition pin_ok (mx : N) (page : N) (pin : option N) : bool :=
  match pin with
  | None => true
  | Some p => (page <=? p) && (p <=? page + mx)
  end.

(* number of distinct cited-before cases with the same volume and reporter as case i *)
Definition rv_unique (cases : list case_desc) (evs : list event) (n i : nat) : bool :=
  forallb (fun j => negb (cited_before evs n j) || Nat.eqb i j ||
                    negb (same_rv (the_case cases i) (the_case cases j)))
          (seq 0 (length cases)).

Fixpoint intended_from (cases : list case_desc) (all : list event) (mx : N) (n : nat) (prev : option nat)
         (evs : list event) : list (option nat) :=
  match evs with
  | [] => []
  | e :: r =>
      let t :=
        match e with
        | EFull i => Some i
        | EShort i ante _ => if ante || rv_unique cases all n i then Some i else None
        | ESupra i | ERef i => Some i
        | EId pin => match prev with
                     | Some j => if pin_ok mx (cd_page (the_case cases j)) pin then Some j else None
                     | None => None
                     end
        | EOther => None
        end in
      t :: intended_from cases all mx (S n) t r
  end.
Definition intended (cases : list case_desc) (evs : list event) (mx : N) : list (option nat) :=
  intended_from cases evs mx 0 None evs.
