(* Proofs/PipeRefs.v -- C19: reference extraction never disturbs the other
   citations: the non-reference citations accumulated by cite_run do not depend
   on the reference oracle (refsearch). *)
From EV Require Import Base.Str Base.PyVal Model.Tokenize Model.Editions Model.Filter Model.Pipeline Proofs.PipeSpec Proofs.PipeYear.
Open Scope Z_scope.

Definition nonref_pcits (l : list pcit) : list pcit := filter (fun c => negb (is_ref c)) l.

(* the loop invariant on the heads of two accumulators *)
Definition headc (acc1 acc2 : list pcit) : Prop :=
  match acc1, acc2 with
  | c1 :: _, c2 :: _ => c1 = c2 /\ is_ref c1 = false
  | [], [] => True
  | _, _ => False
  end.

Lemma nonref_app l1 l2 : nonref_pcits (l1 ++ l2) = nonref_pcits l1 ++ nonref_pcits l2.
Proof. apply filter_app. Qed.

Lemma nonref_all_refs l : (forall x, In x l -> is_ref x = true) -> nonref_pcits l = [].
Proof.
  induction l as [|x l IH]; intros H; [reflexivity|].
  unfold nonref_pcits. cbn [filter]. rewrite (H x (or_introl eq_refl)). cbn [negb].
  apply IH. intros y Hy. apply H. right. exact Hy.
Qed.

Lemma nonref_cons c l : is_ref c = false -> nonref_pcits (c :: l) = c :: nonref_pcits l.
Proof. intros H. unfold nonref_pcits. cbn [filter]. rewrite H. reflexivity. Qed.

(* every citation produced by `references` is a reference citation *)
Theorem references_are_refs :
  forall refsearch valid_name text c r, In r (references refsearch valid_name text c) -> is_ref r = true.
Proof.
  intros refsearch valid_name text c r Hx. unfold references in Hx. cbv zeta in Hx.
  destruct (zlen text <=? _); [destruct Hx|].
  destruct (p_cls c); try (destruct Hx).
  destruct (flat_map _ _) as [|n ns]; [destruct Hx|].
  apply in_map_iff in Hx. destruct Hx as ([[a b] gd] & <- & _). reflexivity.
Qed.

Lemma nonref_references refsearch valid_name text c :
  nonref_pcits (rev (references refsearch valid_name text c)) = [].
Proof.
  apply nonref_all_refs. intros x Hx. apply in_rev in Hx.
  apply (references_are_refs _ _ _ _ _ Hx).
Qed.

Section PR.
  Variable search : pat -> str -> option mres.
  Variable MAXC : nat.
  Variable BACK : nat.
  Variable D : dtables.
  Variable highest : Z.
  Variable this_year : Z.
  Variable edition_of : nat -> option edition.
  Variable source_of : nat -> nat.
  Variable valid_name : str -> bool.
  Variable is_space : N -> bool.

  Local Notation apost := (add_post_citation search MAXC D highest is_space).
  Local Notation adef := (add_defendant search BACK D highest is_space).
  Local Notation apre := (add_pre_citation search MAXC).
  Local Notation alaw := (add_law_metadata search MAXC D highest).
  Local Notation ajou := (add_journal_metadata search MAXC D highest).
  Local Notation wguess := (with_guess this_year edition_of).
  Local Notation epin := (extract_pin_cite search MAXC).
  Local Notation efull := (extract_full search MAXC BACK D highest this_year edition_of source_of is_space).
  Local Notation eshort := (extract_short search MAXC this_year edition_of is_space).
  Local Notation esupra := (extract_supra search MAXC).
  Local Notation eid := (extract_id search MAXC).
  Local Notation cstep rs :=
    (cite_step search rs MAXC BACK D highest this_year edition_of source_of valid_name is_space).
  Local Notation crun rs :=
    (cite_run search rs MAXC BACK D highest this_year edition_of source_of valid_name is_space).

  (* ---------- the class of a citation is fixed at construction ---------- *)
  Lemma apost_cls c words : p_cls (apost c words) = p_cls c.
  Proof.
    unfold add_post_citation. cbv zeta.
    destruct (search PPostFull _) as [m|]; [|reflexivity].
    destruct (truthy_o (mget m _ g_pin_cite)), (truthy_o (mget m _ g_court)),
      (truthy_o (mget m _ g_year)); reflexivity.
  Qed.

  Lemma alaw_cls c words : p_cls (alaw c words) = p_cls c.
  Proof.
    unfold add_law_metadata. cbv zeta.
    destruct (search PPostLaw _) as [m|]; [|reflexivity].
    destruct (truthy_o (mget m _ g_year)); reflexivity.
  Qed.

  Lemma ajou_cls c words : p_cls (ajou c words) = p_cls c.
  Proof.
    unfold add_journal_metadata. cbv zeta.
    destruct (search PPostJournal _) as [m|]; [|reflexivity].
    destruct (truthy_o (mget m _ g_year)); reflexivity.
  Qed.

  Lemma adef_cls c words c' : adef c words = Ok c' -> p_cls c' = p_cls c.
  Proof.
    unfold add_defendant. cbv zeta.
    destruct (def_scan _ _ _ _) as [r|ex]; cbn [bind]; [|discriminate].
    destruct r as [[[si off] pl]|]; [|intros [= <-]; reflexivity].
    destruct (nonempty _).
    - destruct (search PDefYear _) as [m|]; intros [= <-]; destruct pl; reflexivity.
    - intros [= <-]. destruct pl; reflexivity.
  Qed.

  Lemma apre_cls c words : p_cls (apre c words) = p_cls c.
  Proof.
    unfold add_pre_citation. cbv zeta.
    destruct (_ || _); [reflexivity|].
    destruct (search PPreFull _) as [m|]; [|reflexivity].
    destruct (truthy_o _); reflexivity.
  Qed.

  Lemma wguess_cls c : p_cls (wguess c) = p_cls c.
  Proof. reflexivity. Qed.

  Lemma parallel_cls c pre : p_cls (parallel c pre) = p_cls c.
  Proof. unfold parallel. destruct (oz_eqb _ _); reflexivity. Qed.

  Lemma full_class_cases t cl :
    full_class source_of t = Ok cl -> cl = CFullCase \/ cl = CFullLaw \/ cl = CFullJournal.
  Proof.
    unfold full_class. cbv zeta.
    destruct (existsb (Nat.eqb 0) _); [intros [= <-]; auto|].
    destruct (existsb (Nat.eqb 1) _); [intros [= <-]; auto|].
    destruct (existsb (Nat.eqb 2) _); [intros [= <-]; auto|discriminate].
  Qed.

  Lemma efull_nonref words i t c : efull words i t = Ok c -> is_ref c = false.
  Proof.
    unfold extract_full.
    destruct (full_class source_of t) as [cl|ex] eqn:Ecl; cbn [bind]; [|discriminate].
    apply full_class_cases in Ecl. unfold is_ref.
    destruct Ecl as [->|[->| ->]].
    - destruct (adef _ words) as [c2|ex] eqn:E; cbn [bind]; [|discriminate].
      intros [= <-]. rewrite wguess_cls, apre_cls, (adef_cls _ _ _ E), apost_cls. reflexivity.
    - intros [= <-]. rewrite wguess_cls, alaw_cls. reflexivity.
    - intros [= <-]. rewrite wguess_cls, ajou_cls. reflexivity.
  Qed.

  Lemma eshort_nonref words i t c : eshort words i t = Ok c -> is_ref c = false.
  Proof.
    unfold extract_short. cbv zeta.
    destruct (match search PShortAnte _ with Some _ => _ | None => Ok tt end) as [u|ex];
      cbn [bind]; [|discriminate].
    destruct (glookup g_page (t_groups t)) as [prefix|]; [|discriminate].
    destruct (epin words i (ze t) _) as [[[pin se] par]|ex]; cbn [bind]; [|discriminate].
    intros [= <-]. reflexivity.
  Qed.

  Lemma esupra_nonref words i t c : esupra words i t = Ok c -> is_ref c = false.
  Proof.
    unfold extract_supra.
    destruct (epin words i (ze t) (Some [])) as [[[pin se] par]|ex]; cbn [bind]; [|discriminate].
    cbv zeta. intros [= <-]. reflexivity.
  Qed.

  Lemma eid_nonref words i t c : eid words i t = Ok c -> is_ref c = false.
  Proof.
    unfold extract_id.
    destruct (epin words i (ze t) (Some [])) as [[[pin se] par]|ex]; cbn [bind]; [|discriminate].
    intros [= <-]. reflexivity.
  Qed.

  (* ---------- one step ---------- *)
  Lemma cstep_nonrefs rs1 rs2 text words acc1 acc2 it r1 :
    nonref_pcits acc1 = nonref_pcits acc2 -> headc acc1 acc2 ->
    cstep rs1 text words acc1 it = Ok r1 ->
    exists r2, cstep rs2 text words acc2 it = Ok r2 /\
               nonref_pcits r1 = nonref_pcits r2 /\ headc r1 r2.
  Proof.
    intros Hn Hh. unfold cite_step. destruct it as [i t]. destruct (t_kind t).
    - destruct (t_short t).
      + destruct (eshort words i t) as [c|ex] eqn:E; cbn [bind]; [|discriminate].
        intros [= <-]. apply eshort_nonref in E. eexists. split; [reflexivity|]. split.
        * rewrite !(nonref_cons _ _ E), Hn. reflexivity.
        * split; [reflexivity|exact E].
      + destruct (efull words i t) as [c0|ex] eqn:E; cbn [bind]; [|discriminate].
        intros [= <-]. apply efull_nonref in E.
        set (c1 := match acc1 with
                   | pre :: _ => if is_full_case c0 && is_full_case pre then parallel c0 pre else c0
                   | [] => c0
                   end).
        assert (Heq : match acc2 with
                      | pre :: _ => if is_full_case c0 && is_full_case pre then parallel c0 pre else c0
                      | [] => c0
                      end = c1).
        { subst c1. unfold headc in Hh. destruct acc1 as [|a1 l1], acc2 as [|a2 l2]; try contradiction.
          - reflexivity.
          - destruct Hh as [<- _]. reflexivity. }
        assert (Hc1 : is_ref c1 = false).
        { subst c1. destruct acc1 as [|pre l1]; [exact E|].
          destruct (_ && _); [|exact E].
          unfold is_ref. rewrite parallel_cls. exact E. }
        rewrite Heq. eexists. split; [reflexivity|]. split.
        * rewrite !(nonref_cons _ _ Hc1), !nonref_app, !nonref_references, Hn. reflexivity.
        * split; [reflexivity|exact Hc1].
    - intros [= <-]. eexists. split; [reflexivity|]. split.
      + rewrite !nonref_cons by reflexivity. rewrite Hn. reflexivity.
      + split; reflexivity.
    - destruct (esupra words i t) as [c|ex] eqn:E; cbn [bind]; [|discriminate].
      intros [= <-]. apply esupra_nonref in E. eexists. split; [reflexivity|]. split.
      + rewrite !(nonref_cons _ _ E), Hn. reflexivity.
      + split; [reflexivity|exact E].
    - destruct (eid words i t) as [c|ex] eqn:E; cbn [bind]; [|discriminate].
      intros [= <-]. apply eid_nonref in E. eexists. split; [reflexivity|]. split.
      + rewrite !(nonref_cons _ _ E), Hn. reflexivity.
      + split; [reflexivity|exact E].
    - intros [= <-]. eexists. split; [reflexivity|]. split; assumption.
    - intros [= <-]. eexists. split; [reflexivity|]. split; assumption.
    - intros [= <-]. eexists. split; [reflexivity|]. split; assumption.
  Qed.

  (* ---------- the loop, with the invariant in the conclusion ---------- *)
  Lemma crun_nonrefs rs1 rs2 text words its : forall acc1 acc2 r1,
    nonref_pcits acc1 = nonref_pcits acc2 -> headc acc1 acc2 ->
    crun rs1 text words acc1 its = Ok r1 ->
    exists r2, crun rs2 text words acc2 its = Ok r2 /\
               nonref_pcits r1 = nonref_pcits r2 /\ headc r1 r2.
  Proof.
    induction its as [|it r IH]; intros acc1 acc2 r1 Hn Hh; cbn [cite_run].
    - intros [= <-]. eexists. split; [reflexivity|]. split; assumption.
    - destruct (cstep rs1 text words acc1 it) as [a1|ex] eqn:E; cbn [bind]; [|discriminate].
      intros Hr.
      destruct (cstep_nonrefs rs1 rs2 _ _ _ _ _ _ Hn Hh E) as (a2 & E2 & Hn2 & Hh2).
      rewrite E2. cbn [bind]. exact (IH _ _ _ Hn2 Hh2 Hr).
  Qed.
End PR.

(* two runs that differ only in the reference oracle (refsearch) accumulate the same non-reference
   citations, in the same order, field by field; the heads of the results again agree *)
Lemma cite_run_nonrefs_independent_inv :
  forall search refsearch1 refsearch2 MAXC BACK D highest this_year edition_of source_of valid_name is_space
         text words cits acc1 acc2 r1,
  nonref_pcits acc1 = nonref_pcits acc2 ->
  headc acc1 acc2 ->
  cite_run search refsearch1 MAXC BACK D highest this_year edition_of source_of valid_name is_space text words acc1 cits = Ok r1 ->
  exists r2,
    cite_run search refsearch2 MAXC BACK D highest this_year edition_of source_of valid_name is_space text words acc2 cits = Ok r2 /\
    nonref_pcits r1 = nonref_pcits r2 /\ headc r1 r2.
Proof.
  intros search refsearch1 refsearch2 MAXC BACK D highest this_year edition_of source_of valid_name is_space
         text words cits acc1 acc2 r1 Hn Hh Hr.
  exact (crun_nonrefs search MAXC BACK D highest this_year edition_of source_of valid_name is_space
           refsearch1 refsearch2 text words cits acc1 acc2 r1 Hn Hh Hr).
Qed.

Theorem cite_run_nonrefs_independent :
  forall search refsearch1 refsearch2 MAXC BACK D highest this_year edition_of source_of valid_name is_space
         text words cits acc1 acc2 r1,
  nonref_pcits acc1 = nonref_pcits acc2 ->
  (match acc1, acc2 with
   | c1 :: _, c2 :: _ => c1 = c2 /\ is_ref c1 = false
   | [], [] => True
   | _, _ => False
   end) ->
  cite_run search refsearch1 MAXC BACK D highest this_year edition_of source_of valid_name is_space text words acc1 cits = Ok r1 ->
  exists r2,
    cite_run search refsearch2 MAXC BACK D highest this_year edition_of source_of valid_name is_space text words acc2 cits = Ok r2 /\
    nonref_pcits r1 = nonref_pcits r2.
Proof.
  intros search refsearch1 refsearch2 MAXC BACK D highest this_year edition_of source_of valid_name is_space
         text words cits acc1 acc2 r1 Hn Hh Hr.
  destruct (cite_run_nonrefs_independent_inv search refsearch1 refsearch2 MAXC BACK D highest this_year
              edition_of source_of valid_name is_space text words cits acc1 acc2 r1 Hn Hh Hr)
    as (r2 & H2 & Hn2 & _).
  exists r2. split; assumption.
Qed.

(* from the empty accumulator (as in get_citations) no side condition is needed *)
Corollary cite_run_nonrefs_independent_nil :
  forall search refsearch1 refsearch2 MAXC BACK D highest this_year edition_of source_of valid_name is_space
         text words cits r1,
  cite_run search refsearch1 MAXC BACK D highest this_year edition_of source_of valid_name is_space text words [] cits = Ok r1 ->
  exists r2,
    cite_run search refsearch2 MAXC BACK D highest this_year edition_of source_of valid_name is_space text words [] cits = Ok r2 /\
    nonref_pcits r1 = nonref_pcits r2.
Proof.
  intros. eapply cite_run_nonrefs_independent; [reflexivity|exact I|eassumption].
Qed.
