(* Proofs/ShortPage.v -- "a short-form citation token ends with its page group"
   (Proofs/ClosedCorollaries.v: short_page_ok): decided per extractor row by static analysis of
   the regenerated pattern (always_sets / ends_at_end on the body of group 1), sound against the
   declarative semantics with captures, lifted through finditer, Token.from_match and tokenize.

   FINDING.  short_page_ok does NOT hold for every text: 11 short-form extractor rows have literal
   text after the page group inside group 1 (row_idx 649, 1425, 2197, 2199, 2201, 2203, 2205,
   2207, 2213, 2215, 4719); `short_page_counterexample` below exhibits the text "19 CO at 12M"
   (row 649: ... at (?P<page>\d{1,6})M?).  The theorem is therefore proved under the named
   hypothesis odd_short_rows_silent s: none of the rows failing the check produces a candidate. *)
From EV Require Import Base.Str Base.PyVal Regex.Syntax Regex.Decl Regex.Match Regex.MatchSound.
From EV Require Import Regex.C13Check Regex.DeclCap Regex.DeclCapSound.
From EV Require Import Model.Tokenize Model.TokenizeEq Model.Editions Model.Filter Model.Pipeline.
From EV Require Import Model.SearchEngine Model.Extract Model.E2E Model.E2EClosed.
From EV Require Import Proofs.TokenizeProofs Proofs.PipeSpec Proofs.PipeMeta Proofs.ExtractSpec Proofs.ExtractProofs.
From EV Require Import Proofs.ClosedProofs Proofs.PageGroup Proofs.ClosedCorollaries Proofs.SearchDischarge.
From EV Require Import Gen.Unicode Gen.Lower Gen.ExtractorIndex Gen.ExtractTable.
Close Scope Z_scope.
Close Scope N_scope.
Open Scope nat_scope.

(* (finditer_MC, g1_body / g1_shape, gnum1, glookup_map_names: Proofs/PageGroup.v) *)

(* ------------------------------------------------------------------ *)
(* the row condition and the candidate-level fact                       *)
(* ------------------------------------------------------------------ *)
(* short-form citation rows: the pattern has one of the group1_total shapes, the first group named
   "page" is not group 1, every match of the body of group 1 sets it, and its most recent entry
   ends where the body ends *)
Definition row_short_ok (x : xrow) : bool :=
  match x_kind (snd x) with
  | KCitation =>
      if x_short (snd x) then
        group1_total (row_re (fst x)) &&
        match gnum1 g_page (x_names (snd x)), g1_body (row_re (fst x)) with
        | Some pg, Some b => negb (Nat.eqb pg 1) && always_sets pg b && ends_at_end pg b
        | _, _ => false
        end
      else true
  | _ => true
  end.

Definition page_ok (t : tok) : Prop :=
  t_kind t = KCitation -> t_short t = true ->
  exists pg, glookup g_page (t_groups t) = Some (Some pg) /\ suffix pg (t_data t).

Theorem tokens_of_page_ok : forall U0 x s t,
  row_short_ok x = true -> In t (tokens_of U0 x s) -> page_ok t.
Proof.
  intros U0 x s t Hrow Hin Hk Hs.
  destruct (tokens_of_inv U0 x s t Hin) as [i [j [c [a1 [b1 [Hf [Hc1 Ht]]]]]]]. subst t.
  cbn [t_kind t_short t_groups t_data] in *.
  unfold row_short_ok in Hrow. rewrite Hk, Hs in Hrow.
  apply andb_true_iff in Hrow. destruct Hrow as [Hg1 Hrow].
  destruct (gnum1 g_page (x_names (snd x))) as [pg|] eqn:Hpg; [|discriminate].
  destruct (group1_total_shape _ Hg1) as [bd [Hb Hsh]]. rewrite Hb in Hrow.
  apply andb_true_iff in Hrow. destruct Hrow as [Hrow Hends].
  apply andb_true_iff in Hrow. destruct Hrow as [Hne Hsets].
  apply negb_true_iff in Hne.
  pose proof (finditer_MC U0 _ _ _ _ _ _ Hf) as HMC.
  destruct (finditer_sound U0 _ _ _ _ _ _ Hf) as [_ [_ [Hjl Hspans]]].
  destruct (g1_shape_MC U0 _ _ _ _ _ _ _ Hsh HMC) as [i1 [j1 [c0 [cb [Hbody Hc]]]]]. subst c.
  cbn [cap_get Nat.eqb] in Hc1. injection Hc1 as <- <-.
  (* the page entry comes from the body *)
  destruct (always_sets_sound U0 _ s pg _ _ _ _ _ Hsets Hbody) as [pre [[a b] [Hpre Hget]]].
  pose proof (ends_at_end_sound U0 _ s pg _ _ _ _ _ Hends Hbody pre a b Hpre Hget) as Hb1. subst b.
  destruct (MC_grows U0 _ s _ _ _ _ _ Hbody) as [pre' [Hpre' Hin']].
  assert (pre' = pre) by (apply (app_inv_tail c0); rewrite <- Hpre', Hpre; reflexivity). subst pre'.
  destruct (Hin' _ _ _ (cap_get_in _ _ _ _ Hget)) as [Hia [Hab _]].
  assert (Hcap : cap_get pg ((1, (i1, j1)) :: cb) = Some (a, j1)).
  { cbn [cap_get]. rewrite Hne. rewrite Hpre, DeclCapSound.cap_get_app, Hget. reflexivity. }
  exists (slice s a j1). split.
  - rewrite (glookup_map_names g_page (group_text s ((1, (i1, j1)) :: cb))), Hpg.
    unfold group_text. rewrite Hcap. reflexivity.
  - exists (slice s i1 a). symmetry. apply slice_app; assumption.
Qed.

Lemma page_ok_merge : forall a b m, page_ok a -> page_ok b -> merge a b = Some m -> page_ok m.
Proof.
  intros a b m Ha _ Hm. destruct (merge_kind_groups a b m Hm) as [Hk [Hg Hs]].
  destruct (merge_same a b m Hm) as [_ [_ Hd]].
  unfold page_ok in *. rewrite Hk, Hg, Hs, Hd. exact Ha.
Qed.

(* through tokenize, for any table whose rows pass or stay silent on this text *)
Theorem tokenize_extract_page_ok : forall U0 table s nominative,
  (forall x, In x table -> row_short_ok x = true \/ tokens_of U0 x s = []) ->
  forall k t, nth_error (fst (tokenize s nominative (extract_with U0 table s))) k = Some (T t) ->
  page_ok t.
Proof.
  intros U0 table s nominative Hrows k t Hk.
  apply (tokenize_stream_pred s nominative page_ok page_ok_merge (extract_with U0 table s))
    with (k := k); [|exact Hk].
  apply Forall_forall. intros t' Hin. unfold extract_with in Hin. apply in_flat_map in Hin.
  destruct Hin as [x [Hx Hin]]. destruct (Hrows x Hx) as [Hok|Hnil].
  - exact (tokens_of_page_ok U0 x s t' Hok Hin).
  - rewrite Hnil in Hin. destruct Hin.
Qed.

(* ------------------------------------------------------------------ *)
(* 4. the generated table                                               *)
(* ------------------------------------------------------------------ *)
(* the rows failing the check (kernel computation, about 2 s) *)
Lemma odd_short_rows :
  map (fun x => row_idx (fst x)) (filter (fun x => negb (row_short_ok x)) xtable) =
  [649; 1425; 2197; 2199; 2201; 2203; 2205; 2207; 2213; 2215; 4719]%N.
Proof. vm_compute. reflexivity. Qed.

(* none of those rows matches the text *)
Definition odd_short_rows_silent (s : str) : Prop :=
  forall x, In x xtable -> row_short_ok x = false -> tokens_of U x s = [].

Theorem short_page_ok_of_silent : forall s, odd_short_rows_silent s -> short_page_ok s.
Proof.
  intros s Hsil k t Hk.
  assert (Hrows : forall x, In x (get_extractors_ac xtable s (lower_str lower1 s)) ->
                            row_short_ok x = true \/ tokens_of U x s = []).
  { intros x Hx. pose proof (in_get_extractors_ac _ _ _ _ Hx) as Hx'.
    destruct (row_short_ok x) eqn:Hr; [left; reflexivity|right; exact (Hsil x Hx' Hr)]. }
  rewrite tokenize_text_unfold in Hk.
  exact (tokenize_extract_page_ok U _ s _ Hrows k t Hk).
Qed.

(* the unconditional statement is false *)
Definition s_19_CO_at_12M : str := [49;57;32;67;79;32;97;116;32;49;50;77]%N.

Theorem short_page_counterexample : ~ short_page_ok s_19_CO_at_12M.
Proof.
  intros H.
  assert (E : exists t, nth_error (fst (tokenize_text s_19_CO_at_12M)) 0 = Some (T t) /\
                        t_kind t = KCitation /\ t_short t = true /\
                        glookup g_page (t_groups t) = Some (Some [49;50]%N) /\
                        t_data t = s_19_CO_at_12M).
  { vm_compute. eexists. repeat split. }
  destruct E as [t [Hn [Hk [Hs [Hg Hd]]]]].
  destruct (H 0 t Hn Hk Hs) as [pg [Hpg [r Hr]]].
  rewrite Hg in Hpg. injection Hpg as Hpg. subst pg. rewrite Hd in Hr.
  apply (f_equal (@rev N)) in Hr. rewrite rev_app_distr in Hr. cbn in Hr. discriminate Hr.
Qed.

(* ------------------------------------------------------------------ *)
(* 5. the closed theorems                                               *)
(* ------------------------------------------------------------------ *)
Theorem closed_offsets3 : forall this_year s ra l,
  s <> s_eyecite -> odd_short_rows_silent s -> search_residual E ->
  get_citations_closed this_year s ra = Ok l ->
  Forall (offsets_ok s) l.
Proof.
  intros this_year s ra l Hne Hsil Hres Hg.
  exact (closed_offsets'' this_year s ra l Hne (short_page_ok_of_silent s Hsil) Hres Hg).
Qed.

Theorem closed_metadata3 : forall this_year s l,
  s <> s_eyecite -> odd_short_rows_silent s -> search_residual E -> defyear_ok E ->
  get_citations_closed this_year s false = Ok l ->
  Forall (meta_ok s l) l.
Proof.
  intros this_year s l Hne Hsil Hres Hd Hg.
  exact (closed_metadata'' this_year s l Hne (short_page_ok_of_silent s Hsil) Hres Hd Hg).
Qed.

Theorem closed_metadata_ra3 : forall this_year s ra l,
  s <> s_eyecite -> odd_short_rows_silent s -> search_residual E -> defyear_ok E ->
  get_citations_closed this_year s ra = Ok l ->
  exists l0, get_citations_closed this_year s false = Ok l0 /\
             (forall c, In c l -> In c l0) /\ Forall (meta_ok s l0) l.
Proof.
  intros this_year s ra l Hne Hsil Hres Hd Hg.
  exact (closed_metadata_ra'' this_year s ra l Hne (short_page_ok_of_silent s Hsil) Hres Hd Hg).
Qed.

Print Assumptions finditer_MC.
Print Assumptions tokens_of_page_ok.
Print Assumptions tokenize_extract_page_ok.
Print Assumptions odd_short_rows.
Print Assumptions short_page_ok_of_silent.
Print Assumptions short_page_counterexample.
Print Assumptions closed_offsets3.
Print Assumptions closed_metadata3.
Print Assumptions closed_metadata_ra3.
