(* Proofs/SpansDisjoint.v -- C03 through the whole pipeline: the citations returned by
   get_citations are in document order with pairwise disjoint spans.

   HISTORY.  With the original filter_citations this was FALSE: the neighbour loop compared a
   citation only with the LAST kept citation in full-span order, so a reference citation could
   survive although it overlapped a citation that was not its neighbour; on
     "Foo v. Smith, 5 U.S. 5 (1999). Bar v. Baz, § 3, Smith at 1 U.S. 1 (2000)."
   eyecite returned the reference "Smith at 1" (48,58) AND the full citation "1 U.S. 1" (57,65).
   filter_citations was repaired (Model/Filter.v, Proofs/FilterDisjoint.v): a reference is also
   dropped when it overlaps any earlier kept citation.  s_overlap_repaired below shows the result
   on that text now.

   Non-reference citations: each span is its token, extended over the pin cite of short/supra/id
   forms, and that extension stops before the next special token.  Reference citations: full span
   = span, non-empty, and a kept reference's full span overlaps no other kept full span. *)
From Coq Require Import Sorting.Sorted.
From EV Require Import Base.Str Base.PyVal Model.Tokenize Model.Editions Model.Filter Model.Pipeline.
From EV Require Import Proofs.TokenizeProofs Proofs.FilterProofs Proofs.FilterDisjoint Proofs.PipeSpec Proofs.PipeWindows.
From EV Require Import Proofs.PipeOffsets Proofs.PipeMeta.
Open Scope Z_scope.

(* ------------------------------------------------------------------ *)
(* the strings-only forward window stops before the next special token  *)
(* ------------------------------------------------------------------ *)
Lemma fwd_so_len MAXC : forall ws acc m t',
  nth_error ws m = Some (T t') ->
  (length (fwd MAXC ws acc true) <= length acc + length (stream_text (firstn m ws)))%nat.
Proof.
  induction ws as [|e r IH]; intros acc m t' Hm; [destruct m; discriminate Hm|].
  cbn [fwd]. destruct e as [s|t].
  - cbn [stops]. destruct m as [|m]; [discriminate Hm|]. cbn [nth_error] in Hm.
    cbn [firstn]. change (stream_text (W s :: firstn m r)) with (s ++ stream_text (firstn m r)).
    cbn [elem_str].
    match goal with |- context [if ?b then _ else _] => destruct b end.
    + rewrite firstn_length, !app_length. lia.
    + specialize (IH (acc ++ s) m t' Hm). rewrite !app_length in *. lia.
  - cbn [stops orb]. lia.
Qed.

Lemma nth_error_skipn_add {A} : forall b (l : list A) a,
  nth_error (skipn b l) a = nth_error l (b + a).
Proof.
  induction b as [|b IH]; intros l a; [reflexivity|].
  destruct l as [|e r]; [destruct a; reflexivity|]. cbn [skipn plus nth_error]. apply IH.
Qed.

Lemma window_so_bound MAXC words j j' t' pre :
  (j < j')%nat -> nth_error words j' = Some (T t') ->
  (length (window_fwd MAXC words (S j) pre true) + pos words (S j)
   <= length pre + pos words j')%nat.
Proof.
  intros Hj Hn. unfold window_fwd.
  assert (Hm : nth_error (skipn (S j) words) (j' - S j) = Some (T t')).
  { rewrite nth_error_skipn_add. replace (S j + (j' - S j))%nat with j' by lia. exact Hn. }
  pose proof (fwd_so_len MAXC _ pre _ _ Hm) as Hl.
  change (firstn (j' - S j) (skipn (S j) words)) with (slice words (S j) j') in Hl.
  rewrite (stream_slice_gen words (S j) j') in Hl by lia.
  pose proof (pos_mono words (S j) j' ltac:(lia)) as Hmono.
  rewrite slice_length in Hl; [lia|exact Hmono|apply pos_le_stream].
Qed.

Lemma rstrip_length P s : (length (rstrip P s) <= length s)%nat.
Proof. destruct (rstrip_prefix P s) as [tl Htl]. rewrite Htl at 2. rewrite app_length. lia. Qed.

Lemma infix_length (p s : str) : infix p s -> (length p <= length s)%nat.
Proof. intros [a [b ->]]. rewrite !app_length. lia. Qed.

(* ------------------------------------------------------------------ *)
(* spans of the citations built from one special token                  *)
(* ------------------------------------------------------------------ *)
Section SD.
  Variable search : pat -> str -> option mres.
  Variable refsearch : list (str * str) -> str -> list (nat * nat * list (str * option str)).
  Variable MAXC : nat.
  Variable BACK : nat.
  Variable D : dtables.
  Variable highest : Z.
  Variable this_year : Z.
  Variable edition_of : nat -> option edition.
  Variable source_of : nat -> nat.
  Variable valid_name : str -> bool.
  Variable is_space : N -> bool.
  Variable text : str.
  Variable words : list elem.
  Variable Wok : str -> Prop.

  Hypothesis Hstream : stream_ok text words.
  Hypothesis Hsearch : search_ok_w Wok search.
  Hypothesis Hshort_total : forall w, search PPostShort w <> None.

  (* no later special token starts before x *)
  Definition before_next (j : nat) (x : Z) : Prop :=
    forall j' t', (j < j')%nat -> nth_error words j' = Some (T t') -> x <= zs t'.

  Lemma ze_before_next j t : nth_error words j = Some (T t) -> before_next j (ze t).
  Proof.
    intros Hn j' t' Hj Hn'.
    destruct (pos_token _ _ _ _ Hstream Hn) as (_ & Hp1 & _).
    destruct (pos_token _ _ _ _ Hstream Hn') as (Hp0' & _ & _).
    pose proof (pos_mono words (S j) j' ltac:(lia)). unfold ze, zs. lia.
  Qed.

  (* the span end computed by extract_pin_cite *)
  Lemma epc_bound j t pre pin se par :
    nth_error words j = Some (T t) ->
    extract_pin_cite search MAXC words j (ze t) (Some pre) = Ok (pin, se, par) ->
    match se with Some x => ze t <= x /\ before_next j x | None => True end.
  Proof.
    intros Hn He. unfold extract_pin_cite in He.
    set (w := window_fwd MAXC words (S j) pre true) in *.
    destruct (search PPostShort w) as [m|] eqn:Es.
    2:{ injection He as <- <- <-. exact I. }
    injection He as _ <- _.
    destruct (Hsearch _ _ _ Es) as (Hok & _).
    set (extra := if truthy_o (mget m w g_pin_cite)
                  then match mget m w g_pin_cite with
                       | Some s => zlen (rstrip (in_chars [COMMA; SP]) s) | None => 0 end
                  else 0).
    assert (Hextra : extra <= zlen w).
    { unfold extra. destruct (truthy_o _); [|unfold zlen; lia].
      destruct (mget m w g_pin_cite) as [s|] eqn:Eg; [|unfold zlen; lia].
      pose proof (infix_length _ _ (mget_infix _ _ _ _ Eg)).
      pose proof (rstrip_length (in_chars [COMMA; SP]) s). unfold zlen. lia. }
    clearbody extra.
    destruct (Z.max_spec (extra - zlen pre) 0) as [[Hmx ->]|[Hmx ->]]; (split; [lia|]);
    intros j' t' Hj Hn';
    destruct (pos_token _ _ _ _ Hstream Hn) as (_ & Hp1 & _);
    destruct (pos_token _ _ _ _ Hstream Hn') as (Hp0' & _ & _);
    pose proof (window_so_bound MAXC words j j' t' pre Hj Hn') as Hb; fold w in Hb;
    pose proof (pos_mono words (S j) j' ltac:(lia));
    unfold zlen, ze, zs in *; lia.
  Qed.

  (* what every non-reference citation built from the token at index j satisfies *)
  Definition cgood (j : nat) (t : tok) (c : pcit) : Prop :=
    is_ref c = false /\ fst (span_of c) = zs t /\ zs t < snd (span_of c) /\
    before_next j (snd (span_of c)).

  Lemma tokc_start t c : tokc t c -> is_ref c = false /\ fst (span_of c) = zs t.
  Proof. intros (T1 & T2 & T3). split; [exact T3|]. unfold span_of. rewrite T2, T1. reflexivity. Qed.

  Lemma short_cgood j t c :
    nth_error words j = Some (T t) -> (t_start t < t_end t)%nat ->
    extract_short search MAXC this_year edition_of is_space words j t = Ok c -> cgood j t c.
  Proof.
    intros Hn Hne He. destruct (tokc_start _ _ (short_tok search MAXC this_year edition_of is_space words _ _ _ He))
      as [Hr Hs].
    split; [exact Hr|]. split; [exact Hs|].
    unfold extract_short in He. cbv zeta in He.
    match type of He with bind ?x _ = _ => destruct x as [[]|]; [|discriminate He] end.
    cbn [bind] in He.
    destruct (glookup g_page (t_groups t)) as [prefix|]; [|discriminate He].
    destruct (short_prefix (t_data t) prefix) as [Hp'|(pg & Hp' & _)]; rewrite Hp' in He.
    { cbn [bind extract_pin_cite] in He. discriminate He. }
    destruct (extract_pin_cite search MAXC words j (ze t) (Some pg)) as [[[pin se] par]|] eqn:Ee;
      [|discriminate He].
    cbn [bind] in He. injection He as <-.
    pose proof (epc_bound _ _ _ _ _ _ Hn Ee) as Hb.
    assert (Hse : se <> None).
    { unfold extract_pin_cite in Ee.
      destruct (search PPostShort _) as [m|] eqn:Es; [injection Ee as _ <- _; discriminate|].
      exfalso. exact (Hshort_total _ Es). }
    destruct se as [x|]; [|contradiction]. destruct Hb as [Hx Hb].
    unfold span_of. psimp. unfold zs, ze in *.
    destruct (Z.eqb_spec x 0) as [H0|_]; [lia|]. split; [lia|exact Hb].
  Qed.

  Lemma supra_cgood j t c :
    nth_error words j = Some (T t) -> (t_start t < t_end t)%nat ->
    extract_supra search MAXC words j t = Ok c -> cgood j t c.
  Proof.
    intros Hn Hne He. destruct (tokc_start _ _ (supra_tok search MAXC words _ _ _ He)) as [Hr Hs].
    split; [exact Hr|]. split; [exact Hs|].
    unfold extract_supra in He.
    destruct (extract_pin_cite search MAXC words j (ze t) (Some [])) as [[[pin se] par]|] eqn:Ee;
      [|discriminate He].
    cbn [bind] in He. cbv zeta in He. injection He as <-.
    pose proof (epc_bound _ _ _ _ _ _ Hn Ee) as Hb.
    unfold span_of. psimp. destruct se as [x|].
    - destruct Hb as [Hx Hb]. unfold zs, ze in *. split; [lia|exact Hb].
    - split; [unfold zs, ze; lia|exact (ze_before_next _ _ Hn)].
  Qed.

  Lemma id_cgood j t c :
    nth_error words j = Some (T t) -> (t_start t < t_end t)%nat ->
    extract_id search MAXC words j t = Ok c -> cgood j t c.
  Proof.
    intros Hn Hne He. destruct (tokc_start _ _ (id_tok search MAXC words _ _ _ He)) as [Hr Hs].
    split; [exact Hr|]. split; [exact Hs|].
    unfold extract_id in He.
    destruct (extract_pin_cite search MAXC words j (ze t) (Some [])) as [[[pin se] par]|] eqn:Ee;
      [|discriminate He].
    cbn [bind] in He. injection He as <-.
    pose proof (epc_bound _ _ _ _ _ _ Hn Ee) as Hb.
    unfold span_of. psimp. destruct se as [x|].
    - destruct Hb as [Hx Hb]. unfold zs, ze in *. split; [lia|exact Hb].
    - split; [unfold zs, ze; lia|exact (ze_before_next _ _ Hn)].
  Qed.

  Lemma full_span_end j t c :
    nth_error words j = Some (T t) ->
    extract_full search MAXC BACK D highest this_year edition_of source_of is_space words j t = Ok c ->
    p_span_end c = None.
  Proof.
    intros Hn He. unfold extract_full in He.
    destruct (full_class source_of t) as [cl|] eqn:Ec; [|discriminate He].
    cbn [bind] in He.
    destruct (full_class_cases _ _ _ Ec) as [->|[->| ->]].
    - destruct (post_ok search MAXC D highest is_space text words Wok Hstream Hsearch j t Hn)
        as (_ & Hsh & _). cbv zeta in Hsh.
      destruct (add_defendant _ _ _ _ _ _ _) as [c2|] eqn:Ed; [|discriminate He].
      cbn [bind] in He. injection He as <-.
      destruct (defendant_ok search BACK D highest is_space text words Hstream _ _ _ _ Hn Hsh Ed)
        as (Hsh2 & _).
      destruct (pre_shape search MAXC words _ _ _ Hsh2) as (T1 & T2 & T3 & T4 & T5).
      psimp. exact T5.
    - injection He as <-. unfold add_law_metadata.
      destruct (search PPostLaw _); [destruct (truthy_o _)|]; psimp; reflexivity.
    - injection He as <-. unfold add_journal_metadata.
      destruct (search PPostJournal _); [destruct (truthy_o _)|]; psimp; reflexivity.
  Qed.

  Lemma full_cgood j t c :
    nth_error words j = Some (T t) -> (t_start t < t_end t)%nat ->
    extract_full search MAXC BACK D highest this_year edition_of source_of is_space words j t = Ok c ->
    cgood j t c.
  Proof.
    intros Hn Hne He.
    destruct (tokc_start _ _ (full_tok search MAXC BACK D highest this_year edition_of source_of
                                is_space text words Wok Hstream Hsearch j t c Hn He)) as [Hr Hs].
    split; [exact Hr|]. split; [exact Hs|].
    pose proof (full_span_end j t c Hn He) as Hse.
    destruct (full_tok search MAXC BACK D highest this_year edition_of source_of
                is_space text words Wok Hstream Hsearch j t c Hn He) as (T1 & _).
    unfold span_of. rewrite Hse, T1. cbn [snd].
    split; [unfold zs, ze; lia|exact (ze_before_next _ _ Hn)].
  Qed.

  Lemma parallel_cgood j t c pre : cgood j t c -> cgood j t (parallel c pre).
  Proof.
    intros H. unfold parallel. destruct (oz_eqb _ _); [|exact H].
    destruct H as (H1 & H2 & H3 & H4). unfold cgood, is_ref, span_of in *. psimp. auto.
  Qed.

  Lemma blank_cgood j t : nth_error words j = Some (T t) -> (t_start t < t_end t)%nat ->
    cgood j t (blank CUnknown t j).
  Proof.
    intros Hn Hne. unfold cgood, is_ref, span_of. psimp.
    split; [reflexivity|]. split; [reflexivity|].
    split; [unfold zs, ze; lia|exact (ze_before_next _ _ Hn)].
  Qed.

  Lemma references_are_refs c x : In x (references refsearch valid_name text c) -> is_ref x = true.
  Proof.
    unfold references. cbv zeta.
    destruct (zlen text <=? snd (span_of c)); [intros []|].
    destruct (p_cls c); try (intros []).
    match goal with |- In x match ?l with [] => [] | _ => _ end -> _ => destruct l; [intros []|] end.
    intros Hin. apply in_map_iff in Hin. destruct Hin as [[[a b] gd] [<- _]].
    unfold is_ref. psimp. reflexivity.
  Qed.

  (* ---------------------------------------------------------------- *)
  (* the accumulator: non-reference citations, newest first, are in    *)
  (* decreasing document order with disjoint spans                     *)
  (* ---------------------------------------------------------------- *)
  Definition nr_before (x e : pcit) : Prop :=    (* x newer than e *)
    is_ref x = false -> is_ref e = false -> snd (span_of e) <= fst (span_of x).

  Definition nr_old (k : nat) (e : pcit) : Prop :=
    is_ref e = false ->
    (fst (span_of e) < snd (span_of e)) /\
    (forall j' t', (k <= j')%nat -> nth_error words j' = Some (T t') -> snd (span_of e) <= zs t').

  Definition ainv (k : nat) (acc : list pcit) : Prop :=
    StronglySorted nr_before acc /\ Forall (nr_old k) acc.

  Lemma ainv_mono k k' acc : (k <= k')%nat -> ainv k acc -> ainv k' acc.
  Proof.
    intros Hk [Hs Hf]. split; [exact Hs|]. eapply Forall_impl; [|exact Hf].
    intros e He Hr. destruct (He Hr) as [H1 H2]. split; [exact H1|].
    intros j' t' Hj. apply H2. lia.
  Qed.

  Lemma ainv_push k acc j t c :
    (k <= j)%nat -> nth_error words j = Some (T t) -> cgood j t c -> ainv k acc ->
    ainv (S j) (c :: acc).
  Proof.
    intros Hk Hn (C1 & C2 & C3 & C4) [Hs Hf]. split.
    - constructor; [exact Hs|]. eapply Forall_impl; [|exact Hf].
      intros e He _ Hr. destruct (He Hr) as [_ H2]. rewrite C2. exact (H2 j t Hk Hn).
    - constructor.
      + intros _. split; [lia|]. intros j' t' Hj. apply C4. lia.
      + eapply Forall_impl; [|exact Hf]. intros e He Hr. destruct (He Hr) as [H1 H2].
        split; [exact H1|]. intros j' t' Hj. apply H2. lia.
  Qed.

  Lemma ainv_refs R : forall k acc, (forall x, In x R -> is_ref x = true) -> ainv k acc -> ainv k (R ++ acc).
  Proof.
    induction R as [|x R IH]; intros k acc HR Hacc; [exact Hacc|].
    cbn [app]. destruct (IH k acc (fun y Hy => HR y (or_intror Hy)) Hacc) as [Hs Hf].
    pose proof (HR x (or_introl eq_refl)) as Hx.
    split.
    - constructor; [exact Hs|]. apply Forall_forall. intros e _ Hxr. rewrite Hx in Hxr. discriminate.
    - constructor; [|exact Hf]. intros Hxr. rewrite Hx in Hxr. discriminate.
  Qed.

  Lemma cite_step_ainv k acc j t acc' :
    (k <= j)%nat -> nth_error words j = Some (T t) -> (t_start t < t_end t)%nat ->
    ainv k acc ->
    cite_step search refsearch MAXC BACK D highest this_year edition_of source_of valid_name is_space
              text words acc (j, t) = Ok acc' ->
    ainv (S j) acc'.
  Proof.
    intros Hk Hn Hne Hacc Hs. unfold cite_step in Hs.
    assert (Hkeep : ainv (S j) acc) by (apply (ainv_mono k); [lia|exact Hacc]).
    destruct (t_kind t) eqn:Ek.
    - destruct (t_short t) eqn:Esh.
      + destruct (extract_short _ _ _ _ _ _ _ _) as [c|] eqn:Ee; [|discriminate Hs].
        cbn [bind] in Hs. injection Hs as <-.
        exact (ainv_push k acc j t c Hk Hn (short_cgood _ _ _ Hn Hne Ee) Hacc).
      + destruct (extract_full _ _ _ _ _ _ _ _ _ _ _ _) as [c0|] eqn:Ee; [|discriminate Hs].
        cbn [bind] in Hs. injection Hs as <-.
        pose proof (full_cgood _ _ _ Hn Hne Ee) as Hc0.
        match goal with |- ainv _ (?c :: _) => assert (Hc : cgood j t c) end.
        { destruct acc as [|pre acc0]; [exact Hc0|].
          destruct (is_full_case c0 && is_full_case pre); [apply parallel_cgood|]; exact Hc0. }
        apply (ainv_push k _ j t _ Hk Hn Hc).
        apply ainv_refs; [|exact Hacc].
        intros x Hx. apply in_rev in Hx. exact (references_are_refs _ _ Hx).
    - injection Hs as <-. exact (ainv_push k acc j t _ Hk Hn (blank_cgood _ _ Hn Hne) Hacc).
    - destruct (extract_supra _ _ _ _ _) as [c|] eqn:Ee; [|discriminate Hs].
      cbn [bind] in Hs. injection Hs as <-.
      exact (ainv_push k acc j t c Hk Hn (supra_cgood _ _ _ Hn Hne Ee) Hacc).
    - destruct (extract_id _ _ _ _ _) as [c|] eqn:Ee; [|discriminate Hs].
      cbn [bind] in Hs. injection Hs as <-.
      exact (ainv_push k acc j t c Hk Hn (id_cgood _ _ _ Hn Hne Ee) Hacc).
    - injection Hs as <-. exact Hkeep.
    - injection Hs as <-. exact Hkeep.
    - injection Hs as <-. exact Hkeep.
  Qed.

  Lemma cite_run_ainv its : forall k acc acc',
    (forall i t, In (i, t) its -> nth_error words i = Some (T t) /\ (t_start t < t_end t)%nat) ->
    StronglySorted (fun a b : nat * tok => (fst a < fst b)%nat) its ->
    (forall it, In it its -> (k <= fst it)%nat) ->
    ainv k acc ->
    cite_run search refsearch MAXC BACK D highest this_year edition_of source_of valid_name is_space
             text words acc its = Ok acc' ->
    exists k', ainv k' acc'.
  Proof.
    induction its as [|[i t] its IH]; intros k acc acc' Hin Hsort Hk Hacc Hr; cbn [cite_run] in Hr.
    - injection Hr as <-. exists k. exact Hacc.
    - destruct (cite_step _ _ _ _ _ _ _ _ _ _ _ _ _ acc (i, t)) as [acc1|] eqn:Es; [|discriminate Hr].
      cbn [bind] in Hr. inversion Hsort as [|? ? Hs1 Hs2]; subst.
      destruct (Hin i t (or_introl eq_refl)) as [Hn Hne].
      apply (IH (S i) acc1 acc'); [| | | |exact Hr].
      + intros i' t' H'. apply Hin. right. exact H'.
      + exact Hs1.
      + intros it Hit. rewrite Forall_forall in Hs2. specialize (Hs2 it Hit). cbn [fst] in Hs2. lia.
      + apply (cite_step_ainv k acc i t acc1); try assumption.
        exact (Hk (i, t) (or_introl eq_refl)).
  Qed.
  (* ---------------------------------------------------------------- *)
  (* reference citations: full span = span, non-empty                   *)
  (* ---------------------------------------------------------------- *)
  Definition refs_nonempty : Prop :=
    forall names s a b gd, In (a, b, gd) (refsearch names s) -> (a < b)%nat.
  Hypothesis Hrne : refs_nonempty.

  Definition rgood (e : pcit) : Prop :=
    is_ref e = true -> full_span_of e = span_of e /\ fst (span_of e) < snd (span_of e).

  Lemma references_rgood c x :
    0 <= snd (span_of c) -> In x (references refsearch valid_name text c) -> rgood x.
  Proof.
    intros Hse. unfold references. cbv zeta. set (se := snd (span_of c)) in *. clearbody se.
    destruct (zlen text <=? se); [intros []|].
    destruct (p_cls c); try (intros []).
    match goal with |- In x match ?l with [] => [] | _ => _ end -> _ => destruct l; [intros []|] end.
    intros Hin _. apply in_map_iff in Hin. destruct Hin as [[[a b] gd] [<- Hab]].
    pose proof (Hrne _ _ _ _ _ Hab) as Hlt.
    unfold full_span_of, span_of. psimp. split; [reflexivity|]. lia.
  Qed.

  Lemma cite_step_rgood acc j t acc' :
    nth_error words j = Some (T t) -> (t_start t < t_end t)%nat ->
    Forall rgood acc ->
    cite_step search refsearch MAXC BACK D highest this_year edition_of source_of valid_name is_space
              text words acc (j, t) = Ok acc' ->
    Forall rgood acc'.
  Proof.
    intros Hn Hne Hacc Hs. unfold cite_step in Hs.
    assert (Hnr : forall c, cgood j t c -> rgood c).
    { intros c (C1 & _) Hr. congruence. }
    destruct (t_kind t) eqn:Ek.
    - destruct (t_short t) eqn:Esh.
      + destruct (extract_short _ _ _ _ _ _ _ _) as [c|] eqn:Ee; [|discriminate Hs].
        cbn [bind] in Hs. injection Hs as <-.
        constructor; [exact (Hnr _ (short_cgood _ _ _ Hn Hne Ee))|exact Hacc].
      + destruct (extract_full _ _ _ _ _ _ _ _ _ _ _ _) as [c0|] eqn:Ee; [|discriminate Hs].
        cbn [bind] in Hs. injection Hs as <-.
        pose proof (full_cgood _ _ _ Hn Hne Ee) as Hc0.
        match goal with |- Forall _ (?c :: _) => assert (Hc : cgood j t c) end.
        { destruct acc as [|pre acc0]; [exact Hc0|].
          destruct (is_full_case c0 && is_full_case pre); [apply parallel_cgood|]; exact Hc0. }
        constructor; [exact (Hnr _ Hc)|]. apply Forall_app. split; [|exact Hacc].
        apply Forall_forall. intros x Hx. apply in_rev in Hx.
        destruct Hc as (_ & C2 & C3 & _).
        refine (references_rgood _ x _ Hx). unfold zs in C3. lia.
    - injection Hs as <-. constructor; [exact (Hnr _ (blank_cgood _ _ Hn Hne))|exact Hacc].
    - destruct (extract_supra _ _ _ _ _) as [c|] eqn:Ee; [|discriminate Hs].
      cbn [bind] in Hs. injection Hs as <-.
      constructor; [exact (Hnr _ (supra_cgood _ _ _ Hn Hne Ee))|exact Hacc].
    - destruct (extract_id _ _ _ _ _) as [c|] eqn:Ee; [|discriminate Hs].
      cbn [bind] in Hs. injection Hs as <-.
      constructor; [exact (Hnr _ (id_cgood _ _ _ Hn Hne Ee))|exact Hacc].
    - injection Hs as <-. exact Hacc.
    - injection Hs as <-. exact Hacc.
    - injection Hs as <-. exact Hacc.
  Qed.

  Lemma cite_run_rgood its : forall acc acc',
    (forall i t, In (i, t) its -> nth_error words i = Some (T t) /\ (t_start t < t_end t)%nat) ->
    Forall rgood acc ->
    cite_run search refsearch MAXC BACK D highest this_year edition_of source_of valid_name is_space
             text words acc its = Ok acc' ->
    Forall rgood acc'.
  Proof.
    induction its as [|[i t] its IH]; intros acc acc' Hin Hacc Hr; cbn [cite_run] in Hr.
    - injection Hr as <-. exact Hacc.
    - destruct (cite_step _ _ _ _ _ _ _ _ _ _ _ _ _ acc (i, t)) as [acc1|] eqn:Es; [|discriminate Hr].
      cbn [bind] in Hr. destruct (Hin i t (or_introl eq_refl)) as [Hn Hne].
      apply (IH acc1 acc'); [|apply (cite_step_rgood acc i t acc1); assumption|exact Hr].
      intros i' t' H'. apply Hin. right. exact H'.
  Qed.
End SD.

(* ------------------------------------------------------------------ *)
(* through filter_citations                                             *)
(* ------------------------------------------------------------------ *)
Definition span_ltp (a b : pcit) : Prop := zspan_ltb (span_of a) (span_of b) = true.
Definition span_before (a b : pcit) : Prop := snd (span_of a) <= fst (span_of b).
Definition nonref (c : pcit) : bool := negb (is_ref c).

Lemma enumerate_nth {A} (l : list A) : forall i j x,
  In (j, x) (enumerate i l) -> (i <= j)%nat /\ nth_error l (j - i) = Some x.
Proof.
  induction l as [|y l IH]; intros i j x H; cbn [enumerate] in H; [destruct H|].
  destruct H as [H|H].
  - injection H as <- <-. split; [lia|]. rewrite Nat.sub_diag. reflexivity.
  - destruct (IH (S i) j x H) as [Hle Hn]. split; [lia|].
    replace (j - i)%nat with (S (j - S i)) by lia. exact Hn.
Qed.

(* the output of filter_citations on the pipeline's list, read back as citations, is strictly
   increasing in span order *)
Lemma filter_pcits_sorted l : StronglySorted span_ltp (filter_pcits l).
Proof.
  unfold filter_pcits.
  set (L := map to_fc (enumerate 0 l)).
  assert (Hin : forall f, In f (filter_citations L) ->
            exists c, nth_error l (f_id f) = Some c /\ f_span f = span_of c).
  { intros f Hf. apply filter_subset in Hf. destruct Hf as (l1 & l2 & HL & _).
    assert (HfL : In f L) by (rewrite HL; apply in_or_app; right; left; reflexivity).
    unfold L in HfL. apply in_map_iff in HfL. destruct HfL as ([i c] & <- & Hic).
    destruct (enumerate_nth l 0 i c Hic) as [_ Hn]. rewrite Nat.sub_0_r in Hn.
    exists c. split; [exact Hn|reflexivity]. }
  pose proof (filter_sorted L) as Hs.
  induction Hs as [|f F HsF IH Hall]; cbn [flat_map]; [constructor|].
  destruct (Hin f (or_introl eq_refl)) as (c & Hc & Hsp). rewrite Hc. cbn [app].
  constructor.
  - apply IH. intros f' Hf'. apply Hin. right. exact Hf'.
  - apply Forall_forall. intros c' Hc'. apply in_flat_map in Hc'. destruct Hc' as (f' & Hf' & Hc').
    destruct (Hin f' (or_intror Hf')) as (c'' & Hc'' & Hsp'). rewrite Hc'' in Hc'.
    destruct Hc' as [<-|[]].
    rewrite Forall_forall in Hall. specialize (Hall f' Hf'). unfold span_lt in Hall.
    unfold span_ltp. rewrite <- Hsp, <- Hsp'. exact Hall.
Qed.

Lemma ss_filter {A} (R : A -> A -> Prop) (p : A -> bool) l :
  StronglySorted R l -> StronglySorted R (filter p l).
Proof.
  induction 1 as [|a l Hs IH Hall]; cbn [filter]; [constructor|].
  destruct (p a); [|exact IH]. constructor; [exact IH|].
  apply Forall_forall. intros b Hb. apply filter_In in Hb. rewrite Forall_forall in Hall.
  exact (Hall b (proj1 Hb)).
Qed.

Lemma ss_total {A} (R : A -> A -> Prop) l : StronglySorted R l ->
  forall a b, In a l -> In b l -> a = b \/ R a b \/ R b a.
Proof.
  induction 1 as [|x l Hs IH Hall]; intros a b Ha Hb; [destruct Ha|].
  rewrite Forall_forall in Hall.
  destruct Ha as [<-|Ha]; destruct Hb as [<-|Hb].
  - left. reflexivity.
  - right. left. exact (Hall b Hb).
  - right. right. exact (Hall a Ha).
  - exact (IH a b Ha Hb).
Qed.

(* span order + pairwise disjoint non-empty spans = document order without overlap *)
Lemma sorted_disjoint l :
  StronglySorted span_ltp l ->
  (forall a b, In a l -> In b l -> nonref a = true -> nonref b = true ->
     span_of a = span_of b \/ span_before a b \/ span_before b a) ->
  (forall a, In a l -> nonref a = true -> fst (span_of a) < snd (span_of a)) ->
  StronglySorted span_before (filter nonref l).
Proof.
  induction 1 as [|a l Hs IH Hall]; intros HQ Hne; cbn [filter]; [constructor|].
  assert (IH' : StronglySorted span_before (filter nonref l)).
  { apply IH.
    - intros x y Hx Hy. apply HQ; right; assumption.
    - intros x Hx. apply Hne. right. exact Hx. }
  destruct (nonref a) eqn:Ha; [|exact IH']. constructor; [exact IH'|].
  apply Forall_forall. intros b Hb. apply filter_In in Hb. destruct Hb as [Hb Hbn].
  rewrite Forall_forall in Hall. pose proof (Hall b Hb) as Hlt. unfold span_ltp, zspan_ltb in Hlt.
  pose proof (Hne b (or_intror Hb) Hbn) as Hbne.
  destruct (HQ a b (or_introl eq_refl) (or_intror Hb) Ha Hbn) as [Heq|[H1|H2]].
  - rewrite Heq in Hlt. apply orb_true_iff in Hlt. destruct Hlt as [Hlt|Hlt].
    + apply Z.ltb_lt in Hlt. lia.
    + apply andb_true_iff in Hlt. destruct Hlt as [_ Hlt]. apply Z.ltb_lt in Hlt. lia.
  - exact H1.
  - unfold span_before in *. apply orb_true_iff in Hlt. destruct Hlt as [Hlt|Hlt].
    + apply Z.ltb_lt in Hlt. lia.
    + apply andb_true_iff in Hlt. destruct Hlt as [Hlt _]. apply Z.eqb_eq in Hlt. lia.
Qed.

(* the same for the whole list *)
Lemma sorted_disjoint_all l :
  StronglySorted span_ltp l ->
  (forall a b, In a l -> In b l ->
     span_of a = span_of b \/ span_before a b \/ span_before b a) ->
  (forall a, In a l -> fst (span_of a) < snd (span_of a)) ->
  StronglySorted span_before l.
Proof.
  induction 1 as [|a l Hs IH Hall]; intros HQ Hne; [constructor|].
  constructor.
  - apply IH.
    + intros x y Hx Hy. apply HQ; right; assumption.
    + intros x Hx. apply Hne. right. exact Hx.
  - apply Forall_forall. intros b Hb.
    rewrite Forall_forall in Hall. pose proof (Hall b Hb) as Hlt. unfold span_ltp, zspan_ltb in Hlt.
    pose proof (Hne b (or_intror Hb)) as Hbne.
    destruct (HQ a b (or_introl eq_refl) (or_intror Hb)) as [Heq|[H1|H2]].
    + rewrite Heq in Hlt. apply orb_true_iff in Hlt. destruct Hlt as [Hlt|Hlt].
      * apply Z.ltb_lt in Hlt. lia.
      * apply andb_true_iff in Hlt. destruct Hlt as [_ Hlt]. apply Z.ltb_lt in Hlt. lia.
    + exact H1.
    + unfold span_before in *. apply orb_true_iff in Hlt. destruct Hlt as [Hlt|Hlt].
      * apply Z.ltb_lt in Hlt. lia.
      * apply andb_true_iff in Hlt. destruct Hlt as [Hlt _]. apply Z.eqb_eq in Hlt. lia.
Qed.

(* kept citations, read back from the filter *)
Lemma filter_pcits_in_fc l c : In c (filter_pcits l) ->
  exists i, nth_error l i = Some c /\ In (to_fc (i, c)) (filter_citations (map to_fc (enumerate 0 l))).
Proof.
  unfold filter_pcits. intros H. apply in_flat_map in H. destruct H as (f & Hf & Hc).
  pose proof Hf as Hf'. apply filter_subset in Hf'. destruct Hf' as (l1 & l2 & HL & _).
  assert (HfL : In f (map to_fc (enumerate 0 l))) by (rewrite HL; apply in_or_app; right; left; reflexivity).
  apply in_map_iff in HfL. destruct HfL as ([i c'] & <- & Hic).
  destruct (enumerate_nth l 0 i c' Hic) as [_ Hn]. rewrite Nat.sub_0_r in Hn.
  cbn [to_fc f_id fst] in Hc. rewrite Hn in Hc. destruct Hc as [<-|[]].
  exists i. split; [exact Hn|exact Hf].
Qed.

Lemma enumerate_In' {A} (l : list A) i j x : In (j, x) (enumerate i l) -> In x l.
Proof. intros H. destruct (enumerate_nth l i j x H) as [_ Hn]. eapply nth_error_In. exact Hn. Qed.

Lemma filter_pcits_refs_disjoint l :
  (forall c, In c l -> fst (full_span_of c) < snd (full_span_of c)) ->
  forall a b, In a (filter_pcits l) -> In b (filter_pcits l) -> is_ref a = true ->
    span_of a <> span_of b -> overlapping (full_span_of a) (full_span_of b) = false.
Proof.
  intros Hne a b Ha Hb Hr Hsp.
  destruct (filter_pcits_in_fc l a Ha) as (i & Hi & Hfa).
  destruct (filter_pcits_in_fc l b Hb) as (j & Hj & Hfb).
  apply (filter_refs_disjoint (map to_fc (enumerate 0 l))) with (r := to_fc (i, a)) (y := to_fc (j, b));
    try assumption.
  - intros x Hx. apply in_map_iff in Hx. destruct Hx as ([k c] & <- & Hkc).
    unfold full_nonempty. cbn [to_fc f_full snd]. apply Hne. exact (enumerate_In' _ _ _ _ Hkc).
  - intros Heq. apply Hsp. apply (f_equal f_span) in Heq. exact Heq.
Qed.

Lemma no_overlap_apart (fa fb sa sb : Z * Z) :
  overlapping fa fb = false ->
  fst fa <= fst sa -> snd sa <= snd fa -> fst sa < snd sa ->
  fst fb <= fst sb -> snd sb <= snd fb -> fst sb < snd sb ->
  snd sa <= fst sb \/ snd sb <= fst sa.
Proof.
  unfold overlapping. intros H. destruct (Z.ltb_spec (Z.max (fst fa) (fst fb)) (Z.min (snd fa) (snd fb)));
    [discriminate|]. intros.
  destruct (Z.max_spec (fst fa) (fst fb)) as [[? Hm]|[? Hm]]; rewrite Hm in *;
  destruct (Z.min_spec (snd fa) (snd fb)) as [[? Hn]|[? Hn]]; rewrite Hn in *; lia.
Qed.

(* ------------------------------------------------------------------ *)
(* the pipeline                                                         *)
(* ------------------------------------------------------------------ *)
Theorem get_citations_nonref_spans_disjoint :
  forall (Wok : str -> Prop)
         search refsearch MAXC BACK D highest this_year edition_of source_of valid_name is_space
         text words cits ra l,
  text <> s_eyecite ->
  stream_ok text words -> cits_ok words cits ->
  search_ok_w Wok search -> (forall w, search PPostShort w <> None) ->
  cits_sorted cits -> cits_nonempty cits ->
  get_citations search refsearch MAXC BACK D highest this_year edition_of source_of valid_name is_space
                text words cits ra = Ok l ->
  StronglySorted (fun a b => snd (span_of a) <= fst (span_of b)) (filter (fun c => negb (is_ref c)) l).
Proof.
  intros Wok search refsearch MAXC BACK D highest this_year edition_of source_of valid_name is_space
         text words cits ra l Hne Hstream Hcits Hsearch Htotal Hsort Hnonempty Hg.
  unfold get_citations in Hg.
  destruct (str_eqb_spec text s_eyecite) as [E|_]; [contradiction|].
  destruct (cite_run _ _ _ _ _ _ _ _ _ _ _ _ _ _ _) as [acc|] eqn:Er; [|discriminate Hg].
  cbn [bind] in Hg. injection Hg as <-.
  destruct (cite_run_ainv search refsearch MAXC BACK D highest this_year edition_of source_of
              valid_name is_space text words Wok Hstream Hsearch Htotal cits 0%nat [] acc) as (k & Hss & Hold).
  { intros i t Hit. split; [apply Hcits, Hit|apply (Hnonempty i t Hit)]. }
  { exact Hsort. }
  { intros; lia. }
  { split; constructor. }
  { exact Er. }
  assert (Hbase : StronglySorted span_before (filter nonref (filter_pcits (rev acc)))).
  { apply sorted_disjoint; [apply filter_pcits_sorted| |].
    - intros a b Ha Hb Han Hbn.
      apply filter_pcits_incl, in_rev in Ha. apply filter_pcits_incl, in_rev in Hb.
      unfold nonref in Han, Hbn. apply negb_true_iff in Han, Hbn.
      destruct (ss_total _ _ Hss a b Ha Hb) as [->|[H|H]].
      + left. reflexivity.
      + right. right. exact (H Han Hbn).
      + right. left. exact (H Hbn Han).
    - intros a Ha Han. apply filter_pcits_incl, in_rev in Ha.
      unfold nonref in Han. apply negb_true_iff in Han.
      rewrite Forall_forall in Hold. exact (proj1 (Hold a Ha Han)). }
  change (StronglySorted span_before
            (filter nonref (if ra then disambiguate is_resource has_guess (filter_pcits (rev acc))
                            else filter_pcits (rev acc)))).
  destruct ra; [|exact Hbase].
  unfold disambiguate.
  assert (Hcomm : forall (p q : pcit -> bool) l0, filter p (filter q l0) = filter q (filter p l0)).
  { intros p q l0. induction l0 as [|x l0 IHl]; [reflexivity|]. cbn [filter].
    destruct (q x) eqn:Eq; destruct (p x) eqn:Ep; cbn [filter]; rewrite ?Eq, ?Ep, IHl; reflexivity. }
  rewrite Hcomm. apply ss_filter. exact Hbase.
Qed.

(* all citations, with the repaired filter_citations *)
Theorem get_citations_spans_disjoint :
  forall (Wok : str -> Prop)
         search refsearch MAXC BACK D highest this_year edition_of source_of valid_name is_space
         text words cits ra l,
  text <> s_eyecite ->
  stream_ok text words -> cits_ok words cits -> toks_ok source_of words ->
  (forall a b, Wok (slice text a b)) ->
  search_ok_w Wok search -> refs_ok refsearch -> refs_nonempty refsearch ->
  (forall w, search PPostShort w <> None) ->
  cits_sorted cits -> cits_nonempty cits ->
  get_citations search refsearch MAXC BACK D highest this_year edition_of source_of valid_name is_space
                text words cits ra = Ok l ->
  StronglySorted (fun a b => snd (span_of a) <= fst (span_of b)) l.
Proof.
  intros Wok search refsearch MAXC BACK D highest this_year edition_of source_of valid_name is_space
         text words cits ra l Hne Hstream Hcits Htoks HWok Hsearch Hrefs Hrne Htotal Hsort Hnonempty Hg.
  unfold get_citations in Hg.
  destruct (str_eqb_spec text s_eyecite) as [E|_]; [contradiction|].
  destruct (cite_run _ _ _ _ _ _ _ _ _ _ _ _ _ _ _) as [acc|] eqn:Er; [|discriminate Hg].
  cbn [bind] in Hg. injection Hg as <-.
  assert (Hin : forall i t, In (i, t) cits -> nth_error words i = Some (T t) /\ (t_start t < t_end t)%nat).
  { intros i t Hit. split; [apply Hcits, Hit|apply (Hnonempty i t Hit)]. }
  destruct (cite_run_ainv search refsearch MAXC BACK D highest this_year edition_of source_of
              valid_name is_space text words Wok Hstream Hsearch Htotal cits 0%nat [] acc) as (k & Hss & Hold);
    [exact Hin|exact Hsort|intros; lia|split; constructor|exact Er|].
  pose proof (cite_run_rgood search refsearch MAXC BACK D highest this_year edition_of source_of
                valid_name is_space text words Wok Hstream Hsearch Htotal Hrne cits [] acc Hin
                (Forall_nil _) Er) as Hrg.
  assert (Hoff : Forall (offsets_ok text) acc).
  { eapply (cite_run_ok search refsearch MAXC BACK D highest this_year edition_of source_of
              valid_name is_space text words Wok Hstream Hsearch HWok Htotal Htoks Hrefs);
      [exact Hcits|constructor|exact Er]. }
  rewrite Forall_forall in Hold, Hrg, Hoff.
  (* every citation of the run: span inside full span, span non-empty *)
  assert (Hfg : forall e, In e acc ->
            fst (full_span_of e) <= fst (span_of e) /\ snd (span_of e) <= snd (full_span_of e) /\
            fst (span_of e) < snd (span_of e)).
  { intros e He. destruct (is_ref e) eqn:Er'.
    - destruct (Hrg e He Er') as [Hf Hn]. rewrite Hf. lia.
    - destruct (Hoff e He) as (_ & H1 & _ & H3 & _). cbv zeta in H1, H3.
      pose proof (proj1 (Hold e He Er')). lia. }
  assert (Hbase : StronglySorted span_before (filter_pcits (rev acc))).
  { apply sorted_disjoint_all; [apply filter_pcits_sorted| |].
    - intros a b Ha Hb.
      pose proof Ha as Ha'. pose proof Hb as Hb'.
      apply filter_pcits_incl, in_rev in Ha'. apply filter_pcits_incl, in_rev in Hb'.
      destruct (Hfg a Ha') as (A1 & A2 & A3). destruct (Hfg b Hb') as (B1 & B2 & B3).
      assert (Hfne : forall c, In c (rev acc) -> fst (full_span_of c) < snd (full_span_of c)).
      { intros c Hc. apply in_rev in Hc. destruct (Hfg c Hc) as (C1 & C2 & C3). lia. }
      destruct (is_ref a) eqn:Era; [|destruct (is_ref b) eqn:Erb].
      + (* a is a reference *)
        destruct (Z.eq_dec (fst (span_of a)) (fst (span_of b))) as [E1|N1];
          [destruct (Z.eq_dec (snd (span_of a)) (snd (span_of b))) as [E2|N2]|].
        * left. destruct (span_of a), (span_of b). cbn in *. congruence.
        * right. apply (no_overlap_apart (full_span_of a) (full_span_of b)); try assumption.
          apply (filter_pcits_refs_disjoint _ Hfne a b Ha Hb Era). congruence.
        * right. apply (no_overlap_apart (full_span_of a) (full_span_of b)); try assumption.
          apply (filter_pcits_refs_disjoint _ Hfne a b Ha Hb Era). congruence.
      + (* b is a reference *)
        destruct (Z.eq_dec (fst (span_of a)) (fst (span_of b))) as [E1|N1];
          [destruct (Z.eq_dec (snd (span_of a)) (snd (span_of b))) as [E2|N2]|].
        * left. destruct (span_of a), (span_of b). cbn in *. congruence.
        * right. apply or_comm.
          apply (no_overlap_apart (full_span_of b) (full_span_of a)); try assumption.
          apply (filter_pcits_refs_disjoint _ Hfne b a Hb Ha Erb). congruence.
        * right. apply or_comm.
          apply (no_overlap_apart (full_span_of b) (full_span_of a)); try assumption.
          apply (filter_pcits_refs_disjoint _ Hfne b a Hb Ha Erb). congruence.
      + (* two non-references: different tokens *)
        destruct (ss_total _ _ Hss a b Ha' Hb') as [->|[H|H]].
        * left. reflexivity.
        * right. right. exact (H Era Erb).
        * right. left. exact (H Erb Era).
    - intros a Ha. apply filter_pcits_incl, in_rev in Ha. exact (proj2 (proj2 (Hfg a Ha))). }
  change (StronglySorted span_before
            (if ra then disambiguate is_resource has_guess (filter_pcits (rev acc))
             else filter_pcits (rev acc))).
  destruct ra; [|exact Hbase]. unfold disambiguate. apply ss_filter. exact Hbase.
Qed.

(* ------------------------------------------------------------------ *)
(* the closed model                                                     *)
(* ------------------------------------------------------------------ *)
From EV Require Import Regex.Syntax Regex.Decl Regex.Match Regex.CapBody.
From EV Require Import Model.SearchEngine Model.Extract Model.E2E Model.RefEngine Model.E2EClosed.
From EV Require Import Proofs.ExtractProofs Proofs.ClosedProofs Proofs.ClosedCorollaries.
From EV Require Import Proofs.SearchDischarge Proofs.SearchGuarded Proofs.ClosedFinal.
From EV Require Import Gen.Unicode Gen.RefRegex.
Close Scope N_scope.
Close Scope nat_scope.
Open Scope Z_scope.

Theorem closed_nonref_spans_disjoint : forall this_year s ra l,
  s <> s_eyecite ->
  get_citations_closed this_year s ra = Ok l ->
  StronglySorted (fun a b => snd (span_of a) <= fst (span_of b)) (filter (fun c => negb (is_ref c)) l).
Proof.
  intros this_year s ra l Hne Hg. rewrite get_citations_closed_eq in Hg.
  destruct (tokenize_text_stream_ok s) as [Hstream Hcits].
  exact (get_citations_nonref_spans_disjoint (ws_clean is_space_gen) _ _ _ _ _ _ _ _ _ _ _ _ _ _ _ _
           Hne Hstream Hcits (search_ok_w_of_g _ _ E_search_ok_g) E_post_short_total
           (tokenize_text_cits_sorted s) (tokenize_text_cits_nonempty_all s) Hg).
Qed.

(* a match of the reference pattern is never empty: it contains at least one whitespace character *)
Lemma ref_re_minlen : forall n0 n1 n2 n3, (1 <= minlen (ref_re n0 n1 n2 n3))%nat.
Proof. intros. unfold ref_re. cbn [minlen]. lia. Qed.

Theorem refs_engine_nonempty : refs_nonempty refs_engine.
Proof.
  intros names s a b gd Hin. unfold refs_engine in Hin.
  apply in_map_iff in Hin. destruct Hin as [[[i j] c] [Heq Hin]].
  injection Heq as Hi Hj _. subst i j.
  destruct (finditer_sound U false s _ a b c Hin) as [HM _].
  pose proof (minlen_sound U false s _ a b HM) as Hml.
  pose proof (ref_re_minlen (name_of names (nth_field 0)) (name_of names (nth_field 1))
                (name_of names (nth_field 2)) (name_of names (nth_field 3))). lia.
Qed.

Theorem closed_spans_disjoint : forall this_year s ra l,
  s <> s_eyecite -> ws_clean is_space_gen s ->
  get_citations_closed this_year s ra = Ok l ->
  StronglySorted (fun a b => snd (span_of a) <= fst (span_of b)) l.
Proof.
  intros this_year s ra l Hne Hclean Hg. rewrite get_citations_closed_eq in Hg.
  destruct (tokenize_text_stream_ok s) as [Hstream Hcits].
  exact (get_citations_spans_disjoint (ws_clean is_space_gen) _ _ _ _ _ _ _ _ _ _ _ _ _ _ _ _
           Hne Hstream Hcits (toks_ok_closed_all s)
           (fun a b => ws_clean_slice is_space_gen s a b Hclean)
           (search_ok_w_of_g _ _ E_search_ok_g) refs_engine_ok refs_engine_nonempty
           E_post_short_total (tokenize_text_cits_sorted s) (tokenize_text_cits_nonempty_all s) Hg).
Qed.

(* the text on which the unrepaired filter returned the overlapping reference "Smith at 1" (48,58)
   and full citation "1 U.S. 1" (57,65): the reference is now dropped *)
Definition s_overlap : str := [70;111;111;32;118;46;32;83;109;105;116;104;44;32;53;32;85;46;83;46;32;53;32;40;49;57;57;57;41;46;32;66;97;114;32;118;46;32;66;97;122;44;32;167;32;51;44;32;83;109;105;116;104;32;97;116;32;49;32;85;46;83;46;32;49;32;40;50;48;48;48;41;46]%N.

Example s_overlap_repaired :
  s_overlap <> s_eyecite /\ ws_clean is_space_gen s_overlap /\
  exists l, get_citations_closed 2026 s_overlap false = Ok l /\
            map (fun c => (p_cls c, span_of c)) l =
            [(CFullCase, (14, 22)); (CUnknown, (43, 44)); (CFullCase, (57, 65))].
Proof.
  split.
  { intros H. apply (f_equal (@length N)) in H. vm_compute in H. discriminate H. }
  split.
  { apply ws_cleanb_sound. vm_compute. reflexivity. }
  vm_compute. eexists. split; reflexivity.
Qed.

Print Assumptions get_citations_nonref_spans_disjoint.
Print Assumptions get_citations_spans_disjoint.
Print Assumptions closed_nonref_spans_disjoint.
Print Assumptions refs_engine_nonempty.
Print Assumptions closed_spans_disjoint.
Print Assumptions s_overlap_repaired.
