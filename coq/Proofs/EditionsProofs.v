(* Proofs/EditionsProofs.v -- year and edition guesses are sound (C18). *)
From EV Require Import Base.Str Base.PyVal Model.Editions.
Open Scope Z_scope.

Lemma guess_in_candidates ty exact var year e :
  guess_edition ty exact var year = Some e -> In e (candidates exact var).
Proof.
  unfold guess_edition. destruct (candidates exact var) as [|a [|b l]] eqn:Hc; [discriminate| |].
  - destruct year; intros H; injection H as <-; left; reflexivity.
  - destruct year as [y|].
    + destruct (Z.eqb y 0); [discriminate|].
      destruct (filter _ (a :: b :: l)) as [|x [|? ?]] eqn:Hf; try discriminate.
      intros H; injection H as <-.
      assert (Hin : In x (filter (fun e0 => includes_year ty e0 y) (a :: b :: l))) by (rewrite Hf; left; reflexivity).
      apply filter_In in Hin. tauto.
    + discriminate.
Qed.

Lemma guess_singleton ty exact var year e :
  candidates exact var = [e] -> guess_edition ty exact var year = Some e.
Proof. unfold guess_edition. intros ->. destruct year; reflexivity. Qed.

(* with two or more candidates a guess needs a (non-zero) year, and the guessed
   edition is the only candidate publishing in that year *)
Lemma guess_needs_year ty exact var year e a b l :
  candidates exact var = a :: b :: l ->
  guess_edition ty exact var year = Some e ->
  exists y, year = Some y /\ y <> 0 /\ includes_year ty e y = true /\
            forall e', In e' (candidates exact var) -> includes_year ty e' y = true ->
                       In e' [e].
Proof.
  unfold guess_edition. intros Hc. rewrite Hc.
  destruct year as [y|]; [|discriminate].
  destruct (Z.eqb_spec y 0) as [->|Hy]; [discriminate|].
  destruct (filter _ (a :: b :: l)) as [|x [|? ?]] eqn:Hf; try discriminate.
  intros H; injection H as <-. exists y. split; [reflexivity|]. split; [assumption|].
  assert (Hx : In x (filter (fun e0 => includes_year ty e0 y) (a :: b :: l))) by (rewrite Hf; left; reflexivity).
  apply filter_In in Hx. split; [tauto|].
  intros e' Hin Hy'. rewrite <- Hf. apply filter_In. split; assumption.
Qed.

Lemma guess_none_without_candidates ty year : guess_edition ty [] [] year = None.
Proof. reflexivity. Qed.

Lemma get_year_sound D hi w y :
  get_year D hi w = Some y -> 1600 <= y <= hi /\ exists n, int_of D w = Some n /\ Z.of_N n = y.
Proof.
  unfold get_year. destruct (int_of D w) as [n|]; [|discriminate].
  destruct (Z.ltb_spec (Z.of_N n) 1600) as [H1|H1]; [discriminate|].
  destruct (Z.ltb_spec hi (Z.of_N n)) as [H2|H2]; [discriminate|].
  cbn. intros Hs; injection Hs as <-. split; [lia|]. exists n; auto.
Qed.

(* remove_ambiguous=True returns exactly the citations of the default run that
   are not resource citations or have a guess, in the same order *)
Lemma disambiguate_spec {A} (isr hg : A -> bool) l c :
  In c (disambiguate isr hg l) <-> In c l /\ (isr c = false \/ hg c = true).
Proof.
  unfold disambiguate. rewrite filter_In.
  destruct (isr c), (hg c); cbn; intuition congruence.
Qed.

Lemma disambiguate_idem {A} (isr hg : A -> bool) l :
  disambiguate isr hg (disambiguate isr hg l) = disambiguate isr hg l.
Proof.
  unfold disambiguate. induction l as [|x l IH]; cbn; [reflexivity|].
  destruct (negb (isr x) || hg x) eqn:E; cbn; [rewrite E; f_equal|]; exact IH.
Qed.
