(* Proofs/ExtractProofs.v -- theorems about Model/Extract.v: re.finditer (soundness w.r.t. the
   declarative semantics, scanner chain), Token.from_match (well-formed candidates), the
   Aho-Corasick pre-filter (only removes candidates; lossless on the generated table), group 1
   totality, and the end-to-end C12 corollaries for the text-only tokenizer of Model/E2E.v. *)
From EV Require Import Base.Str Regex.Syntax Regex.Decl Regex.Match Regex.MatchSound.
From EV Require Import Regex.Literal Regex.LiteralSound Regex.C13Check.
From EV Require Import Model.Tokenize Model.Extract Proofs.ExtractSpec Proofs.TokenizeProofs.

(* ------------------------------------------------------------------ *)
(* generic list facts                                                  *)
(* ------------------------------------------------------------------ *)

Lemma flat_map_filter_nil {A B} (f : A -> list B) (p : A -> bool) (l : list A) :
  (forall x, In x l -> p x = false -> f x = []) ->
  flat_map f (filter p l) = flat_map f l.
Proof.
  induction l as [|a l IH]; intros H; [reflexivity|].
  cbn [filter flat_map].
  assert (IH' : flat_map f (filter p l) = flat_map f l).
  { apply IH. intros x Hx Hp. apply H; [right; exact Hx|exact Hp]. }
  destruct (p a) eqn:Hp.
  - cbn [flat_map]. rewrite IH'. reflexivity.
  - rewrite (H a (or_introl eq_refl) Hp). cbn [app]. exact IH'.
Qed.

Lemma cap_get_in : forall n c a b, cap_get n c = Some (a, b) -> In (n, (a, b)) c.
Proof.
  intros n c. induction c as [|[m0 sp] c IH]; intros a b H; cbn [cap_get] in H.
  - discriminate.
  - destruct (Nat.eqb_spec n m0) as [He|Hne].
    + injection H as H. subst. left. reflexivity.
    + right. apply IH. exact H.
Qed.

Lemma cap_get_app_some : forall n new c sp,
  cap_get n c = Some sp -> exists sp', cap_get n (new ++ c) = Some sp'.
Proof.
  intros n new c sp H. induction new as [|[m0 sp0] new IH]; cbn [app cap_get].
  - exists sp. exact H.
  - destruct (Nat.eqb n m0); [exists sp0; reflexivity|exact IH].
Qed.

Section XP.
  Variable U : utables.

  (* the span/capture contract shared by every reported match *)
  Definition caps_in (i j : nat) (c : caps) : Prop :=
    forall n a b, In (n, (a, b)) c -> i <= a /\ a <= b /\ b <= j.

  (* ---- 1. the must_advance match attempt ---- *)
  Theorem match_at_adv_sound : forall ci s r i j c,
    i <= length s ->
    match_at_adv U ci s r i = Some (j, c) ->
    M U ci s r i j /\ i < j /\
    (forall n a b, In (n, (a, b)) c -> i <= a /\ a <= b /\ b <= j).
  Proof.
    intros ci s r i j c Hi Hm. unfold match_at_adv in Hm.
    destruct (m_caps U ci s r i [] _ _ Hi Hm) as [j' [c' [HM [Hk Hc]]]].
    cbv beta in Hk.
    destruct (Nat.eqb_spec j' i) as [He|Hne]; [discriminate|].
    injection Hk as Hj Hc'. subst j' c'.
    destruct (M_bounds U ci s _ _ _ HM) as [Hij Hj].
    split; [exact HM|]. split; [lia|].
    intros n a b Hin. destruct (Hc n a b Hin) as [[]|Hsp]. exact Hsp.
  Qed.

  (* ---- 2. search from pos ---- *)
  Theorem search_adv_sound : forall ci s r pos adv i j c,
    pos <= length s ->
    search_adv U ci s r pos adv = Some (i, j, c) ->
    pos <= i /\ M U ci s r i j /\ i <= j /\ j <= length s /\
    (adv = true -> i = pos -> i < j) /\
    (forall n a b, In (n, (a, b)) c -> i <= a /\ a <= b /\ b <= j).
  Proof.
    intros ci s r pos adv i j c Hpos Hs. unfold search_adv in Hs.
    destruct (if adv then match_at_adv U ci s r pos else match_at U ci s r pos)
      as [[j0 c0]|] eqn:Hfirst.
    - injection Hs as Hi Hj Hc. subst i j0 c0.
      destruct adv.
      + destruct (match_at_adv_sound ci s r pos j c Hpos Hfirst) as [HM [Hlt Hc]].
        destruct (M_bounds U ci s _ _ _ HM) as [Hij Hj].
        split; [lia|]. split; [exact HM|]. split; [lia|]. split; [exact Hj|].
        split; [intros _ _; exact Hlt|exact Hc].
      + destruct (match_at_sound U ci s r pos j c Hpos Hfirst) as [HM Hc].
        destruct (M_bounds U ci s _ _ _ HM) as [Hij Hj].
        split; [lia|]. split; [exact HM|]. split; [exact Hij|]. split; [exact Hj|].
        split; [intros Hf; discriminate|exact Hc].
    - destruct (Nat.ltb_spec pos (length s)) as [Hlt|Hge]; [|discriminate].
      destruct (search_from_sound U ci s r _ (S pos) i j c Hlt Hs) as [Hle [Hil [Hm _]]].
      destruct (match_at_sound U ci s r i j c Hil Hm) as [HM Hc].
      destruct (M_bounds U ci s _ _ _ HM) as [Hij Hj].
      split; [lia|]. split; [exact HM|]. split; [exact Hij|]. split; [exact Hj|].
      split; [intros _ He; lia|exact Hc].
  Qed.

  (* ---- 3. every reported match is a declarative match ---- *)
  Lemma finditer_from_sound : forall ci s r fuel pos adv i j c,
    pos <= length s ->
    In (i, j, c) (finditer_from U ci s r fuel pos adv) ->
    pos <= i /\ M U ci s r i j /\ i <= j /\ j <= length s /\
    (forall n a b, In (n, (a, b)) c -> i <= a /\ a <= b /\ b <= j).
  Proof.
    intros ci s r fuel. induction fuel as [|f IHf]; intros pos adv i j c Hpos Hin;
      cbn [finditer_from] in Hin.
    - destruct Hin.
    - destruct (search_adv U ci s r pos adv) as [[[i0 j0] c0]|] eqn:Hs; [|destruct Hin].
      destruct (search_adv_sound ci s r pos adv i0 j0 c0 Hpos Hs)
        as [Hle [HM [Hij [Hj [_ Hc]]]]].
      destruct Hin as [Heq|Hin].
      + injection Heq as H1 H2 H3. subst i0 j0 c0.
        split; [exact Hle|]. split; [exact HM|]. split; [exact Hij|]. split; [exact Hj|exact Hc].
      + destruct (IHf j0 _ i j c Hj Hin) as [Hle' [HM' [Hij' [Hj' Hc']]]].
        split; [lia|]. split; [exact HM'|]. split; [exact Hij'|]. split; [exact Hj'|exact Hc'].
  Qed.

  Theorem finditer_sound : forall ci s r i j c,
    In (i, j, c) (finditer U ci s r) ->
    M U ci s r i j /\ i <= j /\ j <= length s /\
    (forall n a b, In (n, (a, b)) c -> i <= a /\ a <= b /\ b <= j).
  Proof.
    intros ci s r i j c Hin. unfold finditer in Hin.
    destruct (finditer_from_sound ci s r _ 0 false i j c (Nat.le_0_l _) Hin) as [_ H].
    exact H.
  Qed.

  (* ---- 4. successive matches ---- *)
  Lemma finditer_from_head : forall ci s r fuel pos adv i j c rest,
    pos <= length s ->
    finditer_from U ci s r fuel pos adv = (i, j, c) :: rest ->
    pos <= i /\ i <= j /\ j <= length s /\ (adv = true -> i = pos -> i < j).
  Proof.
    intros ci s r fuel pos adv i j c rest Hpos H.
    destruct fuel as [|f]; cbn [finditer_from] in H; [discriminate|].
    destruct (search_adv U ci s r pos adv) as [[[i0 j0] c0]|] eqn:Hs; [|discriminate].
    injection H as H1 H2 H3 _. subst i0 j0 c0.
    destruct (search_adv_sound ci s r pos adv i j c Hpos Hs) as [Hle [_ [Hij [Hj [Hadv _]]]]].
    split; [exact Hle|]. split; [exact Hij|]. split; [exact Hj|exact Hadv].
  Qed.

  Lemma finditer_from_chain : forall ci s r fuel pos adv,
    pos <= length s -> chain scan_step (finditer_from U ci s r fuel pos adv).
  Proof.
    intros ci s r fuel. induction fuel as [|f IHf]; intros pos adv Hpos; cbn [finditer_from].
    - exact I.
    - destruct (search_adv U ci s r pos adv) as [[[i j] c]|] eqn:Hs; [|exact I].
      destruct (search_adv_sound ci s r pos adv i j c Hpos Hs) as [Hle [_ [Hij [Hj _]]]].
      specialize (IHf j (Nat.eqb i j) Hj).
      destruct (finditer_from U ci s r f j (Nat.eqb i j)) as [|[[i' j'] c'] rest] eqn:Hnext.
      + exact I.
      + cbn [chain]. split; [|exact IHf].
        destruct (finditer_from_head ci s r f j _ i' j' c' rest Hj Hnext)
          as [Hle' [Hij' [Hj' Hadv]]].
        unfold scan_step. cbn [fst snd]. split; [exact Hle'|].
        intros Heq. injection Heq as Hi' Hj''. subst i' j'.
        assert (Heij : i = j) by lia.
        assert (Hb : Nat.eqb i j = true) by (apply Nat.eqb_eq; exact Heij).
        specialize (Hadv Hb Heij). lia.
  Qed.

  Theorem finditer_chain : forall ci s r, chain scan_step (finditer U ci s r).
  Proof. intros ci s r. unfold finditer. apply finditer_from_chain. lia. Qed.

  (* ---- 5. no declarative match, no reported match ---- *)
  Theorem finditer_nil_of_no_match : forall ci s r,
    (forall i j, ~ M U ci s r i j) -> finditer U ci s r = [].
  Proof.
    intros ci s r Hno.
    destruct (finditer U ci s r) as [|[[i j] c] rest] eqn:Hf; [reflexivity|].
    exfalso. apply (Hno i j).
    apply (finditer_sound ci s r i j c). rewrite Hf. left. reflexivity.
  Qed.

  (* ---- 6. Token.from_match yields well-formed candidates ---- *)
  Theorem tok_of_wf : forall x s mt t,
    (let '(i, j, c) := mt in
     i <= j /\ j <= length s /\ forall n a b, In (n, (a, b)) c -> i <= a /\ a <= b /\ b <= j) ->
    tok_of x s mt = Some t -> cand_wf s t.
  Proof.
    intros x s [[i j] c] t [Hij [Hj Hc]] Ht. unfold tok_of in Ht. cbn [snd] in Ht.
    destruct (cap_get 1 c) as [[a b]|] eqn:Hg; [|discriminate].
    injection Ht as Ht. subst t.
    destruct (Hc 1 a b (cap_get_in _ _ _ _ Hg)) as [H1 [H2 H3]].
    unfold cand_wf. cbn [t_start t_end t_data].
    split; [exact H2|]. split; [lia|reflexivity].
  Qed.

  Lemma in_somes {A} (l : list (option A)) (a : A) : In a (somes l) <-> In (Some a) l.
  Proof.
    induction l as [|[b|] l IH]; cbn [somes In].
    - tauto.
    - rewrite IH. split; intros [H|H]; [left; congruence|right; exact H| |right; exact H].
      left. congruence.
    - rewrite IH. split; [intros H; right; exact H|intros [H|H]; [discriminate|exact H]].
  Qed.

  (* ---- 7. candidates are well-formed ---- *)
  Theorem tokens_of_wf : forall x s, Forall (cand_wf s) (tokens_of U x s).
  Proof.
    intros x s. apply Forall_forall. intros t Hin. unfold tokens_of in Hin.
    apply in_somes in Hin. apply in_map_iff in Hin. destruct Hin as [[[i j] c] [Ht Hin]].
    apply (tok_of_wf (snd x) s (i, j, c) t); [|exact Ht].
    destruct (finditer_sound _ _ _ _ _ _ Hin) as [_ [Hij [Hj Hc]]].
    split; [exact Hij|]. split; [exact Hj|exact Hc].
  Qed.

  Theorem extract_with_wf : forall xs s, Forall (cand_wf s) (extract_with U xs s).
  Proof.
    intros xs s. apply Forall_forall. intros t Hin. unfold extract_with in Hin.
    apply in_flat_map in Hin. destruct Hin as [x [_ Hin]].
    pose proof (tokens_of_wf x s) as H. rewrite Forall_forall in H. apply H. exact Hin.
  Qed.

  (* ---- 8. the pre-filter only removes candidates ---- *)
  Theorem extract_ac_sub : forall table s low t,
    In t (extract_ac U table s low) -> In t (extract_all U table s).
  Proof.
    intros table s low t Hin. unfold extract_ac, extract_all, extract_with, get_extractors_ac in *.
    apply in_flat_map in Hin. destruct Hin as [x [Hx Hin]].
    apply filter_In in Hx. destruct Hx as [Hx _].
    apply in_flat_map. exists x. split; assumption.
  Qed.

  (* a skipped extractor that cannot match contributes nothing: the filter is lossless *)
  Lemma extract_ac_lossless_gen : forall table s low,
    (forall x, In x table -> selected_x s low x = false ->
       forall i j, ~ M U (row_ci (fst x)) s (row_re (fst x)) i j) ->
    extract_ac U table s low = extract_all U table s.
  Proof.
    intros table s low H. unfold extract_ac, extract_all, extract_with, get_extractors_ac.
    apply flat_map_filter_nil. intros x Hx Hsel.
    unfold tokens_of. rewrite (finditer_nil_of_no_match _ _ _ (H x Hx Hsel)). reflexivity.
  Qed.

  (* ---- 9. group 1 totality ---- *)
  Section Grow.
    Variable ci : bool.
    Variable s : str.

    (* captures only grow: the continuation receives new ++ c; a group-free body adds nothing *)
    Definition body_grows (gf : bool) (body : nat -> caps -> K -> option mresult) : Prop :=
      forall i c k res, body i c k = Some res ->
        exists j new, k j (new ++ c) = Some res /\ (gf = true -> new = []).

    Lemma rep_grows : forall gf body lo hi, body_grows gf body ->
      forall fuel count last i c k res,
        rep body lo hi fuel count last i c k = Some res ->
        exists j new, k j (new ++ c) = Some res /\ (gf = true -> new = []).
    Proof.
      intros gf body lo hi Hbody fuel.
      induction fuel as [|f IHf]; intros count last i c k res Hrep; cbn [rep] in Hrep.
      - discriminate.
      - assert (Hfall : (if (lo <=? count)%nat then k i c else None) = Some res ->
          exists j new, k j (new ++ c) = Some res /\ (gf = true -> new = [])).
        { intros Hf. destruct (lo <=? count)%nat; [|discriminate].
          exists i, []. split; [exact Hf|reflexivity]. }
        match type of Hrep with
        | match (if ?g then _ else _) with _ => _ end = _ => destruct g eqn:Hg
        end; [|apply Hfall; exact Hrep].
        match type of Hrep with
        | match ?e with _ => _ end = _ => destruct e as [r0|] eqn:Hb
        end; [|apply Hfall; exact Hrep].
        injection Hrep as Hrep. subst r0. clear Hfall.
        destruct (Hbody _ _ _ _ Hb) as [j1 [new1 [Hk1 Hn1]]].
        destruct (IHf _ _ _ _ _ _ Hk1) as [j [new2 [Hk Hn2]]].
        exists j, (new2 ++ new1). rewrite <- app_assoc. split; [exact Hk|].
        intros Hgf. rewrite (Hn1 Hgf), (Hn2 Hgf). reflexivity.
    Qed.

    Lemma m_body_grows : forall r,
      body_grows (negb (has_group r)) (fun i c k => m U ci s r i c k).
    Proof.
      unfold body_grows.
      induction r as [| |ch|ch| |neg items| | | |a IHa b IHb|a IHa b IHb|g r' IHr|lo hi r' IHr|r' IHr];
        intros i c k res Hm; cbn [m] in Hm; cbn [has_group].
      - exists i, []. split; [exact Hm|reflexivity].
      - discriminate.
      - destruct (nth_error s i) as [x|]; [|discriminate].
        destruct (lit_mem U ci ch x); [|discriminate].
        exists (S i), []. split; [exact Hm|reflexivity].
      - destruct (nth_error s i) as [x|]; [|discriminate].
        destruct (lit_mem U ci ch x); [discriminate|].
        exists (S i), []. split; [exact Hm|reflexivity].
      - destruct (nth_error s i) as [x|]; [|discriminate].
        destruct (N.eqb x 10); [discriminate|].
        exists (S i), []. split; [exact Hm|reflexivity].
      - destruct (nth_error s i) as [x|]; [|discriminate].
        destruct (set_mem U ci neg items x); [|discriminate].
        exists (S i), []. split; [exact Hm|reflexivity].
      - destruct (Nat.eqb i 0); [|discriminate].
        exists i, []. split; [exact Hm|reflexivity].
      - destruct (at_eol s i); [|discriminate].
        exists i, []. split; [exact Hm|reflexivity].
      - destruct (word_boundary U s i); [|discriminate].
        exists i, []. split; [exact Hm|reflexivity].
      - (* Cat *)
        destruct (IHa _ _ _ _ Hm) as [j1 [new1 [Hk1 Hn1]]].
        destruct (IHb _ _ _ _ Hk1) as [j [new2 [Hk Hn2]]].
        exists j, (new2 ++ new1). rewrite <- app_assoc. split; [exact Hk|].
        intros Hgf. apply negb_true_iff, orb_false_iff in Hgf. destruct Hgf as [Hga Hgb].
        rewrite Hn1, Hn2; [reflexivity| |]; apply negb_true_iff; assumption.
      - (* Alt *)
        destruct (m U ci s a i c k) as [r0|] eqn:Ha.
        + injection Hm as Hm. subst r0.
          destruct (IHa _ _ _ _ Ha) as [j [new [Hk Hn]]].
          exists j, new. split; [exact Hk|].
          intros Hgf. apply negb_true_iff, orb_false_iff in Hgf. destruct Hgf as [Hga Hgb].
          apply Hn. apply negb_true_iff. exact Hga.
        + destruct (IHb _ _ _ _ Hm) as [j [new [Hk Hn]]].
          exists j, new. split; [exact Hk|].
          intros Hgf. apply negb_true_iff, orb_false_iff in Hgf. destruct Hgf as [Hga Hgb].
          apply Hn. apply negb_true_iff. exact Hgb.
      - (* Group *)
        destruct (IHr _ _ _ _ Hm) as [j [new [Hk _]]].
        exists j, ((g, (i, j)) :: new). split; [exact Hk|]. intros Hf. discriminate.
      - (* Rep *)
        exact (rep_grows _ _ lo hi IHr _ _ _ _ _ _ _ Hm).
      - (* Look *)
        destruct (m U ci s r' i c (fun j c' => Some (j, c'))) as [r0|]; [|discriminate].
        exists i, []. split; [exact Hm|reflexivity].
    Qed.

    (* captures only grow *)
    Lemma m_grows : forall r i c k res,
      m U ci s r i c k = Some res -> exists j new, k j (new ++ c) = Some res.
    Proof.
      intros r i c k res Hm. destruct (m_body_grows r i c k res Hm) as [j [new [Hk _]]].
      exists j, new. exact Hk.
    Qed.

    (* a group-free pattern leaves the captures unchanged *)
    Lemma m_group_free : forall r i c k res,
      has_group r = false -> m U ci s r i c k = Some res -> exists j, k j c = Some res.
    Proof.
      intros r i c k res Hg Hm. destruct (m_body_grows r i c k res Hm) as [j [new [Hk Hn]]].
      rewrite Hn in Hk by (rewrite Hg; reflexivity). exists j. exact Hk.
    Qed.

    Definition has1 (c : caps) : Prop := exists a b, cap_get 1 c = Some (a, b).

    Lemma has1_app : forall new c, has1 c -> has1 (new ++ c).
    Proof.
      intros new c [a [b H]]. destruct (cap_get_app_some 1 new c _ H) as [[a' b'] H'].
      exists a', b'. exact H'.
    Qed.

    (* structural sufficient condition, more general than group1_total: group 1 lies on every
       path through the pattern (sequence positions and nested groups only) *)
    Fixpoint sets1 (r : re) : bool :=
      match r with
      | Group n r' => Nat.eqb n 1 || sets1 r'
      | Cat a b => sets1 a || sets1 b
      | _ => false
      end.

    Lemma m_sets1 : forall r i c k res,
      sets1 r = true -> m U ci s r i c k = Some res ->
      exists j c', k j c' = Some res /\ has1 c'.
    Proof.
      induction r as [| |ch|ch| |neg items| | | |a IHa b IHb|a IHa b IHb|g r' IHr|lo hi r' IHr|r' IHr];
        intros i c k res Hs Hm; cbn [sets1] in Hs; try discriminate; cbn [m] in Hm.
      - (* Cat *)
        apply orb_true_iff in Hs. destruct Hs as [Hs|Hs].
        + destruct (IHa _ _ _ _ Hs Hm) as [j1 [c1 [Hk1 H1]]].
          destruct (m_grows _ _ _ _ _ Hk1) as [j [new Hk]].
          exists j, (new ++ c1). split; [exact Hk|apply has1_app; exact H1].
        + destruct (m_grows _ _ _ _ _ Hm) as [j1 [new Hk1]].
          exact (IHb _ _ _ _ Hs Hk1).
      - (* Group *)
        apply orb_true_iff in Hs. destruct Hs as [Hs|Hs].
        + apply Nat.eqb_eq in Hs. subst g.
          destruct (m_grows _ _ _ _ _ Hm) as [j [new Hk]].
          exists j, ((1, (i, j)) :: new ++ c). split; [exact Hk|].
          exists i, j. reflexivity.
        + destruct (IHr _ _ _ _ Hs Hm) as [j [c' [Hk H1]]].
          exists j, ((g, (i, j)) :: c'). split; [exact Hk|].
          apply (has1_app [(g, (i, j))]). exact H1.
    Qed.

    Lemma group1_total_sets1 : forall r, group1_total r = true -> sets1 r = true.
    Proof.
      intros r H. unfold group1_total in H.
      repeat match type of H with
             | match ?x with _ => _ end = true => destruct x; try discriminate
             end; cbn [sets1 Nat.eqb orb]; rewrite ?orb_true_r; reflexivity.
    Qed.
  End Grow.

  Lemma match_at_sets1 : forall ci s r i j c,
    sets1 r = true -> match_at U ci s r i = Some (j, c) -> has1 c.
  Proof.
    intros ci s r i j c Hs Hm. unfold match_at in Hm.
    destruct (m_sets1 ci s r i [] _ _ Hs Hm) as [j' [c' [Hk H1]]].
    injection Hk as _ Hc. subst c'. exact H1.
  Qed.

  Lemma match_at_adv_sets1 : forall ci s r i j c,
    sets1 r = true -> match_at_adv U ci s r i = Some (j, c) -> has1 c.
  Proof.
    intros ci s r i j c Hs Hm. unfold match_at_adv in Hm.
    destruct (m_sets1 ci s r i [] _ _ Hs Hm) as [j' [c' [Hk H1]]].
    cbv beta in Hk. destruct (Nat.eqb j' i); [discriminate|].
    injection Hk as _ Hc. subst c'. exact H1.
  Qed.

  Lemma search_adv_sets1 : forall ci s r pos adv i j c,
    sets1 r = true -> search_adv U ci s r pos adv = Some (i, j, c) -> has1 c.
  Proof.
    intros ci s r pos adv i j c Hs1 Hs. unfold search_adv in Hs.
    destruct (if adv then match_at_adv U ci s r pos else match_at U ci s r pos)
      as [[j0 c0]|] eqn:Hfirst.
    - injection Hs as Hi Hj Hc. subst i j0 c0.
      destruct adv; [eapply match_at_adv_sets1|eapply match_at_sets1]; eassumption.
    - destruct (Nat.ltb_spec pos (length s)) as [Hlt|Hge]; [|discriminate].
      destruct (search_from_sound U ci s r _ (S pos) i j c Hlt Hs) as [_ [_ [Hm _]]].
      eapply match_at_sets1; eassumption.
  Qed.

  Lemma finditer_from_sets1 : forall ci s r fuel pos adv i j c,
    sets1 r = true -> In (i, j, c) (finditer_from U ci s r fuel pos adv) -> has1 c.
  Proof.
    intros ci s r fuel. induction fuel as [|f IHf]; intros pos adv i j c Hs1 Hin;
      cbn [finditer_from] in Hin.
    - destruct Hin.
    - destruct (search_adv U ci s r pos adv) as [[[i0 j0] c0]|] eqn:Hs; [|destruct Hin].
      destruct Hin as [Heq|Hin].
      + injection Heq as H1 H2 H3. subst i0 j0 c0. eapply search_adv_sets1; eassumption.
      + eapply IHf; eassumption.
  Qed.

  Theorem group1_always : forall ci s r i j c,
    group1_total r = true -> In (i, j, c) (finditer U ci s r) ->
    exists a b, cap_get 1 c = Some (a, b).
  Proof.
    intros ci s r i j c Hg Hin. unfold finditer in Hin.
    exact (finditer_from_sets1 ci s r _ _ _ i j c (group1_total_sets1 r Hg) Hin).
  Qed.

  Lemma somes_map_length {A B} (f : A -> option B) (l : list A) :
    (forall a, In a l -> f a <> None) -> length (somes (map f l)) = length l.
  Proof.
    induction l as [|a l IH]; intros H; [reflexivity|].
    cbn [map somes]. destruct (f a) as [b|] eqn:Hf.
    - cbn [length]. f_equal. apply IH. intros a' Ha'. apply H. right. exact Ha'.
    - exfalso. apply (H a (or_introl eq_refl)). exact Hf.
  Qed.

  Theorem tokens_of_length : forall x s,
    group1_total (row_re (fst x)) = true ->
    length (tokens_of U x s) = length (finditer U (row_ci (fst x)) s (row_re (fst x))).
  Proof.
    intros x s Hg. unfold tokens_of. apply somes_map_length.
    intros [[i j] c] Hin. destruct (group1_always _ _ _ i j c Hg Hin) as [a [b Hc]].
    unfold tok_of. cbn [snd]. rewrite Hc. discriminate.
  Qed.
End XP.

(* ------------------------------------------------------------------ *)
(* the generated tables                                                *)
(* ------------------------------------------------------------------ *)
From EV Require Import Gen.Unicode Gen.Lower Gen.ExtractorsAll Gen.ExtractorIndex Gen.ExtractTable.
From EV Require Import Proofs.C13Proofs Model.TokenizeEq Model.E2E.

(* ---- 10. the assembled table carries exactly the checked rows ---- *)
Theorem zip_table_rows : forall rows idx ns sets t,
  zip_table rows idx ns sets = Some t -> map fst t = rows.
Proof.
  induction rows as [|x rows IH]; intros idx ns sets t H; cbn [zip_table] in H.
  - destruct idx; [|discriminate]. destruct ns; [|discriminate].
    injection H as H. subst t. reflexivity.
  - destruct idx as [|[[[[i k] sh] ex] va] idx]; [discriminate|].
    destruct ns as [|[i' n] ns]; [discriminate|].
    destruct (N.eqb (row_idx x) i && N.eqb i i'); [|discriminate].
    destruct (nth_error sets n) as [names|]; [|discriminate].
    destruct (zip_table rows idx ns sets) as [rest|] eqn:Hrest; [|discriminate].
    injection H as H. subst t. cbn [map fst]. f_equal. exact (IH _ _ _ _ Hrest).
Qed.

Theorem xtable_rows_in_table : forall x, In x xtable -> in_table (fst x).
Proof.
  intros x Hin. unfold xtable in Hin.
  destruct xtable_opt as [t|] eqn:Ht; [|destruct Hin].
  unfold xtable_opt in Ht. apply zip_table_rows in Ht.
  assert (Hf : In (fst x) (map fst t)) by (apply in_map; exact Hin).
  rewrite Ht in Hf. apply in_concat in Hf. destruct Hf as [sh [Hsh Hx]].
  exists sh. split; assumption.
Qed.

(* ---- 11. the Aho-Corasick pre-filter loses no candidate ---- *)
Lemma selected_x_selected : forall s T x,
  selected_x s T x = selected (fst x) (if row_ci (fst x) then T else s).
Proof. intros s T x. reflexivity. Qed.

Theorem ac_lossless : forall s T,
  clean is_offending s -> NormOf true lower1 s T ->
  extract_ac U xtable s T = extract_all U xtable s.
Proof.
  intros s T Hc HN. apply extract_ac_lossless_gen. intros x Hx Hsel.
  rewrite selected_x_selected in Hsel.
  apply (skipped_cannot_match_partial (fst x) s (if row_ci (fst x) then T else s)
           (xtable_rows_in_table x Hx) Hc); [|exact Hsel].
  destruct (row_ci (fst x)); [exact HN|reflexivity].
Qed.

(* ---- 12. text.lower() one character at a time is an allowed normalisation ---- *)
Lemma NormOf_lower_str : forall s, NormOf true lower1 s (lower_str lower1 s).
Proof.
  intros s. unfold NormOf, lower_str. exists (map lower1 s). split.
  - induction s as [|c s IH]; cbn [map]; constructor; [left; reflexivity|exact IH].
  - apply flat_map_concat_map.
Qed.

Theorem candidates_text_lossless : forall s,
  clean is_offending s -> candidates_text s = candidates_text_ref s.
Proof.
  intros s Hc. unfold candidates_text, candidates_text_ref.
  apply ac_lossless; [exact Hc|apply NormOf_lower_str].
Qed.

(* ---- 13. C12 end to end: no hypothesis on the candidates ---- *)
Lemma candidates_text_wf : forall s, Forall (cand_wf s) (candidates_text s).
Proof. intros s. unfold candidates_text, extract_ac. apply extract_with_wf. Qed.

Theorem tokenize_text_concat : forall s, stream_text (fst (tokenize_text s)) = s.
Proof. intros s. unfold tokenize_text. apply tokenize_concat. apply candidates_text_wf. Qed.

Theorem tokenize_text_index : forall s,
  snd (tokenize_text s) = specials (fst (tokenize_text s)).
Proof. intros s. unfold tokenize_text. apply tokenize_index. apply candidates_text_wf. Qed.

Theorem tokenize_text_offsets : forall s i t,
  In (i, t) (snd (tokenize_text s)) ->
  nth_error (fst (tokenize_text s)) i = Some (T t) /\
  cand_wf s t /\
  length (stream_text (firstn i (fst (tokenize_text s)))) = t_start t.
Proof. intros s. unfold tokenize_text. apply tokenize_offsets. apply candidates_text_wf. Qed.

Theorem tokenize_text_increasing : forall s l1 i t j t' l2,
  snd (tokenize_text s) = l1 ++ (i, t) :: (j, t') :: l2 ->
  (i < j)%nat /\ (t_end t <= t_start t')%nat.
Proof. intros s. unfold tokenize_text. apply tokenize_increasing. apply candidates_text_wf. Qed.

(* every extractor of the generated table produces one candidate per reported match *)
Theorem xtable_tokens_of_length : forall x s, In x xtable ->
  length (tokens_of U x s) = length (finditer U (row_ci (fst x)) s (row_re (fst x))).
Proof.
  intros x s Hx. apply tokens_of_length.
  pose proof xtable_group1 as H. rewrite forallb_forall in H. exact (H x Hx).
Qed.

Print Assumptions finditer_sound.
Print Assumptions finditer_chain.
Print Assumptions extract_with_wf.
Print Assumptions group1_always.
Print Assumptions tokens_of_length.
Print Assumptions ac_lossless.
Print Assumptions candidates_text_lossless.
Print Assumptions tokenize_text_concat.
Print Assumptions tokenize_text_index.
Print Assumptions tokenize_text_offsets.
Print Assumptions tokenize_text_increasing.
