(* Proofs/ExtractProofs.v -- theorems about Model/Extract.v: re.finditer (soundness w.r.t. the
   declarative semantics, scanner chain), Token.from_match (well-formed candidates), the
   Aho-Corasick pre-filter (only removes candidates; lossless on the generated table), group 1
   totality, and the end-to-end C12 corollaries for the text-only tokenizer of Model/E2E.v. *)
From EV Require Import Base.Str Regex.Syntax Regex.Decl Regex.Match Regex.MatchSound.
From EV Require Import Regex.Literal Regex.LiteralSound Regex.C13Check.
From EV Require Import Model.Tokenize Model.Extract Proofs.ExtractSpec Proofs.TokenizeProofs.

(* ------------------------------------------------------------------ *)
(* generic list facts                                                  *)
(* ------------------------------------------------------------------ *)

Lemma flat_map_filter_nil {A B} (f : A -> list B) (p : A -> bool) (l : list A) :
  (forall x, In x l -> p x = false -> f x = []) ->
  flat_map f (filter p l) = flat_map f l.
Proof.
  induction l as [|a l IH]; intros H; [reflexivity|].
  cbn [filter flat_map].
  assert (IH' : flat_map f (filter p l) = flat_map f l).
  { apply IH. intros x Hx Hp. apply H; [right; exact Hx|exact Hp]. }
  destruct (p a) eqn:Hp.
  - cbn [flat_map]. rewrite IH'. reflexivity.
  - rewrite (H a (or_introl eq_refl) Hp). cbn [app]. exact IH'.
Qed.

Lemma cap_get_in : forall n c a b, cap_get n c = Some (a, b) -> In (n, (a, b)) c.
Proof.
  intros n c. induction c as [|[m0 sp] c IH]; intros a b H; cbn [cap_get] in H.
  - discriminate.
  - destruct (Nat.eqb_spec n m0) as [He|Hne].
    + injection H as H. subst. left. reflexivity.
    + right. apply IH. exact H.
Qed.

Lemma cap_get_app_some : forall n new c sp,
  cap_get n c = Some sp -> exists sp', cap_get n (new ++ c) = Some sp'.
Proof.
  intros n new c sp H. induction new as [|[m0 sp0] new IH]; cbn [app cap_get].
  - exists sp. exact H.
  - destruct (Nat.eqb n m0); [exists sp0; reflexivity|exact IH].
Qed.

Section XP.
  Variable U : utables.

  (* the span/capture contract shared by every reported match *)
  Definition caps_in (i j : nat) (c : caps) : Prop :=
    forall n a b, In (n, (a, b)) c -> i <= a /\ a <= b /\ b <= j.

  (* ---- 1. the must_advance match attempt ---- *)
  Theorem match_at_adv_sound : forall ci s r i j c,
    i <= length s ->
    match_at_adv U ci s r i = Some (j, c) ->
    M U ci s r i j /\ i < j /\
    (forall n a b, In (n, (a, b)) c -> i <= a /\ a <= b /\ b <= j).
  Proof.
    intros ci s r i j c Hi Hm. unfold match_at_adv in Hm.
    destruct (m_caps U ci s r i [] _ _ Hi Hm) as [j' [c' [HM [Hk Hc]]]].
    cbv beta in Hk.
    destruct (Nat.eqb_spec j' i) as [He|Hne]; [discriminate|].
    injection Hk as Hj Hc'. subst j' c'.
    destruct (M_bounds U ci s _ _ _ HM) as [Hij Hj].
    split; [exact HM|]. split; [lia|].
    intros n a b Hin. destruct (Hc n a b Hin) as [[]|Hsp]. exact Hsp.
  Qed.

  (* ---- 2. search from pos ---- *)
  Theorem search_adv_sound : forall ci s r pos adv i j c,
    pos <= length s ->
    search_adv U ci s r pos adv = Some (i, j, c) ->
    pos <= i /\ M U ci s r i j /\ i <= j /\ j <= length s /\
    (adv = true -> i = pos -> i < j) /\
    (forall n a b, In (n, (a, b)) c -> i <= a /\ a <= b /\ b <= j).
  Proof.
    intros ci s r pos adv i j c Hpos Hs. unfold search_adv in Hs.
    destruct (if adv then match_at_adv U ci s r pos else match_at U ci s r pos)
      as [[j0 c0]|] eqn:Hfirst.
    - injection Hs as Hi Hj Hc. subst i j0 c0.
      destruct adv.
      + destruct (match_at_adv_sound ci s r pos j c Hpos Hfirst) as [HM [Hlt Hc]].
        destruct (M_bounds U ci s _ _ _ HM) as [Hij Hj].
        split; [lia|]. split; [exact HM|]. split; [lia|]. split; [exact Hj|].
        split; [intros _ _; exact Hlt|exact Hc].
      + destruct (match_at_sound U ci s r pos j c Hpos Hfirst) as [HM Hc].
        destruct (M_bounds U ci s _ _ _ HM) as [Hij Hj].
        split; [lia|]. split; [exact HM|]. split; [exact Hij|]. split; [exact Hj|].
        split; [intros Hf; discriminate|exact Hc].
    - destruct (Nat.ltb_spec pos (length s)) as [Hlt|Hge]; [|discriminate].
      destruct (search_from_sound U ci s r _ (S pos) i j c Hlt Hs) as [Hle [Hil [Hm _]]].
      destruct (match_at_sound U ci s r i j c Hil Hm) as [HM Hc].
      destruct (M_bounds U ci s _ _ _ HM) as [Hij Hj].
      split; [lia|]. split; [exact HM|]. split; [exact Hij|]. split; [exact Hj|].
      split; [intros _ He; lia|exact Hc].
  Qed.

  (* ---- 3. every reported match is a declarative match ---- *)
  Lemma finditer_from_sound : forall ci s r fuel pos adv i j c,
    pos <= length s ->
    In (i, j, c) (finditer_from U ci s r fuel pos adv) ->
    pos <= i /\ M U ci s r i j /\ i <= j /\ j <= length s /\
    (forall n a b, In (n, (a, b)) c -> i <= a /\ a <= b /\ b <= j).
  Proof.
    intros ci s r fuel. induction fuel as [|f IHf]; intros pos adv i j c Hpos Hin;
      cbn [finditer_from] in Hin.
    - destruct Hin.
    - destruct (search_adv U ci s r pos adv) as [[[i0 j0] c0]|] eqn:Hs; [|destruct Hin].
      destruct (search_adv_sound ci s r pos adv i0 j0 c0 Hpos Hs)
        as [Hle [HM [Hij [Hj [_ Hc]]]]].
      destruct Hin as [Heq|Hin].
      + injection Heq as H1 H2 H3. subst i0 j0 c0.
        split; [exact Hle|]. split; [exact HM|]. split; [exact Hij|]. split; [exact Hj|exact Hc].
      + destruct (IHf j0 _ i j c Hj Hin) as [Hle' [HM' [Hij' [Hj' Hc']]]].
        split; [lia|]. split; [exact HM'|]. split; [exact Hij'|]. split; [exact Hj'|exact Hc'].
  Qed.

  Theorem finditer_sound : forall ci s r i j c,
    In (i, j, c) (finditer U ci s r) ->
    M U ci s r i j /\ i <= j /\ j <= length s /\
    (forall n a b, In (n, (a, b)) c -> i <= a /\ a <= b /\ b <= j).
  Proof.
    intros ci s r i j c Hin. unfold finditer in Hin.
    destruct (finditer_from_sound ci s r _ 0 false i j c (Nat.le_0_l _) Hin) as [_ H].
    exact H.
  Qed.

  (* ---- 4. successive matches ---- *)
  Lemma finditer_from_head : forall ci s r fuel pos adv i j c rest,
    pos <= length s ->
    finditer_from U ci s r fuel pos adv = (i, j, c) :: rest ->
    pos <= i /\ i <= j /\ j <= length s /\ (adv = true -> i = pos -> i < j).
  Proof.
    intros ci s r fuel pos adv i j c rest Hpos H.
    destruct fuel as [|f]; cbn [finditer_from] in H; [discriminate|].
    destruct (search_adv U ci s r pos adv) as [[[i0 j0] c0]|] eqn:Hs; [|discriminate].
    injection H as H1 H2 H3 _. subst i0 j0 c0.
    destruct (search_adv_sound ci s r pos adv i j c Hpos Hs) as [Hle [_ [Hij [Hj [Hadv _]]]]].
    split; [exact Hle|]. split; [exact Hij|]. split; [exact Hj|exact Hadv].
  Qed.

  Lemma finditer_from_chain : forall ci s r fuel pos adv,
    pos <= length s -> chain scan_step (finditer_from U ci s r fuel pos adv).
  Proof.
    intros ci s r fuel. induction fuel as [|f IHf]; intros pos adv Hpos; cbn [finditer_from].
    - exact I.
    - destruct (search_adv U ci s r pos adv) as [[[i j] c]|] eqn:Hs; [|exact I].
      destruct (search_adv_sound ci s r pos adv i j c Hpos Hs) as [Hle [_ [Hij [Hj _]]]].
      specialize (IHf j (Nat.eqb i j) Hj).
      destruct (finditer_from U ci s r f j (Nat.eqb i j)) as [|[[i' j'] c'] rest] eqn:Hnext.
      + exact I.
      + cbn [chain]. split; [|exact IHf].
        destruct (finditer_from_head ci s r f j _ i' j' c' rest Hj Hnext)
          as [Hle' [Hij' [Hj' Hadv]]].
        unfold scan_step. cbn [fst snd]. split; [exact Hle'|].
        intros Heq. injection Heq as Hi' Hj''. subst i' j'.
        assert (Heij : i = j) by lia.
        assert (Hb : Nat.eqb i j = true) by (apply Nat.eqb_eq; exact Heij).
        specialize (Hadv Hb Heij). lia.
  Qed.

  Theorem finditer_chain : forall ci s r, chain scan_step (finditer U ci s r).
  Proof. intros ci s r. unfold finditer. apply finditer_from_chain. lia. Qed.

  (* ---- 5. no declarative match, no reported match ---- *)
  Theorem finditer_nil_of_no_match : forall ci s r,
    (forall i j, ~ M U ci s r i j) -> finditer U ci s r = [].
  Proof.
    intros ci s r Hno.
    destruct (finditer U ci s r) as [|[[i j] c] rest] eqn:Hf; [reflexivity|].
    exfalso. apply (Hno i j).
    apply (finditer_sound ci s r i j c). rewrite Hf. left. reflexivity.
  Qed.

  (* ---- 6. Token.from_match yields well-formed candidates ---- *)
  Theorem tok_of_wf : forall x s mt t,
    (let '(i, j, c) := mt in
     i <= j /\ j <= length s /\ forall n a b, In (n, (a, b)) c -> i <= a /\ a <= b /\ b <= j) ->
    tok_of x s mt = Some t -> cand_wf s t.
  Proof.
    intros x s [[i j] c] t [Hij [Hj Hc]] Ht. unfold tok_of in Ht. cbn [snd] in Ht.
    destruct (cap_get 1 c) as [[a b]|] eqn:Hg; [|discriminate].
    injection Ht as Ht. subst t.
    destruct (Hc 1 a b (cap_get_in _ _ _ _ Hg)) as [H1 [H2 H3]].
    unfold cand_wf. cbn [t_start t_end t_data].
    split; [exact H2|]. split; [lia|reflexivity].
  Qed.

  Lemma in_somes {A} (l : list (option A)) (a : A) : In a (somes l) <-> In (Some a) l.
  Proof.
    induction l as [|[b|] l IH]; cbn [somes In].
    - tauto.
    - rewrite IH. split; intros [H|H]; [left; congruence|right; exact H| |right; exact H].
      left. congruence.
    - rewrite IH. split; [intros H; right; exact H|intros [H|H]; [discriminate|exact H]].
  Qed.

  (* ---- 7. candidates are well-formed ---- *)
  Theorem tokens_of_wf : forall x s, Forall (cand_wf s) (tokens_of U x s).
  Proof.
    intros x s. apply Forall_forall. intros t Hin. unfold tokens_of in Hin.
    apply in_somes in Hin. apply in_map_iff in Hin. destruct Hin as [[[i j] c] [Ht Hin]].
    apply (tok_of_wf (snd x) s (i, j, c) t); [|exact Ht].
    destruct (finditer_sound _ _ _ _ _ _ Hin) as [_ [Hij [Hj Hc]]].
    split; [exact Hij|]. split; [exact Hj|exact Hc].
  Qed.

  Theorem extract_with_wf : forall xs s, Forall (cand_wf s) (extract_with U xs s).
  Proof.
    intros xs s. apply Forall_forall. intros t Hin. unfold extract_with in Hin.
    apply in_flat_map in Hin. destruct Hin as [x [_ Hin]].
    pose proof (tokens_of_wf x s) as H. rewrite Forall_forall in H. apply H. exact Hin.
  Qed.

  (* ---- 8. the pre-filter only removes candidates ---- *)
  Theorem extract_ac_sub : forall table s low t,
    In t (extract_ac U table s low) -> In t (extract_all U table s).
  Proof.
    intros table s low t Hin. unfold extract_ac, extract_all, extract_with, get_extractors_ac in *.
    apply in_flat_map in Hin. destruct Hin as [x [Hx Hin]].
    apply filter_In in Hx. destruct Hx as [Hx _].
    apply in_flat_map. exists x. split; assumption.
  Qed.

  (* a skipped extractor that cannot match contributes nothing: the filter is lossless *)
  Lemma extract_ac_lossless_gen : forall table s low,
    (forall x, In x table -> selected_x s low x = false ->
       forall i j, ~ M U (row_ci (fst x)) s (row_re (fst x)) i j) ->
    extract_ac U table s low = extract_all U table s.
  Proof.
    intros table s low H. unfold extract_ac, extract_all, extract_with, get_extractors_ac.
    apply flat_map_filter_nil. intros x Hx Hsel.
    unfold tokens_of. rewrite (finditer_nil_of_no_match _ _ _ (H x Hx Hsel)). reflexivity.
  Qed.
End XP.
