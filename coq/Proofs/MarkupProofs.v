(* Proofs/MarkupProofs.v -- offsets of markup-derived reference citations are valid in
   the cleaned text (C19), for ANY diff script between markup and cleaned text. *)
From EV Require Import Base.Str Base.PyVal Model.Annotate Model.Markup Proofs.AnnotateProofs.
Open Scope Z_scope.

Theorem markup_ref_offsets : forall st lm lp sm ms me gs ge,
  steps_ok st lm lp -> 0 < lm ->
  0 <= sm -> 0 <= ms -> ms <= gs -> gs <= ge -> ge <= me -> sm + me <= lm ->
  exists r, markup_ref (mk st) sm ms me gs ge = Ok r /\
    0 <= r_full_start r /\ r_full_start r <= r_start r /\ r_start r <= r_end r /\
    r_end r <= r_full_end r /\ r_full_end r <= lp.
Proof.
  intros st lm lp sm ms me gs ge Hst Hlm Hsm Hms Hgs Hge Hme Hlen.
  unfold markup_ref.
  destruct (update_total st lm lp false (sm + ms) Hst Hlm) as [fs Hfs]; [lia|].
  destruct (update_total st lm lp true (sm + me) Hst Hlm) as [fe Hfe]; [lia|].
  destruct (update_total st lm lp false (sm + gs) Hst Hlm) as [s Hs]; [lia|].
  destruct (update_total st lm lp true (sm + ge) Hst Hlm) as [e He]; [lia|].
  rewrite Hfs, Hfe, Hs, He. cbn [bind]. eexists; split; [reflexivity|]. cbn.
  pose proof (update_in_range st lm lp false (sm + ms) fs Hst) as R1.
  pose proof (update_in_range st lm lp true (sm + me) fe Hst) as R2.
  pose proof (update_monotone st lm lp false (sm + ms) (sm + gs) fs s Hst) as M1.
  pose proof (update_left_le_right st lm lp (sm + gs) (sm + ge) s e Hst) as M2.
  pose proof (update_monotone st lm lp true (sm + ge) (sm + me) e fe Hst) as M3.
  repeat split.
  - apply R1; [lia|exact Hfs].
  - apply M1; try lia; assumption.
  - apply M2; try lia; assumption.
  - apply M3; try lia; assumption.
  - apply R2; [lia|exact Hfe].
Qed.

Theorem start_in_markup_range : forall st lp lm x,
  steps_ok st lp lm -> 0 < lp -> 0 <= x <= lp ->
  exists y, start_in_markup (mk st) x = Ok y /\ 0 <= y <= lm.
Proof.
  intros st lp lm x Hst Hlp Hx. unfold start_in_markup.
  destruct (update_total st lp lm true x Hst Hlp Hx) as [y Hy]. exists y. split; [exact Hy|].
  eapply update_in_range; eauto.
Qed.
