(* Proofs/FilterDisjoint.v -- the repaired filter_citations (Model/Filter.v: a reference is also
   dropped when it overlaps an earlier kept citation that is not the last one): a kept reference
   citation's full span overlaps NO other kept citation's full span, provided no full span is
   empty (an empty span overlaps nothing by eyecite's overlapping_citations test, so an empty
   citation sitting inside a reference could hide it from its successor). *)
From EV Require Import Base.Str Model.Filter Proofs.FilterProofs.
From Coq Require Import Sorting.Sorted Sorting.Permutation.
Open Scope Z_scope.

Definition full_nonempty (x : fc) : Prop := fst (f_full x) < snd (f_full x).

Lemma ov_later (fr fn fy : zspan) :
  fst fr < snd fr -> fst fn < snd fn ->
  zspan_ltb fn fr = false -> zspan_ltb fy fn = false ->
  overlapping fn fr = false -> overlapping fr fy = false.
Proof. unfold zspan_ltb, overlapping. intros H1 H2 H3 H4 H5. zb. Qed.

Theorem fullpass_refs_disjoint : forall l,
  (forall x, In x l -> full_nonempty x) ->
  forall r y, In r (fullpass l) -> In y (fullpass l) -> f_ref r = true -> r <> y ->
    overlapping (f_full r) (f_full y) = false.
Proof.
  intros l Hne r y Hr Hy Href Hry.
  assert (Hmem : forall x, In x (fullpass l) -> full_nonempty x).
  { intros x Hx. apply Hne. apply fullpass_incl, dedupe_in in Hx.
    destruct Hx as (l1 & l2 & -> & _). apply in_or_app. right; left; reflexivity. }
  pose proof (fullpass_sorted l) as HS. pose proof (fullpass_adj l) as HA.
  pose proof (fullpass_refpre l) as HR.
  pose proof (Hmem r Hr) as Hrne.
  apply in_split in Hr. destruct Hr as (l1 & l2 & Heq). rewrite Heq in *.
  apply in_app_or in Hy. destruct Hy as [Hy|[Hy|Hy]]; [|congruence|].
  - exact (HR l1 r l2 eq_refl Href y Hy).
  - destruct l2 as [|n l2']; [destruct Hy|].
    pose proof (HA l1 r n l2' eq_refl (or_introl Href)) as Hnr.
    assert (Hnne : full_nonempty n).
    { apply Hmem. apply in_or_app. right; right; left; reflexivity. }
    apply SS_app_inv in HS. destruct HS as (_ & HS & _).
    apply StronglySorted_inv in HS. destruct HS as [HS HF]. rewrite Forall_forall in HF.
    pose proof (HF n (or_introl eq_refl)) as Hrn.
    apply StronglySorted_inv in HS. destruct HS as [_ HF']. rewrite Forall_forall in HF'.
    unfold kle in *.
    assert (Hny : zspan_ltb (f_full y) (f_full n) = false).
    { destruct Hy as [<-|Hy]; [apply ltb_irrefl|exact (HF' y Hy)]. }
    exact (ov_later _ _ _ Hrne Hnne Hrn Hny Hnr).
Qed.

Theorem filter_refs_disjoint : forall l,
  (forall x, In x l -> full_nonempty x) ->
  forall r y, In r (filter_citations l) -> In y (filter_citations l) -> f_ref r = true -> r <> y ->
    overlapping (f_full r) (f_full y) = false.
Proof.
  intros l Hne r y Hr Hy. apply filter_in in Hr. apply filter_in in Hy.
  exact (fullpass_refs_disjoint l Hne r y Hr Hy).
Qed.

(* the hypothesis cannot be dropped: r = reference (10,20), u = an empty citation (15,15) inside
   it, c = (16,18): u overlaps nothing, c is only compared with u *)
Example filter_refs_disjoint_needs_nonempty :
  let r := {| f_id := 0; f_ref := true;  f_span := (10, 20); f_full := (10, 20) |} in
  let u := {| f_id := 1; f_ref := false; f_span := (15, 15); f_full := (15, 15) |} in
  let c := {| f_id := 2; f_ref := false; f_span := (16, 18); f_full := (16, 18) |} in
  map f_id (filter_citations [r; u; c]) = [0%nat; 1%nat; 2%nat] /\
  overlapping (f_full r) (f_full c) = true.
Proof. vm_compute. split; reflexivity. Qed.

(* the counterexample of Proofs/SpansDisjoint.v to the unrepaired loop: now the reference is dropped *)
Example filter_drops_overlapping_ref :
  let Z := {| f_id := 0; f_ref := false; f_span := (57, 65); f_full := (31, 72) |} in
  let W := {| f_id := 1; f_ref := false; f_span := (43, 44); f_full := (43, 44) |} in
  let R := {| f_id := 2; f_ref := true;  f_span := (48, 58); f_full := (48, 58) |} in
  map f_id (filter_citations [Z; W; R]) = [1%nat; 0%nat].
Proof. vm_compute. reflexivity. Qed.

Print Assumptions filter_refs_disjoint.
