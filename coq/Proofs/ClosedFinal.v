(* Proofs/ClosedFinal.v -- the closed-model theorems with every premise a decidable, satisfiable
   condition on the TEXT:
     s <> "eyecite"                    (the easter egg)
     ws_clean is_space_gen s           (no whitespace other than U+0020: eyecite's all_whitespace)
   The contracts of the metadata searches are not assumed: the guarded contracts are PROVED for the
   engine (Proofs/SearchGuarded.v; the unguarded ones are false, Proofs/Vacuity.v).  The token
   contract holds for every text (Proofs/ClosedCorollaries.v: toks_ok_closed_all); that a short-form
   token ends with its page group is no longer needed, since the repaired
   _extract_shortform_citation checks it (it is false for 11 extractors, Proofs/ShortPage.v). *)
From EV Require Import Base.Str Base.PyVal Regex.Syntax Regex.Match Regex.C13Check.
From EV Require Import Model.Tokenize Model.TokenizeEq Model.Editions Model.Filter Model.Pipeline.
From EV Require Import Model.SearchEngine Model.Extract Model.E2E Model.RefEngine Model.E2EClosed.
From EV Require Import Proofs.PipeSpec Proofs.PipeOffsets Proofs.PipeMeta.
From EV Require Import Proofs.ClosedProofs Proofs.ClosedCorollaries Proofs.SearchDischarge Proofs.ShortPage.
From EV Require Import Proofs.SearchGuarded.
From EV Require Import Gen.Unicode Gen.ExtractTable.
Close Scope Z_scope.
Close Scope N_scope.
Open Scope nat_scope.

Theorem closed_offsets_final : forall this_year s ra l,
  s <> s_eyecite -> ws_clean is_space_gen s ->
  get_citations_closed this_year s ra = Ok l ->
  Forall (offsets_ok s) l.
Proof.
  intros this_year s ra l Hne Hclean Hg. rewrite get_citations_closed_eq in Hg.
  destruct (tokenize_text_stream_ok s) as [Hstream Hcits].
  exact (get_citations_offsets_g _ _ _ _ _ _ _ _ _ _ _ _ _ _ _ _
           Hne Hclean Hstream Hcits (toks_ok_closed_all s)
           E_search_ok_g refs_engine_ok E_post_short_total Hg).
Qed.

Theorem closed_metadata_ra_final : forall this_year s ra l,
  s <> s_eyecite -> ws_clean is_space_gen s ->
  get_citations_closed this_year s ra = Ok l ->
  exists l0, get_citations_closed this_year s false = Ok l0 /\
             (forall c, In c l -> In c l0) /\ Forall (meta_ok s l0) l.
Proof.
  intros this_year s ra l Hne Hclean Hg. rewrite get_citations_closed_eq in Hg.
  destruct (tokenize_text_stream_ok s) as [Hstream Hcits].
  destruct (get_citations_metadata_ra_g _ _ _ _ _ _ _ _ _ _ _ _ _ _ _ _
              Hne Hclean Hstream Hcits (toks_ok_closed_all s)
              E_search_ok_g refs_engine_ok E_defyear_ok_g
              (tokenize_text_cits_sorted s) (tokenize_text_cits_nonempty_all s) Hg)
    as [l0 [Hg0 [Hsub Hmeta]]].
  exists l0. rewrite get_citations_closed_eq. split; [exact Hg0|]. split; [exact Hsub|exact Hmeta].
Qed.

Theorem closed_metadata_final : forall this_year s l,
  s <> s_eyecite -> ws_clean is_space_gen s ->
  get_citations_closed this_year s false = Ok l ->
  Forall (meta_ok s l) l.
Proof.
  intros this_year s l Hne Hclean Hg.
  destruct (closed_metadata_ra_final this_year s false l Hne Hclean Hg) as [l0 [Hg0 [_ H]]].
  rewrite Hg in Hg0. injection Hg0 as <-. exact H.
Qed.

(* ---- the premises are decidable ---- *)
Definition ws_cleanb (s : str) : bool :=
  forallb (fun c => negb (is_space_gen c) || N.eqb c 32) s.

Lemma ws_cleanb_sound : forall s, ws_cleanb s = true -> ws_clean is_space_gen s.
Proof.
  intros s H c Hc Hsp. pose proof (proj1 (forallb_forall _ _) H c Hc) as Hb. cbv beta in Hb.
  rewrite Hsp in Hb. cbn [negb orb] in Hb. apply N.eqb_eq. exact Hb.
Qed.

Definition odd_short_rows_silentb (s : str) : bool :=
  forallb (fun x => if row_short_ok x then true
                    else match tokens_of U x s with [] => true | _ => false end) xtable.

Lemma odd_short_rows_silentb_sound : forall s,
  odd_short_rows_silentb s = true -> odd_short_rows_silent s.
Proof.
  intros s H x Hx Hrow.
  pose proof (proj1 (forallb_forall _ xtable) H x Hx) as Hb. cbv beta in Hb.
  rewrite Hrow in Hb. destruct (tokens_of U x s); [reflexivity|discriminate Hb].
Qed.

(* ---- non-vacuity: "Foo v. Bar, 1 U.S. 1 (1999). Id. at 5." ---- *)
Definition s_example : str := [70;111;111;32;118;46;32;66;97;114;44;32;49;32;85;46;83;46;32;49;32;40;49;57;57;57;41;46;32;73;100;46;32;97;116;32;53;46]%N.

Example final_premises_hold :
  s_example <> s_eyecite /\ ws_clean is_space_gen s_example /\
  exists l, get_citations_closed 2026 s_example false = Ok l /\ length l = 2.
Proof.
  split.
  { intros H. apply (f_equal (@length N)) in H. vm_compute in H. discriminate H. }
  split.
  { apply ws_cleanb_sound. vm_compute. reflexivity. }
  vm_compute. eexists. split; reflexivity.
Qed.

(* hence, for this text, the conclusions hold unconditionally *)
Example final_example_offsets : forall l,
  get_citations_closed 2026 s_example false = Ok l -> Forall (offsets_ok s_example) l.
Proof.
  intros l Hg. destruct final_premises_hold as [H1 [H2 _]].
  exact (closed_offsets_final 2026 s_example false l H1 H2 Hg).
Qed.

(* ---- the repaired short form: "Foo, 19 CO at 12M, 15 (holding x)".  The token "19 CO at 12M" does
   not end with its page "12" (Proofs/ShortPage.v); before the repair the pin cite was "12, 15",
   which is not in the text; now it is "15" ---- *)
Definition s_example_short : str := [70;111;111;44;32;49;57;32;67;79;32;97;116;32;49;50;77;44;32;49;53;32;40;104;111;108;100;105;110;103;32;120;41]%N.

Example final_example_short :
  s_example_short <> s_eyecite /\ ws_clean is_space_gen s_example_short /\
  exists c, get_citations_closed 2026 s_example_short false = Ok [c] /\
            p_cls c = CShort /\ p_pin c = Some [49;53]%N.
Proof.
  split.
  { intros H. apply (f_equal (@length N)) in H. vm_compute in H. discriminate H. }
  split.
  { apply ws_cleanb_sound. vm_compute. reflexivity. }
  vm_compute. eexists. repeat split.
Qed.

Example final_example_short_offsets : forall l,
  get_citations_closed 2026 s_example_short false = Ok l ->
  Forall (offsets_ok s_example_short) l /\ Forall (meta_ok s_example_short l) l.
Proof.
  intros l Hg. destruct final_example_short as [H1 [H2 _]]. split.
  - exact (closed_offsets_final 2026 s_example_short false l H1 H2 Hg).
  - exact (closed_metadata_final 2026 s_example_short l H1 H2 Hg).
Qed.

Print Assumptions closed_offsets_final.
Print Assumptions closed_metadata_final.
Print Assumptions closed_metadata_ra_final.
Print Assumptions final_premises_hold.
Print Assumptions final_example_offsets.
Print Assumptions final_example_short.
Print Assumptions final_example_short_offsets.
