(* Proofs/FilterMerge.v -- C19: adding reference citations never disturbs the
   non-reference citations returned by filter_citations. *)
From EV Require Import Base.Str Model.Filter Proofs.FilterProofs.
From Coq Require Import Sorting.Sorted Sorting.Permutation.
Open Scope Z_scope.

Definition nonrefs (l : list fc) : list fc := filter (fun c => negb (f_ref c)) l.

(* l2 is l1 with extra reference citations inserted at arbitrary positions *)
Inductive ref_insertion : list fc -> list fc -> Prop :=
| ri_nil : ref_insertion [] []
| ri_keep : forall x l1 l2, ref_insertion l1 l2 -> ref_insertion (x :: l1) (x :: l2)
| ri_ins : forall r l1 l2, f_ref r = true -> ref_insertion l1 l2 -> ref_insertion l1 (r :: l2).

(* ---- helpers ---- *)

Lemma nonrefs_in l c : In c (nonrefs l) <-> In c l /\ f_ref c = false.
Proof.
  unfold nonrefs. rewrite filter_In. split; intros [H1 H2]; split; try exact H1.
  - apply negb_true_iff in H2. exact H2.
  - apply negb_true_iff. exact H2.
Qed.

Lemma SS_filter {A} (R : A -> A -> Prop) (f : A -> bool) l :
  StronglySorted R l -> StronglySorted R (filter f l).
Proof.
  intros HS. induction HS as [|a l HS IH HF]; cbn [filter].
  - constructor.
  - destruct (f a); [|exact IH]. constructor; [exact IH|].
    rewrite Forall_forall in *. intros x Hx. apply filter_In in Hx. apply HF, Hx.
Qed.

Lemma last_in l c : is_last_with_span l c -> In c l.
Proof. intros (l1 & l2 & -> & _). apply in_or_app. right; left; reflexivity. Qed.

Lemma last_cons x l c :
  is_last_with_span (x :: l) c <->
  (x = c /\ forall y, In y l -> zspan_eqb (f_span y) (f_span c) = false) \/ is_last_with_span l c.
Proof.
  split.
  - intros (l1 & l2 & Heq & H2). destruct l1 as [|x' l1']; cbn [app] in Heq.
    + injection Heq as -> ->. left. split; [reflexivity|exact H2].
    + injection Heq as _ ->. right. exists l1', l2. split; [reflexivity|exact H2].
  - intros [[-> H2]|(l1 & l2 & -> & H2)].
    + exists [], l. split; [reflexivity|exact H2].
    + exists (x :: l1), l2. split; [reflexivity|exact H2].
Qed.

Lemma ri_incl l1 l2 : ref_insertion l1 l2 -> forall y, In y l1 -> In y l2.
Proof.
  intros HR. induction HR as [|x l1 l2 HR IH|r l1 l2 Hr HR IH]; intros y Hy.
  - exact Hy.
  - destruct Hy as [<-|Hy]; [left; reflexivity|right; apply IH, Hy].
  - right. apply IH, Hy.
Qed.

Lemma ri_back l1 l2 : ref_insertion l1 l2 -> forall y, In y l2 -> In y l1 \/ f_ref y = true.
Proof.
  intros HR. induction HR as [|x l1 l2 HR IH|r l1 l2 Hr HR IH]; intros y Hy.
  - left; exact Hy.
  - destruct Hy as [<-|Hy]; [left; left; reflexivity|].
    destruct (IH y Hy) as [H|H]; [left; right; exact H|right; exact H].
  - destruct Hy as [<-|Hy]; [right; exact Hr|apply IH, Hy].
Qed.

(* The weakest hypothesis the argument needs, for one fixed non-reference c:
   no reference of l2 has the span of c. *)
Lemma ri_last l1 l2 : ref_insertion l1 l2 -> forall c,
  f_ref c = false ->
  (forall r, In r l2 -> f_ref r = true -> zspan_eqb (f_span r) (f_span c) = false) ->
  (is_last_with_span l1 c <-> is_last_with_span l2 c).
Proof.
  intros HR. induction HR as [|x l1 l2 HR IH|r l1 l2 Hr HR IH]; intros c Hc Hrefs.
  - reflexivity.
  - assert (Hrefs' : forall r, In r l2 -> f_ref r = true ->
                                zspan_eqb (f_span r) (f_span c) = false)
      by (intros r Hin; apply Hrefs; right; exact Hin).
    rewrite !last_cons, (IH c Hc Hrefs').
    assert (Hall : (forall y, In y l1 -> zspan_eqb (f_span y) (f_span c) = false) <->
                   (forall y, In y l2 -> zspan_eqb (f_span y) (f_span c) = false)).
    { split; intros H y Hy.
      - destruct (ri_back _ _ HR y Hy) as [H1|H1]; [apply H, H1|apply Hrefs', H1; exact Hy].
      - apply H. eapply ri_incl; [exact HR|exact Hy]. }
    rewrite Hall. reflexivity.
  - assert (Hrefs' : forall r, In r l2 -> f_ref r = true ->
                                zspan_eqb (f_span r) (f_span c) = false)
      by (intros r0 Hin; apply Hrefs; right; exact Hin).
    rewrite last_cons, (IH c Hc Hrefs'). split.
    + intros H; right; exact H.
    + intros [[-> _]|H]; [congruence|exact H].
Qed.

Lemma nonrefs_filter_in l c :
  In c (nonrefs (filter_citations l)) <-> is_last_with_span l c /\ f_ref c = false.
Proof.
  rewrite nonrefs_in. split; intros [H1 H2]; (split; [|exact H2]).
  - apply filter_subset, H1.
  - apply filter_keeps_nonrefs; assumption.
Qed.

Lemma nonrefs_filter_sorted l : StronglySorted span_lt (nonrefs (filter_citations l)).
Proof. apply SS_filter, filter_sorted. Qed.

(* General form: the per-element hypothesis, only about non-references that are
   last-with-their-span in one of the lists (those are the only candidates). *)
Theorem filter_nonrefs_insensitive_gen : forall l1 l2,
  ref_insertion l1 l2 ->
  (forall r c, In r l2 -> f_ref r = true -> In c l2 -> f_ref c = false ->
               zspan_eqb (f_span r) (f_span c) = false) ->
  forall c, In c (nonrefs (filter_citations l2)) <-> In c (nonrefs (filter_citations l1)).
Proof.
  intros l1 l2 HR H c. rewrite !nonrefs_filter_in. split; intros [H1 H2]; (split; [|exact H2]).
  - assert (Hin : In c l2) by (apply last_in, H1).
    apply (ri_last l1 l2 HR c H2); [|exact H1].
    intros r Hr Hrr. apply (H r c Hr Hrr Hin H2).
  - assert (Hin : In c l2) by (eapply ri_incl; [exact HR|apply last_in, H1]).
    apply (ri_last l1 l2 HR c H2); [|exact H1].
    intros r Hr Hrr. apply (H r c Hr Hrr Hin H2).
Qed.

(* if no inserted reference has the span of a non-reference citation of the list, the
   non-reference citations returned by the filter are exactly the same, in the same order *)
Theorem filter_nonrefs_insensitive : forall l1 l2,
  ref_insertion l1 l2 ->
  (forall r c, In r l2 -> f_ref r = true -> In c l2 -> f_ref c = false ->
               zspan_eqb (f_span r) (f_span c) = false) ->
  nonrefs (filter_citations l2) = nonrefs (filter_citations l1).
Proof.
  intros l1 l2 HR H. apply sorted_unique.
  - apply nonrefs_filter_sorted.
  - apply nonrefs_filter_sorted.
  - apply NoDup_Permutation.
    + eapply NoDup_map_inv. apply span_lt_nodup, nonrefs_filter_sorted.
    + eapply NoDup_map_inv. apply span_lt_nodup, nonrefs_filter_sorted.
    + apply filter_nonrefs_insensitive_gen; assumption.
Qed.
