(* Proofs/PureProofs.v -- C15: order- and history-independence.
   1. extractor selection does not depend on the order/multiplicity of filter hits;
   2. the candidate sort is stable, so the token stream only depends on, for every
      key, the candidates with that key in generation order;
   3. memoisation cells are transparent, sequentially and under every interleaving. *)
From EV Require Import Base.Str Model.Tokenize Model.Pure Proofs.TokenizeProofs.
From Coq Require Import Sorting.Permutation Sorting.Sorted.

(* ------------------------------------------------------------------ *)
(* 1. selection                                                        *)
(* ------------------------------------------------------------------ *)

Theorem select_order_free : forall E (eqb : E -> E -> bool) exts unfiltered hits hits',
  (forall e, existsb (eqb e) hits = existsb (eqb e) hits') ->
  select E eqb exts unfiltered hits = select E eqb exts unfiltered hits'.
Proof.
  intros E eqb exts unfiltered hits hits' Hsame. unfold select.
  apply filter_ext. intros e. rewrite Hsame. reflexivity.
Qed.

Lemma filter_split {A} (p : A -> bool) (l : list A) : forall a x b,
  filter p l = a ++ x :: b ->
  exists m1 m2, l = m1 ++ x :: m2 /\ filter p m1 = a /\ filter p m2 = b.
Proof.
  induction l as [|y l IH]; intros a x b Heq; cbn [filter] in Heq.
  - destruct a; discriminate Heq.
  - destruct (p y) eqn:Epy.
    + destruct a as [|a0 a]; cbn [app] in Heq.
      * injection Heq as Hyx Hb. subst y.
        exists [], l. cbn [app filter]. repeat split; auto.
      * injection Heq as Hya Hrest. subst a0.
        destruct (IH _ _ _ Hrest) as (m1 & m2 & Hl & Hm1 & Hm2).
        exists (y :: m1), m2. cbn [app filter]. rewrite Epy, Hm1, Hl.
        repeat split; auto.
    + destruct (IH _ _ _ Heq) as (m1 & m2 & Hl & Hm1 & Hm2).
      exists (y :: m1), m2. cbn [app filter]. rewrite Epy, Hl.
      repeat split; auto.
Qed.

Theorem select_sublist_order : forall E (eqb : E -> E -> bool) exts unfiltered hits e1 e2 l1 l2 l3,
  select E eqb exts unfiltered hits = l1 ++ e1 :: l2 ++ e2 :: l3 ->
  exists m1 m2 m3, exts = m1 ++ e1 :: m2 ++ e2 :: m3.
Proof.
  intros E eqb exts unfiltered hits e1 e2 l1 l2 l3 Hsel. unfold select in Hsel.
  destruct (filter_split _ _ _ _ _ Hsel) as (m1 & r & Hexts & _ & Hr).
  destruct (filter_split _ _ _ _ _ Hr) as (m2 & m3 & Hr' & _ & _).
  exists m1, m2, m3. rewrite Hexts, Hr'. reflexivity.
Qed.

(* ------------------------------------------------------------------ *)
(* 2. stability of the sort                                            *)
(* ------------------------------------------------------------------ *)

Lemma tok_lt_true a b :
  tok_lt a b = true <->
  (t_start a < t_start b \/ (t_start a = t_start b /\ t_end b < t_end a)).
Proof.
  unfold tok_lt. rewrite orb_true_iff, andb_true_iff, !Nat.ltb_lt, Nat.eqb_eq. tauto.
Qed.

Lemma tok_lt_false a b :
  tok_lt a b = false <->
  (t_start b < t_start a \/ (t_start a = t_start b /\ t_end a <= t_end b)).
Proof.
  destruct (tok_lt a b) eqn:E.
  - apply tok_lt_true in E. split; [discriminate|lia].
  - split; [intros _|reflexivity].
    assert (Hn : ~ (t_start a < t_start b \/ (t_start a = t_start b /\ t_end b < t_end a))).
    { intros H. apply tok_lt_true in H. congruence. }
    lia.
Qed.

Lemma tkey_eqb_eq a b : tkey_eqb a b = true <-> a = b.
Proof.
  unfold tkey_eqb. destruct a as [a1 a2], b as [b1 b2]. cbn [fst snd].
  rewrite andb_true_iff, !Nat.eqb_eq. split.
  - intros [H1 H2]. congruence.
  - intros H. injection H as H1 H2. auto.
Qed.

Lemma tkey_eqb_refl a : tkey_eqb a a = true.
Proof. apply tkey_eqb_eq. reflexivity. Qed.

Lemma tkey_eq a b : tkey a = tkey b <-> (t_start a = t_start b /\ t_end a = t_end b).
Proof.
  unfold tkey. split.
  - intros H. injection H as H1 H2. auto.
  - intros [H1 H2]. congruence.
Qed.

(* non-strict key order: a may stand before b *)
Definition key_le (a b : tok) : Prop := tok_lt b a = false.

Lemma key_le_trans a b c : key_le a b -> key_le b c -> key_le a c.
Proof. unfold key_le. rewrite !tok_lt_false. lia. Qed.

Lemma key_le_antisym a b : key_le a b -> key_le b a -> tkey a = tkey b.
Proof. unfold key_le. rewrite !tok_lt_false, tkey_eq. lia. Qed.

Lemma tok_lt_key_le a b : tok_lt a b = true -> key_le a b.
Proof. unfold key_le. rewrite tok_lt_true, tok_lt_false. lia. Qed.

Lemma tok_lt_key_neq a b : tok_lt a b = true -> tkey a <> tkey b.
Proof. rewrite tok_lt_true, tkey_eq. lia. Qed.

Lemma insert_key_sorted x l :
  StronglySorted key_le l -> StronglySorted key_le (insert_tok x l).
Proof.
  induction 1 as [|y l Hs IH Hy]; cbn [insert_tok].
  - constructor; constructor.
  - destruct (tok_lt y x) eqn:E.
    + constructor; [exact IH|]. apply insert_Forall; [|exact Hy].
      apply tok_lt_key_le; exact E.
    + constructor.
      * constructor; assumption.
      * constructor; [exact E|].
        eapply Forall_impl; [|exact Hy].
        intros z Hz. eapply key_le_trans; [exact E|exact Hz].
Qed.

Lemma sort_key_sorted l : StronglySorted key_le (sort_toks l).
Proof.
  unfold sort_toks. induction l as [|x l IH]; cbn [fold_right].
  - constructor.
  - apply insert_key_sorted, IH.
Qed.

(* insertion keeps, for every key, the generation order *)
Lemma insert_with_key k x l : with_key k (insert_tok x l) = with_key k (x :: l).
Proof.
  induction l as [|y l IH]; cbn [insert_tok]; [reflexivity|].
  destruct (tok_lt y x) eqn:E; [|reflexivity].
  unfold with_key in *. cbn [filter] in *. rewrite IH.
  destruct (tkey_eqb (tkey y) k) eqn:Ey; destruct (tkey_eqb (tkey x) k) eqn:Ex; try reflexivity.
  apply tkey_eqb_eq in Ey, Ex. apply tok_lt_key_neq in E. congruence.
Qed.

Lemma with_key_cons k x l :
  with_key k (x :: l) = if tkey_eqb (tkey x) k then x :: with_key k l else with_key k l.
Proof. reflexivity. Qed.

Lemma sort_with_key k l : with_key k (sort_toks l) = with_key k l.
Proof.
  unfold sort_toks. induction l as [|x l IH]; cbn [fold_right]; [reflexivity|].
  rewrite insert_with_key, !with_key_cons, IH. reflexivity.
Qed.

Lemma with_key_In k t l : In t (with_key k l) <-> In t l /\ tkey t = k.
Proof. unfold with_key. rewrite filter_In, tkey_eqb_eq. tauto. Qed.

(* a sorted list is determined by its key classes *)
Lemma sorted_classes_unique l1 : forall l2,
  StronglySorted key_le l1 -> StronglySorted key_le l2 ->
  (forall k, with_key k l1 = with_key k l2) -> l1 = l2.
Proof.
  induction l1 as [|a l1 IH]; intros l2 Hs1 Hs2 Hk.
  - destruct l2 as [|b l2]; [reflexivity|].
    specialize (Hk (tkey b)). rewrite with_key_cons, tkey_eqb_refl in Hk. discriminate Hk.
  - destruct l2 as [|b l2].
    { specialize (Hk (tkey a)). rewrite with_key_cons, tkey_eqb_refl in Hk. discriminate Hk. }
    apply StronglySorted_inv in Hs1. destruct Hs1 as [Hs1 Ha].
    apply StronglySorted_inv in Hs2. destruct Hs2 as [Hs2 Hb].
    assert (Hkey : tkey a = tkey b).
    { destruct (tkey_eqb (tkey a) (tkey b)) eqn:Eab; [apply tkey_eqb_eq; exact Eab|].
      assert (Hne : tkey a <> tkey b).
      { intros H. apply tkey_eqb_eq in H. congruence. }
      (* a occurs in l2, b occurs in l1 *)
      assert (Ha2 : In a l2).
      { assert (Hin : In a (with_key (tkey a) (b :: l2))).
        { rewrite <- Hk, with_key_cons, tkey_eqb_refl. left; reflexivity. }
        apply with_key_In in Hin. destruct Hin as [[Hin|Hin] _]; [|exact Hin].
        subst b. congruence. }
      assert (Hb1 : In b l1).
      { assert (Hin : In b (with_key (tkey b) (a :: l1))).
        { rewrite Hk, with_key_cons, tkey_eqb_refl. left; reflexivity. }
        apply with_key_In in Hin. destruct Hin as [[Hin|Hin] _]; [|exact Hin].
        subst b. congruence. }
      rewrite Forall_forall in Ha, Hb.
      apply key_le_antisym; [apply Ha; exact Hb1|apply Hb; exact Ha2]. }
    assert (Hab : a = b).
    { specialize (Hk (tkey a)). rewrite !with_key_cons, <- Hkey, tkey_eqb_refl in Hk.
      injection Hk as Hab _. exact Hab. }
    subst b. f_equal. apply IH; [exact Hs1|exact Hs2|].
    intros k. specialize (Hk k). rewrite !with_key_cons in Hk.
    destruct (tkey_eqb (tkey a) k); [injection Hk as Hk|]; exact Hk.
Qed.

Theorem sort_toks_stable : forall c1 c2,
  (forall k, with_key k c1 = with_key k c2) -> sort_toks c1 = sort_toks c2.
Proof.
  intros c1 c2 Hk. apply sorted_classes_unique; try apply sort_key_sorted.
  intros k. rewrite !sort_with_key. apply Hk.
Qed.

Theorem tokenize_order_free : forall text nominative c1 c2,
  (forall k, with_key k c1 = with_key k c2) -> tokenize text nominative c1 = tokenize text nominative c2.
Proof.
  intros text nominative c1 c2 Hk. unfold tokenize.
  rewrite (sort_toks_stable c1 c2 Hk). reflexivity.
Qed.

Lemma filter_Permutation {A} (p : A -> bool) (l1 l2 : list A) :
  Permutation l1 l2 -> Permutation (filter p l1) (filter p l2).
Proof.
  induction 1 as [|x l1 l2 Hp IH|x y l|l1 l2 l3 Hp1 IH1 Hp2 IH2]; cbn [filter].
  - constructor.
  - destruct (p x); [constructor|]; exact IH.
  - destruct (p x), (p y); try apply Permutation_refl. apply perm_swap.
  - eapply Permutation_trans; eassumption.
Qed.

Lemma with_key_absent k l : ~ In k (map tkey l) -> with_key k l = [].
Proof.
  induction l as [|x l IH]; intros Hn; [reflexivity|].
  rewrite with_key_cons. cbn [map In] in Hn.
  destruct (tkey_eqb (tkey x) k) eqn:E.
  - apply tkey_eqb_eq in E. tauto.
  - apply IH. tauto.
Qed.

Lemma with_key_NoDup k l : NoDup (map tkey l) -> length (with_key k l) <= 1.
Proof.
  induction l as [|x l IH]; intros Hnd; cbn [map] in Hnd.
  - cbn. lia.
  - apply NoDup_cons_iff in Hnd. destruct Hnd as [Hx Hnd].
    rewrite with_key_cons. destruct (tkey_eqb (tkey x) k) eqn:E.
    + apply tkey_eqb_eq in E. subst k. rewrite with_key_absent by exact Hx. cbn. lia.
    + apply IH; exact Hnd.
Qed.

Theorem tokenize_perm_no_ties : forall text nominative c1 c2,
  Permutation c1 c2 -> NoDup (map tkey c1) -> tokenize text nominative c1 = tokenize text nominative c2.
Proof.
  intros text nominative c1 c2 Hp Hnd. apply tokenize_order_free. intros k.
  pose proof (with_key_NoDup k c1 Hnd) as Hlen.
  pose proof (filter_Permutation (fun t => tkey_eqb (tkey t) k) c1 c2 Hp) as Hpk.
  fold (with_key k c1) in Hpk. fold (with_key k c2) in Hpk.
  destruct (with_key k c1) as [|a [|a' r]].
  - apply Permutation_nil in Hpk. congruence.
  - apply Permutation_length_1_inv in Hpk. congruence.
  - cbn [length] in Hlen. lia.
Qed.

(* ------------------------------------------------------------------ *)
(* 3. memoisation                                                      *)
(* ------------------------------------------------------------------ *)

(* the key comparison only identifies equal keys *)
Definition keqb_sound {K} (keqb : K -> K -> bool) : Prop :=
  forall a b : K, keqb a b = true -> a = b.

(* The statement
     forall K V keqb f m k, memo_ok K V keqb f m ->
       fst (get K V keqb f m k) = f k /\ memo_ok K V keqb f (snd (get K V keqb f m k))
   is false without [keqb_sound]: a comparison that identifies distinct keys makes the
   cell filled for one key answer for another. *)
Theorem memo_get_unsound_keqb_counterexample :
  ~ (forall K V keqb (f : K -> V) m k,
       memo_ok K V keqb f m ->
       fst (get K V keqb f m k) = f k /\ memo_ok K V keqb f (snd (get K V keqb f m k))).
Proof.
  intros H.
  destruct (H nat nat (fun _ _ => true) (fun n => n) [] 0) as [_ Hok].
  - intros k v Hf. discriminate Hf.
  - specialize (Hok 1 0 eq_refl). discriminate Hok.
Qed.

(* the value half holds unconditionally *)
Theorem memo_get_value : forall K V keqb (f : K -> V) m k,
  memo_ok K V keqb f m -> fst (get K V keqb f m k) = f k.
Proof.
  intros K V keqb f m k Hok. unfold get.
  destruct (mfind K V keqb k m) as [v|] eqn:Ef; cbn [fst]; [|reflexivity].
  apply Hok; exact Ef.
Qed.

Lemma memo_ok_store K V keqb (f : K -> V) m k :
  keqb_sound keqb -> memo_ok K V keqb f m -> memo_ok K V keqb f ((k, f k) :: m).
Proof.
  intros Hsound Hok k0 v Hf. cbn [mfind] in Hf.
  destruct (keqb k0 k) eqn:E.
  - apply Hsound in E. subst k0. congruence.
  - apply Hok; exact Hf.
Qed.

(* closest true variant of the requested [memo_get]: extra hypothesis [keqb_sound keqb]
   (the same hypothesis [memo_interleavings] carries) *)
Theorem memo_get : forall K V keqb (f : K -> V) m k,
  keqb_sound keqb ->
  memo_ok K V keqb f m ->
  fst (get K V keqb f m k) = f k /\ memo_ok K V keqb f (snd (get K V keqb f m k)).
Proof.
  intros K V keqb f m k Hsound Hok. split; [apply memo_get_value; exact Hok|].
  unfold get. destruct (mfind K V keqb k m) as [v|] eqn:Ef; cbn [snd]; [exact Hok|].
  apply memo_ok_store; assumption.
Qed.

Lemma tstep_ok K V keqb (f : K -> V) m t :
  keqb_sound keqb -> memo_ok K V keqb f m -> thread_ok K V f t ->
  memo_ok K V keqb f (fst (tstep K V keqb f m t)) /\
  thread_ok K V f (snd (tstep K V keqb f m t)).
Proof.
  intros Hsound Hm Ht. unfold tstep.
  destruct (pending K V t) as [k|] eqn:Ep; cbn [fst snd].
  - split; [apply memo_ok_store; assumption|].
    intros k0 v Hin. cbn [got In] in Hin. destruct Hin as [Hin|Hin].
    + injection Hin as Hk Hv. subst k0. congruence.
    + apply Ht; exact Hin.
  - destruct (todo K V t) as [|k r] eqn:Et; cbn [fst snd]; [split; assumption|].
    destruct (mfind K V keqb k m) as [v|] eqn:Ef; cbn [fst snd]; (split; [exact Hm|]).
    + intros k0 v0 Hin. cbn [got In] in Hin. destruct Hin as [Hin|Hin].
      * injection Hin as Hk Hv. subst k0 v0. apply Hm; exact Ef.
      * apply Ht; exact Hin.
    + intros k0 v0 Hin. cbn [got] in Hin. apply Ht; exact Hin.
Qed.

Lemma set_nth_Forall {A} (P : A -> Prop) x : forall i l,
  P x -> Forall P l -> Forall P (set_nth i x l).
Proof.
  intros i l Hx Hl. revert i.
  induction Hl as [|y l Hy Hl IH]; intros [|j]; cbn [set_nth]; constructor; auto.
Qed.

Lemma sched_step_ok K V keqb (f : K -> V) s i :
  keqb_sound keqb ->
  memo_ok K V keqb f (fst s) -> Forall (thread_ok K V f) (snd s) ->
  memo_ok K V keqb f (fst (sched_step K V keqb f s i)) /\
  Forall (thread_ok K V f) (snd (sched_step K V keqb f s i)).
Proof.
  intros Hsound Hm Hts. unfold sched_step.
  destruct (nth_error (snd s) i) as [t|] eqn:En; [|split; assumption].
  assert (Ht : thread_ok K V f t).
  { rewrite Forall_forall in Hts. apply Hts. eapply nth_error_In; exact En. }
  destruct (tstep_ok K V keqb f (fst s) t Hsound Hm Ht) as [Hm' Ht'].
  destruct (tstep K V keqb f (fst s) t) as [m' t']. cbn [fst snd] in *.
  split; [exact Hm'|]. apply set_nth_Forall; assumption.
Qed.

Theorem memo_interleavings : forall K V keqb (f : K -> V) m ts schedule,
  (forall a b, keqb a b = true -> a = b) ->
  memo_ok K V keqb f m -> Forall (thread_ok K V f) ts ->
  memo_ok K V keqb f (fst (run_schedule K V keqb f (m, ts) schedule)) /\
  Forall (thread_ok K V f) (snd (run_schedule K V keqb f (m, ts) schedule)).
Proof.
  intros K V keqb f m ts schedule Hsound Hm Hts. unfold run_schedule.
  change m with (fst (m, ts)) in Hm. change ts with (snd (m, ts)) in Hts.
  generalize dependent (m, ts). clear m ts.
  induction schedule as [|i schedule IH]; intros s Hm Hts; cbn [fold_left].
  - split; assumption.
  - destruct (sched_step_ok K V keqb f s i Hsound Hm Hts) as [Hm' Hts'].
    apply IH; assumption.
Qed.
