(* Proofs/ResolveSpec.v -- definitions used to STATE the resolution theorems
   (C06, C07, C08).  No proofs here. *)
From EV Require Import Base.Str Base.PyVal Model.Tokenize Model.Resolve.

(* object identity = position in the input list *)
Definition oids_ok (cs : list cit) : Prop :=
  forall i c, nth_error cs i = Some c -> oid c = i.

(* sub-sequence: same elements, same order, possibly with gaps *)
Inductive sublist {A} : list A -> list A -> Prop :=
| sub_nil : forall l, sublist [] l
| sub_take : forall x a l, sublist a l -> sublist (x :: a) (x :: l)
| sub_skip : forall x a l, sublist a l -> sublist a (x :: l).

(* restriction of a resolution map to the citations at positions < n *)
Definition restrict (n : nat) (r : list (key * list cit)) : list (key * list cit) :=
  filter (fun g => match snd g with [] => false | _ => true end)
         (map (fun g => (fst g, filter (fun c => oid c <? n) (snd g))) r).

(* the full-citation entries a resolver sees: the full citations of a prefix
   with their keys *)
Fixpoint fulls_of (p : list cit) : list full_entry :=
  match p with
  | [] => []
  | c :: p' => if is_full (c_cls c)
               then match key_of c with Ok k => (c, k) :: fulls_of p' | Err _ => fulls_of p' end
               else fulls_of p'
  end.

(* what the default resolver of a non-full citation returns, given the
   entries of the earlier full citations *)
Definition short_candidates (c : cit) (F : list full_entry) : list full_entry :=
  filter (fun fk =>
            cls_eqb (c_cls (fst fk)) FullCase &&
            match corrected_reporter c, corrected_reporter (fst fk) with
            | Ok rc, Ok rf => ostr_eqb rc rf
            | _, _ => false
            end &&
            ostr_eqb (gget k_volume (c_groups c)) (gget k_volume (c_groups (fst fk)))) F.

Definition ante_candidates (ag : str) (F : list full_entry) : list full_entry :=
  filter (fun fk => ante_matches ag (fst fk)) F.

Definition ref_candidates (names : list str) (F : list full_entry) : list full_entry :=
  filter (fun fk => ref_matches names (fst fk)) F.

(* "exactly one distinct key among the candidates, and it is k" *)
Definition only_key (k : key) (l : list full_entry) : Prop :=
  In k (map snd l) /\ forall k', In k' (map snd l) -> k' = k.

Definition member (r : list (key * list cit)) (k : key) (c : cit) : Prop :=
  exists m, In (k, m) r /\ In c m.
