(* Proofs/SearchDischarge.v -- the clauses of the contract search_ok (Proofs/PipeSpec.v) that
   hold BY THEOREM for the concrete metadata searches  E := engine_search UM meta_table :
   soundness of the engine for the declarative semantics with captures (Regex/DeclCapSound.v)
   plus kernel-run static analyses of the regenerated ASTs (Gen/MetaRegex.v).  What remains of
   search_ok is search_residual (two clauses); post_short_total is discharged. *)
From EV Require Import Base.Str Base.PyVal Regex.Syntax Regex.Decl Regex.Match Regex.MatchSound.
From EV Require Import Regex.DeclCap Regex.DeclCapSound.
From EV Require Import Model.Tokenize Model.Editions Model.Filter Model.Pipeline Model.SearchEngine.
From EV Require Import Model.E2E Model.E2EClosed.
From EV Require Import Proofs.PipeSpec Proofs.PipeMeta Proofs.SearchEngineProofs Proofs.ClosedCorollaries.
From EV Require Import Gen.Unicode Gen.MetaRegex.
Close Scope Z_scope.
Close Scope N_scope.
Open Scope nat_scope.

Definition E : pat -> str -> option mres := engine_search UM meta_table.

(* ---- group names -> group numbers ---- *)
Definition gnum (name : str) (names : list (str * nat)) : option nat :=
  match find (fun kn => str_eqb (fst kn) name) names with
  | Some kn => Some (snd kn)
  | None => None
  end.

Lemma gspan_to_mres : forall name names i j c,
  gspan name (m_groups (to_mres names (i, j, c))) =
  match gnum name names with Some n => cap_get n c | None => None end.
Proof.
  intros name names i j c. unfold gnum. cbn [to_mres m_groups].
  induction names as [|kn names IH]; cbn [map gspan find]; [reflexivity|].
  destruct (str_eqb (fst kn) name); [reflexivity|exact IH].
Qed.

(* ---- what the engine returns, with the capture-aware derivation ---- *)
Lemma engine_search_MC_inv : forall U0 table p w m,
  engine_search U0 table p w = Some m ->
  exists i j c, m = to_mres (snd (table p)) (i, j, c) /\
                MC U0 false w (fst (table p)) i [] j c.
Proof.
  intros U0 table p w m H. unfold engine_search in H.
  destruct (table p) as [r names] eqn:Ht. cbn [fst snd].
  assert (Hsearch : match search U0 false w r with
                    | Some res => Some (to_mres names res) | None => None end = Some m ->
          exists i j c, m = to_mres names (i, j, c) /\ MC U0 false w r i [] j c).
  { intros Hs. destruct (search U0 false w r) as [[[i j] c]|] eqn:Hsr; [|discriminate].
    injection Hs as Hs. subst m. exists i, j, c. split; [reflexivity|].
    exact (search_MC U0 false w r i j c Hsr). }
  destruct p; try (exact (Hsearch H)).
  destruct (fullmatch_at U0 w r) as [[j c]|] eqn:Hm; [|discriminate].
  injection H as H. subst m. exists 0, j, c. split; [reflexivity|].
  unfold fullmatch_at in Hm.
  destruct (m_MC U0 false w r 0 [] _ _ (Nat.le_0_l _) Hm) as [j' [c' [HMC Hk]]].
  destruct (Nat.eqb j' (length w)); [|discriminate].
  injection Hk as Hj' Hc'. subst j' c'. exact HMC.
Qed.

Lemma engine_search_not_year : forall U0 table p w,
  p <> PYearMatch ->
  engine_search U0 table p w =
  match search U0 false w (fst (table p)) with
  | Some res => Some (to_mres (snd (table p)) res)
  | None => None
  end.
Proof.
  intros U0 table p w Hp. unfold engine_search. destruct (table p) as [r names]. cbn [fst snd].
  destruct p; try reflexivity. contradiction.
Qed.

(* ---- 5. shape facts about the generated ASTs (kernel computation on the small ASTs) ---- *)
Definition bol_body (r : re) : option re :=
  match r with Cat Bol r' => Some r' | _ => None end.

Lemma bol_body_spec : forall r r', bol_body r = Some r' -> r = Cat Bol r'.
Proof.
  intros r r' H. destruct r as [| | | | | | | | |a b| | | |]; try discriminate.
  destruct a; try discriminate. cbn [bol_body] in H. injection H as H. subst. reflexivity.
Qed.

(* every forward pattern is  ^ body *)
Lemma fwd_bol : forall p, fwd_pat p = true -> exists r, fst (meta_table p) = Cat Bol r.
Proof.
  intros p Hp.
  assert (H : exists r, bol_body (fst (meta_table p)) = Some r).
  { destruct p; try discriminate Hp; vm_compute; eexists; reflexivity. }
  destruct H as [r Hr]. exists r. exact (bol_body_spec _ _ Hr).
Qed.

(* the pin_cite group of every forward pattern starts where the match starts *)
Lemma fwd_pin_starts : forall p, fwd_pat p = true ->
  exists n, gnum g_pin_cite (snd (meta_table p)) = Some n /\
            starts_at_begin n (fst (meta_table p)) = true.
Proof.
  intros p Hp. destruct p; try discriminate Hp; exists 1; split; vm_compute; reflexivity.
Qed.

(* the antecedent group of the short-form antecedent pattern is always set *)
Lemma short_ante_sets :
  gnum g_antecedent meta_PShortAnte_names = Some 1 /\ always_sets 1 meta_PShortAnte = true.
Proof. split; vm_compute; reflexivity. Qed.

(* the post-short-citation pattern is  ^ body  with a body that matches everywhere *)
Lemma post_short_shape :
  exists r, meta_PPostShort = Cat Bol r /\ always_matches r = true.
Proof.
  assert (H : exists r, bol_body meta_PPostShort = Some r /\ always_matches r = true).
  { vm_compute. eexists. split; reflexivity. }
  destruct H as [r [Hr Ha]]. exists r. split; [exact (bol_body_spec _ _ Hr)|exact Ha].
Qed.

(* ---- 6. the discharged clauses ---- *)
Theorem E_mres_ok : forall p w m, E p w = Some m -> mres_ok w m.
Proof. intros p w m H. exact (engine_mres_ok UM meta_table p w m H). Qed.

Lemma E_inv : forall p w m, E p w = Some m ->
  exists i j c, m = to_mres (snd (meta_table p)) (i, j, c) /\
                MC UM false w (fst (meta_table p)) i [] j c.
Proof. intros p w m H. exact (engine_search_MC_inv UM meta_table p w m H). Qed.

Lemma E_fwd_inv : forall p w m, fwd_pat p = true -> E p w = Some m ->
  exists j c, m = to_mres (snd (meta_table p)) (0, j, c) /\
              MC UM false w (fst (meta_table p)) 0 [] j c.
Proof.
  intros p w m Hp H. destruct (E_inv p w m H) as [i [j [c [Hm HMC]]]].
  destruct (fwd_bol p Hp) as [r Hr].
  assert (Hi : i = 0).
  { pose proof (MC_M UM false w _ _ _ _ _ HMC) as HM. rewrite Hr in HM.
    exact (bol_start UM false w r i j HM). }
  subst i. exists j, c. split; assumption.
Qed.

Theorem E_fwd_start : forall p w m, fwd_pat p = true -> E p w = Some m -> m_start m = 0.
Proof.
  intros p w m Hp H. destruct (E_fwd_inv p w m Hp H) as [j [c [Hm _]]]. subst m. reflexivity.
Qed.

Theorem E_pin_at_start : forall p w m, fwd_pat p = true -> E p w = Some m ->
  forall a b, gspan g_pin_cite (m_groups m) = Some (a, b) -> a = 0.
Proof.
  intros p w m Hp H a b Hg. destruct (E_fwd_inv p w m Hp H) as [j [c [Hm HMC]]]. subst m.
  rewrite gspan_to_mres in Hg.
  destruct (fwd_pin_starts p Hp) as [n [Hn Hs]]. rewrite Hn in Hg.
  apply (starts_at_begin_sound UM false w n _ 0 [] j c Hs HMC c a b); [|exact Hg].
  symmetry. apply app_nil_r.
Qed.

Theorem E_short_ante : forall w m, E PShortAnte w = Some m ->
  exists a b, gspan g_antecedent (m_groups m) = Some (a, b).
Proof.
  intros w m H. destruct (E_inv PShortAnte w m H) as [i [j [c [Hm HMC]]]]. subst m.
  cbn [meta_table fst snd] in HMC |- *.
  destruct short_ante_sets as [Hn Hs].
  destruct (always_sets_sound UM false w 1 _ i [] j c Hs HMC) as [pre [[a b] [Hpre Hg]]].
  rewrite app_nil_r in Hpre. subst pre.
  exists a, b. rewrite gspan_to_mres, Hn. exact Hg.
Qed.

Theorem E_post_short_total : forall w, E PPostShort w <> None.
Proof.
  intros w. unfold E. rewrite engine_search_not_year by discriminate.
  cbn [meta_table fst snd].
  destruct post_short_shape as [r [Hr Ha]]. rewrite Hr.
  pose proof (search_bol_total UM false w r Ha) as Ht.
  destruct (search UM false w (Cat Bol r)) as [res|]; [discriminate|contradiction].
Qed.

(* ---- 7. what remains of search_ok ---- *)
Definition search_residual (search : pat -> str -> option mres) : Prop :=
  forall p w m, search p w = Some m ->
    (bwd_pat p = true -> m_end m = length w) /\
    (* the parenthetical comment is the last group of the post-citation pattern *)
    (p = PPostFull -> forall a b, gspan g_parenthetical (m_groups m) = Some (a, b) ->
       b < m_end m /\
       forall k x y, In (k, Some (x, y)) (m_groups m) -> str_eqb k g_parenthetical = false -> (y <= a)%nat)%nat.

Theorem search_ok_of_residual : search_residual E -> search_ok E.
Proof.
  intros Hres p w m H. destruct (Hres p w m H) as [Hbwd Hpar].
  split; [exact (E_mres_ok p w m H)|].
  split; [intros Hp; exact (E_fwd_start p w m Hp H)|].
  split; [exact Hbwd|].
  split; [intros Hp; exact (E_pin_at_start p w m Hp H)|].
  split; [exact Hpar|].
  intros Hp. subst p. exact (E_short_ante w m H).
Qed.

(* the closed theorems with the smaller premises *)
Theorem closed_offsets'' : forall this_year s ra l,
  s <> s_eyecite -> short_page_ok s -> search_residual E ->
  get_citations_closed this_year s ra = Ok l ->
  Forall (offsets_ok s) l.
Proof.
  intros this_year s ra l Hne Hsp Hres Hg.
  exact (closed_offsets' this_year s ra l Hne Hsp (search_ok_of_residual Hres)
           E_post_short_total Hg).
Qed.

Theorem closed_metadata'' : forall this_year s l,
  s <> s_eyecite -> short_page_ok s -> search_residual E -> defyear_ok E ->
  get_citations_closed this_year s false = Ok l ->
  Forall (meta_ok s l) l.
Proof.
  intros this_year s l Hne Hsp Hres Hd Hg.
  exact (closed_metadata' this_year s l Hne Hsp (search_ok_of_residual Hres) Hd Hg).
Qed.

Theorem closed_metadata_ra'' : forall this_year s ra l,
  s <> s_eyecite -> short_page_ok s -> search_residual E -> defyear_ok E ->
  get_citations_closed this_year s ra = Ok l ->
  exists l0, get_citations_closed this_year s false = Ok l0 /\
             (forall c, In c l -> In c l0) /\ Forall (meta_ok s l0) l.
Proof.
  intros this_year s ra l Hne Hsp Hres Hd Hg.
  exact (closed_metadata_ra' this_year s ra l Hne Hsp (search_ok_of_residual Hres) Hd Hg).
Qed.

Print Assumptions E_mres_ok.
Print Assumptions E_fwd_start.
Print Assumptions E_pin_at_start.
Print Assumptions E_short_ante.
Print Assumptions E_post_short_total.
Print Assumptions search_ok_of_residual.
Print Assumptions closed_offsets''.
Print Assumptions closed_metadata''.
Print Assumptions closed_metadata_ra''.
