(* Proofs/ResolveProofs.v -- C06 (faithful ordered partition), C07 (no
   guessing) and C08 (online) for the resolution model of Model/Resolve.v. *)
From EV Require Import Base.Str Base.PyVal Model.Tokenize Model.Resolve Proofs.ResolveSpec.

(* ================================================================== *)
(* key equality is Leibniz equality                                    *)
(* ================================================================== *)

Lemma cls_eqb_eq a b : cls_eqb a b = true <-> a = b.
Proof. destruct a, b; cbn; split; intro H; try reflexivity; discriminate H. Qed.

Lemma ostr_eqb_eq a b : ostr_eqb a b = true <-> a = b.
Proof.
  destruct a as [x|], b as [y|]; cbn; try (split; congruence).
  rewrite str_eqb_eq. split; congruence.
Qed.

Lemma oostr_eqb_eq a b : oostr_eqb a b = true <-> a = b.
Proof.
  destruct a as [x|], b as [y|]; cbn; try (split; congruence).
  rewrite ostr_eqb_eq. split; congruence.
Qed.

Lemma lnat_eqb_eq a b : lnat_eqb a b = true <-> a = b.
Proof.
  revert b; induction a as [|x a IH]; intros [|y b]; cbn; try (split; congruence).
  rewrite andb_true_iff, Nat.eqb_eq, IH. split.
  - intros [-> ->]; reflexivity.
  - intros H; injection H as -> ->; auto.
Qed.

Lemma glist_eqb_eq a b : glist_eqb a b = true <-> a = b.
Proof.
  revert b; induction a as [|[k1 v1] a IH]; intros [|[k2 v2] b]; cbn; try (split; congruence).
  rewrite !andb_true_iff, str_eqb_eq, ostr_eqb_eq, IH. split.
  - intros [[-> ->] ->]; reflexivity.
  - intros H; injection H as -> -> ->; auto.
Qed.

Theorem key_eqb_eq : forall a b, key_eqb a b = true <-> a = b.
Proof.
  intros a b; destruct a, b; cbn; try (split; congruence).
  - rewrite !andb_true_iff, cls_eqb_eq, oostr_eqb_eq, str_eqb_eq, ostr_eqb_eq. split.
    + intros [[[-> ->] ->] ->]; reflexivity.
    + intros H; injection H as -> -> -> ->; auto.
  - rewrite !andb_true_iff, cls_eqb_eq, glist_eqb_eq, lnat_eqb_eq. split.
    + intros [[-> ->] ->]; reflexivity.
    + intros H; injection H as -> -> ->; auto.
  - rewrite Nat.eqb_eq. split; congruence.
Qed.

Lemma key_eqb_refl k : key_eqb k k = true.
Proof. apply key_eqb_eq; reflexivity. Qed.

Lemma key_eqb_neq a b : key_eqb a b = false <-> a <> b.
Proof.
  split.
  - intros H E. apply key_eqb_eq in E. congruence.
  - intros H. destruct (key_eqb a b) eqn:E; [|reflexivity].
    apply key_eqb_eq in E. contradiction.
Qed.

Lemma existsb_key_in k l : existsb (key_eqb k) l = true <-> In k l.
Proof.
  rewrite existsb_exists. split.
  - intros [x [Hin Hx]]. apply key_eqb_eq in Hx. subst; assumption.
  - intros Hin. exists k. split; [assumption|apply key_eqb_refl].
Qed.

(* ================================================================== *)
(* generic list facts                                                  *)
(* ================================================================== *)

Lemma NoDup_insert {A} (a : A) l l' :
  NoDup (l ++ l') -> ~ In a (l ++ l') -> NoDup (l ++ a :: l').
Proof.
  induction l as [|x l IH]; cbn; intros Hnd Hni.
  - constructor; assumption.
  - inversion Hnd as [|y t Hx Hnd']; subst. constructor.
    + rewrite in_app_iff in *. cbn. intros [H|[H|H]]; [tauto| |tauto].
      apply Hni. left; congruence.
    + apply IH; [assumption|]. intros H; apply Hni; right; exact H.
Qed.

Lemma filter_all_true {A} (f : A -> bool) l :
  (forall x, In x l -> f x = true) -> filter f l = l.
Proof.
  induction l as [|x l IH]; cbn; intros H; [reflexivity|].
  rewrite (H x (or_introl eq_refl)). f_equal. apply IH. intros y Hy; apply H; right; exact Hy.
Qed.

Lemma map_snd_filter_in {A B} (f : A * B -> bool) l k :
  In k (map snd (filter f l)) -> In k (map snd l).
Proof.
  rewrite !in_map_iff. intros [x [Hx Hin]]. apply filter_In in Hin.
  exists x; tauto.
Qed.

(* ---- sublist ---- *)

Lemma sublist_refl {A} (l : list A) : sublist l l.
Proof. induction l; constructor; assumption. Qed.

Lemma sublist_app_r {A} (m p l : list A) : sublist m p -> sublist m (p ++ l).
Proof. induction 1; cbn; constructor; assumption. Qed.

Lemma sublist_snoc {A} (m p : list A) c : sublist m p -> sublist (m ++ [c]) (p ++ [c]).
Proof.
  induction 1 as [l|x a l H IH|x a l H IH]; cbn.
  - induction l as [|y l IH]; cbn.
    + constructor; constructor.
    + apply sub_skip; exact IH.
  - apply sub_take; exact IH.
  - apply sub_skip; exact IH.
Qed.

Lemma sublist_In {A} (m p : list A) x : sublist m p -> In x m -> In x p.
Proof.
  induction 1 as [l|y a l H IH|y a l H IH]; cbn; intros Hin.
  - contradiction.
  - destruct Hin as [->|Hin]; [left; reflexivity|right; apply IH; exact Hin].
  - right; apply IH; exact Hin.
Qed.

(* ---- oids_ok ---- *)

Lemma oids_ok_app_l l1 l2 : oids_ok (l1 ++ l2) -> oids_ok l1.
Proof.
  intros H i c Hi. apply H. rewrite nth_error_app1; [exact Hi|].
  apply nth_error_Some. congruence.
Qed.

Lemma oids_lt l1 l2 x : oids_ok (l1 ++ l2) -> In x l1 -> oid x < length l1.
Proof.
  intros H Hin. apply In_nth_error in Hin. destruct Hin as [i Hi].
  assert (Hlt : i < length l1) by (apply nth_error_Some; congruence).
  rewrite (H i x); [exact Hlt|]. rewrite nth_error_app1; assumption.
Qed.

Lemma oids_ge l1 l2 x : oids_ok (l1 ++ l2) -> In x l2 -> length l1 <= oid x.
Proof.
  intros H Hin. apply In_nth_error in Hin. destruct Hin as [i Hi].
  rewrite (H (length l1 + i) x); [lia|].
  rewrite nth_error_app2 by lia. replace (length l1 + i - length l1) with i by lia. exact Hi.
Qed.

Lemma oids_mid p c q : oids_ok (p ++ c :: q) -> oid c = length p.
Proof.
  intros H. apply H. rewrite nth_error_app2 by lia. rewrite Nat.sub_diag. reflexivity.
Qed.

Lemma oids_after p c q x : oids_ok (p ++ c :: q) -> In x q -> x <> c.
Proof.
  intros H Hin E. subst x.
  pose proof (oids_mid _ _ _ H) as Hc.
  replace (p ++ c :: q) with ((p ++ [c]) ++ q) in H by (rewrite <- app_assoc; reflexivity).
  pose proof (oids_ge _ _ _ H Hin) as Hge. rewrite app_length in Hge. cbn in Hge. lia.
Qed.

(* ================================================================== *)
(* dedup_keys / unique_key                                             *)
(* ================================================================== *)

Lemma dedup_keys_in l : forall seen k,
  In k (dedup_keys l seen) <-> In k l /\ ~ In k seen.
Proof.
  induction l as [|x l IH]; intros seen k; cbn [dedup_keys].
  - cbn. tauto.
  - destruct (existsb (key_eqb x) seen) eqn:E.
    + apply existsb_key_in in E. rewrite IH. cbn. split.
      * tauto.
      * intros [[->|H] Hn]; tauto.
    + assert (Hx : ~ In x seen).
      { intros Hin. apply existsb_key_in in Hin. congruence. }
      cbn [In]. rewrite IH. cbn [In]. split.
      * intros [->|[H1 H2]]; [tauto|]. split; [tauto|]. tauto.
      * intros [[->|H1] H2]; [tauto|].
        destruct (key_eqb x k) eqn:Ek.
        -- apply key_eqb_eq in Ek. tauto.
        -- apply key_eqb_neq in Ek. right. split; [assumption|]. intros [H|H]; tauto.
Qed.

Lemma dedup_keys_nodup l : forall seen, NoDup (dedup_keys l seen).
Proof.
  induction l as [|x l IH]; intros seen; cbn [dedup_keys].
  - constructor.
  - destruct (existsb (key_eqb x) seen) eqn:E; [apply IH|].
    constructor; [|apply IH].
    rewrite dedup_keys_in. cbn. tauto.
Qed.

Lemma unique_key_spec l k :
  unique_key l = Some k <-> In k l /\ forall k', In k' l -> k' = k.
Proof.
  unfold unique_key.
  pose proof (dedup_keys_nodup l []) as Hnd.
  assert (Hin : forall x, In x (dedup_keys l []) <-> In x l).
  { intros x. rewrite dedup_keys_in. cbn. tauto. }
  destruct (dedup_keys l []) as [|a [|b t]].
  - split; [discriminate|]. intros [H _]. apply Hin in H. contradiction.
  - split.
    + intros E; injection E as ->. split.
      * apply Hin; left; reflexivity.
      * intros k' Hk'. apply Hin in Hk'. destruct Hk' as [->|[]]. reflexivity.
    + intros [H1 H2]. f_equal. apply H2. apply Hin. left; reflexivity.
  - split; [discriminate|]. intros [H1 H2].
    assert (a = k) by (apply H2, Hin; left; reflexivity).
    assert (b = k) by (apply H2, Hin; right; left; reflexivity).
    subst. inversion Hnd as [|y t' Hy _]; subst. exfalso; apply Hy; left; reflexivity.
Qed.

Lemma dedup_single_head (cands : list full_entry) x :
  dedup_keys (map snd cands) [] = [x] ->
  match cands with (_, k) :: _ => Some k | [] => None end = Some x.
Proof.
  destruct cands as [|[f k] t]; cbn [map snd dedup_keys existsb].
  - discriminate.
  - intros E; injection E as -> _. reflexivity.
Qed.

(* ================================================================== *)
(* add_member / group_of                                               *)
(* ================================================================== *)

Lemma add_member_shape k c r :
  (exists r1 m r2, r = r1 ++ (k, m) :: r2 /\ ~ In k (map fst r1) /\
                   add_member k c r = r1 ++ (k, m ++ [c]) :: r2)
  \/ (~ In k (map fst r) /\ add_member k c r = r ++ [(k, [c])]).
Proof.
  induction r as [|[k' m] r IH]; cbn [add_member].
  - right. split; [intros []|reflexivity].
  - destruct (key_eqb k k') eqn:E.
    + apply key_eqb_eq in E; subst k'. left. exists [], m, r. cbn. tauto.
    + apply key_eqb_neq in E. destruct IH as [[r1 [m0 [r2 [H1 [H2 H3]]]]]|[H1 H2]].
      * left. exists ((k', m) :: r1), m0, r2. rewrite H3. split; [rewrite H1; reflexivity|].
        split; [|reflexivity]. cbn. intros [H|H]; [congruence|tauto].
      * right. rewrite H2. split; [|reflexivity]. cbn. intros [H|H]; [congruence|tauto].
Qed.

Lemma member_add k c r k' x :
  member (add_member k c r) k' x <-> member r k' x \/ (k' = k /\ x = c).
Proof.
  unfold member. induction r as [|[k0 m0] r IH]; cbn [add_member].
  - split.
    + intros [m [[E|[]] Hx]]. injection E as <- <-. destruct Hx as [->|[]]. right; auto.
    + intros [[m [[] _]]|[-> ->]]. exists [c]. cbn; auto.
  - destruct (key_eqb k k0) eqn:E.
    + apply key_eqb_eq in E; subst k0. split.
      * intros [m [[Em|Hin] Hx]].
        -- injection Em as <- <-. apply in_app_iff in Hx. destruct Hx as [Hx|[->|[]]].
           ++ left; exists m0; cbn; auto.
           ++ right; auto.
        -- left; exists m; cbn; auto.
      * intros [[m [[Em|Hin] Hx]]|[-> ->]].
        -- injection Em as <- <-. exists (m0 ++ [c]). split; [left; reflexivity|apply in_app_iff; auto].
        -- exists m; cbn; auto.
        -- exists (m0 ++ [c]); split; [left; reflexivity|apply in_app_iff; right; left; reflexivity].
    + split.
      * intros [m [[Em|Hin] Hx]].
        -- left; exists m; split; [left; exact Em|exact Hx].
        -- destruct (proj1 IH (ex_intro _ m (conj Hin Hx))) as [[m' [H1 H2]]|H].
           ++ left; exists m'; cbn; auto.
           ++ right; exact H.
      * intros [[m [[Em|Hin] Hx]]|H].
        -- exists m; split; [left; exact Em|exact Hx].
        -- destruct (proj2 IH (or_introl (ex_intro _ m (conj Hin Hx)))) as [m' [H1 H2]].
           exists m'; split; [right; exact H1|exact H2].
        -- destruct (proj2 IH (or_intror H)) as [m' [H1 H2]].
           exists m'; split; [right; exact H1|exact H2].
Qed.

Lemma add_member_fst_in k c r k' :
  In k' (map fst (add_member k c r)) <-> In k' (map fst r) \/ k' = k.
Proof.
  destruct (add_member_shape k c r) as [[r1 [m [r2 [H1 [H2 H3]]]]]|[H1 H2]].
  - rewrite H3, H1, !map_app, !in_app_iff. cbn. intuition.
  - rewrite H2, map_app, in_app_iff. cbn. intuition.
Qed.

Lemma add_member_keys_nodup k c r :
  NoDup (map fst r) -> NoDup (map fst (add_member k c r)).
Proof.
  intros Hnd. destruct (add_member_shape k c r) as [[r1 [m [r2 [H1 [H2 H3]]]]]|[H1 H2]].
  - rewrite H3. rewrite H1 in Hnd. rewrite map_app in *. exact Hnd.
  - rewrite H2, map_app. cbn. apply NoDup_insert; rewrite app_nil_r; assumption.
Qed.

Lemma add_member_in k c r g :
  In g (add_member k c r) ->
  In g r \/ (exists m, In (k, m) r /\ g = (k, m ++ [c])) \/ (g = (k, [c]) /\ ~ In k (map fst r)).
Proof.
  destruct (add_member_shape k c r) as [[r1 [m [r2 [H1 [H2 H3]]]]]|[H1 H2]].
  - rewrite H3. intros H. apply in_app_or in H. destruct H as [H|[H|H]].
    + left; rewrite H1; apply in_or_app; left; exact H.
    + right; left. exists m. split; [rewrite H1; apply in_or_app; right; left; reflexivity|auto].
    + left; rewrite H1; apply in_or_app; right; right; exact H.
  - rewrite H2, in_app_iff. cbn. intros [H|[H|[]]]; [left; exact H|]. right; right; auto.
Qed.

Lemma add_member_oids k c r :
  NoDup (map oid (concat (map snd r))) -> ~ In (oid c) (map oid (concat (map snd r))) ->
  NoDup (map oid (concat (map snd (add_member k c r)))).
Proof.
  destruct (add_member_shape k c r) as [[r1 [m [r2 [H1 [H2 H3]]]]]|[H1 H2]].
  - rewrite H3, H1. rewrite !map_app, !concat_app. cbn [map snd concat].
    rewrite !map_app. cbn [map]. rewrite <- !app_assoc. cbn [app].
    rewrite !app_assoc. apply NoDup_insert.
  - rewrite H2. rewrite !map_app, !concat_app. cbn [map snd concat].
    rewrite !map_app. cbn [map app]. intros Hnd Hni.
    apply NoDup_insert; rewrite app_nil_r; assumption.
Qed.

Definition ext (r r' : list (key * list cit)) : Prop :=
  forall k m, In (k, m) r -> exists m', In (k, m ++ m') r'.

Lemma ext_refl r : ext r r.
Proof. intros k m H. exists []. rewrite app_nil_r; exact H. Qed.

Lemma ext_trans r1 r2 r3 : ext r1 r2 -> ext r2 r3 -> ext r1 r3.
Proof.
  intros H12 H23 k m H. destruct (H12 _ _ H) as [m1 H1]. destruct (H23 _ _ H1) as [m2 H2].
  exists (m1 ++ m2). rewrite app_assoc. exact H2.
Qed.

Lemma add_member_ext k c r : ext r (add_member k c r).
Proof.
  induction r as [|[k' m'] r IH]; intros k0 m0 Hin; cbn [add_member].
  - destruct Hin.
  - destruct (key_eqb k k') eqn:E.
    + destruct Hin as [E0|Hin].
      * injection E0 as <- <-. exists [c]. left; reflexivity.
      * exists []. right. rewrite app_nil_r. exact Hin.
    + destruct Hin as [E0|Hin].
      * exists []. left. rewrite app_nil_r. exact E0.
      * destruct (IH _ _ Hin) as [m1 H]. exists m1. right. exact H.
Qed.

Lemma ext_member r r' k x : ext r r' -> member r k x -> member r' k x.
Proof.
  intros He [m [H1 H2]]. destruct (He _ _ H1) as [m' H]. exists (m ++ m').
  split; [exact H|apply in_app_iff; left; exact H2].
Qed.

Lemma group_of_in k r m : group_of k r = Some m -> In (k, m) r.
Proof.
  induction r as [|[k' m'] r IH]; cbn [group_of]; [discriminate|].
  destruct (key_eqb k k') eqn:E.
  - apply key_eqb_eq in E; subst. intros H; injection H as ->. left; reflexivity.
  - intros H; right; apply IH; exact H.
Qed.

Lemma in_fst {A B} (k : A) (m : B) r : In (k, m) r -> In k (map fst r).
Proof. intros H. apply in_map_iff. exists (k, m). split; [reflexivity|exact H]. Qed.

Lemma member_oid_in r k x : member r k x -> In (oid x) (map oid (concat (map snd r))).
Proof.
  intros [m [H1 H2]]. apply in_map. apply in_concat. exists m. split; [|exact H2].
  apply in_map_iff. exists (k, m). split; [reflexivity|exact H1].
Qed.

Lemma oid_in_member r o : In o (map oid (concat (map snd r))) -> exists k x, member r k x /\ oid x = o.
Proof.
  intros H. apply in_map_iff in H. destruct H as [x [Hx Hin]].
  apply in_concat in Hin. destruct Hin as [m [Hm Hxm]].
  apply in_map_iff in Hm. destruct Hm as [[k m'] [E Hin]]. cbn in E; subst m'.
  exists k, x. split; [exists m; auto|exact Hx].
Qed.

(* ---- restrict ---- *)

Lemma restrict_cons n g r :
  restrict n (g :: r) =
  match filter (fun c => oid c <? n) (snd g) with
  | [] => restrict n r
  | m => (fst g, m) :: restrict n r
  end.
Proof.
  unfold restrict. cbn [map filter snd fst].
  destruct (filter (fun c => oid c <? n) (snd g)); reflexivity.
Qed.

Lemma restrict_add_ge n k c r : n <= oid c -> restrict n (add_member k c r) = restrict n r.
Proof.
  intros Hge. assert (Hf : (oid c <? n) = false) by (apply Nat.ltb_ge; exact Hge).
  induction r as [|[k' m] r IH]; cbn [add_member].
  - rewrite restrict_cons. cbn [snd filter]. rewrite Hf. reflexivity.
  - destruct (key_eqb k k') eqn:E.
    + rewrite !restrict_cons. cbn [snd fst]. rewrite filter_app. cbn [filter]. rewrite Hf, app_nil_r.
      reflexivity.
    + rewrite !restrict_cons. rewrite IH. reflexivity.
Qed.

Lemma restrict_id n r :
  (forall k m, In (k, m) r -> m <> [] /\ forall c, In c m -> oid c < n) -> restrict n r = r.
Proof.
  induction r as [|[k m] r IH]; intros H; [reflexivity|].
  rewrite restrict_cons. cbn [snd fst].
  destruct (H k m (or_introl eq_refl)) as [Hne Hlt].
  rewrite filter_all_true by (intros x Hx; apply Nat.ltb_lt; apply Hlt; exact Hx).
  rewrite IH by (intros k' m' Hin; apply (H k' m'); right; exact Hin).
  destruct m; [congruence|reflexivity].
Qed.

(* ================================================================== *)
(* the resolvers                                                       *)
(* ================================================================== *)

Definition short_finish (c : cit) (cands : list full_entry) : result (option key) :=
  match dedup_keys (map snd cands) [] with
  | [_] => Ok (match cands with (_, k) :: _ => Some k | [] => None end)
  | _ => if truthy_s (c_antecedent c)
         then Ok (filter_by_antecedent cands (c_ante_stripped c))
         else Ok None
  end.

Definition short_go (c : cit) : list full_entry -> list full_entry -> result (option key) :=
  fix short_go (l acc : list full_entry) : result (option key) :=
  match l with
  | [] => short_finish c (rev acc)
  | (f, k) :: l' =>
      if cls_eqb (c_cls f) FullCase then
        do rc <- corrected_reporter c ;;
        do rf <- corrected_reporter f ;;
        if ostr_eqb rc rf && ostr_eqb (gget k_volume (c_groups c)) (gget k_volume (c_groups f))
        then short_go l' ((f, k) :: acc) else short_go l' acc
      else short_go l' acc
  end.

Lemma resolve_short_eq c F : resolve_short c F = short_go c F [].
Proof. reflexivity. Qed.

Lemma short_go_spec c : forall l acc r,
  short_go c l acc = Ok r -> short_finish c (rev acc ++ short_candidates c l) = Ok r.
Proof.
  induction l as [|[f k] l IH]; intros acc r; cbn [short_go].
  - cbn [short_candidates filter]. rewrite app_nil_r. auto.
  - unfold short_candidates. cbn [filter fst]. fold (short_candidates c l).
    destruct (cls_eqb (c_cls f) FullCase) eqn:Ecls; cbn [andb].
    + destruct (corrected_reporter c) as [rc|e]; cbn [bind]; [|discriminate].
      destruct (corrected_reporter f) as [rf|e]; cbn [bind]; [|discriminate].
      destruct (ostr_eqb rc rf && ostr_eqb (gget k_volume (c_groups c)) (gget k_volume (c_groups f))).
      * intros H; apply IH in H; cbn [rev] in H; rewrite <- app_assoc in H; exact H.
      * apply IH.
    + apply IH.
Qed.

Lemma short_finish_some c K k :
  short_finish c K = Ok (Some k) ->
  only_key k K \/
  (truthy_s (c_antecedent c) = true /\ only_key k (ante_candidates (c_ante_stripped c) K)).
Proof.
  unfold short_finish.
  assert (Hante : (if truthy_s (c_antecedent c)
                   then Ok (filter_by_antecedent K (c_ante_stripped c)) else Ok None) = Ok (Some k) ->
                  truthy_s (c_antecedent c) = true /\
                  only_key k (ante_candidates (c_ante_stripped c) K)).
  { destruct (truthy_s (c_antecedent c)); intros E; [|discriminate].
    injection E as E. split; [reflexivity|]. apply unique_key_spec in E. exact E. }
  destruct (dedup_keys (map snd K) []) as [|a [|b t]] eqn:Ed.
  - intros E; right; apply Hante; exact E.
  - rewrite (dedup_single_head _ _ Ed). intros E; injection E as ->. left.
    apply (proj1 (unique_key_spec (map snd K) k)). unfold unique_key. rewrite Ed. reflexivity.
  - intros E; right; apply Hante; exact E.
Qed.

Lemma only_key_filter_in (f : full_entry -> bool) k K :
  only_key k (filter f K) -> In k (map snd K).
Proof. intros [H _]. eapply map_snd_filter_in; exact H. Qed.

Lemma resolve_short_spec c F k :
  resolve_short c F = Ok (Some k) ->
  let K := short_candidates c F in
  In k (map snd K) /\
  (only_key k K \/
   (truthy_s (c_antecedent c) = true /\ only_key k (ante_candidates (c_ante_stripped c) K))).
Proof.
  intros H K. rewrite resolve_short_eq in H. apply short_go_spec in H. cbn [rev app] in H.
  fold K in H. apply short_finish_some in H. split; [|exact H].
  destruct H as [[H _]|[_ H]]; [exact H|]. eapply only_key_filter_in; exact H.
Qed.

Lemma resolve_short_in c F k : resolve_short c F = Ok (Some k) -> In k (map snd F).
Proof.
  intros H. apply resolve_short_spec in H. destruct H as [H _].
  eapply map_snd_filter_in; exact H.
Qed.

Lemma resolve_supra_spec c F k :
  resolve_supra c F = Some k <->
  truthy_s (c_antecedent c) = true /\ only_key k (ante_candidates (c_ante_stripped c) F).
Proof.
  unfold resolve_supra, filter_by_antecedent, only_key, ante_candidates.
  destruct (truthy_s (c_antecedent c)).
  - rewrite unique_key_spec. tauto.
  - split; [discriminate|intros [H _]; discriminate].
Qed.

Lemma resolve_ref_spec c F k :
  resolve_ref c F = Some k <->
  c_names c <> [] /\ only_key k (ref_candidates (c_names c) F).
Proof.
  unfold resolve_ref, only_key, ref_candidates.
  destruct (c_names c) as [|n ns].
  - split; [discriminate|intros [H _]; congruence].
  - rewrite unique_key_spec. split; [intros H; split; [discriminate|exact H]|tauto].
Qed.

Lemma fulls_of_app p c :
  fulls_of (p ++ [c]) =
  fulls_of p ++ (if is_full (c_cls c)
                 then match key_of c with Ok k => [(c, k)] | Err _ => [] end
                 else []).
Proof.
  induction p as [|a p IH]; cbn [app fulls_of].
  - destruct (is_full (c_cls c)); [destruct (key_of c)|]; reflexivity.
  - destruct (is_full (c_cls a)); [destruct (key_of a)|]; rewrite IH; reflexivity.
Qed.

(* ---- groups ---- *)

Definition group_ok (p : list cit) (k : key) (m : list cit) : Prop :=
  exists h t, m = h :: t /\ is_full (c_cls h) = true /\ key_of h = Ok k /\
     (forall c, In c t -> oid h < oid c) /\ sublist m p.

Lemma group_ok_weak p l k m : group_ok p k m -> group_ok (p ++ l) k m.
Proof.
  intros [h [t [H0 [H1 [H2 [H3 H4]]]]]]. exists h, t. repeat split; try assumption.
  apply sublist_app_r; exact H4.
Qed.

Lemma group_ok_snoc p c k m :
  group_ok p k m -> (forall x, In x m -> oid x < oid c) -> group_ok (p ++ [c]) k (m ++ [c]).
Proof.
  intros [h [t [-> [H1 [H2 [H3 H4]]]]]] Hlt. exists h, (t ++ [c]).
  split; [reflexivity|]. split; [exact H1|]. split; [exact H2|]. split.
  - intros x Hx. apply in_app_iff in Hx. destruct Hx as [Hx|[<-|[]]].
    + apply H3; exact Hx.
    + apply Hlt. left; reflexivity.
  - apply (sublist_snoc (h :: t) p c). exact H4.
Qed.

Lemma groups_add p c k r :
  (forall k m, In (k, m) r -> group_ok p k m) ->
  (forall k x, member r k x -> oid x < oid c) ->
  (In k (map fst r) \/ (is_full (c_cls c) = true /\ key_of c = Ok k)) ->
  forall k' m', In (k', m') (add_member k c r) -> group_ok (p ++ [c]) k' m'.
Proof.
  intros Hg Hlt Hk k' m' Hin. apply add_member_in in Hin.
  destruct Hin as [Hin|[[m [Hin E]]|[E Hni]]].
  - apply group_ok_weak. apply Hg. exact Hin.
  - injection E as -> ->. apply group_ok_snoc.
    + apply Hg; exact Hin.
    + intros x Hx. apply (Hlt k). exists m. split; assumption.
  - injection E as -> ->. destruct Hk as [Hk|[Hf Hk]]; [contradiction|].
    exists c, []. split; [reflexivity|]. split; [exact Hf|]. split; [exact Hk|]. split.
    + intros x [].
    + replace [c] with ([] ++ [c]) by reflexivity. apply sublist_snoc. constructor.
Qed.

(* ================================================================== *)
(* the fold                                                            *)
(* ================================================================== *)

Section R.
Variable D : dtables.
Variable mx : N.

Lemma run_app s l1 l2 :
  run D mx s (l1 ++ l2) = bind (run D mx s l1) (fun s' => run D mx s' l2).
Proof.
  revert s; induction l1 as [|c l1 IH]; intros s; cbn [run app bind]; [reflexivity|].
  destruct (Resolve.step D mx s c) as [s'|e]; cbn [bind]; [apply IH|reflexivity].
Qed.

Definition resolver (s : rst) (c : cit) : result (option key * list full_entry) :=
  match c_cls c with
  | FullCase | FullLaw | FullJournal =>
      do k <- key_of c ;; Ok (Some k, fulls s ++ [(c, k)])
  | ShortCase => do r <- resolve_short c (fulls s) ;; Ok (r, fulls s)
  | Supra => Ok (resolve_supra c (fulls s), fulls s)
  | Ref => Ok (resolve_ref c (fulls s), fulls s)
  | IdC => do r <- resolve_id D mx c s ;; Ok (r, fulls s)
  | Unknown => Ok (None, fulls s)
  end.

Lemma step_ok s c s' :
  Resolve.step D mx s c = Ok s' ->
  exists r fl, resolver s c = Ok (r, fl) /\
    s' = {| res := match r with Some k => add_member k c (res s) | None => res s end;
            fulls := fl; lastr := r |}.
Proof.
  assert (E : Resolve.step D mx s c =
              bind (resolver s c) (fun rf => let (r, fl) := rf in
                Ok {| res := match r with Some k => add_member k c (res s) | None => res s end;
                      fulls := fl; lastr := r |})) by reflexivity.
  rewrite E. destruct (resolver s c) as [[r fl]|e]; cbn [bind]; [|discriminate].
  intros H; injection H as <-. exists r, fl. split; reflexivity.
Qed.

Lemma resolve_id_spec c s k :
  resolve_id D mx c s = Ok (Some k) ->
  lastr s = Some k /\
  exists h t, group_of k (res s) = Some (h :: t) /\ has_invalid_pin D mx h c = Ok false.
Proof.
  unfold resolve_id. destruct (lastr s) as [k0|]; [|discriminate].
  destruct (group_of k0 (res s)) as [[|h t]|] eqn:Eg; try discriminate.
  destruct (has_invalid_pin D mx h c) as [bad|e] eqn:Eb; cbn [bind]; [|discriminate].
  destruct bad; intros E; [discriminate|]. injection E as <-.
  split; [reflexivity|]. exists h, t. split; assumption.
Qed.

Definition keys_in (s : rst) : Prop :=
  forall k, In k (map snd (fulls s)) -> In k (map fst (res s)).

Lemma resolver_cases s c r fl :
  keys_in s -> resolver s c = Ok (r, fl) ->
  (is_full (c_cls c) = false /\ fl = fulls s /\
   match r with None => True | Some k => In k (map fst (res s)) /\ c_cls c <> Unknown end)
  \/ (is_full (c_cls c) = true /\ exists k, key_of c = Ok k /\ r = Some k /\ fl = fulls s ++ [(c, k)]).
Proof.
  intros Hk. unfold resolver.
  assert (Hfull : is_full (c_cls c) = true ->
            (do k <- key_of c;; Ok (Some k, fulls s ++ [(c, k)])) = Ok (r, fl) ->
            exists k, key_of c = Ok k /\ r = Some k /\ fl = fulls s ++ [(c, k)]).
  { intros _. destruct (key_of c) as [k|e]; cbn [bind]; [|discriminate].
    intros E; injection E as <- <-. exists k. repeat split. }
  destruct (c_cls c) eqn:Ec; cbn [is_full].
  - intros E; right; split; [reflexivity|apply Hfull; auto].
  - intros E; right; split; [reflexivity|apply Hfull; auto].
  - intros E; right; split; [reflexivity|apply Hfull; auto].
  - destruct (resolve_short c (fulls s)) as [r0|e] eqn:Er; cbn [bind]; [|discriminate].
    intros E; injection E as <- <-. left. split; [reflexivity|]. split; [reflexivity|].
    destruct r0 as [k|]; [|exact I]. split; [|discriminate].
    apply Hk. eapply resolve_short_in; exact Er.
  - intros E; injection E as <- <-. left. split; [reflexivity|]. split; [reflexivity|].
    destruct (resolve_supra c (fulls s)) as [k|] eqn:Er; [|exact I]. split; [|discriminate].
    apply Hk. apply resolve_supra_spec in Er. destruct Er as [_ Er].
    eapply only_key_filter_in; exact Er.
  - intros E; injection E as <- <-. left. split; [reflexivity|]. split; [reflexivity|].
    destruct (resolve_ref c (fulls s)) as [k|] eqn:Er; [|exact I]. split; [|discriminate].
    apply Hk. apply resolve_ref_spec in Er. destruct Er as [_ Er].
    eapply only_key_filter_in; exact Er.
  - destruct (resolve_id D mx c s) as [r0|e] eqn:Er; cbn [bind]; [|discriminate].
    intros E; injection E as <- <-. left. split; [reflexivity|]. split; [reflexivity|].
    destruct r0 as [k|]; [|exact I]. split; [|discriminate].
    apply resolve_id_spec in Er. destruct Er as [_ [h [t [Hg _]]]].
    apply group_of_in in Hg. eapply in_fst; exact Hg.
  - intros E; injection E as <- <-. left. split; [reflexivity|]. split; [reflexivity|exact I].
Qed.

(* ---- one step: membership, extension, restriction ---- *)

Lemma member_step s c s' k x :
  Resolve.step D mx s c = Ok s' ->
  (member (res s') k x <-> member (res s) k x \/ (x = c /\ lastr s' = Some k)).
Proof.
  intros H. apply step_ok in H. destruct H as [r [fl [_ ->]]]. cbn [res lastr].
  destruct r as [k0|].
  - rewrite member_add. split.
    + intros [H|[-> ->]]; [left; exact H|right; split; reflexivity].
    + intros [H|[-> H]]; [left; exact H|right]. injection H as ->. split; reflexivity.
  - split; [intros H; left; exact H|]. intros [H|[_ H]]; [exact H|discriminate].
Qed.

Lemma step_ext s c s' : Resolve.step D mx s c = Ok s' -> ext (res s) (res s').
Proof.
  intros H. apply step_ok in H. destruct H as [r [fl [_ ->]]]. cbn [res].
  destruct r as [k0|]; [apply add_member_ext|apply ext_refl].
Qed.

Lemma run_ext l : forall s s', run D mx s l = Ok s' -> ext (res s) (res s').
Proof.
  induction l as [|c l IH]; intros s s'; cbn [run].
  - intros E; injection E as <-. apply ext_refl.
  - destruct (Resolve.step D mx s c) as [s1|e] eqn:Es; cbn [bind]; [|discriminate].
    intros H. eapply ext_trans; [eapply step_ext; exact Es|apply IH; exact H].
Qed.

Lemma step_restrict n s c s' :
  Resolve.step D mx s c = Ok s' -> n <= oid c -> restrict n (res s') = restrict n (res s).
Proof.
  intros H Hge. apply step_ok in H. destruct H as [r [fl [_ ->]]]. cbn [res].
  destruct r as [k0|]; [apply restrict_add_ge; exact Hge|reflexivity].
Qed.

Lemma run_restrict n l : forall s s',
  (forall c, In c l -> n <= oid c) -> run D mx s l = Ok s' ->
  restrict n (res s') = restrict n (res s).
Proof.
  induction l as [|c l IH]; intros s s' Hge; cbn [run].
  - intros E; injection E as <-. reflexivity.
  - destruct (Resolve.step D mx s c) as [s1|e] eqn:Es; cbn [bind]; [|discriminate].
    intros H. rewrite (IH s1 s') by (try exact H; intros x Hx; apply Hge; right; exact Hx).
    eapply step_restrict; [exact Es|apply Hge; left; reflexivity].
Qed.

Lemma run_member_other c k l : forall s s',
  (forall x, In x l -> x <> c) -> run D mx s l = Ok s' ->
  (member (res s') k c <-> member (res s) k c).
Proof.
  induction l as [|a l IH]; intros s s' Hne; cbn [run].
  - intros E; injection E as <-. tauto.
  - destruct (Resolve.step D mx s a) as [s1|e] eqn:Es; cbn [bind]; [|discriminate].
    intros H. rewrite (IH s1 s') by (try exact H; intros x Hx; apply Hne; right; exact Hx).
    rewrite (member_step _ _ _ k c Es). split; [|tauto].
    intros [Hm|[E _]]; [exact Hm|]. exfalso. apply (Hne a); [left; reflexivity|congruence].
Qed.

(* ---- the invariant ---- *)

Record Inv (p : list cit) (s : rst) : Prop := {
  inv_fulls : fulls s = fulls_of p;
  inv_keys_in : keys_in s;
  inv_keys_nodup : NoDup (map fst (res s));
  inv_groups : forall k m, In (k, m) (res s) -> group_ok p k m;
  inv_oids : NoDup (map oid (concat (map snd (res s))));
  inv_fullkey : forall k c, member (res s) k c -> is_full (c_cls c) = true -> key_of c = Ok k;
  inv_unknown : forall k c, member (res s) k c -> c_cls c <> Unknown
}.

Lemma inv_member_in p s k x : Inv p s -> member (res s) k x -> In x p.
Proof.
  intros HI [m [H1 H2]]. destruct (inv_groups _ _ HI _ _ H1) as [h [t [_ [_ [_ [_ Hs]]]]]].
  eapply sublist_In; [exact Hs|exact H2].
Qed.

Lemma inv_init : Inv [] rinit.
Proof.
  constructor; cbn.
  - reflexivity.
  - intros k [].
  - constructor.
  - intros k m [].
  - constructor.
  - intros k c [m [[] _]].
  - intros k c [m [[] _]].
Qed.

Lemma inv_step p c q s s' :
  oids_ok (p ++ c :: q) -> Inv p s -> Resolve.step D mx s c = Ok s' -> Inv (p ++ [c]) s'.
Proof.
  intros Hoid HI Hs. apply step_ok in Hs. destruct Hs as [r [fl [Hr ->]]].
  pose proof (oids_mid _ _ _ Hoid) as Hc.
  assert (Hlt : forall k x, member (res s) k x -> oid x < oid c).
  { intros k x Hm. rewrite Hc. eapply oids_lt; [exact Hoid|eapply inv_member_in; eauto]. }
  assert (Hfresh : ~ In (oid c) (map oid (concat (map snd (res s))))).
  { intros H. apply oid_in_member in H. destruct H as [k [x [Hm Ho]]]. apply Hlt in Hm. lia. }
  destruct (resolver_cases s c r fl (inv_keys_in _ _ HI) Hr)
    as [[Hnf [-> Hrk]]|[Hf [k [Hk [-> ->]]]]].
  - (* not a full citation *)
    assert (Hfo : fulls_of (p ++ [c]) = fulls_of p).
    { rewrite fulls_of_app, Hnf, app_nil_r. reflexivity. }
    destruct r as [k|].
    + destruct Hrk as [Hkin Hunk]. constructor; cbn [res fulls lastr].
      * rewrite Hfo. apply (inv_fulls _ _ HI).
      * intros k' H. cbn [res fulls]. apply add_member_fst_in. left. apply (inv_keys_in _ _ HI). exact H.
      * apply add_member_keys_nodup. apply (inv_keys_nodup _ _ HI).
      * apply groups_add; [apply (inv_groups _ _ HI)|exact Hlt|left; exact Hkin].
      * apply add_member_oids; [apply (inv_oids _ _ HI)|exact Hfresh].
      * intros k' x Hm Hfx. apply member_add in Hm. destruct Hm as [Hm|[_ ->]].
        -- eapply inv_fullkey; eauto.
        -- congruence.
      * intros k' x Hm. apply member_add in Hm. destruct Hm as [Hm|[_ ->]].
        -- eapply inv_unknown; eauto.
        -- exact Hunk.
    + constructor; cbn [res fulls lastr].
      * rewrite Hfo. apply (inv_fulls _ _ HI).
      * apply (inv_keys_in _ _ HI).
      * apply (inv_keys_nodup _ _ HI).
      * intros k m Hin. apply group_ok_weak. apply (inv_groups _ _ HI). exact Hin.
      * apply (inv_oids _ _ HI).
      * apply (inv_fullkey _ _ HI).
      * apply (inv_unknown _ _ HI).
  - (* a full citation *)
    constructor; cbn [res fulls lastr].
    + rewrite fulls_of_app, Hf, Hk, (inv_fulls _ _ HI). reflexivity.
    + intros k' H. cbn [res fulls] in *. rewrite map_app, in_app_iff in H.
      apply add_member_fst_in. destruct H as [H|[<-|[]]].
      * left. apply (inv_keys_in _ _ HI). exact H.
      * right; reflexivity.
    + apply add_member_keys_nodup. apply (inv_keys_nodup _ _ HI).
    + apply groups_add; [apply (inv_groups _ _ HI)|exact Hlt|right; split; assumption].
    + apply add_member_oids; [apply (inv_oids _ _ HI)|exact Hfresh].
    + intros k' x Hm Hfx. apply member_add in Hm. destruct Hm as [Hm|[-> ->]].
      * eapply inv_fullkey; eauto.
      * exact Hk.
    + intros k' x Hm. apply member_add in Hm. destruct Hm as [Hm|[_ ->]].
      * eapply inv_unknown; eauto.
      * intros E. rewrite E in Hf. discriminate.
Qed.

Lemma inv_run l : forall p s s',
  oids_ok (p ++ l) -> Inv p s -> run D mx s l = Ok s' -> Inv (p ++ l) s'.
Proof.
  induction l as [|c l IH]; intros p s s' Hoid HI; cbn [run].
  - intros E; injection E as <-. rewrite app_nil_r. exact HI.
  - destruct (Resolve.step D mx s c) as [s1|e] eqn:Es; cbn [bind]; [|discriminate].
    intros H. replace (p ++ c :: l) with ((p ++ [c]) ++ l) in * by (rewrite <- app_assoc; reflexivity).
    apply (IH (p ++ [c]) s1 s'); [exact Hoid| |exact H].
    eapply inv_step; [|exact HI|exact Es]. rewrite <- app_assoc in Hoid. exact Hoid.
Qed.

Lemma resolve_run cs r :
  resolve D mx cs = Ok r -> exists s, run D mx rinit cs = Ok s /\ r = res s.
Proof.
  unfold resolve. destruct (run D mx rinit cs) as [s|e]; cbn [bind]; [|discriminate].
  intros E; injection E as <-. exists s. split; reflexivity.
Qed.

Lemma resolve_inv cs r :
  oids_ok cs -> resolve D mx cs = Ok r -> exists s, run D mx rinit cs = Ok s /\ r = res s /\ Inv cs s.
Proof.
  intros Hoid H. apply resolve_run in H. destruct H as [s [Hrun ->]].
  exists s. split; [exact Hrun|]. split; [reflexivity|].
  apply (inv_run cs [] rinit s); [exact Hoid|apply inv_init|exact Hrun].
Qed.

(* ---- a citation is attached (or not) at its own step ---- *)

Lemma own_step p c q r :
  oids_ok (p ++ c :: q) -> resolve D mx (p ++ c :: q) = Ok r ->
  exists s0 rr fl,
    run D mx rinit p = Ok s0 /\ Inv p s0 /\ resolver s0 c = Ok (rr, fl) /\
    ext (res s0) r /\ (forall k, member r k c <-> rr = Some k).
Proof.
  intros Hoid H. apply resolve_run in H. destruct H as [s [Hrun ->]].
  rewrite run_app in Hrun.
  destruct (run D mx rinit p) as [s0|e] eqn:E0; cbn [bind run] in Hrun; [|discriminate].
  destruct (Resolve.step D mx s0 c) as [s1|e] eqn:E1; cbn [bind] in Hrun; [|discriminate].
  assert (HI : Inv p s0).
  { apply (inv_run p [] rinit s0); [|apply inv_init|exact E0].
    cbn [app]. eapply oids_ok_app_l; exact Hoid. }
  pose proof (step_ok _ _ _ E1) as [rr [fl [Hres Hs1]]].
  exists s0, rr, fl. split; [reflexivity|]. split; [exact HI|]. split; [exact Hres|]. split.
  - eapply ext_trans; [eapply step_ext; exact E1|eapply run_ext; exact Hrun].
  - intros k.
    rewrite (run_member_other c k q s1 s) by (try exact Hrun; intros x Hx; eapply oids_after; eauto).
    rewrite (member_step _ _ _ k c E1).
    assert (Hl : lastr s1 = rr) by (rewrite Hs1; reflexivity). rewrite Hl.
    split; [|intros ->; right; split; reflexivity].
    intros [Hm|[_ E]]; [|exact E]. exfalso.
    pose proof (inv_member_in _ _ _ _ HI Hm) as Hin.
    pose proof (oids_lt _ _ _ Hoid Hin) as Hlt. pose proof (oids_mid _ _ _ Hoid). lia.
Qed.

Lemma list_last_cases {A} (l : list A) : l = [] \/ exists l' x, l = l' ++ [x].
Proof. induction l as [|x l' _] using rev_ind; [left; reflexivity|right; eauto]. Qed.

(* ================================================================== *)
(* C06: faithful ordered partition                                     *)
(* ================================================================== *)

Theorem resolve_groups_sublist : forall cs r, oids_ok cs -> resolve D mx cs = Ok r ->
  forall k m, In (k, m) r -> sublist m cs.
Proof.
  intros cs r Hoid H k m Hin. destruct (resolve_inv _ _ Hoid H) as [s [_ [-> HI]]].
  destruct (inv_groups _ _ HI _ _ Hin) as [h [t [_ [_ [_ [_ Hs]]]]]]. exact Hs.
Qed.

Theorem resolve_members_nodup : forall cs r, oids_ok cs -> resolve D mx cs = Ok r ->
  NoDup (map oid (concat (map snd r))).
Proof.
  intros cs r Hoid H. destruct (resolve_inv _ _ Hoid H) as [s [_ [-> HI]]].
  apply (inv_oids _ _ HI).
Qed.

Theorem resolve_keys_nodup : forall cs r, oids_ok cs -> resolve D mx cs = Ok r ->
  NoDup (map fst r).
Proof.
  intros cs r Hoid H. destruct (resolve_inv _ _ Hoid H) as [s [_ [-> HI]]].
  apply (inv_keys_nodup _ _ HI).
Qed.

Theorem resolve_group_head : forall cs r, oids_ok cs -> resolve D mx cs = Ok r ->
  forall k m, In (k, m) r -> exists h t, m = h :: t /\ is_full (c_cls h) = true /\ key_of h = Ok k.
Proof.
  intros cs r Hoid H k m Hin. destruct (resolve_inv _ _ Hoid H) as [s [_ [-> HI]]].
  destruct (inv_groups _ _ HI _ _ Hin) as [h [t [H0 [H1 [H2 _]]]]]. exists h, t. auto.
Qed.

Theorem resolve_full_grouped : forall cs r, oids_ok cs -> resolve D mx cs = Ok r ->
  forall c, In c cs -> is_full (c_cls c) = true -> exists k, key_of c = Ok k /\ member r k c.
Proof.
  intros cs r Hoid H c Hin Hf. apply in_split in Hin. destruct Hin as [p [q ->]].
  destruct (own_step _ _ _ _ Hoid H) as [s0 [rr [fl [_ [HI [Hres [_ Hm]]]]]]].
  destruct (resolver_cases _ _ _ _ (inv_keys_in _ _ HI) Hres) as [[Hnf _]|[_ [k [Hk [-> _]]]]].
  - congruence.
  - exists k. split; [exact Hk|]. apply Hm. reflexivity.
Qed.

Theorem resolve_same_group_iff : forall cs r, oids_ok cs -> resolve D mx cs = Ok r ->
  forall a b, In a cs -> In b cs -> is_full (c_cls a) = true -> is_full (c_cls b) = true ->
  ((exists k, member r k a /\ member r k b) <-> key_of a = key_of b).
Proof.
  intros cs r Hoid H a b Ha Hb Hfa Hfb. split.
  - intros [k [Hma Hmb]]. destruct (resolve_inv _ _ Hoid H) as [s [_ [-> HI]]].
    rewrite (inv_fullkey _ _ HI _ _ Hma Hfa), (inv_fullkey _ _ HI _ _ Hmb Hfb). reflexivity.
  - intros E.
    destruct (resolve_full_grouped _ _ Hoid H a Ha Hfa) as [ka [Hka Hma]].
    destruct (resolve_full_grouped _ _ Hoid H b Hb Hfb) as [kb [Hkb Hmb]].
    assert (ka = kb) by congruence. subst kb. exists ka. split; assumption.
Qed.

Theorem resolve_no_unknown : forall cs r, oids_ok cs -> resolve D mx cs = Ok r ->
  forall k c, member r k c -> c_cls c <> Unknown.
Proof.
  intros cs r Hoid H k c Hm. destruct (resolve_inv _ _ Hoid H) as [s [_ [-> HI]]].
  eapply inv_unknown; eauto.
Qed.

(* ================================================================== *)
(* C08: online                                                         *)
(* ================================================================== *)

Theorem resolve_prefix : forall l1 l2 r, oids_ok (l1 ++ l2) -> resolve D mx (l1 ++ l2) = Ok r ->
  exists r1, resolve D mx l1 = Ok r1 /\ r1 = restrict (length l1) r.
Proof.
  intros l1 l2 r Hoid H. apply resolve_run in H. destruct H as [s [Hrun ->]].
  rewrite run_app in Hrun.
  destruct (run D mx rinit l1) as [s1|e] eqn:E1; cbn [bind] in Hrun; [|discriminate].
  exists (res s1). split.
  - unfold resolve. rewrite E1. reflexivity.
  - assert (HI : Inv l1 s1).
    { apply (inv_run l1 [] rinit s1); [|apply inv_init|exact E1].
      cbn [app]. eapply oids_ok_app_l; exact Hoid. }
    rewrite (run_restrict (length l1) l2 s1 s) by (try exact Hrun; intros c Hc; eapply oids_ge; eauto).
    symmetry. apply restrict_id. intros k m Hin. split.
    + destruct (inv_groups _ _ HI _ _ Hin) as [h [t [-> _]]]. discriminate.
    + intros c Hc. eapply oids_lt; [exact Hoid|].
      eapply inv_member_in; [exact HI|]. exists m. split; eassumption.
Qed.

Theorem resolve_backward_only : forall cs r, oids_ok cs -> resolve D mx cs = Ok r ->
  forall k c, member r k c -> is_full (c_cls c) = false ->
  exists f, member r k f /\ is_full (c_cls f) = true /\ key_of f = Ok k /\ oid f < oid c.
Proof.
  intros cs r Hoid H k c [m [Hin Hc]] Hnf. destruct (resolve_inv _ _ Hoid H) as [s [_ [-> HI]]].
  destruct (inv_groups _ _ HI _ _ Hin) as [h [t [-> [H1 [H2 [H3 _]]]]]].
  exists h. split; [exists (h :: t); split; [exact Hin|left; reflexivity]|].
  split; [exact H1|]. split; [exact H2|].
  destruct Hc as [<-|Hc]; [congruence|]. apply H3; exact Hc.
Qed.

(* ================================================================== *)
(* C07: no guessing                                                    *)
(* ================================================================== *)

Theorem resolve_short_sound : forall p c q r, oids_ok (p ++ c :: q) ->
  resolve D mx (p ++ c :: q) = Ok r -> c_cls c = ShortCase ->
  forall k, member r k c ->
    let K := short_candidates c (fulls_of p) in
    In k (map snd K) /\
    (only_key k K \/
     (truthy_s (c_antecedent c) = true /\ only_key k (ante_candidates (c_ante_stripped c) K))).
Proof.
  intros p c q r Hoid H Hcls k Hmem.
  destruct (own_step _ _ _ _ Hoid H) as [s0 [rr [fl [_ [HI [Hres [_ Hm]]]]]]].
  apply Hm in Hmem. subst rr. unfold resolver in Hres. rewrite Hcls in Hres.
  destruct (resolve_short c (fulls s0)) as [r0|e] eqn:Er; cbn [bind] in Hres; [|discriminate].
  injection Hres as -> _. rewrite (inv_fulls _ _ HI) in Er.
  exact (resolve_short_spec _ _ _ Er).
Qed.

Theorem resolve_supra_iff : forall p c q r, oids_ok (p ++ c :: q) ->
  resolve D mx (p ++ c :: q) = Ok r -> c_cls c = Supra ->
  forall k, (member r k c <->
             truthy_s (c_antecedent c) = true /\
             only_key k (ante_candidates (c_ante_stripped c) (fulls_of p))).
Proof.
  intros p c q r Hoid H Hcls k.
  destruct (own_step _ _ _ _ Hoid H) as [s0 [rr [fl [_ [HI [Hres [_ Hm]]]]]]].
  rewrite Hm. unfold resolver in Hres. rewrite Hcls in Hres.
  injection Hres as <- _. rewrite (inv_fulls _ _ HI). apply resolve_supra_spec.
Qed.

Theorem resolve_ref_iff : forall p c q r, oids_ok (p ++ c :: q) ->
  resolve D mx (p ++ c :: q) = Ok r -> c_cls c = Ref ->
  forall k, (member r k c <->
             c_names c <> [] /\ only_key k (ref_candidates (c_names c) (fulls_of p))).
Proof.
  intros p c q r Hoid H Hcls k.
  destruct (own_step _ _ _ _ Hoid H) as [s0 [rr [fl [_ [HI [Hres [_ Hm]]]]]]].
  rewrite Hm. unfold resolver in Hres. rewrite Hcls in Hres.
  injection Hres as <- _. rewrite (inv_fulls _ _ HI). apply resolve_ref_spec.
Qed.

(* id.: attached only to the group of the citation immediately before it *)
Theorem resolve_id_sound : forall p c q r, oids_ok (p ++ c :: q) ->
  resolve D mx (p ++ c :: q) = Ok r -> c_cls c = IdC ->
  forall k, member r k c ->
    exists p' prev h t, p = p' ++ [prev] /\ member r k prev /\
      In (k, h :: t) r /\ has_invalid_pin D mx h c = Ok false.
Proof.
  intros p c q r Hoid H Hcls k Hmem.
  destruct (own_step _ _ _ _ Hoid H) as [s0 [rr [fl [Hrun [HI [Hres [Hext Hm]]]]]]].
  apply Hm in Hmem. subst rr. unfold resolver in Hres. rewrite Hcls in Hres.
  destruct (resolve_id D mx c s0) as [r0|e] eqn:Er; cbn [bind] in Hres; [|discriminate].
  injection Hres as -> _. apply resolve_id_spec in Er.
  destruct Er as [Hlast [h [t [Hg Hpin]]]]. apply group_of_in in Hg.
  destruct (list_last_cases p) as [->|[p' [prev ->]]].
  - cbn [run] in Hrun. injection Hrun as <-. cbn in Hlast. discriminate.
  - rewrite run_app in Hrun.
    destruct (run D mx rinit p') as [s'|e] eqn:E'; cbn [bind run] in Hrun; [|discriminate].
    destruct (Resolve.step D mx s' prev) as [s1|e] eqn:E1; cbn [bind] in Hrun; [|discriminate].
    injection Hrun as ->.
    assert (Hprev : member (res s0) k prev).
    { apply (member_step _ _ _ k prev E1). right. split; [reflexivity|exact Hlast]. }
    destruct (Hext _ _ Hg) as [m' Hin].
    exists p', prev, h, (t ++ m'). split; [reflexivity|]. split.
    + eapply ext_member; [exact Hext|exact Hprev].
    + split; [exact Hin|exact Hpin].
Qed.

Theorem resolve_id_none : forall c q r, oids_ok (c :: q) ->
  resolve D mx (c :: q) = Ok r -> c_cls c = IdC -> forall k, ~ member r k c.
Proof.
  intros c q r Hoid H Hcls k Hmem.
  destruct (resolve_id_sound [] c q r Hoid H Hcls k Hmem) as [p' [prev [h [t [E _]]]]].
  destruct p'; discriminate E.
Qed.

End R.
