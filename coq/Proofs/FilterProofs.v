(* Proofs/FilterProofs.v -- properties of Model/Filter.v:filter_citations. *)
From EV Require Import Base.Str Model.Filter.
From Coq Require Import Sorting.Sorted Sorting.Permutation.
Open Scope Z_scope.

(* ------------------------------------------------------------------ *)
(* 1. Span arithmetic                                                   *)
(* ------------------------------------------------------------------ *)

Ltac zb :=
  repeat match goal with
  | H : context [Z.ltb ?x ?y] |- _ => destruct (Z.ltb_spec x y)
  | H : context [Z.eqb ?x ?y] |- _ => destruct (Z.eqb_spec x y)
  | |- context [Z.ltb ?x ?y] => destruct (Z.ltb_spec x y)
  | |- context [Z.eqb ?x ?y] => destruct (Z.eqb_spec x y)
  end; cbn in *; try congruence; try lia.

Lemma zspan_eqb_eq (a b : zspan) : zspan_eqb a b = true <-> a = b.
Proof.
  destruct a as [a1 a2], b as [b1 b2]; unfold zspan_eqb; cbn [fst snd]. split; intro H.
  - apply andb_true_iff in H. destruct H as [H1 H2].
    apply Z.eqb_eq in H1. apply Z.eqb_eq in H2. congruence.
  - injection H as -> ->. rewrite !Z.eqb_refl. reflexivity.
Qed.

Lemma zspan_eqb_neq (a b : zspan) : zspan_eqb a b = false <-> a <> b.
Proof.
  pose proof (zspan_eqb_eq a b) as H. destruct (zspan_eqb a b); split; intro H1.
  - discriminate.
  - exfalso. apply H1, H. reflexivity.
  - intro H2. apply H in H2. discriminate.
  - reflexivity.
Qed.

Lemma zspan_eqb_sym (a b : zspan) : zspan_eqb a b = zspan_eqb b a.
Proof. unfold zspan_eqb. rewrite (Z.eqb_sym (fst a)), (Z.eqb_sym (snd a)). reflexivity. Qed.

Lemma zspan_eqb_refl (a : zspan) : zspan_eqb a a = true.
Proof. apply zspan_eqb_eq. reflexivity. Qed.

Lemma ltb_irrefl (a : zspan) : zspan_ltb a a = false.
Proof. unfold zspan_ltb. zb. Qed.

Lemma ltb_trans (a b c : zspan) :
  zspan_ltb a b = true -> zspan_ltb b c = true -> zspan_ltb a c = true.
Proof. unfold zspan_ltb. intros H1 H2. zb. Qed.

Lemma ltb_asym (a b : zspan) : zspan_ltb a b = true -> zspan_ltb b a = false.
Proof. unfold zspan_ltb. intros H1. zb. Qed.

Lemma ltb_total (a b : zspan) : zspan_ltb a b = false -> zspan_ltb b a = false -> a = b.
Proof.
  destruct a as [a1 a2], b as [b1 b2]. unfold zspan_ltb. cbn [fst snd]. intros H1 H2.
  assert (H : a1 = b1 /\ a2 = b2) by zb.
  destruct H as [-> ->]. reflexivity.
Qed.

(* a <= b <= c *)
Lemma zle_trans (a b c : zspan) :
  zspan_ltb b a = false -> zspan_ltb c b = false -> zspan_ltb c a = false.
Proof. unfold zspan_ltb. intros H1 H2. zb. Qed.

Lemma zle_fst (a b : zspan) : zspan_ltb b a = false -> fst a <= fst b.
Proof. unfold zspan_ltb. intros H1. zb. Qed.

Lemma ov_sym (a b : zspan) : overlapping a b = overlapping b a.
Proof. unfold overlapping. rewrite (Z.max_comm (fst a)), (Z.min_comm (snd a)). reflexivity. Qed.

Lemma ov_between_r (fr fn fy : zspan) :
  zspan_ltb fn fr = false -> zspan_ltb fy fn = false ->
  overlapping fr fy = true -> overlapping fn fr = false ->
  zspan_ltb fr fn = true /\ zspan_ltb fn fy = true.
Proof. unfold zspan_ltb, overlapping. intros H1 H2 H3 H4. zb. Qed.

Lemma ov_between_l (fr fn fy : zspan) :
  zspan_ltb fn fy = false -> zspan_ltb fr fn = false ->
  overlapping fr fy = true -> overlapping fr fn = false ->
  zspan_ltb fy fn = true /\ zspan_ltb fn fr = true.
Proof. unfold zspan_ltb, overlapping. intros H1 H2 H3 H4. zb. Qed.

(* the pop case of the neighbour loop *)
Lemma ov_pop (fr fl fc0 : zspan) :
  fst fr <= fst fl -> fst fl <= fst fc0 ->
  overlapping fc0 fl = true -> overlapping fl fr = false -> overlapping fc0 fr = false.
Proof. unfold overlapping. intros H1 H2 H3 H4. zb. Qed.

(* ------------------------------------------------------------------ *)
(* 2. Generic list facts                                                *)
(* ------------------------------------------------------------------ *)

Lemma snoc_case {A} (l : list A) : l = [] \/ exists l' x, l = l' ++ [x].
Proof.
  induction l as [|x l' _] using rev_ind.
  - left; reflexivity.
  - right; exists l', x; reflexivity.
Qed.

Lemma rev_cons_app {A} (c : A) a r : rev (c :: a) ++ r = rev a ++ c :: r.
Proof. cbn [rev]. rewrite <- app_assoc. reflexivity. Qed.

Lemma SS_app_inv {A} (R : A -> A -> Prop) l1 l2 :
  StronglySorted R (l1 ++ l2) ->
  StronglySorted R l1 /\ StronglySorted R l2 /\ (forall a b, In a l1 -> In b l2 -> R a b).
Proof.
  induction l1 as [|x l1 IH]; cbn [app]; intros H.
  - split; [constructor|]. split; [exact H|]. intros a b [].
  - apply StronglySorted_inv in H. destruct H as [HS HF].
    destruct (IH HS) as (H1 & H2 & H3). rewrite Forall_forall in HF.
    split; [|split].
    + constructor; [exact H1|]. rewrite Forall_forall. intros y Hy. apply HF, in_or_app. left; exact Hy.
    + exact H2.
    + intros a b [<-|Ha] Hb.
      * apply HF, in_or_app. right; exact Hb.
      * apply H3; assumption.
Qed.

Lemma SS_app {A} (R : A -> A -> Prop) l1 l2 :
  StronglySorted R l1 -> StronglySorted R l2 -> (forall a b, In a l1 -> In b l2 -> R a b) ->
  StronglySorted R (l1 ++ l2).
Proof.
  induction l1 as [|x l1 IH]; cbn [app]; intros H1 H2 H3.
  - exact H2.
  - apply StronglySorted_inv in H1. destruct H1 as [HS HF]. rewrite Forall_forall in HF.
    constructor.
    + apply IH; [exact HS|exact H2|]. intros a b Ha Hb. apply H3; [right; exact Ha|exact Hb].
    + rewrite Forall_forall. intros y Hy. apply in_app_or in Hy. destruct Hy as [Hy|Hy].
      * apply HF, Hy.
      * apply H3; [left; reflexivity|exact Hy].
Qed.

Lemma SS_impl {A} (R R' : A -> A -> Prop) l :
  (forall a b, R a b -> R' a b) -> StronglySorted R l -> StronglySorted R' l.
Proof.
  intros HR HS. induction HS as [|a l HS IH HF]; constructor.
  - exact IH.
  - rewrite Forall_forall in *. intros y Hy. apply HR, HF, Hy.
Qed.

(* ------------------------------------------------------------------ *)
(* 3. dict_put / dedupe                                                 *)
(* ------------------------------------------------------------------ *)

Lemma dict_put_in c d x : In x (dict_put c d) -> x = c \/ In x d.
Proof.
  induction d as [|y d IH]; cbn [dict_put].
  - intros [<-|[]]. left; reflexivity.
  - destruct (zspan_eqb (f_span y) (f_span c)).
    + intros [<-|H]; [left; reflexivity|right; right; exact H].
    + intros [<-|H]; [right; left; reflexivity|].
      destruct (IH H) as [->|H']; [left; reflexivity|right; right; exact H'].
Qed.

Lemma dict_put_spec c d x :
  NoDup (map f_span d) ->
  (In x (dict_put c d) <-> x = c \/ (In x d /\ zspan_eqb (f_span x) (f_span c) = false)).
Proof.
  induction d as [|y d IH]; cbn [dict_put map]; intros HN.
  - split.
    + intros [<-|[]]. left; reflexivity.
    + intros [->|[[] _]]. left; reflexivity.
  - apply NoDup_cons_iff in HN. destruct HN as [Hy HN]. specialize (IH HN).
    destruct (zspan_eqb (f_span y) (f_span c)) eqn:E.
    + apply zspan_eqb_eq in E. split.
      * intros [<-|H]; [left; reflexivity|]. right. split; [right; exact H|].
        apply zspan_eqb_neq. intro Heq. apply Hy. rewrite E, <- Heq. apply in_map, H.
      * intros [->|[[<-|H] Hne]]; [left; reflexivity| |right; exact H].
        apply zspan_eqb_neq in Hne. congruence.
    + split.
      * intros [<-|H]; [right; split; [left; reflexivity|exact E]|].
        apply IH in H. destruct H as [->|[H Hne]]; [left; reflexivity|].
        right; split; [right; exact H|exact Hne].
      * intros [->|[[<-|H] Hne]].
        -- right. apply IH. left; reflexivity.
        -- left; reflexivity.
        -- right. apply IH. right; split; assumption.
Qed.

Lemma dict_put_nodup c d : NoDup (map f_span d) -> NoDup (map f_span (dict_put c d)).
Proof.
  induction d as [|y d IH]; cbn [dict_put map]; intros HN.
  - constructor; [intros []|constructor].
  - apply NoDup_cons_iff in HN. destruct HN as [Hy HN].
    destruct (zspan_eqb (f_span y) (f_span c)) eqn:E; cbn [map].
    + apply zspan_eqb_eq in E. rewrite <- E. constructor; assumption.
    + constructor; [|apply IH, HN].
      intro Hin. apply in_map_iff in Hin. destruct Hin as (x & Hx & Hin).
      apply dict_put_in in Hin. destruct Hin as [->|Hin].
      * apply zspan_eqb_neq in E. congruence.
      * apply Hy. rewrite <- Hx. apply in_map, Hin.
Qed.

Lemma dict_put_fresh c d :
  (forall x, In x d -> zspan_eqb (f_span x) (f_span c) = false) -> dict_put c d = d ++ [c].
Proof.
  induction d as [|y d IH]; cbn [dict_put app]; intros H.
  - reflexivity.
  - rewrite (H y (or_introl eq_refl)). f_equal. apply IH. intros x Hx. apply H. right; exact Hx.
Qed.

Lemma dedupe_snoc l c : dedupe (l ++ [c]) = dict_put c (dedupe l).
Proof. unfold dedupe. rewrite fold_left_app. reflexivity. Qed.

Lemma dedupe_nodup l : NoDup (map f_span (dedupe l)).
Proof.
  induction l as [|c l IH] using rev_ind.
  - constructor.
  - rewrite dedupe_snoc. apply dict_put_nodup, IH.
Qed.

Definition span_lt (a b : fc) : Prop := zspan_ltb (f_span a) (f_span b) = true.

(* the last element of l having a given span *)
Definition is_last_with_span (l : list fc) (c : fc) : Prop :=
  exists l1 l2, l = l1 ++ c :: l2 /\ forall x, In x l2 -> zspan_eqb (f_span x) (f_span c) = false.

Lemma last_snoc l c x :
  is_last_with_span (l ++ [c]) x <->
  x = c \/ (is_last_with_span l x /\ zspan_eqb (f_span x) (f_span c) = false).
Proof.
  split.
  - intros (l1 & l2 & Heq & Hl2).
    destruct (snoc_case l2) as [->|(l2' & y & ->)].
    + apply app_inj_tail in Heq. destruct Heq as [_ <-]. left; reflexivity.
    + change (l1 ++ x :: l2' ++ [y]) with (l1 ++ (x :: l2') ++ [y]) in Heq.
      rewrite app_assoc in Heq. apply app_inj_tail in Heq. destruct Heq as [-> ->].
      right. split.
      * exists l1, l2'. split; [reflexivity|]. intros z Hz. apply Hl2, in_or_app. left; exact Hz.
      * rewrite zspan_eqb_sym. apply Hl2, in_or_app. right; left; reflexivity.
  - intros [->|[(l1 & l2 & -> & Hl2) Hne]].
    + exists l, []. split; [reflexivity|]. intros z [].
    + exists l1, (l2 ++ [c]). split.
      * rewrite <- app_assoc. reflexivity.
      * intros z Hz. apply in_app_or in Hz. destruct Hz as [Hz|[<-|[]]].
        -- apply Hl2, Hz.
        -- rewrite zspan_eqb_sym. exact Hne.
Qed.

Lemma dedupe_in l x : In x (dedupe l) <-> is_last_with_span l x.
Proof.
  revert x. induction l as [|c l IH] using rev_ind; intros x.
  - cbn. split; [intros []|]. intros (l1 & l2 & Heq & _).
    apply app_cons_not_nil in Heq. exact Heq.
  - rewrite dedupe_snoc, (dict_put_spec c (dedupe l) x (dedupe_nodup l)), last_snoc, IH. reflexivity.
Qed.

Lemma dedupe_id l : NoDup (map f_span l) -> dedupe l = l.
Proof.
  induction l as [|c l IH] using rev_ind; intros HN.
  - reflexivity.
  - rewrite map_app in HN. cbn [map] in HN.
    pose proof (NoDup_remove_1 _ _ _ HN) as H1. pose proof (NoDup_remove_2 _ _ _ HN) as H2.
    rewrite app_nil_r in H1, H2.
    rewrite dedupe_snoc, (IH H1). apply dict_put_fresh.
    intros x Hx. apply zspan_eqb_neq. intro Heq. apply H2. rewrite <- Heq. apply in_map, Hx.
Qed.

(* ------------------------------------------------------------------ *)
(* 4. sort_by                                                           *)
(* ------------------------------------------------------------------ *)

Definition kle (key : fc -> zspan) (a b : fc) : Prop := zspan_ltb (key b) (key a) = false.

Lemma sort_cons key x l : sort_by key (x :: l) = insert_by key x (sort_by key l).
Proof. reflexivity. Qed.

Lemma insert_perm key x l : Permutation (insert_by key x l) (x :: l).
Proof.
  induction l as [|y l IH]; cbn [insert_by].
  - apply Permutation_refl.
  - destruct (zspan_ltb (key y) (key x)).
    + eapply perm_trans; [apply perm_skip, IH|apply perm_swap].
    + apply Permutation_refl.
Qed.

Lemma sort_perm key l : Permutation (sort_by key l) l.
Proof.
  induction l as [|x l IH].
  - apply Permutation_refl.
  - rewrite sort_cons. eapply perm_trans; [apply insert_perm|apply perm_skip, IH].
Qed.

Lemma sort_in key l x : In x (sort_by key l) <-> In x l.
Proof.
  split; apply Permutation_in; [|apply Permutation_sym]; apply sort_perm.
Qed.

Lemma insert_sorted key x l :
  StronglySorted (kle key) l -> StronglySorted (kle key) (insert_by key x l).
Proof.
  induction l as [|y l IH]; intros HS; cbn [insert_by].
  - constructor; constructor.
  - apply StronglySorted_inv in HS. destruct HS as [HS HF].
    destruct (zspan_ltb (key y) (key x)) eqn:E.
    + constructor; [apply IH, HS|].
      rewrite Forall_forall in *. intros z Hz.
      eapply Permutation_in in Hz; [|apply insert_perm]. destruct Hz as [<-|Hz].
      * unfold kle. apply ltb_asym, E.
      * apply HF, Hz.
    + constructor; [constructor; assumption|].
      constructor; [exact E|].
      rewrite Forall_forall in *. intros z Hz. unfold kle in *.
      eapply zle_trans; [exact E|apply HF, Hz].
Qed.

Lemma sort_sorted key l : StronglySorted (kle key) (sort_by key l).
Proof.
  induction l as [|x l IH].
  - constructor.
  - rewrite sort_cons. apply insert_sorted, IH.
Qed.

Lemma perm_nodup_span l l' :
  Permutation l l' -> NoDup (map f_span l) -> NoDup (map f_span l').
Proof.
  intros HP. apply Permutation_NoDup, Permutation_map, HP.
Qed.

Lemma le_nodup_lt l :
  StronglySorted (kle f_span) l -> NoDup (map f_span l) -> StronglySorted span_lt l.
Proof.
  intros HS. induction HS as [|a l HS IH HF]; intros HN; constructor.
  - apply IH. cbn [map] in HN. apply NoDup_cons_iff in HN. apply HN.
  - cbn [map] in HN. apply NoDup_cons_iff in HN. destruct HN as [Ha _].
    rewrite Forall_forall in *. intros x Hx. unfold span_lt.
    destruct (zspan_ltb (f_span a) (f_span x)) eqn:E; [reflexivity|]. exfalso.
    apply Ha. rewrite (ltb_total _ _ E (HF x Hx)). apply in_map, Hx.
Qed.

Lemma sort_span_strict l : NoDup (map f_span l) -> StronglySorted span_lt (sort_by f_span l).
Proof.
  intros HN. apply le_nodup_lt; [apply sort_sorted|].
  eapply perm_nodup_span; [apply Permutation_sym, sort_perm|exact HN].
Qed.

Lemma span_lt_nodup l : StronglySorted span_lt l -> NoDup (map f_span l).
Proof.
  intros HS. induction HS as [|a l HS IH HF]; cbn [map]; constructor; [|exact IH].
  intro Hin. apply in_map_iff in Hin. destruct Hin as (x & Hx & Hin).
  rewrite Forall_forall in HF. specialize (HF x Hin). unfold span_lt in HF.
  rewrite Hx, ltb_irrefl in HF. discriminate.
Qed.

Lemma sorted_unique l1 : forall l2,
  StronglySorted span_lt l1 -> StronglySorted span_lt l2 -> Permutation l1 l2 -> l1 = l2.
Proof.
  induction l1 as [|a l1 IH]; intros l2 H1 H2 HP.
  - apply Permutation_nil in HP. symmetry; exact HP.
  - destruct l2 as [|b l2].
    + apply Permutation_sym, Permutation_nil in HP. discriminate.
    + apply StronglySorted_inv in H1. destruct H1 as [HS1 HF1].
      apply StronglySorted_inv in H2. destruct H2 as [HS2 HF2].
      rewrite Forall_forall in HF1, HF2.
      assert (Hab : a = b).
      { assert (Ha : In a (b :: l2)) by (eapply Permutation_in; [exact HP|left; reflexivity]).
        assert (Hb : In b (a :: l1))
          by (eapply Permutation_in; [apply Permutation_sym, HP|left; reflexivity]).
        destruct Ha as [Ha|Ha]; [symmetry; exact Ha|].
        destruct Hb as [Hb|Hb]; [exact Hb|].
        exfalso. specialize (HF1 b Hb). specialize (HF2 a Ha). unfold span_lt in *.
        apply ltb_asym in HF1. congruence. }
      subst b. f_equal. apply IH; [exact HS1|exact HS2|].
      eapply Permutation_cons_inv; exact HP.
Qed.

(* ------------------------------------------------------------------ *)
(* 5. The neighbour loop                                                *)
(* ------------------------------------------------------------------ *)

(* properties preserved by deleting an element *)
Definition rm_closed (Pr : list fc -> Prop) : Prop :=
  forall l1 x l2, Pr (l1 ++ x :: l2) -> Pr (l1 ++ l2).

Lemma fstep_closed Pr : rm_closed Pr ->
  forall acc c rest, Pr (rev acc ++ c :: rest) -> Pr (rev (fstep acc c) ++ rest).
Proof.
  intros HP acc c rest H. destruct acc as [|last acc']; cbn [fstep].
  - exact H.
  - destruct (overlapping (f_full c) (f_full last)).
    + destruct (f_ref last).
      * rewrite rev_cons_app. rewrite rev_cons_app in H. apply HP in H. exact H.
      * destruct (f_ref c).
        -- apply HP in H. exact H.
        -- rewrite rev_cons_app. exact H.
    + destruct (f_ref c && existsb _ _).
      * apply HP in H. exact H.
      * rewrite rev_cons_app. exact H.
Qed.

Lemma fold_closed Pr : rm_closed Pr ->
  forall rest acc, Pr (rev acc ++ rest) -> Pr (rev (fold_left fstep rest acc)).
Proof.
  intros HP rest. induction rest as [|c rest IH]; intros acc H; cbn [fold_left].
  - rewrite app_nil_r in H. exact H.
  - apply IH. apply fstep_closed; assumption.
Qed.

Lemma fstep_keeps acc x c : f_ref c = false -> In c acc \/ c = x -> In c (fstep acc x).
Proof.
  intros Hc Hin. destruct acc as [|last acc']; cbn [fstep].
  - destruct Hin as [ [] | -> ]. left; reflexivity.
  - destruct (overlapping (f_full x) (f_full last)).
    + destruct (f_ref last) eqn:El.
      * destruct Hin as [ [ <- | Hin ] | -> ].
        -- congruence.
        -- right; exact Hin.
        -- left; reflexivity.
      * destruct (f_ref x) eqn:Ex.
        -- destruct Hin as [Hin| ->]; [exact Hin|congruence].
        -- destruct Hin as [Hin| ->]; [right; exact Hin|left; reflexivity].
    + destruct (f_ref x && existsb _ _) eqn:Ex.
      * apply andb_true_iff in Ex. destruct Hin as [Hin| ->]; [exact Hin|].
        destruct Ex as [Ex _]. congruence.
      * destruct Hin as [Hin| ->]; [right; exact Hin|left; reflexivity].
Qed.

Lemma fold_keeps rest : forall acc c,
  f_ref c = false -> In c acc \/ In c rest -> In c (fold_left fstep rest acc).
Proof.
  induction rest as [|x rest IH]; intros acc c Hc Hin; cbn [fold_left].
  - destruct Hin as [Hin|[]]. exact Hin.
  - apply IH; [exact Hc|]. destruct Hin as [Hin|[<-|Hin]].
    + left. apply fstep_keeps; [exact Hc|left; exact Hin].
    + left. apply fstep_keeps; [exact Hc|right; reflexivity].
    + right; exact Hin.
Qed.

Definition le_start (a b : fc) : Prop := fst (f_full a) <= fst (f_full b).

(* accumulator invariant: starts are non-increasing from the top, and adjacent pairs
   containing a reference do not overlap *)
Fixpoint okch (acc : list fc) : Prop :=
  match acc with
  | t :: tl =>
      match tl with
      | r :: _ =>
          le_start r t /\
          (f_ref r = true \/ f_ref t = true -> overlapping (f_full t) (f_full r) = false) /\
          okch tl
      | [] => True
      end
  | [] => True
  end.

Lemma okch_cons2 t r tl :
  okch (t :: r :: tl) <->
  le_start r t /\
  (f_ref r = true \/ f_ref t = true -> overlapping (f_full t) (f_full r) = false) /\
  okch (r :: tl).
Proof. reflexivity. Qed.

Lemma okch_tail x l : okch (x :: l) -> okch l.
Proof. destruct l as [|y l]; [intros _; exact I|]. intros H. apply okch_cons2 in H. apply H. Qed.

Lemma fstep_shape h t c :
  fstep (h :: t) c = c :: t \/ fstep (h :: t) c = h :: t \/ fstep (h :: t) c = c :: h :: t.
Proof.
  cbn [fstep]. destruct (overlapping (f_full c) (f_full h)).
  2:{ destruct (f_ref c && existsb _ _); [right; left; reflexivity|right; right; reflexivity]. }
  destruct (f_ref h); [left; reflexivity|].
  destruct (f_ref c); [right; left; reflexivity|right; right; reflexivity].
Qed.

Lemma fstep_ok h t c : okch (h :: t) -> le_start h c -> okch (fstep (h :: t) c).
Proof.
  intros H Hle. cbn [fstep]. destruct (overlapping (f_full c) (f_full h)) eqn:Eo.
  - destruct (f_ref h) eqn:Eh.
    + destruct t as [|r t']; [exact I|].
      apply okch_cons2 in H. destruct H as (H1 & H2 & H3). apply okch_cons2.
      unfold le_start in *. split; [lia|]. split; [|exact H3].
      intros _. eapply ov_pop; [exact H1|exact Hle|exact Eo|]. apply H2. right; exact Eh.
    + destruct (f_ref c) eqn:Ec; [exact H|].
      apply okch_cons2. split; [exact Hle|]. split; [|exact H].
      intros [Hx|Hx]; congruence.
  - destruct (f_ref c && existsb _ _); [exact H|].
    apply okch_cons2. split; [exact Hle|]. split; [|exact H]. intros _; exact Eo.
Qed.

Lemma fold_ok rest : forall h t,
  okch (h :: t) -> StronglySorted le_start (h :: rest) -> okch (fold_left fstep rest (h :: t)).
Proof.
  induction rest as [|c rest IH]; intros h t H HS; cbn [fold_left].
  - exact H.
  - apply StronglySorted_inv in HS. destruct HS as [HS HF].
    apply Forall_inv in HF as Hhc. apply Forall_inv_tail in HF.
    apply StronglySorted_inv in HS as HS'. destruct HS' as [HS' HF'].
    pose proof (fstep_ok h t c H Hhc) as Hok.
    destruct (fstep_shape h t c) as [E|[E|E]]; rewrite E in *.
    + apply IH; [exact Hok|exact HS].
    + apply IH; [exact Hok|]. constructor; assumption.
    + apply IH; [exact Hok|exact HS].
Qed.

Definition adj_ok (L : list fc) : Prop :=
  forall l1 a b l2, L = l1 ++ a :: b :: l2 ->
    f_ref a = true \/ f_ref b = true -> overlapping (f_full b) (f_full a) = false.

Lemma okch_app l : forall a b l', okch (l ++ b :: a :: l') ->
  f_ref a = true \/ f_ref b = true -> overlapping (f_full b) (f_full a) = false.
Proof.
  induction l as [|x l IH]; intros a b l' H; cbn [app] in H.
  - apply okch_cons2 in H. apply H.
  - apply okch_tail in H. apply IH with (l' := l'). exact H.
Qed.

Lemma okch_adj acc : okch acc -> adj_ok (rev acc).
Proof.
  intros H l1 a b l2 Heq. apply (f_equal (@rev fc)) in Heq.
  rewrite rev_involutive, rev_app_distr in Heq. cbn [rev] in Heq.
  rewrite <- !app_assoc in Heq. cbn [app] in Heq. subst acc.
  eapply okch_app; exact H.
Qed.

(* (repaired loop) a kept reference overlaps no citation kept before it *)
Fixpoint rdeep (acc : list fc) : Prop :=
  match acc with
  | [] => True
  | r :: tl =>
      (f_ref r = true -> forall y, In y tl -> overlapping (f_full r) (f_full y) = false) /\ rdeep tl
  end.

Lemma okch_le h t : okch (h :: t) -> forall y, In y t -> le_start y h.
Proof.
  revert h. induction t as [|r t IH]; intros h H y Hy; [destruct Hy|].
  apply okch_cons2 in H. destruct H as (H1 & _ & H3).
  destruct Hy as [<-|Hy]; [exact H1|].
  specialize (IH r H3 y Hy). unfold le_start in *. lia.
Qed.

Lemma existsb_false_all {A} (f : A -> bool) l : existsb f l = false -> forall x, In x l -> f x = false.
Proof.
  intros H x Hx. destruct (f x) eqn:E; [|reflexivity].
  assert (existsb f l = true) by (apply existsb_exists; exists x; split; assumption). congruence.
Qed.

Lemma fstep_rdeep h t c :
  okch (h :: t) -> rdeep (h :: t) -> le_start h c -> rdeep (fstep (h :: t) c).
Proof.
  intros Hok Hr Hle. cbn [fstep]. destruct (overlapping (f_full c) (f_full h)) eqn:Eo.
  - destruct (f_ref h) eqn:Eh.
    + cbn [rdeep] in Hr |- *. destruct Hr as [Hh Ht]. split; [|exact Ht].
      intros _ y Hy. pose proof (okch_le h t Hok y Hy) as Hyh.
      eapply ov_pop; [exact Hyh|exact Hle|exact Eo|]. exact (Hh Eh y Hy).
    + destruct (f_ref c) eqn:Ec; [exact Hr|].
      cbn [rdeep]. split; [intros Hx; congruence|exact Hr].
  - destruct (f_ref c && existsb _ _) eqn:Ex; [exact Hr|].
    cbn [rdeep]. split; [|exact Hr].
    intros Hc y Hy. rewrite Hc in Ex. cbn [andb] in Ex.
    exact (existsb_false_all _ _ Ex y Hy).
Qed.

Lemma fold_rdeep rest : forall h t,
  okch (h :: t) -> rdeep (h :: t) -> StronglySorted le_start (h :: rest) ->
  rdeep (fold_left fstep rest (h :: t)).
Proof.
  induction rest as [|c rest IH]; intros h t H Hr HS; cbn [fold_left].
  - exact Hr.
  - apply StronglySorted_inv in HS. destruct HS as [HS HF].
    apply Forall_inv in HF as Hhc. apply Forall_inv_tail in HF.
    apply StronglySorted_inv in HS as HS'. destruct HS' as [HS' HF'].
    pose proof (fstep_ok h t c H Hhc) as Hok.
    pose proof (fstep_rdeep h t c H Hr Hhc) as Hrd.
    destruct (fstep_shape h t c) as [E|[E|E]]; rewrite E in *.
    + apply IH; [exact Hok|exact Hrd|exact HS].
    + apply IH; [exact Hok|exact Hrd|]. constructor; assumption.
    + apply IH; [exact Hok|exact Hrd|exact HS].
Qed.

Definition refpre (L : list fc) : Prop :=
  forall l1 r l2, L = l1 ++ r :: l2 -> f_ref r = true ->
    forall y, In y l1 -> overlapping (f_full r) (f_full y) = false.

Lemma rdeep_app a : forall r b, rdeep (a ++ r :: b) -> f_ref r = true ->
  forall y, In y b -> overlapping (f_full r) (f_full y) = false.
Proof.
  induction a as [|x a IH]; intros r b H Hr y Hy; cbn [app rdeep] in H.
  - exact (proj1 H Hr y Hy).
  - exact (IH r b (proj2 H) Hr y Hy).
Qed.

Lemma rdeep_refpre acc : rdeep acc -> refpre (rev acc).
Proof.
  intros H l1 r l2 Heq Hr y Hy. apply (f_equal (@rev fc)) in Heq.
  rewrite rev_involutive, rev_app_distr in Heq. cbn [rev] in Heq.
  rewrite <- app_assoc in Heq. cbn [app] in Heq. subst acc.
  apply (rdeep_app _ _ _ H Hr). apply in_rev in Hy. exact Hy.
Qed.

(* when no adjacent pair is in conflict and no reference overlaps an earlier element, the loop
   keeps everything *)
Lemma fold_id rest : forall h acc,
  adj_ok (rev (h :: acc) ++ rest) -> refpre (rev (h :: acc) ++ rest) ->
  fold_left fstep rest (h :: acc) = rev rest ++ h :: acc.
Proof.
  induction rest as [|c rest IH]; intros h acc H HR; cbn [fold_left].
  - reflexivity.
  - assert (Hc : f_ref h = true \/ f_ref c = true -> overlapping (f_full c) (f_full h) = false).
    { apply (H (rev acc) h c rest). apply rev_cons_app. }
    assert (E : fstep (h :: acc) c = c :: h :: acc).
    { cbn [fstep]. destruct (overlapping (f_full c) (f_full h)) eqn:Eo.
      - destruct (f_ref h) eqn:Eh.
        + specialize (Hc (or_introl eq_refl)). discriminate.
        + destruct (f_ref c) eqn:Ec; [|reflexivity].
          specialize (Hc (or_intror eq_refl)). discriminate.
      - destruct (f_ref c) eqn:Ec; [|reflexivity]. cbn [andb].
        assert (Hex : existsb (fun x => overlapping (f_full c) (f_full x)) (h :: acc) = false).
        { destruct (existsb _ (h :: acc)) eqn:Ex; [|reflexivity].
          apply existsb_exists in Ex. destruct Ex as (y & Hy & Hov).
          rewrite (HR (rev (h :: acc)) c rest eq_refl Ec y) in Hov; [discriminate|].
          apply in_rev in Hy. exact Hy. }
        rewrite Hex. reflexivity. }
    rewrite E, IH.
    + cbn [rev]. rewrite <- app_assoc. reflexivity.
    + rewrite rev_cons_app. exact H.
    + rewrite rev_cons_app. exact HR.
Qed.

(* ------------------------------------------------------------------ *)
(* 6. A permutation-invariant form of adj_ok on lists sorted by full    *)
(* ------------------------------------------------------------------ *)

Definition full_lt (a b : fc) : Prop := zspan_ltb (f_full a) (f_full b) = true.

Definition Tprop (L : list fc) : Prop :=
  forall r y, In r L -> In y L -> f_ref r = true -> r <> y ->
    overlapping (f_full r) (f_full y) = true ->
    exists z, In z L /\ ((full_lt r z /\ full_lt z y) \/ (full_lt y z /\ full_lt z r)).

Lemma adj_T L : StronglySorted (kle f_full) L -> adj_ok L -> Tprop L.
Proof.
  intros HS HA r y Hr Hy Href Hne Hov.
  apply in_split in Hr. destruct Hr as (l1 & l2 & ->).
  apply in_app_or in Hy. destruct Hy as [Hy|[Hy|Hy]]; [|congruence|].
  - destruct (snoc_case l1) as [->|(l1' & n & ->)]; [destruct Hy|].
    rewrite <- app_assoc in HS, HA. cbn [app] in HS, HA.
    pose proof (HA l1' n r l2 eq_refl (or_intror Href)) as Hnr.
    apply SS_app_inv in HS. destruct HS as (_ & HS & Hcross).
    apply StronglySorted_inv in HS. destruct HS as [_ HF]. apply Forall_inv in HF.
    apply in_app_or in Hy. destruct Hy as [Hy|[<-|[]]]; [|congruence].
    specialize (Hcross y n Hy (or_introl eq_refl)). unfold kle in *.
    exists n. split; [apply in_or_app; left; apply in_or_app; right; left; reflexivity|]. right.
    apply ov_between_l; assumption.
  - destruct l2 as [|n l2']; [destruct Hy|].
    pose proof (HA l1 r n l2' eq_refl (or_introl Href)) as Hnr.
    apply SS_app_inv in HS. destruct HS as (_ & HS & _).
    apply StronglySorted_inv in HS. destruct HS as [HS HF]. apply Forall_inv in HF.
    apply StronglySorted_inv in HS. destruct HS as [_ HF']. rewrite Forall_forall in HF'.
    destruct Hy as [<-|Hy]; [rewrite ov_sym in Hnr; congruence|].
    specialize (HF' y Hy). unfold kle in *.
    exists n. split; [apply in_or_app; right; right; left; reflexivity|]. left.
    apply ov_between_r; assumption.
Qed.

Lemma T_perm L L' : (forall x, In x L <-> In x L') -> Tprop L -> Tprop L'.
Proof.
  intros HI HT r y Hr Hy Href Hne Hov.
  destruct (HT r y (proj2 (HI r) Hr) (proj2 (HI y) Hy) Href Hne Hov) as (z & Hz & H).
  exists z. split; [apply HI, Hz|exact H].
Qed.

Lemma T_adj L : StronglySorted (kle f_full) L -> NoDup L -> Tprop L -> adj_ok L.
Proof.
  intros HS HN HT l1 a b l2 -> Href.
  destruct (overlapping (f_full b) (f_full a)) eqn:Eo; [exfalso|reflexivity].
  assert (Ha : In a (l1 ++ a :: b :: l2)) by (apply in_or_app; right; left; reflexivity).
  assert (Hb : In b (l1 ++ a :: b :: l2)) by (apply in_or_app; right; right; left; reflexivity).
  assert (Hab : a <> b).
  { apply NoDup_remove_2 in HN. intros ->. apply HN, in_or_app. right; left; reflexivity. }
  assert (Hz : exists z, In z (l1 ++ a :: b :: l2) /\
            ((full_lt a z /\ full_lt z b) \/ (full_lt b z /\ full_lt z a))).
  { destruct Href as [Href|Href].
    - apply (HT a b Ha Hb Href Hab). rewrite ov_sym. exact Eo.
    - destruct (HT b a Hb Ha Href (not_eq_sym Hab) Eo) as (z & Hz & H).
      exists z. split; [exact Hz|]. destruct H as [H|H]; [right|left]; exact H. }
  destruct Hz as (z & Hz & H).
  apply SS_app_inv in HS. destruct HS as (_ & HS & Hcross).
  apply StronglySorted_inv in HS. destruct HS as [HS HFa]. rewrite Forall_forall in HFa.
  apply StronglySorted_inv in HS. destruct HS as [_ HFb]. rewrite Forall_forall in HFb.
  pose proof (HFa b (or_introl eq_refl)) as Hleab.
  unfold kle, full_lt in *.
  destruct H as [[H1 H2]|[H1 H2]].
  - apply in_app_or in Hz. destruct Hz as [Hz|[<-|[<-|Hz]]].
    + specialize (Hcross z a Hz (or_introl eq_refl)). congruence.
    + rewrite ltb_irrefl in H1. discriminate.
    + rewrite ltb_irrefl in H2. discriminate.
    + specialize (HFb z Hz). congruence.
  - pose proof (ltb_trans _ _ _ H1 H2) as H3. congruence.
Qed.

(* ------------------------------------------------------------------ *)
(* 7. filter_citations                                                  *)
(* ------------------------------------------------------------------ *)

Definition fullpass (l : list fc) : list fc :=
  match sort_by f_full (dedupe l) with
  | [] => []
  | first :: rest => rev (fold_left fstep rest [first])
  end.

Theorem filter_is_sorted_fullpass : forall l, filter_citations l = sort_by f_span (fullpass l).
Proof.
  intros [|x l].
  - reflexivity.
  - unfold filter_citations, fullpass.
    destruct (sort_by f_full (dedupe (x :: l))); reflexivity.
Qed.

Lemma fullpass_closed Pr l :
  rm_closed Pr -> Pr (sort_by f_full (dedupe l)) -> Pr (fullpass l).
Proof.
  intros HP H. unfold fullpass. destruct (sort_by f_full (dedupe l)) as [|first rest].
  - exact H.
  - apply fold_closed; [exact HP|exact H].
Qed.

Lemma rm_closed_incl S : rm_closed (fun L => forall x, In x L -> In x S).
Proof.
  intros l1 x l2 H y Hy. apply H. apply in_app_or in Hy. apply in_or_app.
  destruct Hy as [Hy|Hy]; [left|right; right]; exact Hy.
Qed.

Lemma rm_closed_nodup : rm_closed (fun L => NoDup (map f_span L)).
Proof.
  intros l1 x l2 H. rewrite map_app in *. cbn [map] in H. eapply NoDup_remove_1. exact H.
Qed.

Lemma rm_closed_SS (R : fc -> fc -> Prop) : rm_closed (StronglySorted R).
Proof.
  intros l1 x l2 H. apply SS_app_inv in H. destruct H as (H1 & H2 & H3).
  apply StronglySorted_inv in H2. destruct H2 as [H2 _].
  apply SS_app; [exact H1|exact H2|]. intros a b Ha Hb. apply H3; [exact Ha|right; exact Hb].
Qed.

Lemma fullpass_incl l x : In x (fullpass l) -> In x (dedupe l).
Proof.
  intros H. apply (sort_in f_full). revert x H.
  apply (fullpass_closed (fun L => forall x, In x L -> In x (sort_by f_full (dedupe l)))).
  - apply rm_closed_incl.
  - intros x H; exact H.
Qed.

Lemma fullpass_nodup l : NoDup (map f_span (fullpass l)).
Proof.
  apply (fullpass_closed (fun L => NoDup (map f_span L))).
  - apply rm_closed_nodup.
  - eapply perm_nodup_span; [apply Permutation_sym, sort_perm|apply dedupe_nodup].
Qed.

Lemma fullpass_sorted l : StronglySorted (kle f_full) (fullpass l).
Proof.
  apply (fullpass_closed (StronglySorted (kle f_full))).
  - apply rm_closed_SS.
  - apply sort_sorted.
Qed.

Lemma fullpass_adj l : adj_ok (fullpass l).
Proof.
  unfold fullpass. pose proof (sort_sorted f_full (dedupe l)) as HS.
  destruct (sort_by f_full (dedupe l)) as [|first rest].
  - intros l1 a b l2 Heq. apply app_cons_not_nil in Heq. destruct Heq.
  - apply okch_adj. apply fold_ok; [exact I|].
    eapply SS_impl; [|exact HS]. intros a b Hab. apply zle_fst, Hab.
Qed.

Lemma fullpass_refpre l : refpre (fullpass l).
Proof.
  unfold fullpass. pose proof (sort_sorted f_full (dedupe l)) as HS.
  destruct (sort_by f_full (dedupe l)) as [|first rest].
  - intros l1 r l2 Heq. apply app_cons_not_nil in Heq. destruct Heq.
  - apply rdeep_refpre. apply fold_rdeep; [exact I|cbn [rdeep]; split; [intros _ y []|exact I]|].
    eapply SS_impl; [|exact HS]. intros a b Hab. apply zle_fst, Hab.
Qed.

(* (repaired filter) a kept reference's full span overlaps no citation kept before it in the
   full-span pass ... *)
Theorem fullpass_ref_earlier : forall l l1 r l2,
  fullpass l = l1 ++ r :: l2 -> f_ref r = true ->
  forall y, In y l1 -> overlapping (f_full r) (f_full y) = false.
Proof. intros l l1 r l2 Heq. apply (fullpass_refpre l l1 r l2 Heq). Qed.

Theorem fullpass_ref_neighbours : forall l a b l1 l2,
  fullpass l = l1 ++ a :: b :: l2 -> (f_ref a = true \/ f_ref b = true) ->
  overlapping (f_full b) (f_full a) = false.
Proof. intros l a b l1 l2 Heq. apply (fullpass_adj l l1 a b l2 Heq). Qed.

Lemma filter_in l c : In c (filter_citations l) <-> In c (fullpass l).
Proof. rewrite filter_is_sorted_fullpass. apply sort_in. Qed.

(* nothing is invented: every result element is the last input element with its span *)
Theorem filter_subset : forall l c, In c (filter_citations l) -> is_last_with_span l c.
Proof.
  intros l c H. apply dedupe_in, fullpass_incl, filter_in, H.
Qed.

(* nothing but references is ever dropped *)
Theorem filter_keeps_nonrefs :
  forall l c, is_last_with_span l c -> f_ref c = false -> In c (filter_citations l).
Proof.
  intros l c H Hc. apply filter_in. apply dedupe_in in H. apply (sort_in f_full) in H.
  unfold fullpass. destruct (sort_by f_full (dedupe l)) as [|first rest]; [destruct H|].
  apply in_rev. rewrite rev_involutive. apply fold_keeps; [exact Hc|].
  destruct H as [<-|H]; [left; left; reflexivity|right; exact H].
Qed.

Theorem filter_sorted : forall l, StronglySorted span_lt (filter_citations l).
Proof.
  intros l. rewrite filter_is_sorted_fullpass. apply sort_span_strict, fullpass_nodup.
Qed.

Theorem filter_nodup : forall l, NoDup (map f_span (filter_citations l)).
Proof. intros l. apply span_lt_nodup, filter_sorted. Qed.

Theorem filter_merge_keeps : forall l extra c,
  In c (filter_citations l) -> f_ref c = false ->
  (forall x, In x extra -> zspan_eqb (f_span x) (f_span c) = false) ->
  In c (filter_citations (filter_citations l ++ extra)).
Proof.
  intros l extra c Hin Hc Hextra. apply filter_keeps_nonrefs; [|exact Hc].
  pose proof (filter_nodup l) as HN.
  apply in_split in Hin. destruct Hin as (l1 & l2 & Heq). rewrite Heq in *.
  exists l1, (l2 ++ extra). split.
  - rewrite <- app_assoc. reflexivity.
  - intros x Hx. apply in_app_or in Hx. destruct Hx as [Hx|Hx]; [|apply Hextra, Hx].
    rewrite map_app in HN. cbn [map] in HN. apply NoDup_remove_2 in HN.
    apply zspan_eqb_neq. intro Heqs. apply HN. rewrite <- Heqs.
    apply in_or_app. right. apply in_map, Hx.
Qed.

(* a permutation-invariant form of refpre (given adj_ok) on lists sorted by full span *)
Definition Sprop (L : list fc) : Prop :=
  forall r y, In r L -> In y L -> f_ref r = true -> r <> y ->
    overlapping (f_full r) (f_full y) = true -> full_lt r y.

Lemma full_eq_overlap (fr fn fy : zspan) :
  zspan_ltb fn fr = false -> zspan_ltb fy fn = false -> zspan_ltb fr fy = false ->
  overlapping fr fy = true -> overlapping fn fr = true.
Proof. unfold zspan_ltb, overlapping. intros H1 H2 H3 H4. zb. Qed.

Lemma adj_S L : StronglySorted (kle f_full) L -> adj_ok L -> refpre L -> Sprop L.
Proof.
  intros HS HA HR r y Hr Hy Href Hne Hov.
  apply in_split in Hr. destruct Hr as (l1 & l2 & ->).
  apply in_app_or in Hy. destruct Hy as [Hy|[Hy|Hy]]; [|congruence|].
  - rewrite (HR l1 r l2 eq_refl Href y Hy) in Hov. discriminate.
  - destruct l2 as [|n l2']; [destruct Hy|].
    pose proof (HA l1 r n l2' eq_refl (or_introl Href)) as Hnr.
    apply SS_app_inv in HS. destruct HS as (_ & HS & _).
    apply StronglySorted_inv in HS. destruct HS as [HS HF]. rewrite Forall_forall in HF.
    pose proof (HF y Hy) as Hry. pose proof (HF n (or_introl eq_refl)) as Hrn.
    apply StronglySorted_inv in HS. destruct HS as [_ HF']. rewrite Forall_forall in HF'.
    unfold kle, full_lt in *.
    destruct (zspan_ltb (f_full r) (f_full y)) eqn:Elt; [reflexivity|exfalso].
    assert (Hny : zspan_ltb (f_full y) (f_full n) = false).
    { destruct Hy as [<-|Hy]; [apply ltb_irrefl|exact (HF' y Hy)]. }
    rewrite (full_eq_overlap _ _ _ Hrn Hny Elt Hov) in Hnr. discriminate.
Qed.

Lemma S_perm L L' : (forall x, In x L <-> In x L') -> Sprop L -> Sprop L'.
Proof.
  intros HI HT r y Hr Hy Href Hne Hov.
  exact (HT r y (proj2 (HI r) Hr) (proj2 (HI y) Hy) Href Hne Hov).
Qed.

Lemma S_refpre L : StronglySorted (kle f_full) L -> NoDup L -> Sprop L -> refpre L.
Proof.
  intros HS HN HT l1 r l2 -> Href y Hy.
  destruct (overlapping (f_full r) (f_full y)) eqn:Eo; [exfalso|reflexivity].
  assert (Hry : r <> y).
  { apply NoDup_remove_2 in HN. intros ->. apply HN, in_or_app. left; exact Hy. }
  assert (Hlt : full_lt r y).
  { apply HT; try assumption.
    - apply in_or_app. right; left; reflexivity.
    - apply in_or_app. left; exact Hy. }
  apply SS_app_inv in HS. destruct HS as (_ & _ & Hcross).
  specialize (Hcross y r Hy (or_introl eq_refl)). unfold kle, full_lt in *. congruence.
Qed.

(* idempotence *)
Lemma fullpass_of_adj_sorted l :
  NoDup (map f_span l) -> adj_ok (sort_by f_full l) -> refpre (sort_by f_full l) ->
  fullpass l = sort_by f_full l.
Proof.
  intros HN HA HR. unfold fullpass. rewrite (dedupe_id l HN).
  destruct (sort_by f_full l) as [|first rest]; [reflexivity|].
  rewrite (fold_id rest first []); [|exact HA|exact HR].
  rewrite rev_app_distr, rev_involutive. reflexivity.
Qed.

Theorem filter_idempotent : forall l, filter_citations (filter_citations l) = filter_citations l.
Proof.
  intros l.
  set (F := filter_citations l).
  pose proof (filter_nodup l) as HNF. fold F in HNF.
  pose proof (filter_sorted l) as HSF. fold F in HSF.
  assert (HPF : Permutation F (fullpass l)).
  { unfold F. rewrite filter_is_sorted_fullpass. apply sort_perm. }
  set (S' := sort_by f_full F).
  assert (HPS : Permutation S' F) by apply sort_perm.
  assert (HNS : NoDup (map f_span S')).
  { eapply perm_nodup_span; [apply Permutation_sym, HPS|exact HNF]. }
  assert (Hmem : forall x, In x (fullpass l) <-> In x S').
  { intros x. split; intro H.
    - eapply Permutation_in; [apply Permutation_sym, HPS|].
      eapply Permutation_in; [apply Permutation_sym, HPF|exact H].
    - eapply Permutation_in; [apply HPF|]. eapply Permutation_in; [apply HPS|exact H]. }
  assert (HA : adj_ok S').
  { apply T_adj.
    - apply sort_sorted.
    - eapply NoDup_map_inv. exact HNS.
    - apply (T_perm (fullpass l)); [exact Hmem|].
      apply adj_T; [apply fullpass_sorted|apply fullpass_adj]. }
  assert (HRp : refpre S').
  { apply S_refpre.
    - apply sort_sorted.
    - eapply NoDup_map_inv. exact HNS.
    - apply (S_perm (fullpass l)); [exact Hmem|].
      apply adj_S; [apply fullpass_sorted|apply fullpass_adj|apply fullpass_refpre]. }
  rewrite (filter_is_sorted_fullpass F).
  rewrite (fullpass_of_adj_sorted F HNF HA HRp). fold S'.
  apply sorted_unique.
  - apply sort_span_strict, HNS.
  - exact HSF.
  - eapply perm_trans; [apply sort_perm|exact HPS].
Qed.
