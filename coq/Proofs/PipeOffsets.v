(* Proofs/PipeOffsets.v -- every citation returned by get_citations carries
   offsets that index the input text (C02). *)
From EV Require Import Base.Str Base.PyVal Model.Tokenize Model.Editions Model.Filter Model.Pipeline
                       Proofs.TokenizeProofs Proofs.PipeSpec Proofs.PipeWindows.
Open Scope Z_scope.

(* ------------------------------------------------------------------ *)
(* pyslice with in-range arguments                                     *)
(* ------------------------------------------------------------------ *)

Lemma clampZ_in len x : 0 <= x <= len -> clampZ len x = x.
Proof.
  intros H. unfold clampZ.
  destruct (Z.ltb_spec x 0) as [H0|H0]; [lia|].
  destruct (Z.ltb_spec x 0) as [H1|H1]; [lia|].
  destruct (Z.ltb_spec len x) as [H2|H2]; lia.
Qed.

Lemma pyslice_in {A} (s : list A) a b :
  0 <= a <= Z.of_nat (length s) -> 0 <= b <= Z.of_nat (length s) ->
  pyslice s a b = slice s (Z.to_nat a) (Z.to_nat b).
Proof. intros Ha Hb. unfold pyslice. rewrite !clampZ_in by assumption. reflexivity. Qed.

Lemma pyslice_nat {A} (s : list A) a b :
  (a <= length s)%nat -> (b <= length s)%nat ->
  pyslice s (Z.of_nat a) (Z.of_nat b) = slice s a b.
Proof. intros Ha Hb. rewrite pyslice_in by lia. rewrite !Nat2Z.id. reflexivity. Qed.

(* ------------------------------------------------------------------ *)
(* slices and infixes                                                  *)
(* ------------------------------------------------------------------ *)

Lemma slice_slice {A} (s : list A) p q a b :
  (p + b <= q)%nat -> slice (slice s p q) a b = slice s (p + a) (p + b).
Proof.
  intros H. unfold slice.
  rewrite skipn_firstn_slice. unfold slice.
  rewrite firstn_firstn, <- skipn_plus.
  f_equal. lia.
Qed.

Lemma firstn_slice {A} (s : list A) p q k :
  (p + k <= q)%nat -> firstn k (slice s p q) = slice s p (p + k).
Proof.
  intros H. unfold slice. rewrite firstn_firstn. f_equal. lia.
Qed.

Lemma infix_refl s : infix s s.
Proof. exists [], []. rewrite app_nil_r. reflexivity. Qed.

Lemma infix_nil s : infix [] s.
Proof. exists [], s. reflexivity. Qed.

Lemma infix_trans p q s : infix p q -> infix q s -> infix p s.
Proof.
  intros (a & b & ->) (a' & b' & ->). exists (a' ++ a), (b ++ b').
  rewrite <- !app_assoc. reflexivity.
Qed.

Lemma infix_app_l p a s : infix p s -> infix p (a ++ s).
Proof. intros (x & y & ->). exists (a ++ x), y. rewrite <- app_assoc. reflexivity. Qed.

Lemma infix_app_r p s b : infix p s -> infix p (s ++ b).
Proof. intros (x & y & ->). exists x, (y ++ b). rewrite <- !app_assoc. reflexivity. Qed.

Lemma infix_firstn p k s : infix p (firstn k s) -> infix p s.
Proof. intros H. rewrite <- (firstn_skipn k s). apply infix_app_r. exact H. Qed.

Lemma infix_skipn p k s : infix p (skipn k s) -> infix p s.
Proof. intros H. rewrite <- (firstn_skipn k s). apply infix_app_l. exact H. Qed.

Lemma infix_slice_widen p (s : str) a b a' b' :
  (a' <= a)%nat -> (a <= b)%nat -> (b <= b')%nat ->
  infix p (slice s a b) -> infix p (slice s a' b').
Proof.
  intros H1 H2 H3 H.
  rewrite <- (slice_app s a' a b') by lia.
  rewrite <- (slice_app s a b b') by lia.
  apply infix_app_l, infix_app_r. exact H.
Qed.

(* ------------------------------------------------------------------ *)
(* strip                                                               *)
(* ------------------------------------------------------------------ *)

Lemma lstrip_suffix P s : exists h, s = h ++ lstrip P s.
Proof.
  induction s as [|c s IH]; cbn [lstrip].
  - exists []. reflexivity.
  - destruct (P c).
    + destruct IH as [h Hh]. exists (c :: h). cbn. f_equal. exact Hh.
    + exists []. reflexivity.
Qed.

Lemma rstrip_prefix P s : exists tl, s = rstrip P s ++ tl.
Proof.
  unfold rstrip. destruct (lstrip_suffix P (rev s)) as [h Hh].
  exists (rev h). rewrite <- rev_app_distr, <- Hh, rev_involutive. reflexivity.
Qed.

Lemma lstrip_length P s : (length (lstrip P s) <= length s)%nat.
Proof.
  destruct (lstrip_suffix P s) as [h Hh]. rewrite Hh at 2. rewrite app_length. lia.
Qed.

Lemma rstrip_length P s : (length (rstrip P s) <= length s)%nat.
Proof.
  destruct (rstrip_prefix P s) as [h Hh]. rewrite Hh at 2. rewrite app_length. lia.
Qed.

Lemma rstrip_firstn P s : rstrip P s = firstn (length (rstrip P s)) s.
Proof.
  destruct (rstrip_prefix P s) as [h Hh]. rewrite Hh at 3.
  symmetry. apply firstn_length_app.
Qed.

Lemma lstrip_app_ne P a b : lstrip P a <> [] -> lstrip P (a ++ b) = lstrip P a ++ b.
Proof.
  induction a as [|c a IH]; cbn [lstrip app]; intros H.
  - congruence.
  - destruct (P c); [apply IH; exact H|reflexivity].
Qed.

Lemma rstrip_app P h l : rstrip P l <> [] -> rstrip P (h ++ l) = h ++ rstrip P l.
Proof.
  unfold rstrip. intros H. rewrite rev_app_distr, lstrip_app_ne.
  - rewrite rev_app_distr, rev_involutive. reflexivity.
  - intros E. apply H. rewrite E. reflexivity.
Qed.

Lemma strip_infix_rstrip P s : infix (strip P s) (rstrip P s).
Proof.
  unfold strip. destruct (lstrip_suffix P s) as [h Hh].
  destruct (rstrip P (lstrip P s)) as [|x r] eqn:E; [apply infix_nil|].
  rewrite Hh at 1. rewrite rstrip_app by (rewrite E; discriminate).
  rewrite E. apply infix_app_l, infix_refl.
Qed.

Lemma strip_infix P s : infix (strip P s) s.
Proof.
  eapply infix_trans; [apply strip_infix_rstrip|].
  destruct (rstrip_prefix P s) as [tl Htl]. rewrite Htl at 2.
  apply infix_app_r, infix_refl.
Qed.

(* ------------------------------------------------------------------ *)
(* a field-wise sufficient condition for offsets_ok                    *)
(* ------------------------------------------------------------------ *)

Definition tlen (text : str) : Z := Z.of_nat (length text).

Definition inv (text : str) (c : pcit) : Prop :=
  cand_wf text (p_tok c) /\
  (forall x, p_span_start c = Some x -> x = zs (p_tok c)) /\
  (forall x, p_span_end c = Some x -> ze (p_tok c) <= x <= tlen text) /\
  (forall x, p_full_start c = Some x -> 0 <= x <= zs (p_tok c)) /\
  (forall x, p_full_end c = Some x -> snd (span_of c) <= x <= tlen text) /\
  (forall x, p_pin_start c = Some x -> 0 <= x <= zs (p_tok c)) /\
  (forall x, p_pin_end c = Some x -> x <= tlen text) /\
  (forall pin, p_pin c = Some pin -> pin_kind (p_cls c) = true ->
     infix pin (pyslice text (fst (span_with_pincite c)) (snd (span_with_pincite c)))).

Lemma inv_offsets_ok text c : inv text c -> offsets_ok text c.
Proof.
  intros ((Hse & Hel & Hd) & Hss & Hsp & Hfs & Hfe & Hps & Hpe & Hpin).
  unfold offsets_ok. unfold tlen in *.
  assert (Hspan : fst (span_of c) = zs (p_tok c) /\
                  ze (p_tok c) <= snd (span_of c) <= Z.of_nat (length text)).
  { unfold span_of. cbn [fst snd]. split.
    - destruct (p_span_start c) as [x|]; [apply Hss|]; reflexivity.
    - destruct (p_span_end c) as [x|]; [apply Hsp; reflexivity|]. unfold ze. lia. }
  destruct Hspan as [E1 E2].
  assert (Hfull : 0 <= fst (full_span_of c) <= zs (p_tok c) /\
                  snd (span_of c) <= snd (full_span_of c) <= Z.of_nat (length text)).
  { unfold full_span_of. cbn [fst snd]. split.
    - destruct (p_full_start c) as [x|]; [apply Hfs; reflexivity|]. rewrite E1. unfold zs. lia.
    - destruct (p_full_end c) as [x|]; [apply Hfe; reflexivity|]. lia. }
  destruct Hfull as [F1 F2].
  assert (Hpinspan : 0 <= fst (span_with_pincite c) <= zs (p_tok c) /\
                     snd (span_of c) <= snd (span_with_pincite c) <= Z.of_nat (length text)).
  { unfold span_with_pincite, span_of in *. cbn [fst snd] in *. split.
    - assert (Ho : omin (p_span_start c) (zs (p_tok c)) = zs (p_tok c)).
      { unfold omin. destruct (p_span_start c) as [x|]; [|reflexivity].
        rewrite (Hss x eq_refl). lia. }
      rewrite Ho. unfold omin. destruct (p_pin_start c) as [x|].
      + specialize (Hps x eq_refl). lia.
      + unfold zs. lia.
    - assert (Ho : omax (p_span_end c) (ze (p_tok c)) =
                   match p_span_end c with Some x => x | None => ze (p_tok c) end).
      { unfold omax. destruct (p_span_end c) as [x|]; [|reflexivity]. lia. }
      rewrite Ho. unfold omax. destruct (p_pin_end c) as [x|].
      + specialize (Hpe x eq_refl). lia.
      + lia. }
  destruct Hpinspan as [P1 P2].
  cbv zeta. rewrite E1 in *. unfold zs, ze in *.
  repeat split; try lia.
  - rewrite pyslice_in by lia. rewrite Nat2Z.id, Hd.
    exists (slice text (t_end (p_tok c)) (Z.to_nat (snd (span_of c)))).
    apply eq_sym, slice_app; lia.
  - exact Hpin.
Qed.

(* citations that agree on the offset-relevant fields *)
Definition same_off (c c' : pcit) : Prop :=
  p_cls c' = p_cls c /\ p_tok c' = p_tok c /\
  p_span_start c' = p_span_start c /\ p_span_end c' = p_span_end c /\
  p_full_start c' = p_full_start c /\ p_full_end c' = p_full_end c /\
  p_pin_start c' = p_pin_start c /\ p_pin_end c' = p_pin_end c /\ p_pin c' = p_pin c.

Lemma same_off_offsets_ok text c c' : same_off c c' -> offsets_ok text c -> offsets_ok text c'.
Proof.
  intros (H1 & H2 & H3 & H4 & H5 & H6 & H7 & H8 & H9).
  unfold offsets_ok, full_span_of, span_with_pincite, span_of.
  rewrite H1, H2, H3, H4, H5, H6, H7, H8, H9. auto.
Qed.

Lemma same_off_inv text c c' : same_off c c' -> inv text c -> inv text c'.
Proof.
  intros (H1 & H2 & H3 & H4 & H5 & H6 & H7 & H8 & H9).
  unfold inv, span_with_pincite, span_of.
  rewrite H1, H2, H3, H4, H5, H6, H7, H8, H9. auto.
Qed.

Lemma inv_blank text cl t i : cand_wf text t -> inv text (blank cl t i).
Proof.
  intros H. unfold inv. cbn [blank p_tok p_span_start p_span_end p_full_start p_full_end
                             p_pin_start p_pin_end p_pin].
  split; [exact H|]. repeat split; discriminate.
Qed.

Ltac psimp :=
  cbn [p_cls p_tok p_index p_span_start p_span_end p_full_start p_full_end p_pin_start p_pin_end
       p_pin p_parenthetical p_year_s p_year p_court_s p_plaintiff p_defendant p_extra p_antecedent
       p_volume p_publisher p_month p_day p_names p_guess
       set_span_start set_span_end set_full_start set_full_end set_pin_start set_pin_end set_pin
       set_parenthetical set_year_s set_year set_court_s set_plaintiff set_defendant set_extra
       set_antecedent set_volume set_publisher set_month set_day set_guess set_names
       blank with_guess fst snd].

Ltac psimp_in H :=
  cbn [p_cls p_tok p_index p_span_start p_span_end p_full_start p_full_end p_pin_start p_pin_end
       p_pin p_parenthetical p_year_s p_year p_court_s p_plaintiff p_defendant p_extra p_antecedent
       p_volume p_publisher p_month p_day p_names p_guess
       set_span_start set_span_end set_full_start set_full_end set_pin_start set_pin_end set_pin
       set_parenthetical set_year_s set_year set_court_s set_plaintiff set_defendant set_extra
       set_antecedent set_volume set_publisher set_month set_day set_guess set_names
       blank with_guess fst snd] in H.

(* ------------------------------------------------------------------ *)
(* match objects                                                       *)
(* ------------------------------------------------------------------ *)

Lemma gspan_In name g a b : gspan name g = Some (a, b) -> exists k, In (k, Some (a, b)) g.
Proof.
  induction g as [|[k v] g IH]; cbn [gspan]; [discriminate|].
  destruct (str_eqb k name).
  - intros ->. exists k. left. reflexivity.
  - intros H. destruct (IH H) as [k' Hk']. exists k'. right. exact Hk'.
Qed.

Lemma mget_span m w name s : mres_ok w m -> mget m w name = Some s ->
  exists a b, gspan name (m_groups m) = Some (a, b) /\ s = slice w a b /\
              (m_start m <= a)%nat /\ (a <= b)%nat /\ (b <= m_end m)%nat /\
              (m_end m <= length w)%nat /\ length s = (b - a)%nat.
Proof.
  intros (H1 & H2 & H3). unfold mget.
  destruct (gspan name (m_groups m)) as [[a b]|] eqn:E; [|discriminate].
  intros [= <-]. destruct (gspan_In _ _ _ _ E) as [k Hk].
  destruct (H3 _ _ _ Hk) as (Ha & Hab & Hb).
  exists a, b. repeat split; try assumption.
  apply slice_length; lia.
Qed.

Lemma truthy_o_some o : truthy_o o = true -> exists c s, o = Some (c :: s).
Proof. destruct o as [[|c s]|]; cbn; try discriminate. eauto. Qed.

Lemma clean_pin_or_none_some o p : clean_pin_or_none o = Some p ->
  exists s, o = Some s /\ p = strip (in_chars [COMMA; SP]) s /\ truthy_o o = true.
Proof.
  unfold clean_pin_or_none, clean_pin. destruct o as [s|]; [|discriminate].
  destruct (strip (in_chars [COMMA; SP]) s) as [|c r] eqn:E; [discriminate|].
  intros [= <-]. exists s. split; [reflexivity|]. split; [symmetry; exact E|].
  destruct s; [discriminate E|reflexivity].
Qed.

(* ------------------------------------------------------------------ *)
(* the extractors                                                      *)
(* ------------------------------------------------------------------ *)

Section Off.
  Variable search : pat -> str -> option mres.
  Variable refsearch : list (str * str) -> str -> list (nat * nat * list (str * option str)).
  Variable MAXC : nat.
  Variable BACK : nat.
  Variable D : dtables.
  Variable highest : Z.
  Variable this_year : Z.
  Variable edition_of : nat -> option edition.
  Variable source_of : nat -> nat.
  Variable valid_name : str -> bool.
  Variable is_space : N -> bool.
  Variable text : str.
  Variable words : list elem.

  Hypothesis Hstream : stream_ok text words.
  Hypothesis Hsearch : search_ok search.

  Lemma tok_wf i t : nth_error words i = Some (T t) -> cand_wf text t.
  Proof. intros H. destruct Hstream as [_ Hk]. apply (Hk i t H). Qed.

  Lemma index_lt i (e : elem) : nth_error words i = Some e -> (i < length words)%nat.
  Proof. intros H. apply nth_error_Some. congruence. Qed.

  (* ---------- extract_pin_cite ---------- *)
  Lemma epc_ok i t pre pin span_end par :
    nth_error words i = Some (T t) -> suffix pre (t_data t) ->
    extract_pin_cite search MAXC words i (ze t) (Some pre) = Ok (pin, span_end, par) ->
    (search PPostShort (window_fwd MAXC words (S i) pre true) = None /\ span_end = None /\ pin = None) \/
    exists d : nat, span_end = Some (ze t + Z.of_nat d) /\ (t_end t + d <= length text)%nat /\
       forall p, pin = Some p -> infix p (slice text (t_start t) (t_end t + d)).
  Proof.
    intros Hn [r Hr] He. unfold extract_pin_cite in He.
    destruct (pos_token _ _ _ _ Hstream Hn) as (Hp0 & Hp1 & Hpe).
    destruct (tok_wf _ _ Hn) as (Hse & Hel & Hd).
    destruct (window_fwd_prefix_gen MAXC text words (S i) pre true Hstream) as (n & Hf & Hn1 & Hl).
    rewrite Hp1 in *.
    set (w := window_fwd MAXC words (S i) pre true) in *.
    destruct (search PPostShort w) as [m|] eqn:Es.
    2:{ left. injection He as <- <- <-. auto. }
    right. destruct (Hsearch _ _ _ Es) as (Hok & _ & _ & Hpin0 & _).
    specialize (Hpin0 eq_refl).
    injection He as Hpin Hspan _.
    set (X := slice text (t_end t) (t_end t + n)) in *.
    assert (HX : length X = n) by (unfold X; rewrite slice_length; lia).
    assert (Htext : forall d, (d <= n)%nat ->
              slice text (t_start t) (t_end t + d) = r ++ pre ++ firstn d X).
    { intros d Hdn. rewrite <- (slice_app text (t_start t) (t_end t) (t_end t + d)) by lia.
      rewrite <- Hd, Hr, <- app_assoc. unfold X. rewrite firstn_slice by lia. reflexivity. }
    destruct (truthy_o (mget m w g_pin_cite)) eqn:Et.
    - destruct (truthy_o_some _ Et) as (c0 & s0 & Hs). rewrite Hs in *.
      set (s := c0 :: s0) in *.
      destruct (mget_span _ _ _ _ Hok Hs) as (a & b & Hg & Hsl & Ha & Hab & Hb & Hme & Hlen).
      assert (a = 0%nat) by (eapply Hpin0; eassumption). subst a.
      set (R := rstrip (in_chars [COMMA; SP]) s) in *.
      pose proof (rstrip_length (in_chars [COMMA; SP]) s) as HR. fold R in HR.
      exists (length R - length pre)%nat.
      split; [|split].
      + rewrite <- Hspan. f_equal. f_equal. unfold zlen. lia.
      + lia.
      + intros p Hp. rewrite <- Hpin in Hp. cbn [clean_pin] in Hp. injection Hp as <-.
        eapply infix_trans; [apply strip_infix_rstrip|]. fold R.
        assert (HRw : R = firstn (length R) (pre ++ X)).
        { rewrite <- Hf by lia. unfold R at 1. rewrite rstrip_firstn. fold R.
          rewrite Hsl, slice_0, firstn_firstn. f_equal. lia. }
        set (k := length R) in *. clearbody k. rewrite HRw.
        rewrite Htext by lia.
        apply infix_app_l.
        replace (firstn k (pre ++ X)) with (firstn k (pre ++ firstn (k - length pre) X)).
        * apply infix_firstn with (k := k). apply infix_refl.
        * rewrite !firstn_app, firstn_firstn. f_equal. f_equal. lia.
    - exists 0%nat. split; [|split].
      + rewrite <- Hspan. f_equal. f_equal. unfold zlen. lia.
      + lia.
      + intros p Hp. rewrite <- Hpin in Hp. discriminate.
  Qed.

  (* ---------- backward matches ---------- *)
  Lemma bwd_match_len i so p m : (i <= length words)%nat ->
    search p (window_bwd MAXC words i so) = Some m ->
    0 <= Z.of_nat (m_end m) - Z.of_nat (m_start m) <= Z.of_nat (pos words i).
  Proof.
    intros Hi Hs. destruct (Hsearch _ _ _ Hs) as ((H1 & H2 & _) & _).
    destruct (window_bwd_suffix MAXC text words i so Hstream Hi) as (n & Hn & Hw).
    rewrite Hw, slice_length in H2; [lia|lia|apply (pos_le_text _ _ _ Hstream)].
  Qed.

  Ltac inv_fields :=
    unfold inv, span_with_pincite, span_of, omin, omax; psimp.

  (* ---------- short-form, supra and id citations ---------- *)
  Hypothesis Hshort_total : forall w, search PPostShort w <> None.

  Lemma short_ok i t c :
    nth_error words i = Some (T t) -> tok_ok source_of t ->
    t_kind t = KCitation -> t_short t = true ->
    extract_short search MAXC this_year edition_of is_space words i t = Ok c -> inv text c.
  Proof.
    intros Hn Htok Hk Hsh He.
    pose proof (tok_wf _ _ Hn) as Hwf.
    destruct (pos_token _ _ _ _ Hstream Hn) as (Hp0 & _ & _).
    unfold tok_ok in Htok. rewrite Hk in Htok. destruct Htok as [Htok _].
    destruct (Htok Hsh) as (pg & Hpg & Hsuf).
    unfold extract_short in He. rewrite Hpg in He.
    set (w := window_bwd MAXC words i true) in *.
    assert (Halen : 0 <= match search PShortAnte w with
                         | Some m => Z.of_nat (m_end m) - Z.of_nat (m_start m)
                         | None => 0 end <= zs t).
    { unfold zs. rewrite <- Hp0. destruct (search PShortAnte w) as [m|] eqn:Es; [|lia].
      apply (bwd_match_len i true PShortAnte m); [|exact Es].
      apply Nat.lt_le_incl, (index_lt _ _ Hn). }
    set (alen := match search PShortAnte w with
                 | Some m => Z.of_nat (m_end m) - Z.of_nat (m_start m)
                 | None => 0 end) in *.
    clearbody alen.
    match type of He with bind ?x _ = _ => destruct x as [[]|]; [|discriminate He] end.
    cbn [bind] in He.
    destruct (extract_pin_cite search MAXC words i (ze t) (Some pg)) as [[[pin span_end] par]|] eqn:Ee;
      [|discriminate He].
    cbn [bind] in He. injection He as <-.
    destruct (epc_ok _ _ _ _ _ _ Hn Hsuf Ee) as [(Hnone & _)|(d & -> & Hd & Hpin)].
    { exfalso. exact (Hshort_total _ Hnone). }
    assert (Hse : (if ze t + Z.of_nat d =? 0 then 0 else ze t + Z.of_nat d) = ze t + Z.of_nat d).
    { destruct (Z.eqb_spec (ze t + Z.of_nat d) 0); lia. }
    rewrite Hse. destruct Hwf as (H1 & H2 & H3).
    inv_fields. unfold tlen, zs, ze in *.
    split; [repeat split; assumption|].
    split; [discriminate|].
    split; [intros x [= <-]; lia|].
    split; [intros x [= <-]; lia|].
    split; [intros x [= <-]; lia|].
    split; [discriminate|].
    split; [discriminate|].
    intros p Hp _. rewrite Z.max_l by lia.
    replace (Z.of_nat (t_end t) + Z.of_nat d) with (Z.of_nat (t_end t + d)) by lia.
    rewrite pyslice_nat by lia. apply Hpin. exact Hp.
  Qed.

  Lemma suffix_nil (x : str) : suffix [] x.
  Proof. exists x. rewrite app_nil_r. reflexivity. Qed.

  Lemma supra_ok i t c :
    nth_error words i = Some (T t) ->
    extract_supra search MAXC words i t = Ok c -> inv text c.
  Proof.
    intros Hn He.
    pose proof (tok_wf _ _ Hn) as Hwf.
    destruct (pos_token _ _ _ _ Hstream Hn) as (Hp0 & _ & _).
    unfold extract_supra in He.
    destruct (extract_pin_cite search MAXC words i (ze t) (Some [])) as [[[pin span_end] par]|] eqn:Ee;
      [|discriminate He].
    cbn [bind] in He.
    set (w := window_bwd MAXC words i true) in *.
    assert (Halen : 0 <= match search PSupraAnte w with
                         | Some m => Z.of_nat (m_end m) - Z.of_nat (m_start m)
                         | None => 0 end <= zs t).
    { unfold zs. rewrite <- Hp0. destruct (search PSupraAnte w) as [m|] eqn:Es; [|lia].
      apply (bwd_match_len i true PSupraAnte m); [|exact Es].
      apply Nat.lt_le_incl, (index_lt _ _ Hn). }
    set (alen := match search PSupraAnte w with
                 | Some m => Z.of_nat (m_end m) - Z.of_nat (m_start m)
                 | None => 0 end) in *.
    clearbody alen. injection He as <-.
    destruct Hwf as (H1 & H2 & H3).
    destruct (epc_ok _ _ _ _ _ _ Hn (suffix_nil _) Ee) as [(_ & -> & ->)|(d & -> & Hd & Hpin)].
    - inv_fields. unfold tlen, zs, ze in *.
      split; [repeat split; assumption|].
      split; [discriminate|].
      split; [discriminate|].
      split; [intros x [= <-]; lia|].
      split; [intros x [= <-]; lia|].
      split; [discriminate|].
      split; [discriminate|].
      discriminate.
    - inv_fields. unfold tlen, zs, ze in *.
      split; [repeat split; assumption|].
      split; [discriminate|].
      split; [intros x [= <-]; lia|].
      split; [intros x [= <-]; lia|].
      split; [intros x [= <-]; destruct (Z.eqb_spec (Z.of_nat (t_end t) + Z.of_nat d) 0); lia|].
      split; [discriminate|].
      split; [discriminate|].
      intros p Hp _. rewrite Z.max_l by lia.
      replace (Z.of_nat (t_end t) + Z.of_nat d) with (Z.of_nat (t_end t + d)) by lia.
      rewrite pyslice_nat by lia. apply Hpin. exact Hp.
  Qed.

  Lemma id_ok i t c :
    nth_error words i = Some (T t) ->
    extract_id search MAXC words i t = Ok c -> inv text c.
  Proof.
    intros Hn He.
    pose proof (tok_wf _ _ Hn) as Hwf.
    unfold extract_id in He.
    destruct (extract_pin_cite search MAXC words i (ze t) (Some [])) as [[[pin span_end] par]|] eqn:Ee;
      [|discriminate He].
    cbn [bind] in He. injection He as <-.
    destruct Hwf as (H1 & H2 & H3).
    destruct (epc_ok _ _ _ _ _ _ Hn (suffix_nil _) Ee) as [(_ & -> & ->)|(d & -> & Hd & Hpin)].
    - inv_fields. unfold tlen, zs, ze in *.
      split; [repeat split; assumption|].
      repeat split; discriminate.
    - inv_fields. unfold tlen, zs, ze in *.
      split; [repeat split; assumption|].
      split; [discriminate|].
      split; [intros x [= <-]; lia|].
      split; [discriminate|].
      split; [discriminate|].
      split; [discriminate|].
      split; [discriminate|].
      intros p Hp _. rewrite Z.max_l by lia.
      replace (Z.of_nat (t_end t) + Z.of_nat d) with (Z.of_nat (t_end t + d)) by lia.
      rewrite pyslice_nat by lia. apply Hpin. exact Hp.
  Qed.

  (* ---------- forward matches after a token ---------- *)
  Lemma fwd_match i t so p m :
    nth_error words i = Some (T t) ->
    search p (window_fwd MAXC words (S i) [] so) = Some m ->
    exists n, window_fwd MAXC words (S i) [] so = slice text (t_end t) (t_end t + n) /\
              (t_end t + n <= length text)%nat /\ (m_end m <= n)%nat /\
              mres_ok (window_fwd MAXC words (S i) [] so) m.
  Proof.
    intros Hn Hs. destruct (Hsearch _ _ _ Hs) as (Hok & _).
    destruct (pos_token _ _ _ _ Hstream Hn) as (_ & Hp1 & _).
    destruct (window_fwd_prefix MAXC text words (S i) so Hstream) as (n & Hw & Hle).
    rewrite Hp1 in *. exists n. split; [exact Hw|]. split; [exact Hle|]. split; [|exact Hok].
    destruct Hok as (_ & H2 & _). rewrite Hw, slice_length in H2; lia.
  Qed.

  Definition shape (t : tok) (i : nat) (c : pcit) : Prop :=
    p_tok c = t /\ p_index c = i /\ p_cls c = CFullCase /\
    p_span_start c = None /\ p_span_end c = None.

  (* ---------- add_post_citation ---------- *)
  Lemma post_ok i t :
    nth_error words i = Some (T t) ->
    let c := add_post_citation search MAXC D highest is_space (blank CFullCase t i) words in
    inv text c /\ shape t i c /\ p_full_start c = None /\ p_pin_start c = None.
  Proof.
    intros Hn. pose proof (tok_wf _ _ Hn) as Hwf.
    unfold add_post_citation. psimp. unfold span_of. psimp.
    set (w := window_fwd MAXC words (S i) [] false).
    destruct (search PPostFull w) as [m|] eqn:Es.
    2:{ cbv zeta. split; [apply inv_blank; exact Hwf|]. unfold shape. psimp. auto. }
    destruct (fwd_match _ _ _ _ _ Hn Es) as (n & Hw & Hle & Hme & Hok).
    fold w in Hw, Hok.
    destruct (Hsearch _ _ _ Es) as (_ & _ & _ & Hpin0 & _). specialize (Hpin0 eq_refl).
    cbv zeta.
    set (pc := mget m w g_pin_cite).
    set (rawpar := mget m w g_parenthetical).
    set (par := process_parenthetical search rawpar).
    set (fe := match rawpar with
               | Some r => match par with
                           | Some p0 => if negb (ze t + Z.of_nat (m_end m) =? 0) && (zlen p0 <? zlen r)
                                        then ze t + Z.of_nat (m_end m) - (zlen r - zlen p0)
                                        else ze t + Z.of_nat (m_end m)
                           | None => ze t + Z.of_nat (m_end m)
                           end
               | None => ze t + Z.of_nat (m_end m)
               end).
    assert (Hfe : ze t <= fe <= tlen text).
    { unfold fe, tlen, ze. destruct rawpar as [r|] eqn:Er; [|lia].
      destruct par as [p0|]; [|lia].
      destruct (mget_span _ _ _ _ Hok Er) as (a & b & _ & _ & Ha & Hab & Hb & _ & Hlen).
      destruct (negb _ && _); unfold zlen; lia. }
    clearbody fe.
    assert (Hpc : truthy_o pc = true ->
                  exists b, pc = Some (slice text (t_end t) (t_end t + b)) /\ (b <= n)%nat /\ olen pc = Z.of_nat b).
    { intros Ht. destruct (truthy_o_some _ Ht) as (c0 & s0 & Hs).
      destruct (mget_span _ _ _ _ Hok Hs) as (a & b & Hg & Hsl & Ha & Hab & Hb & _ & Hlen).
      assert (a = 0%nat) by (eapply Hpin0; exact Hg). subst a.
      exists b. rewrite Hs. split; [|split; [lia|]].
      - f_equal. rewrite Hsl, Hw, slice_0. apply firstn_slice. lia.
      - unfold olen, zlen. lia. }
    clearbody pc.
    destruct Hwf as (H1 & H2 & H3).
    assert (Hpin : forall p0, clean_pin_or_none pc = Some p0 ->
              truthy_o pc = true /\
              infix p0 (pyslice text (zs t) (Z.max (ze t + olen pc) (ze t)))).
    { intros p0 Hp0. destruct (clean_pin_or_none_some _ _ Hp0) as (s0 & Hs0 & -> & Ht).
      split; [exact Ht|]. destruct (Hpc Ht) as (b & Hb & Hbn & Hol).
      rewrite Hol. unfold zs, ze.
      replace (Z.max (Z.of_nat (t_end t) + Z.of_nat b) (Z.of_nat (t_end t)))
        with (Z.of_nat (t_end t + b)) by lia.
      rewrite pyslice_nat by lia.
      rewrite Hb in Hs0. injection Hs0 as <-.
      eapply infix_trans; [apply strip_infix|].
      apply infix_slice_widen with (a := t_end t) (b := (t_end t + b)%nat); try lia.
      apply infix_refl. }
    destruct (truthy_o (mget m w g_court)); destruct (truthy_o (mget m w g_year));
      destruct (truthy_o pc) eqn:Et.
    all: (split; [|unfold shape; psimp; auto]).
    all: inv_fields; unfold tlen, zs, ze in *.
    all: (split; [repeat split; assumption|]).
    all: (split; [discriminate|]).
    all: (split; [discriminate|]).
    all: (split; [discriminate|]).
    all: (split; [intros x [= <-]; lia|]).
    all: (split; [discriminate|]).
    all: (split; [first [discriminate | intros x [= <-]; destruct (Hpc eq_refl) as (b & _ & Hbn & ->); lia]|]).
    all: intros p0 Hp0 _; destruct (Hpin _ Hp0) as [Ht Hi]; first [discriminate Ht | exact Hi].
  Qed.
End Off.
