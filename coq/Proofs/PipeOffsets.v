(* Proofs/PipeOffsets.v -- every citation returned by get_citations carries
   offsets that index the input text (C02). *)
From EV Require Import Base.Str Base.PyVal Model.Tokenize Model.Editions Model.Filter Model.Pipeline
                       Proofs.TokenizeProofs Proofs.PipeSpec Proofs.PipeWindows.
Open Scope Z_scope.

(* ------------------------------------------------------------------ *)
(* pyslice with in-range arguments                                     *)
(* ------------------------------------------------------------------ *)

Lemma clampZ_in len x : 0 <= x <= len -> clampZ len x = x.
Proof.
  intros H. unfold clampZ.
  destruct (Z.ltb_spec x 0) as [H0|H0]; [lia|].
  destruct (Z.ltb_spec x 0) as [H1|H1]; [lia|].
  destruct (Z.ltb_spec len x) as [H2|H2]; lia.
Qed.

Lemma pyslice_in {A} (s : list A) a b :
  0 <= a <= Z.of_nat (length s) -> 0 <= b <= Z.of_nat (length s) ->
  pyslice s a b = slice s (Z.to_nat a) (Z.to_nat b).
Proof. intros Ha Hb. unfold pyslice. rewrite !clampZ_in by assumption. reflexivity. Qed.

Lemma pyslice_nat {A} (s : list A) a b :
  (a <= length s)%nat -> (b <= length s)%nat ->
  pyslice s (Z.of_nat a) (Z.of_nat b) = slice s a b.
Proof. intros Ha Hb. rewrite pyslice_in by lia. rewrite !Nat2Z.id. reflexivity. Qed.

(* ------------------------------------------------------------------ *)
(* slices and infixes                                                  *)
(* ------------------------------------------------------------------ *)

Lemma slice_slice {A} (s : list A) p q a b :
  (p + b <= q)%nat -> slice (slice s p q) a b = slice s (p + a) (p + b).
Proof.
  intros H. unfold slice.
  rewrite skipn_firstn_slice. unfold slice.
  rewrite firstn_firstn, <- skipn_plus.
  f_equal. lia.
Qed.

Lemma firstn_slice {A} (s : list A) p q k :
  (p + k <= q)%nat -> firstn k (slice s p q) = slice s p (p + k).
Proof.
  intros H. unfold slice. rewrite firstn_firstn. f_equal. lia.
Qed.

Lemma infix_refl s : infix s s.
Proof. exists [], []. rewrite app_nil_r. reflexivity. Qed.

Lemma infix_nil s : infix [] s.
Proof. exists [], s. reflexivity. Qed.

Lemma infix_trans p q s : infix p q -> infix q s -> infix p s.
Proof.
  intros (a & b & ->) (a' & b' & ->). exists (a' ++ a), (b ++ b').
  rewrite <- !app_assoc. reflexivity.
Qed.

Lemma infix_app_l p a s : infix p s -> infix p (a ++ s).
Proof. intros (x & y & ->). exists (a ++ x), y. rewrite <- app_assoc. reflexivity. Qed.

Lemma infix_app_r p s b : infix p s -> infix p (s ++ b).
Proof. intros (x & y & ->). exists x, (y ++ b). rewrite <- !app_assoc. reflexivity. Qed.

Lemma infix_firstn p k s : infix p (firstn k s) -> infix p s.
Proof. intros H. rewrite <- (firstn_skipn k s). apply infix_app_r. exact H. Qed.

Lemma infix_skipn p k s : infix p (skipn k s) -> infix p s.
Proof. intros H. rewrite <- (firstn_skipn k s). apply infix_app_l. exact H. Qed.

Lemma infix_slice_widen p (s : str) a b a' b' :
  (a' <= a)%nat -> (a <= b)%nat -> (b <= b')%nat ->
  infix p (slice s a b) -> infix p (slice s a' b').
Proof.
  intros H1 H2 H3 H.
  rewrite <- (slice_app s a' a b') by lia.
  rewrite <- (slice_app s a b b') by lia.
  apply infix_app_l, infix_app_r. exact H.
Qed.

(* ------------------------------------------------------------------ *)
(* strip                                                               *)
(* ------------------------------------------------------------------ *)

Lemma lstrip_suffix P s : exists h, s = h ++ lstrip P s.
Proof.
  induction s as [|c s IH]; cbn [lstrip].
  - exists []. reflexivity.
  - destruct (P c).
    + destruct IH as [h Hh]. exists (c :: h). cbn. f_equal. exact Hh.
    + exists []. reflexivity.
Qed.

Lemma rstrip_prefix P s : exists tl, s = rstrip P s ++ tl.
Proof.
  unfold rstrip. destruct (lstrip_suffix P (rev s)) as [h Hh].
  exists (rev h). rewrite <- rev_app_distr, <- Hh, rev_involutive. reflexivity.
Qed.

Lemma lstrip_length P s : (length (lstrip P s) <= length s)%nat.
Proof.
  destruct (lstrip_suffix P s) as [h Hh]. rewrite Hh at 2. rewrite app_length. lia.
Qed.

Lemma rstrip_length P s : (length (rstrip P s) <= length s)%nat.
Proof.
  destruct (rstrip_prefix P s) as [h Hh]. rewrite Hh at 2. rewrite app_length. lia.
Qed.

Lemma rstrip_firstn P s : rstrip P s = firstn (length (rstrip P s)) s.
Proof.
  destruct (rstrip_prefix P s) as [h Hh]. rewrite Hh at 3.
  symmetry. apply firstn_length_app.
Qed.

Lemma lstrip_app_ne P a b : lstrip P a <> [] -> lstrip P (a ++ b) = lstrip P a ++ b.
Proof.
  induction a as [|c a IH]; cbn [lstrip app]; intros H.
  - congruence.
  - destruct (P c); [apply IH; exact H|reflexivity].
Qed.

Lemma rstrip_app P h l : rstrip P l <> [] -> rstrip P (h ++ l) = h ++ rstrip P l.
Proof.
  unfold rstrip. intros H. rewrite rev_app_distr, lstrip_app_ne.
  - rewrite rev_app_distr, rev_involutive. reflexivity.
  - intros E. apply H. rewrite E. reflexivity.
Qed.

Lemma strip_infix_rstrip P s : infix (strip P s) (rstrip P s).
Proof.
  unfold strip. destruct (lstrip_suffix P s) as [h Hh].
  destruct (rstrip P (lstrip P s)) as [|x r] eqn:E; [apply infix_nil|].
  rewrite Hh at 1. rewrite rstrip_app by (rewrite E; discriminate).
  rewrite E. apply infix_app_l, infix_refl.
Qed.

Lemma strip_infix P s : infix (strip P s) s.
Proof.
  eapply infix_trans; [apply strip_infix_rstrip|].
  destruct (rstrip_prefix P s) as [tl Htl]. rewrite Htl at 2.
  apply infix_app_r, infix_refl.
Qed.

(* ------------------------------------------------------------------ *)
(* a field-wise sufficient condition for offsets_ok                    *)
(* ------------------------------------------------------------------ *)

Definition tlen (text : str) : Z := Z.of_nat (length text).

Definition inv (text : str) (c : pcit) : Prop :=
  cand_wf text (p_tok c) /\
  (forall x, p_span_start c = Some x -> x = zs (p_tok c)) /\
  (forall x, p_span_end c = Some x -> ze (p_tok c) <= x <= tlen text) /\
  (forall x, p_full_start c = Some x -> 0 <= x <= zs (p_tok c)) /\
  (forall x, p_full_end c = Some x -> snd (span_of c) <= x <= tlen text) /\
  (forall x, p_pin_start c = Some x -> 0 <= x <= zs (p_tok c)) /\
  (forall x, p_pin_end c = Some x -> x <= tlen text) /\
  (forall pin, p_pin c = Some pin -> pin_kind (p_cls c) = true ->
     infix pin (pyslice text (fst (span_with_pincite c)) (snd (span_with_pincite c)))).

Lemma inv_offsets_ok text c : inv text c -> offsets_ok text c.
Proof.
  intros ((Hse & Hel & Hd) & Hss & Hsp & Hfs & Hfe & Hps & Hpe & Hpin).
  unfold offsets_ok. unfold tlen in *.
  assert (Hspan : fst (span_of c) = zs (p_tok c) /\
                  ze (p_tok c) <= snd (span_of c) <= Z.of_nat (length text)).
  { unfold span_of. cbn [fst snd]. split.
    - destruct (p_span_start c) as [x|]; [apply Hss|]; reflexivity.
    - destruct (p_span_end c) as [x|]; [apply Hsp; reflexivity|]. unfold ze. lia. }
  destruct Hspan as [E1 E2].
  assert (Hfull : 0 <= fst (full_span_of c) <= zs (p_tok c) /\
                  snd (span_of c) <= snd (full_span_of c) <= Z.of_nat (length text)).
  { unfold full_span_of. cbn [fst snd]. split.
    - destruct (p_full_start c) as [x|]; [apply Hfs; reflexivity|]. rewrite E1. unfold zs. lia.
    - destruct (p_full_end c) as [x|]; [apply Hfe; reflexivity|]. lia. }
  destruct Hfull as [F1 F2].
  assert (Hpinspan : 0 <= fst (span_with_pincite c) <= zs (p_tok c) /\
                     snd (span_of c) <= snd (span_with_pincite c) <= Z.of_nat (length text)).
  { unfold span_with_pincite, span_of in *. cbn [fst snd] in *. split.
    - assert (Ho : omin (p_span_start c) (zs (p_tok c)) = zs (p_tok c)).
      { unfold omin. destruct (p_span_start c) as [x|]; [|reflexivity].
        rewrite (Hss x eq_refl). lia. }
      rewrite Ho. unfold omin. destruct (p_pin_start c) as [x|].
      + specialize (Hps x eq_refl). lia.
      + unfold zs. lia.
    - assert (Ho : omax (p_span_end c) (ze (p_tok c)) =
                   match p_span_end c with Some x => x | None => ze (p_tok c) end).
      { unfold omax. destruct (p_span_end c) as [x|]; [|reflexivity]. lia. }
      rewrite Ho. unfold omax. destruct (p_pin_end c) as [x|].
      + specialize (Hpe x eq_refl). lia.
      + lia. }
  destruct Hpinspan as [P1 P2].
  cbv zeta. rewrite E1 in *. unfold zs, ze in *.
  repeat split; try lia.
  - rewrite pyslice_in by lia. rewrite Nat2Z.id, Hd.
    exists (slice text (t_end (p_tok c)) (Z.to_nat (snd (span_of c)))).
    apply eq_sym, slice_app; lia.
  - exact Hpin.
Qed.

(* citations that agree on the offset-relevant fields *)
Definition same_off (c c' : pcit) : Prop :=
  p_cls c' = p_cls c /\ p_tok c' = p_tok c /\
  p_span_start c' = p_span_start c /\ p_span_end c' = p_span_end c /\
  p_full_start c' = p_full_start c /\ p_full_end c' = p_full_end c /\
  p_pin_start c' = p_pin_start c /\ p_pin_end c' = p_pin_end c /\ p_pin c' = p_pin c.

Lemma same_off_offsets_ok text c c' : same_off c c' -> offsets_ok text c -> offsets_ok text c'.
Proof.
  intros (H1 & H2 & H3 & H4 & H5 & H6 & H7 & H8 & H9).
  unfold offsets_ok, full_span_of, span_with_pincite, span_of.
  rewrite H1, H2, H3, H4, H5, H6, H7, H8, H9. auto.
Qed.

Lemma same_off_inv text c c' : same_off c c' -> inv text c -> inv text c'.
Proof.
  intros (H1 & H2 & H3 & H4 & H5 & H6 & H7 & H8 & H9).
  unfold inv, span_with_pincite, span_of.
  rewrite H1, H2, H3, H4, H5, H6, H7, H8, H9. auto.
Qed.

Lemma inv_blank text cl t i : cand_wf text t -> inv text (blank cl t i).
Proof.
  intros H. unfold inv. cbn [blank p_tok p_span_start p_span_end p_full_start p_full_end
                             p_pin_start p_pin_end p_pin].
  split; [exact H|]. repeat split; discriminate.
Qed.

Ltac psimp :=
  cbn [p_cls p_tok p_index p_span_start p_span_end p_full_start p_full_end p_pin_start p_pin_end
       p_pin p_parenthetical p_year_s p_year p_court_s p_plaintiff p_defendant p_extra p_antecedent
       p_volume p_publisher p_month p_day p_names p_guess
       set_span_start set_span_end set_full_start set_full_end set_pin_start set_pin_end set_pin
       set_parenthetical set_year_s set_year set_court_s set_plaintiff set_defendant set_extra
       set_antecedent set_volume set_publisher set_month set_day set_guess set_names
       blank with_guess fst snd].

Ltac psimp_in H :=
  cbn [p_cls p_tok p_index p_span_start p_span_end p_full_start p_full_end p_pin_start p_pin_end
       p_pin p_parenthetical p_year_s p_year p_court_s p_plaintiff p_defendant p_extra p_antecedent
       p_volume p_publisher p_month p_day p_names p_guess
       set_span_start set_span_end set_full_start set_full_end set_pin_start set_pin_end set_pin
       set_parenthetical set_year_s set_year set_court_s set_plaintiff set_defendant set_extra
       set_antecedent set_volume set_publisher set_month set_day set_guess set_names
       blank with_guess fst snd] in H.

(* ------------------------------------------------------------------ *)
(* match objects                                                       *)
(* ------------------------------------------------------------------ *)

Lemma gspan_In name g a b : gspan name g = Some (a, b) -> exists k, In (k, Some (a, b)) g.
Proof.
  induction g as [|[k v] g IH]; cbn [gspan]; [discriminate|].
  destruct (str_eqb k name).
  - intros ->. exists k. left. reflexivity.
  - intros H. destruct (IH H) as [k' Hk']. exists k'. right. exact Hk'.
Qed.

Lemma mget_span m w name s : mres_ok w m -> mget m w name = Some s ->
  exists a b, gspan name (m_groups m) = Some (a, b) /\ s = slice w a b /\
              (m_start m <= a)%nat /\ (a <= b)%nat /\ (b <= m_end m)%nat /\
              (m_end m <= length w)%nat /\ length s = (b - a)%nat.
Proof.
  intros (H1 & H2 & H3). unfold mget.
  destruct (gspan name (m_groups m)) as [[a b]|] eqn:E; [|discriminate].
  intros [= <-]. destruct (gspan_In _ _ _ _ E) as [k Hk].
  destruct (H3 _ _ _ Hk) as (Ha & Hab & Hb).
  exists a, b. repeat split; try assumption.
  apply slice_length; lia.
Qed.

Lemma truthy_o_some o : truthy_o o = true -> exists c s, o = Some (c :: s).
Proof. destruct o as [[|c s]|]; cbn; try discriminate. eauto. Qed.

Lemma clean_pin_or_none_some o p : clean_pin_or_none o = Some p ->
  exists s, o = Some s /\ p = strip (in_chars [COMMA; SP]) s /\ truthy_o o = true.
Proof.
  unfold clean_pin_or_none, clean_pin. destruct o as [s|]; [|discriminate].
  destruct (strip (in_chars [COMMA; SP]) s) as [|c r] eqn:E; [discriminate|].
  intros [= <-]. exists s. split; [reflexivity|]. split; [symmetry; exact E|].
  destruct s; [discriminate E|reflexivity].
Qed.

(* ------------------------------------------------------------------ *)
(* the extractors                                                      *)
(* ------------------------------------------------------------------ *)

Section Off.
  Variable search : pat -> str -> option mres.
  Variable refsearch : list (str * str) -> str -> list (nat * nat * list (str * option str)).
  Variable MAXC : nat.
  Variable BACK : nat.
  Variable D : dtables.
  Variable highest : Z.
  Variable this_year : Z.
  Variable edition_of : nat -> option edition.
  Variable source_of : nat -> nat.
  Variable valid_name : str -> bool.
  Variable is_space : N -> bool.
  Variable text : str.
  Variable words : list elem.
  (* the backward-anchor clause of the search contract is only needed for the windows the
     pipeline builds: slices of the text (Wok := fun _ => True gives the unguarded theorems,
     Wok := ws_clean is_space the guarded ones) *)
  Variable Wok : str -> Prop.

  Hypothesis Hstream : stream_ok text words.
  Hypothesis Hsearch : search_ok_w Wok search.
  Hypothesis HWok : forall a b, Wok (slice text a b).

  Lemma tok_wf i t : nth_error words i = Some (T t) -> cand_wf text t.
  Proof. intros H. destruct Hstream as [_ Hk]. apply (Hk i t H). Qed.

  Lemma index_lt i (e : elem) : nth_error words i = Some e -> (i < length words)%nat.
  Proof. intros H. apply nth_error_Some. congruence. Qed.

  (* ---------- extract_pin_cite ---------- *)
  Lemma epc_ok i t pre pin span_end par :
    nth_error words i = Some (T t) -> suffix pre (t_data t) ->
    extract_pin_cite search MAXC words i (ze t) (Some pre) = Ok (pin, span_end, par) ->
    (search PPostShort (window_fwd MAXC words (S i) pre true) = None /\ span_end = None /\ pin = None) \/
    exists d : nat, span_end = Some (ze t + Z.of_nat d) /\ (t_end t + d <= length text)%nat /\
       forall p, pin = Some p -> infix p (slice text (t_start t) (t_end t + d)).
  Proof.
    intros Hn [r Hr] He. unfold extract_pin_cite in He.
    destruct (pos_token _ _ _ _ Hstream Hn) as (Hp0 & Hp1 & Hpe).
    destruct (tok_wf _ _ Hn) as (Hse & Hel & Hd).
    destruct (window_fwd_prefix_gen MAXC text words (S i) pre true Hstream) as (n & Hf & Hn1 & Hl).
    rewrite Hp1 in *.
    set (w := window_fwd MAXC words (S i) pre true) in *.
    destruct (search PPostShort w) as [m|] eqn:Es.
    2:{ left. injection He as <- <- <-. auto. }
    right. destruct (Hsearch _ _ _ Es) as (Hok & _ & _ & Hpin0 & _).
    specialize (Hpin0 eq_refl).
    injection He as Hpin Hspan _.
    set (X := slice text (t_end t) (t_end t + n)) in *.
    assert (HX : length X = n) by (unfold X; rewrite slice_length; lia).
    assert (Htext : forall d, (d <= n)%nat ->
              slice text (t_start t) (t_end t + d) = r ++ pre ++ firstn d X).
    { intros d Hdn. rewrite <- (slice_app text (t_start t) (t_end t) (t_end t + d)) by lia.
      rewrite <- Hd, Hr, <- app_assoc. unfold X. rewrite firstn_slice by lia. reflexivity. }
    destruct (truthy_o (mget m w g_pin_cite)) eqn:Et.
    - destruct (truthy_o_some _ Et) as (c0 & s0 & Hs). rewrite Hs in *.
      set (s := c0 :: s0) in *.
      destruct (mget_span _ _ _ _ Hok Hs) as (a & b & Hg & Hsl & Ha & Hab & Hb & Hme & Hlen).
      assert (a = 0%nat) by (eapply Hpin0; eassumption). subst a.
      set (R := rstrip (in_chars [COMMA; SP]) s) in *.
      pose proof (rstrip_length (in_chars [COMMA; SP]) s) as HR. fold R in HR.
      exists (length R - length pre)%nat.
      split; [|split].
      + rewrite <- Hspan. f_equal. f_equal. unfold zlen. lia.
      + lia.
      + intros p Hp. rewrite <- Hpin in Hp. cbn [clean_pin] in Hp. injection Hp as <-.
        eapply infix_trans; [apply strip_infix_rstrip|]. fold R.
        assert (HRw : R = firstn (length R) (pre ++ X)).
        { rewrite <- Hf by lia. unfold R at 1. rewrite rstrip_firstn. fold R.
          rewrite Hsl, slice_0, firstn_firstn. f_equal. lia. }
        set (k := length R) in *. clearbody k. rewrite HRw.
        rewrite Htext by lia.
        apply infix_app_l.
        replace (firstn k (pre ++ X)) with (firstn k (pre ++ firstn (k - length pre) X)).
        * apply infix_firstn with (k := k). apply infix_refl.
        * rewrite !firstn_app, firstn_firstn. f_equal. f_equal. lia.
    - exists 0%nat. split; [|split].
      + rewrite <- Hspan. f_equal. f_equal. unfold zlen. lia.
      + lia.
      + intros p Hp. rewrite <- Hpin in Hp. discriminate.
  Qed.

  (* ---------- backward matches ---------- *)
  Lemma bwd_match_len i so p m : (i <= length words)%nat ->
    search p (window_bwd MAXC words i so) = Some m ->
    0 <= Z.of_nat (m_end m) - Z.of_nat (m_start m) <= Z.of_nat (pos words i).
  Proof.
    intros Hi Hs. destruct (Hsearch _ _ _ Hs) as ((H1 & H2 & _) & _).
    destruct (window_bwd_suffix MAXC text words i so Hstream Hi) as (n & Hn & Hw).
    rewrite Hw, slice_length in H2; [lia|lia|apply (pos_le_text _ _ _ Hstream)].
  Qed.

  Ltac inv_fields :=
    unfold inv, span_with_pincite, span_of, omin, omax; psimp.

  (* ---------- short-form, supra and id citations ---------- *)
  Hypothesis Hshort_total : forall w, search PPostShort w <> None.

  Lemma short_ok i t c :
    nth_error words i = Some (T t) -> tok_ok source_of t ->
    t_kind t = KCitation -> t_short t = true ->
    extract_short search MAXC this_year edition_of is_space words i t = Ok c -> inv text c.
  Proof.
    intros Hn Htok Hk Hsh He.
    pose proof (tok_wf _ _ Hn) as Hwf.
    destruct (pos_token _ _ _ _ Hstream Hn) as (Hp0 & _ & _).
    unfold extract_short in He. cbv zeta in He.
    destruct (glookup g_page (t_groups t)) as [prefix|];
      [|match type of He with bind ?x _ = _ => destruct x as [[]|]; discriminate He end].
    destruct (short_prefix (t_data t) prefix) as [Hp'|(pg & Hp' & Hsuf)]; rewrite Hp' in He.
    { match type of He with bind ?x _ = _ => destruct x as [[]|]; [|discriminate He] end.
      cbn [bind extract_pin_cite] in He. discriminate He. }
    set (w := window_bwd MAXC words i true) in *.
    assert (Halen : 0 <= match search PShortAnte w with
                         | Some m => Z.of_nat (m_end m) - Z.of_nat (m_start m)
                         | None => 0 end <= zs t).
    { unfold zs. rewrite <- Hp0. destruct (search PShortAnte w) as [m|] eqn:Es; [|lia].
      apply (bwd_match_len i true PShortAnte m); [|exact Es].
      apply Nat.lt_le_incl, (index_lt _ _ Hn). }
    set (alen := match search PShortAnte w with
                 | Some m => Z.of_nat (m_end m) - Z.of_nat (m_start m)
                 | None => 0 end) in *.
    clearbody alen.
    match type of He with bind ?x _ = _ => destruct x as [[]|]; [|discriminate He] end.
    cbn [bind] in He.
    destruct (extract_pin_cite search MAXC words i (ze t) (Some pg)) as [[[pin span_end] par]|] eqn:Ee;
      [|discriminate He].
    cbn [bind] in He. injection He as <-.
    destruct (epc_ok _ _ _ _ _ _ Hn Hsuf Ee) as [(Hnone & _)|(d & -> & Hd & Hpin)].
    { exfalso. exact (Hshort_total _ Hnone). }
    assert (Hse : (if ze t + Z.of_nat d =? 0 then 0 else ze t + Z.of_nat d) = ze t + Z.of_nat d).
    { destruct (Z.eqb_spec (ze t + Z.of_nat d) 0); lia. }
    rewrite Hse. destruct Hwf as (H1 & H2 & H3).
    inv_fields. unfold tlen, zs, ze in *.
    split; [repeat split; assumption|].
    split; [discriminate|].
    split; [intros x [= <-]; lia|].
    split; [intros x [= <-]; lia|].
    split; [intros x [= <-]; lia|].
    split; [discriminate|].
    split; [discriminate|].
    intros p Hp _. rewrite Z.max_l by lia.
    replace (Z.of_nat (t_end t) + Z.of_nat d) with (Z.of_nat (t_end t + d)) by lia.
    rewrite pyslice_nat by lia. apply Hpin. exact Hp.
  Qed.

  Lemma suffix_nil (x : str) : suffix [] x.
  Proof. exists x. rewrite app_nil_r. reflexivity. Qed.

  Lemma supra_ok i t c :
    nth_error words i = Some (T t) ->
    extract_supra search MAXC words i t = Ok c -> inv text c.
  Proof.
    intros Hn He.
    pose proof (tok_wf _ _ Hn) as Hwf.
    destruct (pos_token _ _ _ _ Hstream Hn) as (Hp0 & _ & _).
    unfold extract_supra in He.
    destruct (extract_pin_cite search MAXC words i (ze t) (Some [])) as [[[pin span_end] par]|] eqn:Ee;
      [|discriminate He].
    cbn [bind] in He.
    set (w := window_bwd MAXC words i true) in *.
    assert (Halen : 0 <= match search PSupraAnte w with
                         | Some m => Z.of_nat (m_end m) - Z.of_nat (m_start m)
                         | None => 0 end <= zs t).
    { unfold zs. rewrite <- Hp0. destruct (search PSupraAnte w) as [m|] eqn:Es; [|lia].
      apply (bwd_match_len i true PSupraAnte m); [|exact Es].
      apply Nat.lt_le_incl, (index_lt _ _ Hn). }
    set (alen := match search PSupraAnte w with
                 | Some m => Z.of_nat (m_end m) - Z.of_nat (m_start m)
                 | None => 0 end) in *.
    clearbody alen. injection He as <-.
    destruct Hwf as (H1 & H2 & H3).
    destruct (epc_ok _ _ _ _ _ _ Hn (suffix_nil _) Ee) as [(_ & -> & ->)|(d & -> & Hd & Hpin)].
    - inv_fields. unfold tlen, zs, ze in *.
      split; [repeat split; assumption|].
      split; [discriminate|].
      split; [discriminate|].
      split; [intros x [= <-]; lia|].
      split; [intros x [= <-]; lia|].
      split; [discriminate|].
      split; [discriminate|].
      discriminate.
    - inv_fields. unfold tlen, zs, ze in *.
      split; [repeat split; assumption|].
      split; [discriminate|].
      split; [intros x [= <-]; lia|].
      split; [intros x [= <-]; lia|].
      split; [intros x [= <-]; destruct (Z.eqb_spec (Z.of_nat (t_end t) + Z.of_nat d) 0); lia|].
      split; [discriminate|].
      split; [discriminate|].
      intros p Hp _. rewrite Z.max_l by lia.
      replace (Z.of_nat (t_end t) + Z.of_nat d) with (Z.of_nat (t_end t + d)) by lia.
      rewrite pyslice_nat by lia. apply Hpin. exact Hp.
  Qed.

  Lemma id_ok i t c :
    nth_error words i = Some (T t) ->
    extract_id search MAXC words i t = Ok c -> inv text c.
  Proof.
    intros Hn He.
    pose proof (tok_wf _ _ Hn) as Hwf.
    unfold extract_id in He.
    destruct (extract_pin_cite search MAXC words i (ze t) (Some [])) as [[[pin span_end] par]|] eqn:Ee;
      [|discriminate He].
    cbn [bind] in He. injection He as <-.
    destruct Hwf as (H1 & H2 & H3).
    destruct (epc_ok _ _ _ _ _ _ Hn (suffix_nil _) Ee) as [(_ & -> & ->)|(d & -> & Hd & Hpin)].
    - inv_fields. unfold tlen, zs, ze in *.
      split; [repeat split; assumption|].
      repeat split; discriminate.
    - inv_fields. unfold tlen, zs, ze in *.
      split; [repeat split; assumption|].
      split; [discriminate|].
      split; [intros x [= <-]; lia|].
      split; [discriminate|].
      split; [discriminate|].
      split; [discriminate|].
      split; [discriminate|].
      intros p Hp _. rewrite Z.max_l by lia.
      replace (Z.of_nat (t_end t) + Z.of_nat d) with (Z.of_nat (t_end t + d)) by lia.
      rewrite pyslice_nat by lia. apply Hpin. exact Hp.
  Qed.

  (* ---------- forward matches after a token ---------- *)
  Lemma fwd_match i t so p m :
    nth_error words i = Some (T t) ->
    search p (window_fwd MAXC words (S i) [] so) = Some m ->
    exists n, window_fwd MAXC words (S i) [] so = slice text (t_end t) (t_end t + n) /\
              (t_end t + n <= length text)%nat /\ (m_end m <= n)%nat /\
              mres_ok (window_fwd MAXC words (S i) [] so) m.
  Proof.
    intros Hn Hs. destruct (Hsearch _ _ _ Hs) as (Hok & _).
    destruct (pos_token _ _ _ _ Hstream Hn) as (_ & Hp1 & _).
    destruct (window_fwd_prefix MAXC text words (S i) so Hstream) as (n & Hw & Hle).
    rewrite Hp1 in *. exists n. split; [exact Hw|]. split; [exact Hle|]. split; [|exact Hok].
    destruct Hok as (_ & H2 & _). rewrite Hw, slice_length in H2; lia.
  Qed.

  Definition shape (t : tok) (i : nat) (c : pcit) : Prop :=
    p_tok c = t /\ p_index c = i /\ p_cls c = CFullCase /\
    p_span_start c = None /\ p_span_end c = None.

  (* ---------- add_post_citation ---------- *)
  Lemma post_ok i t :
    nth_error words i = Some (T t) ->
    let c := add_post_citation search MAXC D highest is_space (blank CFullCase t i) words in
    inv text c /\ shape t i c /\ p_full_start c = None /\ p_pin_start c = None.
  Proof.
    intros Hn. pose proof (tok_wf _ _ Hn) as Hwf.
    unfold add_post_citation. psimp. unfold span_of. psimp.
    set (w := window_fwd MAXC words (S i) [] false).
    destruct (search PPostFull w) as [m|] eqn:Es.
    2:{ cbv zeta. split; [apply inv_blank; exact Hwf|]. unfold shape. psimp. repeat split; reflexivity. }
    destruct (fwd_match _ _ _ _ _ Hn Es) as (n & Hw & Hle & Hme & Hok).
    fold w in Hw, Hok.
    destruct (Hsearch _ _ _ Es) as (_ & _ & _ & Hpin0 & _). specialize (Hpin0 eq_refl).
    cbv zeta.
    set (pc := mget m w g_pin_cite).
    set (rawpar := mget m w g_parenthetical).
    set (par := process_parenthetical search rawpar).
    set (fe := match rawpar with
               | Some r => match par with
                           | Some p0 => if negb (ze t + Z.of_nat (m_end m) =? 0) && (zlen p0 <? zlen r)
                                        then ze t + Z.of_nat (m_end m) - (zlen r - zlen p0)
                                        else ze t + Z.of_nat (m_end m)
                           | None => ze t + Z.of_nat (m_end m)
                           end
               | None => ze t + Z.of_nat (m_end m)
               end).
    assert (Hfe : ze t <= fe <= tlen text).
    { unfold fe, tlen, ze. destruct rawpar as [r|] eqn:Er; [|lia].
      destruct par as [p0|]; [|lia].
      destruct (mget_span _ _ _ _ Hok Er) as (a & b & _ & _ & Ha & Hab & Hb & _ & Hlen).
      destruct (negb _ && _) eqn:Ec; unfold zlen in *; [|lia].
      apply andb_true_iff in Ec. destruct Ec as [_ Ec]. apply Z.ltb_lt in Ec. lia. }
    clearbody fe.
    assert (Hpc : truthy_o pc = true ->
                  exists b, pc = Some (slice text (t_end t) (t_end t + b)) /\ (b <= n)%nat /\ olen pc = Z.of_nat b).
    { intros Ht. destruct (truthy_o_some _ Ht) as (c0 & s0 & Hs).
      destruct (mget_span _ _ _ _ Hok Hs) as (a & b & Hg & Hsl & Ha & Hab & Hb & _ & Hlen).
      assert (a = 0%nat) by (eapply Hpin0; exact Hg). subst a.
      exists b. rewrite Hs. split; [|split; [lia|]].
      - f_equal. rewrite Hsl, Hw, slice_0. apply firstn_slice. lia.
      - unfold olen, zlen. lia. }
    clearbody pc.
    destruct Hwf as (H1 & H2 & H3).
    assert (Hpin : forall p0, clean_pin_or_none pc = Some p0 ->
              truthy_o pc = true /\
              infix p0 (pyslice text (zs t) (Z.max (ze t + olen pc) (ze t)))).
    { intros p0 Hp0. destruct (clean_pin_or_none_some _ _ Hp0) as (s0 & Hs0 & -> & Ht).
      split; [exact Ht|]. destruct (Hpc Ht) as (b & Hb & Hbn & Hol).
      rewrite Hol. unfold zs, ze.
      replace (Z.max (Z.of_nat (t_end t) + Z.of_nat b) (Z.of_nat (t_end t)))
        with (Z.of_nat (t_end t + b)) by lia.
      rewrite pyslice_nat by lia.
      rewrite Hb in Hs0. injection Hs0 as <-.
      eapply infix_trans; [apply strip_infix|].
      apply infix_slice_widen with (a := t_end t) (b := (t_end t + b)%nat); try lia.
      apply infix_refl. }
    destruct (truthy_o (mget m w g_court)); destruct (truthy_o (mget m w g_year));
      destruct (truthy_o pc) eqn:Et.
    all: (split; [|unfold shape; psimp; repeat split; reflexivity]).
    all: inv_fields; unfold tlen, zs, ze in *.
    all: (split; [repeat split; assumption|]).
    all: (split; [discriminate|]).
    all: (split; [discriminate|]).
    all: (split; [discriminate|]).
    all: (split; [intros x [= <-]; lia|]).
    all: (split; [discriminate|]).
    all: (split; [first [discriminate | intros x [= <-]; destruct (Hpc eq_refl) as (b & _ & Hbn & ->); lia]|]).
    all: intros p0 Hp0 _; destruct (Hpin _ Hp0) as [Ht Hi]; first [discriminate Ht | exact Hi].
  Qed.

  (* ---------- add_defendant ---------- *)
  Lemma rev_firstn_cons k x rest : (k <= length words)%nat ->
    rev (firstn k words) = x :: rest ->
    exists idx, k = S idx /\ nth_error words idx = Some x /\ rest = rev (firstn idx words).
  Proof.
    intros Hk Hr. destruct k as [|idx]; [discriminate Hr|].
    destruct (nth_error words idx) as [y|] eqn:Ey.
    2:{ apply nth_error_None in Ey. lia. }
    rewrite (firstn_S_nth _ _ _ Ey), rev_app_distr in Hr. cbn [rev app] in Hr.
    injection Hr as -> <-. exists idx. auto.
  Qed.

  Lemma def_scan_ok i : (i <= length words)%nat ->
    forall ws k mm offset si off pl,
      ws = firstn mm (rev (firstn k words)) -> (k <= i)%nat ->
      offset = Z.of_nat (pos words i) - Z.of_nat (pos words k) ->
      def_scan words ws (Nat.pred k) offset = Ok (Some (si, off, pl)) ->
      0 <= off <= Z.of_nat (pos words i).
  Proof.
    intros Hi. induction ws as [|e r IH]; intros k mm offset si off pl Hws Hk Hoff Hd.
    - cbn [def_scan] in Hd. discriminate Hd.
    - destruct mm as [|mm']; [discriminate Hws|].
      destruct (rev (firstn k words)) as [|x rest] eqn:Er; [discriminate Hws|].
      cbn [firstn] in Hws. injection Hws as -> ->.
      assert (Hkl : (k <= length words)%nat) by lia.
      destruct (rev_firstn_cons _ _ _ Hkl Er) as (idx & -> & Hx & ->).
      cbn [Nat.pred] in Hd.
      pose proof (pos_S _ _ _ Hx) as HpS.
      pose proof (pos_mono words idx i ltac:(lia)) as Hm1.
      pose proof (pos_mono words (S idx) i ltac:(lia)) as Hm0.
      pose proof (pos_mono words (idx - 2) idx ltac:(lia)) as Hm2.
      assert (Hrec : forall si off pl,
                def_scan words (firstn mm' (rev (firstn idx words))) (Nat.pred idx)
                         (offset + zlen (elem_str x)) = Ok (Some (si, off, pl)) ->
                0 <= off <= Z.of_nat (pos words i)).
      { intros si' off' pl' H'. eapply (IH idx mm'); [reflexivity|lia| |exact H'].
        unfold zlen. lia. }
      cbn [def_scan] in Hd.
      destruct x as [s|t].
      + destruct s as [|c [|c' s']].
        * destruct (ends_with SEMI []); [discriminate Hd|]. eapply Hrec; exact Hd.
        * destruct (N.eqb c COMMA); [eapply Hrec; exact Hd|].
          destruct (N.eqb c SEMI); [discriminate Hd|]. eapply Hrec; exact Hd.
        * destruct (ends_with SEMI (c :: c' :: s')); [discriminate Hd|]. eapply Hrec; exact Hd.
      + destruct (kind_eqb (t_kind t) KStopWord).
        * destruct (glookup g_stop_word (t_groups t)) as [v|]; [|discriminate Hd].
          destruct (ostr_eqb v (Some s_v) && (0 <? idx)%nat).
          -- injection Hd as _ <- _.
             change (join_elems (slice words (idx - 2) idx))
               with (stream_text (slice words (idx - 2) idx)).
             pose proof (lstrip_length (in_chars [LPAR; SP]) (stream_text (slice words (idx - 2) idx))) as Hl.
             rewrite (stream_slice _ _ _ _ Hstream) in Hl at 2 by lia.
             rewrite slice_length in Hl; [|lia|apply (pos_le_text _ _ _ Hstream)].
             cbn [elem_str] in *. unfold zlen in *. lia.
          -- injection Hd as _ <- _. cbn [elem_str] in *. unfold zlen in *. lia.
        * destruct (ends_with SEMI (t_data t)); [discriminate Hd|]. eapply Hrec; exact Hd.
  Qed.

  Lemma defendant_ok i t c c' :
    nth_error words i = Some (T t) -> shape t i c ->
    add_defendant search BACK D highest is_space c words = Ok c' ->
    shape t i c' /\ p_full_end c' = p_full_end c /\ p_pin_start c' = p_pin_start c /\
    p_pin_end c' = p_pin_end c /\ p_pin c' = p_pin c /\
    (p_full_start c' = p_full_start c \/
     exists off, 0 <= off <= zs t /\ p_full_start c' = Some (zs t - off)).
  Proof.
    intros Hn (S1 & S2 & S3 & S4 & S5) Hd.
    destruct (pos_token _ _ _ _ Hstream Hn) as (Hp0 & _ & _).
    unfold add_defendant in Hd. rewrite S2 in Hd.
    destruct (def_scan words (firstn (BACK - 1) (rev (firstn i words))) (Nat.pred i) 0)
      as [[[[si off] pl]|]|] eqn:Eds; cbn [bind] in Hd; [| |discriminate Hd].
    2:{ injection Hd as <-. unfold shape. auto 10. }
    assert (Hoff : 0 <= off <= zs t).
    { unfold zs. rewrite <- Hp0.
      eapply (def_scan_ok i (Nat.lt_le_incl _ _ (index_lt _ _ Hn)) _ i (BACK - 1)%nat 0);
        [reflexivity|lia|lia|exact Eds]. }
    assert (Hss : fst (span_of c) = zs t).
    { unfold span_of. rewrite S4, S1. reflexivity. }
    rewrite Hss in Hd.
    assert (Hgoal : forall c2,
              p_tok c2 = t /\ p_index c2 = i /\ p_cls c2 = CFullCase /\ p_span_start c2 = None /\
              p_span_end c2 = None /\ p_full_end c2 = p_full_end c /\ p_pin_start c2 = p_pin_start c /\
              p_pin_end c2 = p_pin_end c /\ p_pin c2 = p_pin c /\ p_full_start c2 = Some (zs t - off) ->
              c2 = c' ->
              shape t i c' /\ p_full_end c' = p_full_end c /\ p_pin_start c' = p_pin_start c /\
              p_pin_end c' = p_pin_end c /\ p_pin c' = p_pin c /\
              (p_full_start c' = p_full_start c \/
               exists off, 0 <= off <= zs t /\ p_full_start c' = Some (zs t - off))).
    { intros c2 (G1 & G2 & G3 & G4 & G5 & G6 & G7 & G8 & G9 & G10) <-.
      unfold shape. repeat split; try assumption. right. exists off. auto. }
    destruct pl as [pl|].
    - destruct (nonempty _); [destruct (search PDefYear _)|];
        injection Hd as Hd; refine (Hgoal _ _ Hd); psimp;
        repeat split; first [assumption | reflexivity].
    - destruct (nonempty _); [destruct (search PDefYear _)|];
        injection Hd as Hd; refine (Hgoal _ _ Hd); psimp;
        repeat split; first [assumption | reflexivity].
  Qed.

  (* ---------- add_pre_citation ---------- *)
  Lemma pre_shape t i c : shape t i c -> shape t i (add_pre_citation search MAXC c words).
  Proof.
    intros (S1 & S2 & S3 & S4 & S5). unfold add_pre_citation, shape.
    destruct (truthy_o (p_plaintiff c) || truthy_o (p_defendant c)); [auto 10|].
    destruct (search PPreFull _); [|auto 10].
    destruct (truthy_o _); psimp; auto 10.
  Qed.

  Lemma pre_ok i t c :
    nth_error words i = Some (T t) -> shape t i c -> inv text c ->
    inv text (add_pre_citation search MAXC c words).
  Proof.
    intros Hn (S1 & S2 & S3 & S4 & S5) Hinv.
    unfold add_pre_citation.
    destruct (truthy_o (p_plaintiff c) || truthy_o (p_defendant c)); [exact Hinv|].
    rewrite S2. set (w := window_bwd MAXC words i true).
    destruct (search PPreFull w) as [m|] eqn:Es; [|exact Hinv].
    destruct (pos_token _ _ _ _ Hstream Hn) as (Hpos0 & _ & _).
    destruct (window_bwd_suffix MAXC text words i true Hstream
                (Nat.lt_le_incl _ _ (index_lt _ _ Hn))) as (n & Hnp & Hw).
    fold w in Hw. rewrite Hpos0 in *.
    destruct (Hsearch _ _ _ Es) as (Hok & _ & Hend & _).
    specialize (Hend eq_refl ltac:(rewrite Hw; apply HWok)).
    assert (Hwl : length w = n).
    { rewrite Hw, slice_length; [lia|lia|]. destruct (tok_wf _ _ Hn) as (? & ? & ?). lia. }
    rewrite Hwl in Hend.
    assert (Hss : fst (span_of c) = zs t) by (unfold span_of; rewrite S4, S1; reflexivity).
    rewrite Hss.
    pose proof Hok as (Hse & _ & _).
    set (pc := mget m w g_pin_cite).
    unfold inv, span_with_pincite, span_of, omin, omax in Hinv.
    rewrite S1, S3, S4, S5 in Hinv. psimp_in Hinv.
    destruct Hinv as (I1 & I2 & I3 & I4 & I5 & I6 & I7 & I8).
    pose proof I1 as (W1 & W2 & W3).
    set (pe := match p_pin_end c with Some x => Z.max x (ze t) | None => ze t end).
    assert (Hpe : ze t <= pe <= tlen text).
    { unfold pe, tlen, ze in *. destruct (p_pin_end c) as [x|]; [specialize (I7 x eq_refl)|]; lia. }
    assert (Hpin : forall p0, clean_pin_or_none pc = Some p0 ->
              truthy_o pc = true /\
              infix p0 (pyslice text (Z.min (zs t - (Z.of_nat (m_end m) - Z.of_nat (m_start m))) (zs t)) pe)).
    { intros p0 Hp0. destruct (clean_pin_or_none_some _ _ Hp0) as (s0 & Hs0 & -> & Ht).
      split; [exact Ht|].
      destruct (mget_span _ _ _ _ Hok Hs0) as (a & b & _ & Hsl & Ha & Hab & Hb & _ & _).
      unfold tlen, zs, ze in *.
      rewrite pyslice_in by lia.
      eapply infix_trans; [apply strip_infix|].
      rewrite Hsl, Hw, slice_slice by lia.
      apply infix_slice_widen with (a := (t_start t - n + a)%nat) (b := (t_start t - n + b)%nat);
        try lia.
      apply infix_refl. }
    clearbody pc.
    destruct (truthy_o pc) eqn:Et.
    - unfold inv, span_with_pincite, span_of, omin, omax. psimp. rewrite S1, S3, S4, S5.
      fold pe. unfold tlen, zs, ze in *.
      split; [exact I1|]. split; [discriminate|]. split; [discriminate|].
      split; [intros x [= <-]; lia|].
      split; [exact I5|].
      split; [intros x [= <-]; lia|].
      split; [exact I7|].
      intros p0 Hp0 _. apply (Hpin _ Hp0).
    - unfold inv, span_with_pincite, span_of, omin, omax. psimp. rewrite S1, S3, S4, S5.
      unfold tlen, zs, ze in *.
      split; [exact I1|]. split; [discriminate|]. split; [discriminate|].
      split; [intros x [= <-]; lia|].
      split; [exact I5|].
      split; [exact I6|].
      split; [exact I7|].
      intros p0 Hp0 _. destruct (Hpin _ Hp0) as [Ht _]. discriminate Ht.
  Qed.

  (* ---------- law and journal citations ---------- *)
  Lemma law_ok i t :
    nth_error words i = Some (T t) ->
    inv text (add_law_metadata search MAXC D highest (blank CFullLaw t i) words).
  Proof.
    intros Hn. pose proof (tok_wf _ _ Hn) as Hwf.
    unfold add_law_metadata. psimp. unfold span_of. psimp.
    set (w := window_fwd MAXC words (S i) [] true).
    destruct (search PPostLaw w) as [m|] eqn:Es; [|apply inv_blank; exact Hwf].
    destruct (fwd_match _ _ _ _ _ Hn Es) as (n & Hw & Hle & Hme & Hok).
    destruct Hwf as (H1 & H2 & H3).
    destruct (truthy_o (mget m w g_year)); inv_fields; unfold tlen, zs, ze in *.
    all: (split; [repeat split; assumption|]).
    all: (split; [discriminate|]).
    all: (split; [discriminate|]).
    all: (split; [discriminate|]).
    all: (split; [intros x [= <-]; lia|]).
    all: (split; [discriminate|]).
    all: (split; [discriminate|]).
    all: intros p0 _ Hk; discriminate Hk.
  Qed.

  Lemma journal_ok cl i t :
    pin_kind cl = false -> nth_error words i = Some (T t) ->
    inv text (add_journal_metadata search MAXC D highest (blank cl t i) words).
  Proof.
    intros Hcl Hn. pose proof (tok_wf _ _ Hn) as Hwf.
    unfold add_journal_metadata. psimp. unfold span_of. psimp.
    set (w := window_fwd MAXC words (S i) [] true).
    destruct (search PPostJournal w) as [m|] eqn:Es; [|apply inv_blank; exact Hwf].
    destruct (fwd_match _ _ _ _ _ Hn Es) as (n & Hw & Hle & Hme & Hok).
    destruct Hwf as (H1 & H2 & H3).
    destruct (truthy_o (mget m w g_year)); inv_fields; unfold tlen, zs, ze in *.
    all: (split; [repeat split; assumption|]).
    all: (split; [discriminate|]).
    all: (split; [discriminate|]).
    all: (split; [discriminate|]).
    all: (split; [intros x [= <-]; lia|]).
    all: (split; [discriminate|]).
    all: (split; [discriminate|]).
    all: intros p0 _ Hk; rewrite Hcl in Hk; discriminate Hk.
  Qed.

  Lemma with_guess_same c : same_off c (with_guess this_year edition_of c).
  Proof. unfold same_off. psimp. repeat split; reflexivity. Qed.

  Lemma full_class_cases t cl : full_class source_of t = Ok cl ->
    cl = CFullCase \/ cl = CFullLaw \/ cl = CFullJournal.
  Proof.
    unfold full_class.
    destruct (existsb (Nat.eqb 0) _); [intros [= <-]; auto|].
    destruct (existsb (Nat.eqb 1) _); [intros [= <-]; auto|].
    destruct (existsb (Nat.eqb 2) _); [intros [= <-]; auto|discriminate].
  Qed.

  (* ---------- _extract_full_citation ---------- *)
  Lemma full_ok i t c :
    nth_error words i = Some (T t) ->
    extract_full search MAXC BACK D highest this_year edition_of source_of is_space words i t = Ok c ->
    inv text c.
  Proof.
    intros Hn He. unfold extract_full in He.
    destruct (full_class source_of t) as [cl|] eqn:Ec; [|discriminate He].
    cbn [bind] in He.
    destruct (full_class_cases _ _ Ec) as [->|[->| ->]].
    - destruct (post_ok i t Hn) as (Hinv & Hsh & Hfs & Hps). cbv zeta in *.
      set (c1 := add_post_citation search MAXC D highest is_space (blank CFullCase t i) words) in *.
      destruct (add_defendant search BACK D highest is_space c1 words) as [c2|] eqn:Ed;
        [|discriminate He].
      cbn [bind] in He. injection He as <-.
      destruct (defendant_ok _ _ _ _ Hn Hsh Ed) as (Hsh2 & D1 & D2 & D3 & D4 & D5).
      apply (same_off_inv _ _ _ (with_guess_same _)).
      apply (pre_ok i t); [exact Hn|exact Hsh2|].
      destruct Hsh as (S1 & S2 & S3 & S4 & S5). destruct Hsh2 as (T1 & T2 & T3 & T4 & T5).
      unfold inv, span_with_pincite, span_of in *.
      rewrite T1, T3, T4, T5, D1, D2, D3, D4. rewrite S1, S3, S4, S5 in Hinv.
      destruct Hinv as (I1 & I2 & I3 & I4 & I5 & I6 & I7 & I8).
      split; [exact I1|]. split; [exact I2|]. split; [exact I3|].
      split; [|split; [exact I5|split; [exact I6|split; [exact I7|exact I8]]]].
      intros x Hx. destruct D5 as [D5|(off & Hoff & D5)]; rewrite D5 in Hx.
      + rewrite Hfs in Hx. discriminate Hx.
      + injection Hx as <-. lia.
    - injection He as <-. apply (same_off_inv _ _ _ (with_guess_same _)). apply law_ok. exact Hn.
    - injection He as <-. apply (same_off_inv _ _ _ (with_guess_same _)).
      apply journal_ok; [reflexivity|exact Hn].
  Qed.

  (* ---------- reference citations ---------- *)
  Lemma references_ok c :
    refs_ok refsearch -> offsets_ok text c ->
    Forall (offsets_ok text) (references refsearch valid_name text c).
  Proof.
    intros Hrefs Hoff. unfold references.
    destruct (Z.leb_spec (zlen text) (snd (span_of c))) as [Hle|Hlt]; [constructor|].
    destruct (p_cls c); try constructor.
    match goal with |- context [match ?l with [] => [] | _ :: _ => _ end] =>
      destruct l as [|nm names'] eqn:En; [constructor|] end.
    unfold offsets_ok in Hoff. cbv zeta in Hoff.
    destruct Hoff as (O1 & O2 & O3 & O4 & O5 & _).
    set (se := snd (span_of c)) in *.
    assert (Hse : 0 <= se <= tlen text) by (unfold tlen; lia).
    unfold zlen, tlen in *.
    set (se' := Z.to_nat se).
    assert (Hrest : pyslice text se (Z.of_nat (length text)) = slice text se' (length text)).
    { rewrite pyslice_in by lia. rewrite Nat2Z.id. reflexivity. }
    rewrite Hrest.
    set (rest := slice text se' (length text)).
    assert (Hrl : length rest = (length text - se')%nat).
    { unfold rest. apply slice_length; lia. }
    apply Forall_forall. intros x Hin. apply in_map_iff in Hin.
    destruct Hin as ([[a b] gd] & <- & Hin).
    destruct (Hrefs _ _ _ _ _ Hin) as (Hab & Hb & _).
    replace (Z.to_nat (se + Z.of_nat a)) with (se' + a)%nat by lia.
    replace (Z.to_nat (se + Z.of_nat b)) with (se' + b)%nat by lia.
    apply inv_offsets_ok. inv_fields. cbn [t_start t_end t_data]. unfold tlen, zs, ze.
    cbn [t_start t_end t_data].
    split.
    { unfold cand_wf. cbn [t_start t_end t_data]. split; [lia|]. split; [lia|].
      unfold rest. apply slice_slice. lia. }
    split; [intros x [= <-]; reflexivity|].
    split; [intros x [= <-]; lia|].
    split; [intros x [= <-]; lia|].
    split; [intros x [= <-]; lia|].
    split; [discriminate|].
    split; [discriminate|].
    intros p0 _ Hk. discriminate Hk.
  Qed.

  (* ---------- the loop ---------- *)
  Lemma parallel_same c pre : same_off c (parallel c pre).
  Proof.
    unfold parallel, same_off. destruct (oz_eqb _ _); psimp; repeat split; reflexivity.
  Qed.

  Hypothesis Htoks : toks_ok source_of words.
  Hypothesis Hrefs : refs_ok refsearch.

  Lemma cite_step_ok acc i t acc' :
    nth_error words i = Some (T t) ->
    Forall (offsets_ok text) acc ->
    cite_step search refsearch MAXC BACK D highest this_year edition_of source_of valid_name is_space
              text words acc (i, t) = Ok acc' ->
    Forall (offsets_ok text) acc'.
  Proof.
    intros Hn Hacc Hs. unfold cite_step in Hs.
    destruct (t_kind t) eqn:Ek.
    - destruct (t_short t) eqn:Esh.
      + destruct (extract_short _ _ _ _ _ _ _ _) as [c|] eqn:Ee; [|discriminate Hs].
        cbn [bind] in Hs. injection Hs as <-. constructor; [|exact Hacc].
        apply inv_offsets_ok. eapply short_ok; eauto.
      + destruct (extract_full _ _ _ _ _ _ _ _ _ _ _ _) as [c0|] eqn:Ee; [|discriminate Hs].
        cbn [bind] in Hs. injection Hs as <-.
        pose proof (inv_offsets_ok _ _ (full_ok _ _ _ Hn Ee)) as H0.
        match goal with |- Forall _ (?c :: _) => assert (Hc : offsets_ok text c) end.
        { destruct acc as [|pre acc0]; [exact H0|].
          destruct (is_full_case c0 && is_full_case pre); [|exact H0].
          apply (same_off_offsets_ok _ _ _ (parallel_same _ _) H0). }
        constructor; [exact Hc|]. apply Forall_app. split; [|exact Hacc].
        apply Forall_rev. apply references_ok; [exact Hrefs|exact Hc].
    - injection Hs as <-. constructor; [|exact Hacc].
      apply inv_offsets_ok, inv_blank. eapply tok_wf; exact Hn.
    - destruct (extract_supra _ _ _ _ _) as [c|] eqn:Ee; [|discriminate Hs].
      cbn [bind] in Hs. injection Hs as <-. constructor; [|exact Hacc].
      apply inv_offsets_ok. eapply supra_ok; eauto.
    - destruct (extract_id _ _ _ _ _) as [c|] eqn:Ee; [|discriminate Hs].
      cbn [bind] in Hs. injection Hs as <-. constructor; [|exact Hacc].
      apply inv_offsets_ok. eapply id_ok; eauto.
    - injection Hs as <-. exact Hacc.
    - injection Hs as <-. exact Hacc.
    - injection Hs as <-. exact Hacc.
  Qed.

  Lemma cite_run_ok its : forall acc acc',
    (forall i t, In (i, t) its -> nth_error words i = Some (T t)) ->
    Forall (offsets_ok text) acc ->
    cite_run search refsearch MAXC BACK D highest this_year edition_of source_of valid_name is_space
             text words acc its = Ok acc' ->
    Forall (offsets_ok text) acc'.
  Proof.
    induction its as [|[i t] its IH]; intros acc acc' Hin Hacc Hr; cbn [cite_run] in Hr.
    - injection Hr as <-. exact Hacc.
    - destruct (cite_step _ _ _ _ _ _ _ _ _ _ _ _ _ acc (i, t)) as [acc1|] eqn:Es; [|discriminate Hr].
      cbn [bind] in Hr. eapply IH; [|eapply cite_step_ok|exact Hr].
      + intros i' t' H'. apply Hin. right. exact H'.
      + apply Hin. left. reflexivity.
      + exact Hacc.
      + exact Es.
  Qed.
End Off.

(* ---------- filtering ---------- *)
Lemma filter_pcits_incl l c : In c (filter_pcits l) -> In c l.
Proof.
  unfold filter_pcits. intros H. apply in_flat_map in H. destruct H as (f & _ & Hf).
  destruct (nth_error l (f_id f)) as [c'|] eqn:E; [|destruct Hf].
  destruct Hf as [<-|[]]. eapply nth_error_In. exact E.
Qed.

(* the general form: the backward-anchor clause of the search contract relativised to a window
   predicate Wok that holds of every slice of the text *)
Theorem get_citations_offsets_w :
  forall (Wok : str -> Prop)
         search refsearch MAXC BACK D highest this_year edition_of source_of valid_name is_space
         text words cits ra l,
  text <> s_eyecite ->
  stream_ok text words -> cits_ok words cits -> toks_ok source_of words ->
  (forall a b, Wok (slice text a b)) ->
  search_ok_w Wok search -> refs_ok refsearch ->
  forall post_short_total : (forall w, search PPostShort w <> None),
  get_citations search refsearch MAXC BACK D highest this_year edition_of source_of valid_name is_space
                text words cits ra = Ok l ->
  Forall (offsets_ok text) l.
Proof.
  intros Wok search refsearch MAXC BACK D highest this_year edition_of source_of valid_name is_space
         text words cits ra l Hne Hstream Hcits Htoks HWok Hsearch Hrefs Htotal Hg.
  unfold get_citations in Hg.
  destruct (str_eqb_spec text s_eyecite) as [E|_]; [contradiction|].
  destruct (cite_run _ _ _ _ _ _ _ _ _ _ _ _ _ _ _) as [acc|] eqn:Er; [|discriminate Hg].
  cbn [bind] in Hg. injection Hg as <-.
  assert (Hacc : Forall (offsets_ok text) acc).
  { eapply (cite_run_ok search refsearch MAXC BACK D highest this_year edition_of source_of
              valid_name is_space text words Wok Hstream Hsearch HWok Htotal Htoks Hrefs);
      [exact Hcits|constructor|exact Er]. }
  assert (Hf : Forall (offsets_ok text) (filter_pcits (rev acc))).
  { apply Forall_forall. intros c Hc. apply filter_pcits_incl in Hc. apply in_rev in Hc.
    revert c Hc. apply Forall_forall. exact Hacc. }
  destruct ra; [|exact Hf].
  unfold disambiguate. apply Forall_forall. intros c Hc. apply filter_In in Hc.
  destruct Hc as [Hc _]. revert c Hc. apply Forall_forall. exact Hf.
Qed.

Theorem get_citations_offsets :
  forall search refsearch MAXC BACK D highest this_year edition_of source_of valid_name is_space
         text words cits ra l,
  text <> s_eyecite ->
  stream_ok text words -> cits_ok words cits -> toks_ok source_of words ->
  search_ok search -> refs_ok refsearch ->
  (* the post-short-citation pattern matches the empty string, hence every window *)
  forall post_short_total : (forall w, search PPostShort w <> None),
  get_citations search refsearch MAXC BACK D highest this_year edition_of source_of valid_name is_space
                text words cits ra = Ok l ->
  Forall (offsets_ok text) l.
Proof.
  intros search refsearch MAXC BACK D highest this_year edition_of source_of valid_name is_space
         text words cits ra l Hne Hstream Hcits Htoks Hsearch Hrefs Htotal Hg.
  exact (get_citations_offsets_w (fun _ => True) _ _ _ _ _ _ _ _ _ _ _ _ _ _ _ _
           Hne Hstream Hcits Htoks (fun _ _ => I) (search_ok_w_of_ok _ _ Hsearch) Hrefs Htotal Hg).
Qed.

(* the guarded form: for a text without whitespace other than U+0020, the backward-anchor clause
   is only required on windows without such whitespace *)
Theorem get_citations_offsets_g :
  forall search refsearch MAXC BACK D highest this_year edition_of source_of valid_name is_space
         text words cits ra l,
  text <> s_eyecite -> ws_clean is_space text ->
  stream_ok text words -> cits_ok words cits -> toks_ok source_of words ->
  search_ok_g is_space search -> refs_ok refsearch ->
  forall post_short_total : (forall w, search PPostShort w <> None),
  get_citations search refsearch MAXC BACK D highest this_year edition_of source_of valid_name is_space
                text words cits ra = Ok l ->
  Forall (offsets_ok text) l.
Proof.
  intros search refsearch MAXC BACK D highest this_year edition_of source_of valid_name is_space
         text words cits ra l Hne Hclean Hstream Hcits Htoks Hsearch Hrefs Htotal Hg.
  exact (get_citations_offsets_w (ws_clean is_space) _ _ _ _ _ _ _ _ _ _ _ _ _ _ _ _
           Hne Hstream Hcits Htoks (fun a b => ws_clean_slice is_space text a b Hclean)
           (search_ok_w_of_g _ _ Hsearch) Hrefs Htotal Hg).
Qed.

(* The premise post_short_total cannot be dropped: search_ok says nothing when a
   search fails, and _extract_shortform_citation stores span_end = 0 when the
   post-citation search returns None. *)
Lemma post_short_total_needed :
  exists search refsearch MAXC BACK D highest this_year edition_of source_of valid_name is_space
         text words cits ra l,
    text <> s_eyecite /\ stream_ok text words /\ cits_ok words cits /\ toks_ok source_of words /\
    search_ok search /\ refs_ok refsearch /\
    get_citations search refsearch MAXC BACK D highest this_year edition_of source_of valid_name is_space
                  text words cits ra = Ok l /\
    ~ Forall (offsets_ok text) l.
Proof.
  set (t := {| t_kind := KCitation; t_start := 1; t_end := 2; t_data := [98%N];
               t_groups := [(g_page, Some [98%N])]; t_short := true; t_exact := []; t_var := [] |}).
  exists (fun _ _ => None), (fun _ _ => []), 10%nat, 10%nat, {| d_nd := []; d_isdigit := []; d_maxdigits := 4300%N |},
         2100, 2026, (fun _ => None), (fun _ => 0%nat), (fun _ => true), (fun _ => false),
         [97%N; 98%N], [W [97%N]; T t], [(1%nat, t)], false.
  eexists.
  split; [discriminate|].
  assert (Hnth : forall k t', nth_error [W [97%N]; T t] k = Some (T t') -> k = 1%nat /\ t' = t).
  { intros k t' Hk. destruct k as [|[|k]]; cbn in Hk.
    - discriminate Hk.
    - injection Hk as <-. auto.
    - destruct k; discriminate Hk. }
  split.
  { split; [reflexivity|]. intros k t' Hk. destruct (Hnth _ _ Hk) as [-> ->].
    split; [reflexivity|]. unfold cand_wf. cbn. repeat split; lia. }
  split.
  { intros i t' [H|[]]. injection H as <- <-. reflexivity. }
  split.
  { intros k t' Hk. destruct (Hnth _ _ Hk) as [-> ->]. unfold tok_ok. cbn [t_kind t].
    split; [|discriminate]. intros _. exists [98%N]. reflexivity. }
  split; [intros p w m H; discriminate H|].
  split; [intros names s a b gd []|].
  split; [vm_compute; reflexivity|].
  intros H. inversion H as [|? ? Hc _]. clear H.
  unfold offsets_ok in Hc. cbn in Hc. lia.
Qed.
Print Assumptions get_citations_offsets_w.
Print Assumptions get_citations_offsets_g.
