(* Proofs/ClosedCorollaries.v -- the closed-model theorems of Proofs/ClosedProofs.v with every
   premise that the kernel can decide on the regenerated tables discharged.  What remains are facts
   about the behaviour of the nine metadata regexes on the windows of the text at hand (search_ok,
   defyear_ok, post_short_total) and one fact about the short-form extractor regexes
   (short_page_ok): all are checked by the harness on every recorded call / token. *)
From EV Require Import Base.Str Base.PyVal Model.Tokenize Model.Editions Model.Filter Model.Pipeline.
From EV Require Import Model.SearchEngine Model.Extract Model.E2E Model.RefEngine Model.E2EClosed.
From EV Require Import Proofs.PipeSpec Proofs.PipeMeta Proofs.ClosedProofs Proofs.PageGroup.
From EV Require Import Gen.Unicode.

(* "a short-form citation token ends with its page group": no longer needed by the pipeline
   theorems (the repaired _extract_shortform_citation checks it; tok_ok only asks that the page
   group is present, which holds for every short-form extractor: Proofs/PageGroup.v).  The
   predicate is kept because Proofs/ShortPage.v documents that it is FALSE for some texts. *)
Definition short_page_ok (s : str) : Prop :=
  forall k t, nth_error (fst (tokenize_text s)) k = Some (T t) ->
    t_kind t = KCitation -> t_short t = true ->
    exists pg, glookup g_page (t_groups t) = Some (Some pg) /\ suffix pg (t_data t).

(* the token contract holds for the computed stream of every text *)
Theorem toks_ok_closed_all : forall s, toks_ok src_of_gen (fst (tokenize_text s)).
Proof.
  intros s k t Hk. unfold tok_ok.
  destruct (tokenize_text_toks_partial_all s k t Hk) as [Hstop Hcit].
  destruct (t_kind t) eqn:Hkind; try exact I.
  - split.
    + intros Hshort. exact (tokenize_text_page_set_all s k t Hk Hkind Hshort).
    + intros Hshort. exact (Hcit eq_refl Hshort).
  - exact (Hstop eq_refl).
Qed.

(* (kept for the files that still pass short_page_ok: the premise is not used any more) *)
Lemma toks_ok_closed : forall s, short_page_ok s -> toks_ok src_of_gen (fst (tokenize_text s)).
Proof. intros s _. exact (toks_ok_closed_all s). Qed.

Theorem closed_offsets' : forall this_year s ra l,
  s <> s_eyecite -> short_page_ok s ->
  search_ok (engine_search UM meta_table) ->
  (forall w, engine_search UM meta_table PPostShort w <> None) ->
  get_citations_closed this_year s ra = Ok l ->
  Forall (offsets_ok s) l.
Proof.
  intros this_year s ra l Hne Hsp Hs Ht Hg.
  exact (closed_offsets this_year s ra l Hne (toks_ok_closed s Hsp) Hs Ht Hg).
Qed.

Theorem closed_metadata' : forall this_year s l,
  s <> s_eyecite -> short_page_ok s ->
  search_ok (engine_search UM meta_table) -> defyear_ok (engine_search UM meta_table) ->
  get_citations_closed this_year s false = Ok l ->
  Forall (meta_ok s l) l.
Proof.
  intros this_year s l Hne Hsp Hs Hd Hg.
  exact (closed_metadata this_year s l Hne (toks_ok_closed s Hsp) Hs Hd (tokenize_text_cits_nonempty_all s) Hg).
Qed.

Theorem closed_metadata_ra' : forall this_year s ra l,
  s <> s_eyecite -> short_page_ok s ->
  search_ok (engine_search UM meta_table) -> defyear_ok (engine_search UM meta_table) ->
  get_citations_closed this_year s ra = Ok l ->
  exists l0, get_citations_closed this_year s false = Ok l0 /\
             (forall c, In c l -> In c l0) /\ Forall (meta_ok s l0) l.
Proof.
  intros this_year s ra l Hne Hsp Hs Hd Hg.
  exact (closed_metadata_ra this_year s ra l Hne (toks_ok_closed s Hsp) Hs Hd (tokenize_text_cits_nonempty_all s) Hg).
Qed.

Print Assumptions closed_offsets'.
Print Assumptions closed_metadata'.
Print Assumptions closed_metadata_ra'.
Print Assumptions toks_ok_closed_all.
