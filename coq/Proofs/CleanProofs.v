(* Proofs/CleanProofs.v -- laws of the cleaners (C20). *)
From EV Require Import Base.Str Model.Clean.

Section CollapseLaws.
  Variable P : N -> bool.
  Variable k : nat.
  Variable repl : str.
  Hypothesis Hrepl : Forall (fun c => P c = true) repl.

  Notation flush := (flush k repl).
  Notation go := (go P k repl).
  Notation allP := (Forall (fun c => P c = true)).

  Lemma flush_allP p : allP p -> allP (flush p).
  Proof.
    intros Hp; unfold Clean.flush. destruct p as [|x p]; [constructor|].
    destruct (k <=? length (x :: p)); assumption.
  Qed.

  Lemma go_allP r : forall p, allP r -> go p r = flush (p ++ r).
  Proof.
    induction r as [|c r IH]; intros p Hr; cbn.
    - rewrite app_nil_r; reflexivity.
    - inversion Hr as [|? ? Hc Hr']; subst. rewrite Hc.
      rewrite IH by assumption. rewrite <- app_assoc; reflexivity.
  Qed.

  Lemma go_app r : forall p c X, allP r -> P c = false ->
    go p (r ++ c :: X) = flush (p ++ r) ++ c :: go [] X.
  Proof.
    induction r as [|d r IH]; intros p c X Hr Hc; cbn.
    - rewrite Hc, app_nil_r; reflexivity.
    - inversion Hr as [|? ? Hd Hr']; subst. rewrite Hd.
      rewrite IH by assumption. rewrite <- app_assoc; reflexivity.
  Qed.

  Hypothesis Hflush : forall p, allP p -> flush (flush p) = flush p.

  Lemma go_idem s : forall p, allP p -> go [] (go p s) = go p s.
  Proof.
    induction s as [|c t IH]; intros p Hp; cbn.
    - rewrite go_allP by (apply flush_allP; assumption). cbn. apply Hflush; assumption.
    - destruct (P c) eqn:Hc.
      + apply IH. apply Forall_app; split; [assumption|repeat constructor; assumption].
      + rewrite go_app by (try apply flush_allP; assumption).
        cbn [app]. rewrite Hflush by assumption. rewrite IH by constructor. reflexivity.
  Qed.

  Theorem collapse_idempotent s :
    collapse P k repl (collapse P k repl s) = collapse P k repl s.
  Proof. apply go_idem; constructor. Qed.

  (* all other characters are kept, in order *)
  Notation others := (filter (fun c => negb (P c))).

  Lemma others_allP p : allP p -> others p = [].
  Proof.
    induction 1 as [|c p Hc Hp IH]; cbn; [reflexivity|]. rewrite Hc; cbn; assumption.
  Qed.

  Lemma go_others s : forall p, allP p -> others (go p s) = others s.
  Proof.
    induction s as [|c t IH]; intros p Hp; cbn.
    - apply others_allP, flush_allP; assumption.
    - destruct (P c) eqn:Hc; cbn.
      + apply IH. apply Forall_app; split; [assumption|repeat constructor; assumption].
      + rewrite filter_app, others_allP by (apply flush_allP; assumption).
        cbn. rewrite Hc; cbn. f_equal. apply IH; constructor.
  Qed.

  Theorem collapse_others_kept s : others (collapse P k repl s) = others s.
  Proof. apply go_others; constructor. Qed.
End CollapseLaws.

(* ---------- the "+" cleaners: k = 1, repl = one P-character ---------- *)
Section Plus.
  Variable P : N -> bool.
  Variable sp : N.
  Hypothesis Hsp : P sp = true.

  Lemma plus_repl : Forall (fun c => P c = true) [sp].
  Proof. repeat constructor; assumption. Qed.

  Lemma plus_flush p : flush 1 [sp] (flush 1 [sp] p) = flush 1 [sp] p.
  Proof. destruct p as [|x p]; reflexivity. Qed.

  Theorem plus_idempotent s :
    collapse P 1 [sp] (collapse P 1 [sp] s) = collapse P 1 [sp] s.
  Proof. apply collapse_idempotent; [apply plus_repl|intros; apply plus_flush]. Qed.

  Theorem plus_others_kept s :
    filter (fun c => negb (P c)) (collapse P 1 [sp] s) = filter (fun c => negb (P c)) s.
  Proof. apply collapse_others_kept, plus_repl. Qed.

  (* no run left: every P-character of the output is the replacement
     character and is not followed by another P-character *)
  Definition head_nonP (s : str) : bool :=
    match s with d :: _ => negb (P d) | [] => true end.

  Fixpoint ok_plus (s : str) : bool :=
    match s with
    | [] => true
    | c :: t => (if P c then N.eqb c sp && head_nonP t else true) && ok_plus t
    end.

  Lemma plus_go_shape s : forall p, Forall (fun c => P c = true) p ->
    match p with
    | [] => ok_plus (go P 1 [sp] [] s) = true
    | _ => exists rest, go P 1 [sp] p s = sp :: rest /\ head_nonP rest = true /\ ok_plus rest = true
    end.
  Proof.
    induction s as [|c t IH]; intros p Hp.
    - destruct p as [|x p]; cbn; [reflexivity|]. exists []; auto.
    - destruct (P c) eqn:Hc.
      + destruct p as [|x p].
        * cbn [go]. rewrite Hc. cbn [app].
          destruct (IH [c]) as [rest [Hr [Hh Ho]]]; [repeat constructor; assumption|].
          rewrite Hr. cbn. rewrite Hsp, N.eqb_refl, Hh, Ho; reflexivity.
        * cbn [go]. rewrite Hc.
          assert (Hp' : Forall (fun c => P c = true) ((x :: p) ++ [c])).
          { apply Forall_app; split; [assumption|repeat constructor; assumption]. }
          specialize (IH _ Hp'). cbn [app] in IH |- *. exact IH.
      + pose proof (IH [] (Forall_nil _)) as IH0. cbn beta iota in IH0.
        destruct p as [|x p]; cbn [go]; rewrite Hc.
        * cbn. rewrite Hc; cbn. exact IH0.
        * exists (c :: go P 1 [sp] [] t). repeat split.
          -- cbn. rewrite Hc; reflexivity.
          -- cbn. rewrite Hc; cbn. exact IH0.
  Qed.

  Theorem plus_no_run_left s : ok_plus (collapse P 1 [sp] s) = true.
  Proof. exact (plus_go_shape s [] (Forall_nil _)). Qed.
End Plus.

(* ---------- the "__+" cleaner: k = 2, repl = "" ---------- *)
Section Two.
  Variable P : N -> bool.

  Lemma two_flush p : flush 2 [] (flush 2 [] p) = flush 2 [] p.
  Proof. destruct p as [|x [|y p]]; reflexivity. Qed.

  Theorem two_idempotent s :
    collapse P 2 [] (collapse P 2 [] s) = collapse P 2 [] s.
  Proof. apply collapse_idempotent; [constructor|intros; apply two_flush]. Qed.

  Theorem two_others_kept s :
    filter (fun c => negb (P c)) (collapse P 2 [] s) = filter (fun c => negb (P c)) s.
  Proof. apply collapse_others_kept; constructor. Qed.

  (* no run left: no two adjacent P-characters in the output *)
  Definition head_nonP2 (s : str) : bool :=
    match s with d :: _ => negb (P d) | [] => true end.

  Fixpoint ok_two (s : str) : bool :=
    match s with
    | [] => true
    | c :: t => (negb (P c) || head_nonP2 t) && ok_two t
    end.

  Lemma ok_two_cons_nonP c t : P c = false -> ok_two t = true -> ok_two (c :: t) = true.
  Proof. intros Hc Ht. cbn. rewrite Hc, Ht. reflexivity. Qed.

  Lemma ok_two_cons_P c t : head_nonP2 t = true -> ok_two t = true -> ok_two (c :: t) = true.
  Proof. intros Hh Ht. cbn. rewrite Hh, Ht, orb_true_r. reflexivity. Qed.

  (* direct characterisation: go p s = F ++ rest where F has at most one
     character (exactly when the whole run has length 1) *)
  Lemma two_go_ok s : forall p, Forall (fun c => P c = true) p ->
    ok_two (go P 2 [] p s) = true /\
    (1 <= length p -> head_nonP2 (go P 2 [] p s) = true \/
                      (length p = 1 /\ exists rest, go P 2 [] p s = p ++ rest /\ head_nonP2 rest = true)).
  Proof.
    induction s as [|c t IH]; intros p Hp.
    - cbn [go]. split.
      + destruct p as [|x [|y p]]; cbn; try reflexivity. rewrite orb_true_r; reflexivity.
      + intros Hl. destruct p as [|x [|y p]]; cbn in *; [lia| |left; reflexivity].
        right; split; [reflexivity|]. exists []; split; reflexivity.
    - cbn [go]. destruct (P c) eqn:Hc.
      + assert (Hp' : Forall (fun c => P c = true) (p ++ [c])).
        { apply Forall_app; split; [assumption|repeat constructor; assumption]. }
        destruct (IH (p ++ [c]) Hp') as [IH1 IH2]. split; [exact IH1|].
        intros Hl. rewrite app_length in IH2; cbn in IH2.
        destruct IH2 as [H|[H _]]; [lia|left; exact H|lia].
      + destruct (IH [] (Forall_nil _)) as [IH1 _]. split.
        * destruct p as [|x [|y p]]; cbn [flush length Nat.leb app].
          -- apply ok_two_cons_nonP; assumption.
          -- apply ok_two_cons_P; [cbn; rewrite Hc; reflexivity|].
             apply ok_two_cons_nonP; assumption.
          -- apply ok_two_cons_nonP; assumption.
        * intros Hl. destruct p as [|x [|y p]]; cbn in *; [lia| |].
          -- right; split; [reflexivity|]. eexists; split; [reflexivity|]. cbn. rewrite Hc; reflexivity.
          -- left. rewrite Hc; reflexivity.
  Qed.

  Theorem two_no_run_left s : ok_two (collapse P 2 [] s) = true.
  Proof. exact (proj1 (two_go_ok s [] (Forall_nil _))). Qed.
End Two.

(* ---------- clean_text composition ---------- *)
Section Compose.
  Variable lookup : str -> option (str -> str).

  Theorem clean_text_app t s1 s2 :
    clean_text lookup t (s1 ++ s2) =
    cbind (clean_text lookup t s1) (fun t' => clean_text lookup t' s2).
  Proof.
    revert t; induction s1 as [|st s1 IH]; intros t; cbn; [reflexivity|].
    destruct (apply_step lookup st t); cbn; [apply IH|reflexivity].
  Qed.

  Theorem clean_text_unknown t n rest :
    lookup n = None -> clean_text lookup t (SName n :: rest) = CValueError.
  Proof. intros H; cbn. rewrite H. reflexivity. Qed.

  Theorem clean_text_single t st :
    clean_text lookup t [st] = apply_step lookup st t.
  Proof. cbn. destruct (apply_step lookup st t); reflexivity. Qed.
End Compose.

Section NodeInd.
  Variable Q : node -> Prop.
  Hypothesis HQ : forall tag text children,
    Forall (fun ct => Q (fst ct)) children -> Q (Elem tag text children).
  Fixpoint node_ind' (n : node) : Q n :=
    match n with
    | Elem tag text children =>
        HQ tag text children
          ((fix G (l : list (node * str)) : Forall (fun ct => Q (fst ct)) l :=
              match l with
              | [] => Forall_nil _
              | ct :: l' => Forall_cons ct (node_ind' (fst ct)) (G l')
              end) children)
    end.
End NodeInd.

(* ---------- html tree model ---------- *)
Section HtmlLaws.
  Variable ws : N -> bool.
  Variable hidden : str -> bool.
  Variable is_head : str -> bool.
  Variable tagchar : N -> bool.   (* '<' or '>' *)

  (* (tags of the enclosing elements, innermost first; text) in document order.  The head of the
     path is the XPath parent of the text node, the whole path its ancestor-or-parent axis *)
  Fixpoint node_texts_in (path : list str) (n : node) : list (list str * str) :=
    match n with
    | Elem tag text children =>
        (tag :: path, text) ::
        (fix kids (l : list (node * str)) : list (list str * str) :=
           match l with
           | [] => []
           | (c, tail) :: l' => node_texts_in (tag :: path) c ++ (tag :: path, tail) :: kids l'
           end) children
    end.
  Definition node_texts (n : node) : list (list str * str) := node_texts_in [] n.

  (* kept: the parent is not style/link/head/script, no proper ancestor is <head>, not blank *)
  Definition keep (pt : list str * str) : bool :=
    match fst pt with
    | [] => false
    | parent :: ancestors => negb (hidden parent || existsb is_head ancestors) && nonblank ws (snd pt)
    end.

  Theorem visible_in_spec n : forall path,
    visible_in ws hidden is_head (existsb is_head path) n = map snd (filter keep (node_texts_in path n)).
  Proof.
    induction n as [tag text children IH] using node_ind'. intros path.
    cbn [visible_in node_texts_in]. cbn [filter]. unfold keep at 1. cbn [fst snd].
    assert (Hinh : (existsb is_head path || is_head tag)%bool = existsb is_head (tag :: path)).
    { cbn [existsb]. apply Bool.orb_comm. }
    rewrite Hinh.
    assert (Hk : forall l,
      Forall (fun ct => forall path, visible_in ws hidden is_head (existsb is_head path) (fst ct)
                                     = map snd (filter keep (node_texts_in path (fst ct)))) l ->
      (fix kids (l : list (node * str)) : list str :=
           match l with
           | [] => []
           | (c, tail) :: l' => visible_in ws hidden is_head (existsb is_head (tag :: path)) c
                                ++ (if negb (hidden tag || existsb is_head path) && nonblank ws tail then [tail] else []) ++ kids l'
           end) l =
      map snd (filter keep ((fix kids (l : list (node * str)) : list (list str * str) :=
           match l with
           | [] => []
           | (c, tail) :: l' => node_texts_in (tag :: path) c ++ (tag :: path, tail) :: kids l'
           end) l))).
    { induction l as [|[c tail] l IHl]; intros Hl; [reflexivity|].
      inversion Hl as [|? ? Hc Hl']; subst. cbn [fst] in Hc.
      rewrite filter_app, map_app, <- (Hc (tag :: path)). f_equal. cbn [filter]. unfold keep at 1; cbn [fst snd].
      rewrite IHl by assumption.
      destruct (negb (hidden tag || existsb is_head path) && nonblank ws tail); reflexivity. }
    rewrite (Hk children IH).
    destruct (negb (hidden tag || existsb is_head path) && nonblank ws text); reflexivity.
  Qed.

  Theorem visible_spec n :
    visible ws hidden is_head n = map snd (filter keep (node_texts n)).
  Proof. exact (visible_in_spec n []). Qed.

  (* nothing nested at any depth inside a <head> element is returned *)
  Theorem visible_not_under_head n : forall pt,
    In pt (node_texts n) -> existsb is_head (fst pt) = true -> (forall t, is_head t = true -> hidden t = true) ->
    keep pt = false.
  Proof.
    intros [path s] _ Hh Hhid. unfold keep. cbn [fst snd] in *.
    destruct path as [|p anc]; [reflexivity|].
    cbn [existsb] in Hh. apply Bool.orb_true_iff in Hh. destruct Hh as [Hp|Ha].
    - rewrite (Hhid p Hp). reflexivity.
    - rewrite Ha, Bool.orb_true_r. reflexivity.
  Qed.

  Lemma join_sp_no_tag l :
    tagchar 32%N = false ->
    Forall (fun s => forallb (fun c => negb (tagchar c)) s = true) l ->
    forallb (fun c => negb (tagchar c)) (join_sp l) = true.
  Proof.
    intros Hsp; induction 1 as [|s l Hs Hl IH]; [reflexivity|].
    destruct l as [|s' l]; [exact Hs|].
    cbn [join_sp]. rewrite forallb_app. cbn [forallb]. rewrite Hs, Hsp. cbn. exact IH.
  Qed.

  Theorem html_no_tags n :
    tagchar 32%N = false ->
    Forall (fun pt => forallb (fun c => negb (tagchar c)) (snd pt) = true) (node_texts n) ->
    forallb (fun c => negb (tagchar c)) (html_clean ws hidden is_head n) = true.
  Proof.
    intros Hsp Hall. unfold html_clean. apply join_sp_no_tag; [assumption|].
    rewrite visible_spec. apply Forall_map.
    apply Forall_forall. intros pt Hin. apply filter_In in Hin. destruct Hin as [Hin _].
    rewrite Forall_forall in Hall. apply Hall; assumption.
  Qed.
End HtmlLaws.
