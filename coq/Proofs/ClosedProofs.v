(* Proofs/ClosedProofs.v -- the pipeline theorems (C02, C17, C18) for the closed model
   Model/E2EClosed.v:get_citations_closed (text and current year only): every hypothesis about
   the candidate list, the token stream and the reference matches is discharged here; what
   remains explicit are facts about the nine fixed metadata regexes and the extractor table. *)
From Coq Require Import Sorting.Sorted.
From EV Require Import Base.Str Base.PyVal Regex.Syntax Regex.Decl Regex.Match Regex.MatchSound.
From EV Require Import Regex.C13Check Regex.CapBody.
From EV Require Import Model.Tokenize Model.TokenizeEq Model.Editions Model.Filter Model.Pipeline.
From EV Require Import Model.SearchEngine Model.Extract Model.E2E Model.RefEngine Model.E2EClosed.
From EV Require Import Proofs.TokenizeProofs Proofs.PipeSpec Proofs.PipeWindows Proofs.PipeOffsets.
From EV Require Import Proofs.PipeMeta Proofs.PipeYear Proofs.PipeCompose.
From EV Require Import Proofs.ExtractSpec Proofs.ExtractProofs.
From EV Require Import Gen.Unicode Gen.Lower Gen.Consts Gen.RefRegex Gen.ExtractorIndex Gen.ExtractTable.
Close Scope Z_scope.
Close Scope N_scope.
Open Scope nat_scope.

(* ------------------------------------------------------------------ *)
(* A. the reference matches computed by the engine satisfy refs_ok      *)
(* ------------------------------------------------------------------ *)

Lemma slice_infix {A} (s : list A) a a' b' b :
  a <= a' -> a' <= b' -> b' <= b ->
  slice s a b = slice s a a' ++ slice s a' b' ++ slice s b' b.
Proof.
  intros H1 H2 H3.
  rewrite (slice_app s a' b' b H2 H3). rewrite (slice_app s a a' b H1); [reflexivity|lia].
Qed.

Theorem refs_engine_ok : refs_ok refs_engine.
Proof.
  intros names s a b gd Hin. unfold refs_engine in Hin.
  apply in_map_iff in Hin. destruct Hin as [[[i j] c] [Heq Hin]].
  injection Heq as Hi Hj Hgd. subst i j.
  destruct (finditer_sound U false s _ a b c Hin) as [_ [Hab [Hb Hc]]].
  split; [exact Hab|]. split; [exact Hb|].
  intros k v Hkv. rewrite <- Hgd in Hkv.
  apply in_map_iff in Hkv. destruct Hkv as [kn [Hkn _]].
  injection Hkn as _ Hg. unfold group_text in Hg.
  destruct (cap_get (snd kn) c) as [[a' b']|] eqn:Hcap; [|discriminate].
  injection Hg as Hv. subst v.
  destruct (Hc _ _ _ (cap_get_in _ _ _ _ Hcap)) as [H1 [H2 H3]].
  exists (slice s a a'), (slice s b' b). apply slice_infix; assumption.
Qed.

(* ------------------------------------------------------------------ *)
(* B. the computed stream satisfies the stream hypotheses               *)
(* ------------------------------------------------------------------ *)

Theorem tokenize_text_stream_ok : forall s,
  stream_ok s (fst (tokenize_text s)) /\ cits_ok (fst (tokenize_text s)) (snd (tokenize_text s)).
Proof. intros s. unfold tokenize_text. apply tokenize_stream_ok. apply candidates_text_wf. Qed.

Theorem tokenize_text_cits_sorted : forall s, cits_sorted (snd (tokenize_text s)).
Proof.
  intros s. unfold cits_sorted, tokenize_text. apply tokenize_cits_sorted. apply candidates_text_wf.
Qed.

(* ------------------------------------------------------------------ *)
(* D. the pipeline theorems for get_citations_closed                    *)
(* ------------------------------------------------------------------ *)

Lemma get_citations_closed_eq : forall this_year s ra,
  get_citations_closed this_year s ra =
  get_citations (engine_search UM meta_table) refs_engine
                (N.to_nat MAX_MATCH_CHARS) (N.to_nat BACKWARD_SEEK)
                DT (Z.of_N highest_valid_year) this_year ed_of_gen src_of_gen is_valid_name is_space_gen
                s (fst (tokenize_text s)) (snd (tokenize_text s)) ra.
Proof.
  intros this_year s ra. unfold get_citations_closed, get_citations_text.
  destruct (tokenize_text s) as [words cits]. reflexivity.
Qed.

Theorem closed_offsets : forall this_year s ra l,
  s <> s_eyecite ->
  toks_ok src_of_gen (fst (tokenize_text s)) ->
  search_ok (engine_search UM meta_table) ->
  (forall w, engine_search UM meta_table PPostShort w <> None) ->
  get_citations_closed this_year s ra = Ok l ->
  Forall (offsets_ok s) l.
Proof.
  intros this_year s ra l Hne Htoks Hsearch Htotal Hg. rewrite get_citations_closed_eq in Hg.
  destruct (tokenize_text_stream_ok s) as [Hstream Hcits].
  exact (get_citations_offsets _ _ _ _ _ _ _ _ _ _ _ _ _ _ _ _
           Hne Hstream Hcits Htoks Hsearch refs_engine_ok Htotal Hg).
Qed.

Theorem closed_metadata : forall this_year s l,
  s <> s_eyecite ->
  toks_ok src_of_gen (fst (tokenize_text s)) ->
  search_ok (engine_search UM meta_table) ->
  defyear_ok (engine_search UM meta_table) ->
  cits_nonempty (snd (tokenize_text s)) ->
  get_citations_closed this_year s false = Ok l ->
  Forall (meta_ok s l) l.
Proof.
  intros this_year s l Hne Htoks Hsearch Hdy Hnonempty Hg. rewrite get_citations_closed_eq in Hg.
  destruct (tokenize_text_stream_ok s) as [Hstream Hcits].
  exact (get_citations_metadata_sorted _ _ _ _ _ _ _ _ _ _ _ _ _ _ _
           Hne Hstream Hcits Htoks Hsearch refs_engine_ok Hdy (tokenize_text_cits_sorted s)
           Hnonempty Hg).
Qed.

Theorem closed_metadata_ra : forall this_year s ra l,
  s <> s_eyecite ->
  toks_ok src_of_gen (fst (tokenize_text s)) ->
  search_ok (engine_search UM meta_table) ->
  defyear_ok (engine_search UM meta_table) ->
  cits_nonempty (snd (tokenize_text s)) ->
  get_citations_closed this_year s ra = Ok l ->
  exists l0,
    get_citations_closed this_year s false = Ok l0 /\
    (forall c, In c l -> In c l0) /\ Forall (meta_ok s l0) l.
Proof.
  intros this_year s ra l Hne Htoks Hsearch Hdy Hnonempty Hg. rewrite get_citations_closed_eq in Hg.
  destruct (tokenize_text_stream_ok s) as [Hstream Hcits].
  destruct (get_citations_metadata_ra _ _ _ _ _ _ _ _ _ _ _ _ _ _ _ _
              Hne Hstream Hcits Htoks Hsearch refs_engine_ok Hdy (tokenize_text_cits_sorted s)
              Hnonempty Hg) as [l0 [Hg0 [Hsub Hmeta]]].
  exists l0. rewrite get_citations_closed_eq. split; [exact Hg0|]. split; [exact Hsub|exact Hmeta].
Qed.

Theorem closed_year : forall this_year s ra l,
  get_citations_closed this_year s ra = Ok l ->
  Forall (year_ok DT (Z.of_N highest_valid_year)) l.
Proof.
  intros this_year s ra l Hg. rewrite get_citations_closed_eq in Hg.
  exact (get_citations_year _ _ _ _ _ _ _ _ _ _ _ _ _ _ _ _ Hg).
Qed.

Theorem closed_guess_candidates : forall this_year s ra l c e,
  s <> s_eyecite ->
  get_citations_closed this_year s ra = Ok l -> In c l -> p_guess c = Some e ->
  In e (candidates (editions_of ed_of_gen (t_exact (p_tok c))) (editions_of ed_of_gen (t_var (p_tok c)))).
Proof.
  intros this_year s ra l c e Hne Hg Hc He. rewrite get_citations_closed_eq in Hg.
  exact (get_citations_guess_candidates _ _ _ _ _ _ _ _ _ _ _ _ _ _ _ _ _ _ Hne Hg Hc He).
Qed.

Theorem closed_guess_singleton : forall this_year s ra l c e,
  s <> s_eyecite ->
  get_citations_closed this_year s ra = Ok l -> In c l -> is_resource c = true ->
  candidates (editions_of ed_of_gen (t_exact (p_tok c))) (editions_of ed_of_gen (t_var (p_tok c))) = [e] ->
  p_guess c = Some e.
Proof.
  intros this_year s ra l c e Hne Hg Hc Hr He. rewrite get_citations_closed_eq in Hg.
  exact (get_citations_guess_singleton _ _ _ _ _ _ _ _ _ _ _ _ _ _ _ _ _ _ Hne Hg Hc Hr He).
Qed.

Theorem closed_remove_ambiguous : forall this_year s l,
  s <> s_eyecite ->
  get_citations_closed this_year s false = Ok l ->
  get_citations_closed this_year s true = Ok (disambiguate is_resource has_guess l).
Proof.
  intros this_year s l Hne Hg. rewrite get_citations_closed_eq in Hg |- *.
  exact (get_citations_remove_ambiguous_weak _ _ _ _ _ _ _ _ _ _ _ _ _ _ _ Hne Hg).
Qed.

(* ------------------------------------------------------------------ *)
(* a property of all candidates closed under merge holds on the stream  *)
(* ------------------------------------------------------------------ *)
Section StreamPred.
  Variable text : str.
  Variable nominative : tok -> bool.
  Variable P : tok -> Prop.
  Variable P_merge : forall a b m, P a -> P b -> merge a b = Some m -> P m.

  Definition pinv (s : st) : Prop :=
    (forall t, In (T t) (all_rev s) -> P t) /\ (forall t, last s = Some t -> P t).

  Lemma in_T_words : forall t a b l, In (T t) (rev (words text a b) ++ l) -> In (T t) l.
  Proof.
    intros t a b l Hin. apply in_app_or in Hin. destruct Hin as [Hin|Hin]; [|exact Hin].
    apply in_rev in Hin. unfold words in Hin. apply in_map_iff in Hin.
    destruct Hin as [w [Hw _]]. discriminate.
  Qed.

  Lemma in_tl {A} (x : A) l : In x (tl l) -> In x l.
  Proof. destruct l; [intros []|intros H; right; exact H]. Qed.

  Lemma emit_pinv : forall s t o allr citsr,
    P t -> (forall t', In (T t') allr -> P t') -> pinv (emit text s t o allr citsr).
  Proof.
    intros s t o allr citsr Ht Hall. unfold emit, pinv. cbn [all_rev last]. split.
    - intros t' [Heq|Hin]; [injection Heq as Heq; subst t'; exact Ht|].
      apply Hall. destruct (o <? t_start t); [exact (in_T_words _ _ _ _ Hin)|exact Hin].
    - intros t' Heq. injection Heq as Heq. subst t'. exact Ht.
  Qed.

  Lemma step_pinv : forall s t, pinv s -> P t -> pinv (step text nominative s t).
  Proof.
    intros s t Hp Ht. pose proof Hp as [Hall Hlast]. unfold step.
    destruct (match last s with
              | Some lt => if truthy lt then merge lt t else None
              | None => None
              end) as [m|] eqn:Em.
    - assert (Hm : P m).
      { destruct (last s) as [lt|] eqn:El; [|discriminate].
        destruct (truthy lt); [|discriminate].
        exact (P_merge lt t m (Hlast lt eq_refl) Ht Em). }
      unfold pinv. cbn [all_rev last]. split.
      + intros t' Hin. destruct (all_rev s) as [|e r]; [destruct Hin|].
        destruct Hin as [Heq|Hin]; [injection Heq as Heq; subst t'; exact Hm|].
        apply Hall. right. exact Hin.
      + intros t' Heq. injection Heq as Heq. subst t'. exact Hm.
    - destruct (t_start t <? off s).
      + destruct (last s) as [lt|] eqn:El; [|exact Hp].
        destruct (truthy lt && kind_eqb (t_kind t) KCitation && (t_end lt <? t_end t) && nominative lt).
        * apply emit_pinv; [exact Ht|]. intros t' Hin. apply Hall. exact (in_tl _ _ Hin).
        * exact Hp.
      + apply emit_pinv; [exact Ht|exact Hall].
  Qed.

  Lemma fold_pinv : forall l s, pinv s -> Forall P l -> pinv (fold_left (step text nominative) l s).
  Proof.
    induction l as [|t l IH]; intros s Hs Hl; cbn [fold_left]; [exact Hs|].
    inversion Hl as [|? ? Ht Hl']; subst. apply IH; [|exact Hl'].
    apply step_pinv; assumption.
  Qed.

  Theorem tokenize_stream_pred : forall cands, Forall P cands ->
    forall k t, nth_error (fst (tokenize text nominative cands)) k = Some (T t) -> P t.
  Proof.
    intros cands Hc k t Hk. apply nth_error_In in Hk. unfold tokenize, finish in Hk. cbn [fst] in Hk.
    apply in_rev in Hk.
    assert (Hinv : pinv (fold_left (step text nominative) (sort_toks cands) init)).
    { apply fold_pinv; [|apply sort_Forall; exact Hc].
      split; [intros t' []|intros t' Hd; discriminate]. }
    destruct Hinv as [Hall _]. apply Hall.
    match type of Hk with
    | In _ (if ?g then _ else _) => destruct g
    end; [exact (in_T_words _ _ _ _ Hk)|exact Hk].
  Qed.

  (* and on the citation-token index list, for well-formed candidates *)
  Theorem tokenize_cits_pred : forall cands, Forall (cand_wf text) cands -> Forall P cands ->
    forall i t, In (i, t) (snd (tokenize text nominative cands)) -> P t.
  Proof.
    intros cands Hwf Hc i t Hin.
    destruct (tokenize_stream_ok text nominative cands Hwf) as [_ Hcits].
    exact (tokenize_stream_pred cands Hc i t (Hcits i t Hin)).
  Qed.
End StreamPred.

(* ------------------------------------------------------------------ *)
(* E. parts of toks_ok for the computed stream                          *)
(* ------------------------------------------------------------------ *)

(* (stated abstractly: tactics such as `apply filter_In in H` on a hypothesis mentioning the
   generated table make Coq evaluate the table) *)
Lemma in_get_extractors_ac : forall (table : list xrow) s low x,
  In x (get_extractors_ac table s low) -> In x table.
Proof.
  intros table s low x Hx. unfold get_extractors_ac in Hx.
  exact (proj1 (proj1 (filter_In _ _ _) Hx)).
Qed.

(* the per-row condition (reflected on the generated table) *)
Definition row_meta_ok (x : xrow) : bool :=
  match x_kind (snd x) with
  | KCitation =>
      x_short (snd x) ||
      existsb (fun i => src_of_gen i <=? 2)
              (match x_exact (snd x) with [] => x_var (snd x) | l => l end)
  | KStopWord => existsb (fun kn => str_eqb g_stop_word (fst kn)) (x_names (snd x))
  | _ => true
  end.

Definition stop_ok (t : tok) : Prop :=
  t_kind t = KStopWord -> exists v, glookup g_stop_word (t_groups t) = Some v.

Definition edition_ok (t : tok) : Prop :=
  t_kind t = KCitation -> t_short t = false ->
  exists i, In i (match t_exact t with [] => t_var t | l => l end) /\ src_of_gen i <= 2.

Lemma glookup_map_some : forall (k : str) (f : str * nat -> option str) names,
  existsb (fun kn => str_eqb k (fst kn)) names = true ->
  exists v, glookup k (map (fun kn => (fst kn, f kn)) names) = Some v.
Proof.
  intros k f names. induction names as [|kn names IH]; intros H; cbn [existsb] in H; [discriminate|].
  cbn [map glookup fst]. destruct (str_eqb k (fst kn)).
  - exists (f kn). reflexivity.
  - apply IH. exact H.
Qed.

Lemma tokens_of_inv : forall U0 x s t, In t (tokens_of U0 x s) ->
  exists i j c a b, In (i, j, c) (finditer U0 (row_ci (fst x)) s (row_re (fst x))) /\
    cap_get 1 c = Some (a, b) /\
    t = {| t_kind := x_kind (snd x); t_start := a; t_end := b; t_data := slice s a b;
           t_groups := map (fun kn => (fst kn, group_text s c (snd kn))) (x_names (snd x));
           t_short := x_short (snd x); t_exact := x_exact (snd x); t_var := x_var (snd x) |}.
Proof.
  intros U0 x s t Hin. unfold tokens_of in Hin. apply in_somes in Hin.
  apply in_map_iff in Hin. destruct Hin as [[[i j] c] [Ht Hin]].
  unfold tok_of in Ht. cbn [snd] in Ht.
  destruct (cap_get 1 c) as [[a b]|] eqn:Hc; [|discriminate].
  injection Ht as Ht. exists i, j, c, a, b. split; [exact Hin|]. split; [exact Hc|].
  symmetry. exact Ht.
Qed.

Theorem extract_with_meta_ok : forall U0 xs s t,
  (forall x, In x xs -> row_meta_ok x = true) ->
  In t (extract_with U0 xs s) -> stop_ok t /\ edition_ok t.
Proof.
  intros U0 xs s t Hrows Hin. unfold extract_with in Hin. apply in_flat_map in Hin.
  destruct Hin as [x [Hx Hin]]. specialize (Hrows x Hx).
  destruct (tokens_of_inv U0 x s t Hin) as [i [j [c [a [b [_ [_ Ht]]]]]]]. subst t.
  unfold row_meta_ok in Hrows. unfold stop_ok, edition_ok.
  cbn [t_kind t_groups t_short t_exact t_var]. split.
  - intros Hk. rewrite Hk in Hrows. apply glookup_map_some. exact Hrows.
  - intros Hk Hs. rewrite Hk, Hs in Hrows. cbn [orb] in Hrows.
    apply existsb_exists in Hrows. destruct Hrows as [e [He Hsrc]].
    exists e. split; [exact He|]. apply Nat.leb_le. exact Hsrc.
Qed.

(* merge keeps kind, groups and the short flag of its first argument *)
Lemma merge_kind_groups : forall a b m, merge a b = Some m ->
  t_kind m = t_kind a /\ t_groups m = t_groups a /\ t_short m = t_short a.
Proof.
  intros a b m. unfold merge.
  match goal with |- (if ?c then _ else _) = _ -> _ => destruct c end; [|discriminate].
  destruct (t_kind a) eqn:Hk; try (intros [= <-]; auto).
  destruct (Bool.eqb _ _); [|discriminate].
  intros [= <-]. cbn. auto.
Qed.

Lemma stop_ok_merge : forall a b m, stop_ok a -> stop_ok b -> merge a b = Some m -> stop_ok m.
Proof.
  intros a b m Ha _ Hm. destruct (merge_kind_groups a b m Hm) as [Hk [Hg _]].
  unfold stop_ok in *. rewrite Hk, Hg. exact Ha.
Qed.

Lemma dedup_in : forall l seen x, In x l -> In x seen \/ In x (dedup l seen).
Proof.
  induction l as [|y l IH]; intros seen x Hin; [destruct Hin|].
  cbn [dedup]. destruct (existsb (Nat.eqb y) seen) eqn:He.
  - destruct Hin as [Heq|Hin]; [|apply IH; exact Hin].
    subst y. left. apply existsb_exists in He. destruct He as [z [Hz Hyz]].
    apply Nat.eqb_eq in Hyz. subst z. exact Hz.
  - destruct Hin as [Heq|Hin]; [subst y; right; left; reflexivity|].
    destruct (IH (y :: seen) x Hin) as [[Heq|Hs]|Hd].
    + subst y. right. left. reflexivity.
    + left. exact Hs.
    + right. right. exact Hd.
Qed.

Lemma dedup_in_nil : forall l x, In x l -> In x (dedup l []).
Proof. intros l x Hin. destruct (dedup_in l [] x Hin) as [[]|H]. exact H. Qed.

Lemma in_cands_of : forall (ex va : list nat) i,
  In i ex -> In i (match ex with [] => va | n :: l => n :: l end).
Proof. intros ex va i Hin. destruct ex; [destruct Hin|exact Hin]. Qed.

Lemma edition_ok_merge : forall a b m,
  edition_ok a -> edition_ok b -> merge a b = Some m -> edition_ok m.
Proof.
  intros a b m Ha Hb Hm. unfold merge in Hm.
  match type of Hm with (if ?c then _ else _) = _ => destruct c eqn:Hc end; [|discriminate].
  apply andb_true_iff in Hc. destruct Hc as [Hc _].
  apply andb_true_iff in Hc. destruct Hc as [_ Hkb].
  destruct (t_kind a) eqn:Hka; try (injection Hm as Hm; subst m; exact Ha).
  destruct (Bool.eqb (t_short a) (t_short b)) eqn:Hsb; [|discriminate].
  apply eqb_prop in Hsb.
  assert (Hkb' : t_kind b = KCitation) by (destruct (t_kind b); try discriminate; reflexivity).
  injection Hm as Hm. subst m. unfold edition_ok. cbn [t_kind t_short t_exact t_var].
  intros _ Hs.
  destruct (Ha Hka Hs) as [ia [Hia Hsa]].
  destruct (Hb Hkb' (eq_trans (eq_sym Hsb) Hs)) as [ib [Hib Hsb']].
  destruct (t_exact a) as [|ea exa] eqn:Hea.
  - destruct (t_exact b) as [|eb exb] eqn:Heb.
    + exists ia. split; [|exact Hsa]. cbn [app dedup].
      apply dedup_in_nil. apply in_or_app. left. exact Hia.
    + exists ib. split; [|exact Hsb']. apply in_cands_of. apply dedup_in_nil. exact Hib.
  - exists ia. split; [|exact Hsa]. apply in_cands_of. apply dedup_in_nil.
    apply in_or_app. left. exact Hia.
Qed.

Theorem tokenize_extract_toks_partial : forall U0 table s nominative,
  (forall x, In x table -> row_meta_ok x = true) ->
  forall k t, nth_error (fst (tokenize s nominative (extract_with U0 table s))) k = Some (T t) ->
  stop_ok t /\ edition_ok t.
Proof.
  intros U0 table s nominative Hrows k t Hk. split.
  - apply (tokenize_stream_pred s nominative stop_ok stop_ok_merge (extract_with U0 table s)) with (k := k); [|exact Hk].
    apply Forall_forall. intros t' Hin. exact (proj1 (extract_with_meta_ok U0 table s t' Hrows Hin)).
  - apply (tokenize_stream_pred s nominative edition_ok edition_ok_merge (extract_with U0 table s)) with (k := k); [|exact Hk].
    apply Forall_forall. intros t' Hin. exact (proj2 (extract_with_meta_ok U0 table s t' Hrows Hin)).
Qed.

(* the definition of tokenize_text, one unfolding at a time (propositional equalities: the kernel
   must not be left to compare terms across these definitions on the generated table) *)
Lemma tokenize_text_unfold : forall s,
  tokenize_text s =
  tokenize s (nominative_by nominative_ids)
           (extract_with U (get_extractors_ac xtable s (lower_str lower1 s)) s).
Proof.
  intros s.
  assert (H1 : tokenize_text s = tokenize s (nominative_by nominative_ids) (candidates_text s))
    by reflexivity.
  assert (H2 : candidates_text s =
               extract_with U (get_extractors_ac xtable s (lower_str lower1 s)) s) by reflexivity.
  rewrite H1, H2. reflexivity.
Qed.

Theorem tokenize_text_toks_partial :
  forallb row_meta_ok xtable = true ->
  forall s k t, nth_error (fst (tokenize_text s)) k = Some (T t) ->
    (t_kind t = KStopWord -> exists v, glookup g_stop_word (t_groups t) = Some v) /\
    (t_kind t = KCitation -> t_short t = false ->
       exists i, In i (match t_exact t with [] => t_var t | l => l end) /\ src_of_gen i <= 2).
Proof.
  intros Htab s k t Hk.
  assert (Hrows : forall x, In x (get_extractors_ac xtable s (lower_str lower1 s)) ->
                            row_meta_ok x = true).
  { intros x Hx. exact (proj1 (forallb_forall _ _) Htab x (in_get_extractors_ac _ _ _ _ Hx)). }
  rewrite tokenize_text_unfold in Hk.
  pose proof (tokenize_extract_toks_partial U _ s _ Hrows k t Hk) as [H1 H2].
  split; [exact H1|exact H2].
Qed.

(* ------------------------------------------------------------------ *)
(* C. captures are matches of their group's body; non-empty tokens      *)
(* ------------------------------------------------------------------ *)
Section CapX.
  Variable U0 : utables.

  Lemma match_at_adv_cap_body : forall ci s r i j c n a b,
    i <= length s -> match_at_adv U0 ci s r i = Some (j, c) -> In (n, (a, b)) c ->
    exists r', In r' (group_body n r) /\ M U0 ci s r' a b.
  Proof.
    intros ci s r i j c n a b Hi Hm Hin. unfold match_at_adv in Hm.
    destruct (m_cap_body U0 ci s r i [] _ _ Hi Hm) as [j' [c' [_ [Hk Hc]]]].
    cbv beta in Hk. destruct (Nat.eqb j' i); [discriminate|].
    injection Hk as _ Hc'. subst c'.
    destruct (Hc n a b Hin) as [[]|H]. exact H.
  Qed.

  Lemma search_adv_cap_body : forall ci s r pos adv i j c n a b,
    pos <= length s -> search_adv U0 ci s r pos adv = Some (i, j, c) -> In (n, (a, b)) c ->
    exists r', In r' (group_body n r) /\ M U0 ci s r' a b.
  Proof.
    intros ci s r pos adv i j c n a b Hpos Hs Hin. unfold search_adv in Hs.
    destruct (if adv then match_at_adv U0 ci s r pos else match_at U0 ci s r pos)
      as [[j0 c0]|] eqn:Hfirst.
    - injection Hs as Hi Hj Hc. subst i j0 c0. destruct adv.
      + exact (match_at_adv_cap_body ci s r pos j c n a b Hpos Hfirst Hin).
      + exact (proj2 (match_at_cap_body U0 ci s r pos j c Hpos Hfirst) n a b Hin).
    - destruct (Nat.ltb_spec pos (length s)) as [Hlt|Hge]; [|discriminate].
      destruct (search_from_sound U0 ci s r _ (S pos) i j c Hlt Hs) as [_ [Hil [Hm _]]].
      exact (proj2 (match_at_cap_body U0 ci s r i j c Hil Hm) n a b Hin).
  Qed.

  Lemma finditer_from_cap_body : forall ci s r fuel pos adv i j c n a b,
    pos <= length s -> In (i, j, c) (finditer_from U0 ci s r fuel pos adv) -> In (n, (a, b)) c ->
    exists r', In r' (group_body n r) /\ M U0 ci s r' a b.
  Proof.
    intros ci s r fuel. induction fuel as [|f IHf]; intros pos adv i j c n a b Hpos Hin Hc;
      cbn [finditer_from] in Hin.
    - destruct Hin.
    - destruct (search_adv U0 ci s r pos adv) as [[[i0 j0] c0]|] eqn:Hs; [|destruct Hin].
      destruct Hin as [Heq|Hin].
      + injection Heq as H1 H2 H3. subst i0 j0 c0.
        exact (search_adv_cap_body ci s r pos adv i j c n a b Hpos Hs Hc).
      + destruct (search_adv_sound U0 ci s r pos adv i0 j0 c0 Hpos Hs) as [_ [_ [_ [Hj0 _]]]].
        exact (IHf j0 _ i j c n a b Hj0 Hin Hc).
  Qed.

  Theorem finditer_cap_body : forall ci s r i j c n a b,
    In (i, j, c) (finditer U0 ci s r) -> In (n, (a, b)) c ->
    exists r', In r' (group_body n r) /\ M U0 ci s r' a b.
  Proof.
    intros ci s r i j c n a b Hin Hc. unfold finditer in Hin.
    exact (finditer_from_cap_body ci s r _ 0 false i j c n a b (Nat.le_0_l _) Hin Hc).
  Qed.

  Theorem tokens_nonempty : forall x s t,
    (forall r', In r' (group_body 1 (row_re (fst x))) -> 0 < minlen r') ->
    In t (tokens_of U0 x s) -> t_start t < t_end t.
  Proof.
    intros x s t Hpos Hin.
    destruct (tokens_of_inv U0 x s t Hin) as [i [j [c [a [b [Hf [Hc Ht]]]]]]]. subst t.
    cbn [t_start t_end].
    destruct (finditer_cap_body _ _ _ i j c 1 a b Hf (cap_get_in _ _ _ _ Hc)) as [r' [Hr' HM]].
    pose proof (minlen_sound U0 _ _ _ _ _ HM). pose proof (Hpos r' Hr'). lia.
  Qed.

  Definition tok_nonempty (t : tok) : Prop := t_start t < t_end t.

  Lemma tok_nonempty_merge : forall a b m,
    tok_nonempty a -> tok_nonempty b -> merge a b = Some m -> tok_nonempty m.
  Proof.
    intros a b m Ha _ Hm. destruct (merge_same a b m Hm) as [Hs [He _]].
    unfold tok_nonempty in *. lia.
  Qed.

  Theorem cits_nonempty_of_table : forall table s nominative,
    (forall x, In x table -> forall r', In r' (group_body 1 (row_re (fst x))) -> 0 < minlen r') ->
    cits_nonempty (snd (tokenize s nominative (extract_with U0 table s))).
  Proof.
    intros table s nominative Htab i t Hin.
    apply (tokenize_cits_pred s nominative tok_nonempty tok_nonempty_merge
             (extract_with U0 table s)) with (i := i); [apply extract_with_wf| |exact Hin].
    apply Forall_forall. intros t' Ht'. unfold extract_with in Ht'. apply in_flat_map in Ht'.
    destruct Ht' as [x [Hx Ht']]. exact (tokens_nonempty x s t' (Htab x Hx) Ht').
  Qed.
End CapX.

(* the boolean form of the table condition (reflected on the generated table) *)
Definition row_nonnull (x : xrow) : bool :=
  forallb (fun r' => 0 <? minlen r') (group_body 1 (row_re (fst x))).

Lemma row_nonnull_spec : forall x, row_nonnull x = true ->
  forall r', In r' (group_body 1 (row_re (fst x))) -> 0 < minlen r'.
Proof.
  intros x H r' Hr'. unfold row_nonnull in H. rewrite forallb_forall in H.
  apply Nat.ltb_lt. exact (H r' Hr').
Qed.

Theorem tokenize_text_cits_nonempty :
  forallb row_nonnull xtable = true -> forall s, cits_nonempty (snd (tokenize_text s)).
Proof.
  intros Htab s.
  assert (Hrows : forall x, In x (get_extractors_ac xtable s (lower_str lower1 s)) ->
            forall r', In r' (group_body 1 (row_re (fst x))) -> 0 < minlen r').
  { intros x Hx. apply row_nonnull_spec.
    exact (proj1 (forallb_forall _ _) Htab x (in_get_extractors_ac _ _ _ _ Hx)). }
  rewrite tokenize_text_unfold.
  exact (cits_nonempty_of_table U _ s (nominative_by nominative_ids) Hrows).
Qed.

(* ------------------------------------------------------------------ *)
(* the two table conditions, by kernel computation (about 1 s each)     *)
(* ------------------------------------------------------------------ *)
Lemma xtable_row_meta_ok_refl : forallb row_meta_ok xtable = true.
Proof. vm_compute. reflexivity. Qed.

Lemma xtable_row_nonnull_refl : forallb row_nonnull xtable = true.
Proof. vm_compute. reflexivity. Qed.

Theorem tokenize_text_toks_partial_all : forall s k t,
  nth_error (fst (tokenize_text s)) k = Some (T t) ->
  (t_kind t = KStopWord -> exists v, glookup g_stop_word (t_groups t) = Some v) /\
  (t_kind t = KCitation -> t_short t = false ->
     exists i, In i (match t_exact t with [] => t_var t | l => l end) /\ src_of_gen i <= 2).
Proof. exact (tokenize_text_toks_partial xtable_row_meta_ok_refl). Qed.

Theorem tokenize_text_cits_nonempty_all : forall s, cits_nonempty (snd (tokenize_text s)).
Proof. exact (tokenize_text_cits_nonempty xtable_row_nonnull_refl). Qed.

Print Assumptions refs_engine_ok.
Print Assumptions tokenize_text_stream_ok.
Print Assumptions tokenize_text_cits_sorted.
Print Assumptions closed_offsets.
Print Assumptions closed_metadata.
Print Assumptions closed_metadata_ra.
Print Assumptions closed_year.
Print Assumptions closed_guess_candidates.
Print Assumptions closed_guess_singleton.
Print Assumptions closed_remove_ambiguous.
Print Assumptions tokenize_text_toks_partial.
Print Assumptions finditer_cap_body.
Print Assumptions tokens_nonempty.
Print Assumptions cits_nonempty_of_table.
Print Assumptions tokenize_text_cits_nonempty.
Print Assumptions tokenize_text_toks_partial_all.
Print Assumptions tokenize_text_cits_nonempty_all.
