(* Proofs/ExtractSpec.v -- statements about Model/Extract.v (definitions only;
   proofs in Proofs/ExtractProofs.v).  The generated table is abstracted here:
   theorems quantify over any table whose rows pass the kernel-run literal check. *)
From EV Require Import Base.Str Regex.Syntax Regex.Decl Regex.Match Regex.Literal Regex.C13Check.
From EV Require Import Model.Tokenize Model.Extract.

(* successive matches reported by the scanner: non-overlapping, never the same match twice *)
Definition scan_step (a b : nat * nat * caps) : Prop :=
  snd (fst a) <= fst (fst b) /\ (fst (fst a), snd (fst a)) <> (fst (fst b), snd (fst b)).

Fixpoint chain {A} (R : A -> A -> Prop) (l : list A) : Prop :=
  match l with
  | a :: ((b :: _) as l') => R a b /\ chain R l'
  | _ => True
  end.

(* a row passes the check the kernel ran on the generated table *)
Definition row_checked (x : row) : Prop := strict_ok x = true \/ partial_ok x = true.
