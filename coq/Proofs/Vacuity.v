(* Proofs/Vacuity.v -- the UNGUARDED oracle contracts are false for the concrete engine
   E := engine_search UM meta_table, so theorems assuming them of E for ALL windows were vacuous:
   (1) `$` also matches just before a final "\n": on "Foo, \n" the short-form antecedent pattern
       matches with m_end = 5 <> 6 = len(window)            (refutes search_residual2 E, search_ok E);
   (2) on " (1999)" DEFENDANT_YEAR_REGEX matches with an empty defendant and year "1999"
       (refutes defyear_ok E).
   The guarded contracts of Proofs/PipeSpec.v (search_ok_g) and Proofs/PipeMeta.v (defyear_ok_g)
   exclude exactly these windows; they are PROVED for E in Proofs/SearchGuarded.v. *)
From EV Require Import Base.Str Base.PyVal Regex.Syntax Regex.Match.
From EV Require Import Model.Tokenize Model.Editions Model.Filter Model.Pipeline Model.SearchEngine Model.E2E.
From EV Require Import Proofs.PipeSpec Proofs.PipeMeta Proofs.SearchDischarge Proofs.SearchDischarge2.
From EV Require Import Gen.Unicode Gen.MetaRegex.
Close Scope Z_scope.
Close Scope N_scope.
Open Scope nat_scope.

Definition w_foo_nl : str := [70;111;111;44;32;10]%N.          (* "Foo, \n" *)
Definition w_paren_year : str := [32;40;49;57;57;57;41]%N.     (* " (1999)" *)

Lemma E_short_ante_before_newline :
  exists m, E PShortAnte w_foo_nl = Some m /\ m_end m = 5 /\ length w_foo_nl = 6.
Proof. vm_compute. eexists. repeat split. Qed.

Theorem residual2_refuted : ~ search_residual2 E.
Proof.
  intros H. destruct E_short_ante_before_newline as [m [He [Hm Hl]]].
  pose proof (H PShortAnte w_foo_nl m He eq_refl) as Heq. rewrite Hm, Hl in Heq. discriminate Heq.
Qed.

Theorem search_ok_refuted : ~ search_ok E.
Proof.
  intros H. destruct E_short_ante_before_newline as [m [He [Hm Hl]]].
  destruct (H PShortAnte w_foo_nl m He) as (_ & _ & Hend & _).
  specialize (Hend eq_refl). rewrite Hm, Hl in Hend. discriminate Hend.
Qed.

Lemma E_defyear_empty_defendant :
  exists m, E PDefYear w_paren_year = Some m /\
            truthy_o (mget m w_paren_year g_year) = true /\
            truthy_o (mget m w_paren_year g_defendant) = false.
Proof. vm_compute. eexists. repeat split. Qed.

Theorem defyear_refuted : ~ defyear_ok E.
Proof.
  intros H. destruct E_defyear_empty_defendant as [m [He [Hy Hd]]].
  pose proof (H w_paren_year m He Hy) as Ht. rewrite Hd in Ht. discriminate Ht.
Qed.

(* both windows are excluded by the guards: the first contains U+000A, the second starts with a
   space *)
Lemma w_foo_nl_not_clean : ~ ws_clean is_space_gen w_foo_nl.
Proof.
  intros H. assert (H10 : (10 = 32)%N).
  { apply H; [right; right; right; right; right; left; reflexivity|vm_compute; reflexivity]. }
  discriminate H10.
Qed.

Lemma w_paren_year_head_space :
  ~ exists c r, w_paren_year = c :: r /\ is_space_gen c = false.
Proof.
  intros [c [r [Hw Hc]]]. injection Hw as <- _. vm_compute in Hc. discriminate Hc.
Qed.

Print Assumptions residual2_refuted.
Print Assumptions search_ok_refuted.
Print Assumptions defyear_refuted.
