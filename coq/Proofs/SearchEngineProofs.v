(* Proofs/SearchEngineProofs.v -- the engine model of the metadata searches
   (Model/SearchEngine.v) satisfies, by theorem, the span contract of match objects (mres_ok) and
   the anchoring facts (^X starts at 0, X$ ends at the end of the window or just before a final
   newline).  Built on Regex/MatchSound.v. *)
From EV Require Import Base.Str Base.PyVal Regex.Syntax Regex.Decl Regex.Match Regex.MatchSound
                       Model.Tokenize Model.Editions Model.Filter Model.Pipeline Model.SearchEngine Proofs.PipeSpec.

Local Open Scope nat_scope.

(* ---- captures and the group dictionary ---- *)

Lemma cap_get_In : forall n c sp, cap_get n c = Some sp -> In (n, sp) c.
Proof.
  intros n c sp. induction c as [|[k sp0] c IH]; cbn [cap_get]; intros H.
  - discriminate.
  - destruct (Nat.eqb_spec n k) as [Heq|Hne].
    + injection H as H. subst. left. reflexivity.
    + right. apply IH. exact H.
Qed.

Lemma to_mres_groups_In : forall names i j c k a b,
  In (k, Some (a, b)) (m_groups (to_mres names (i, j, c))) ->
  exists n, In (n, (a, b)) c.
Proof.
  intros names i j c k a b Hin. cbn [to_mres m_groups] in Hin.
  apply in_map_iff in Hin. destruct Hin as [[k0 n] [Heq _]].
  cbn [fst snd] in Heq. injection Heq as _ Hcap.
  exists n. apply cap_get_In. exact Hcap.
Qed.

(* the span contract transfers from the raw result to the match object *)
Lemma to_mres_ok : forall names w i j c,
  i <= j -> j <= length w ->
  (forall n a b, In (n, (a, b)) c -> i <= a /\ a <= b /\ b <= j) ->
  mres_ok w (to_mres names (i, j, c)).
Proof.
  intros names w i j c Hij Hj Hc. unfold mres_ok.
  split; [exact Hij|]. split; [exact Hj|].
  intros k a b Hin.
  destruct (to_mres_groups_In _ _ _ _ _ _ _ Hin) as [n Hn].
  cbn [to_mres m_start m_end]. exact (Hc n a b Hn).
Qed.

(* ---- what engine_search returns ---- *)

(* every result comes from a declarative match of the pattern's AST on the window, with the
   span contract on the captures; for regex.match (PYearMatch) the start is 0 *)
Lemma engine_search_inv : forall U table p w m,
  engine_search U table p w = Some m ->
  exists i j c,
    m = to_mres (snd (table p)) (i, j, c) /\
    M U false w (fst (table p)) i j /\ i <= j /\ j <= length w /\
    (forall n a b, In (n, (a, b)) c -> i <= a /\ a <= b /\ b <= j).
Proof.
  intros U table p w m H. unfold engine_search in H.
  destruct (table p) as [r names] eqn:Ht. cbn [fst snd].
  assert (Hsearch : match search U false w r with
                    | Some res => Some (to_mres names res) | None => None end = Some m ->
          exists i j c, m = to_mres names (i, j, c) /\ M U false w r i j /\ i <= j /\
            j <= length w /\ (forall n a b, In (n, (a, b)) c -> i <= a /\ a <= b /\ b <= j)).
  { intros Hs. destruct (search U false w r) as [[[i j] c]|] eqn:Hsr; [|discriminate].
    injection Hs as Hs. subst m.
    destruct (search_sound U false w r i j c Hsr) as [HM [Hij [Hj [Hc _]]]].
    exists i, j, c. repeat split; try assumption; apply (Hc n a b); assumption. }
  destruct p; try (exact (Hsearch H)).
  (* PYearMatch: fullmatch *)
  destruct (fullmatch_at U w r) as [[j c]|] eqn:Hm; [|discriminate].
  injection H as H. subst m. unfold fullmatch_at in Hm.
  destruct (m_caps U false w r 0 [] _ _ (Nat.le_0_l _) Hm) as [j' [c' [HM [Hk Hc]]]].
  destruct (Nat.eqb j' (length w)); [|discriminate].
  injection Hk as Hj' Hc'. subst j' c'.
  destruct (M_bounds U false w r 0 j HM) as [Hij Hj].
  exists 0, j, c. repeat split; try assumption;
    destruct (Hc n a b H) as [[]|Hsp]; lia.
Qed.

(* 1. every match object the engine produces satisfies the span contract *)
Theorem engine_mres_ok : forall U table p w m,
  engine_search U table p w = Some m -> mres_ok w m.
Proof.
  intros U table p w m H.
  destruct (engine_search_inv U table p w m H) as [i [j [c [Hm [_ [Hij [Hj Hc]]]]]]].
  subst m. apply to_mres_ok; assumption.
Qed.

(* 2. anchors *)

Theorem bol_start : forall U ci s r i j, M U ci s (Cat Bol r) i j -> i = 0.
Proof.
  intros U ci s r i j H.
  inversion H as [| | | | | | | |a b i0 j0 k0 Ha Hb| | | | |]; subst.
  inversion Ha; subst. reflexivity.
Qed.

Lemma at_eol_inv : forall s j, at_eol s j = true ->
  j = length s \/ (S j = length s /\ nth_error s j = Some 10%N).
Proof.
  intros s j H. unfold at_eol in H.
  apply orb_true_iff in H. destruct H as [H|H].
  - left. apply Nat.eqb_eq. exact H.
  - right. apply andb_true_iff in H. destruct H as [H1 H2].
    apply Nat.eqb_eq in H1. split; [exact H1|].
    destruct (nth_error s j) as [x|]; [|discriminate].
    apply N.eqb_eq in H2. subst x. reflexivity.
Qed.

Theorem eol_end : forall U ci s r i j, M U ci s (Cat r Eol) i j ->
  j = length s \/ (S j = length s /\ nth_error s j = Some 10%N).
Proof.
  intros U ci s r i j H.
  inversion H as [| | | | | | | |a b i0 j0 k0 Ha Hb| | | | |]; subst.
  inversion Hb as [| | | | | |i1 Hle Heol| | | | | | |]; subst.
  apply at_eol_inv. exact Heol.
Qed.

Theorem engine_fwd_start : forall U table p w m r names,
  table p = (Cat Bol r, names) -> p <> PYearMatch -> engine_search U table p w = Some m -> m_start m = 0.
Proof.
  intros U table p w m r names Ht _ H.
  destruct (engine_search_inv U table p w m H) as [i [j [c [Hm [HM _]]]]].
  rewrite Ht in HM, Hm. cbn [fst snd] in HM, Hm. subst m. cbn [to_mres m_start].
  eapply bol_start. exact HM.
Qed.

Theorem engine_bwd_end : forall U table p w m r names,
  table p = (Cat r Eol, names) -> p <> PYearMatch -> engine_search U table p w = Some m ->
  m_end m = length w \/ (S (m_end m) = length w /\ nth_error w (m_end m) = Some 10%N).
Proof.
  intros U table p w m r names Ht _ H.
  destruct (engine_search_inv U table p w m H) as [i [j [c [Hm [HM _]]]]].
  rewrite Ht in HM, Hm. cbn [fst snd] in HM, Hm. subst m. cbn [to_mres m_end].
  eapply eol_end. exact HM.
Qed.

Print Assumptions engine_mres_ok.
Print Assumptions bol_start.
Print Assumptions eol_end.
Print Assumptions engine_fwd_start.
Print Assumptions engine_bwd_end.
