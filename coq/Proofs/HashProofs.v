(* Proofs/HashProofs.v -- citation equality identifies the cited document (C16).
   Equality of citations is equality of hash keys (Model/Resolve.v:key_of). *)
From EV Require Import Base.Str Base.PyVal Model.Tokenize Model.Resolve Model.Editions.
From EV Require Import Proofs.ResolveSpec Proofs.ResolveProofs.

Definition cite_eq (a b : cit) : Prop := exists k, key_of a = Ok k /\ key_of b = Ok k.

Lemma cite_eq_sym a b : cite_eq a b -> cite_eq b a.
Proof. intros [k [H1 H2]]; exists k; auto. Qed.

Lemma cite_eq_trans a b c : cite_eq a b -> cite_eq b c -> cite_eq a c.
Proof. intros [k [H1 H2]] [k' [H3 H4]]. rewrite H2 in H3. injection H3 as <-. exists k; auto. Qed.

Lemma cite_eq_refl a k : key_of a = Ok k -> cite_eq a a.
Proof. intros H; exists k; auto. Qed.

(* the key depends on class, groups, edition guess, candidate editions and identity only:
   pin cite, year string, parties, parenthetical, spans do not matter *)
Lemma key_ignores_metadata a b :
  c_cls a = c_cls b -> c_groups a = c_groups b -> c_guess a = c_guess b -> c_eds a = c_eds b ->
  oid a = oid b -> key_of a = key_of b.
Proof.
  intros H1 H2 H3 H4 H5. unfold key_of, corrected_reporter. rewrite H1, H2, H3, H4, H5. reflexivity.
Qed.

Definition is_case (c : cit) : Prop := c_cls c = FullCase \/ c_cls c = ShortCase.

(* case citations with a page: equal exactly when class, volume, page and corrected reporter agree *)
Lemma case_key a p :
  is_case a -> glookup k_page (c_groups a) = Some (Some p) ->
  key_of a = match corrected_reporter a with
             | Ok r => Ok (KCase (c_cls a) (glookup k_volume (c_groups a)) p r)
             | Err e => Err e
             end.
Proof.
  intros [H|H] Hp; unfold key_of; rewrite H, Hp; destruct (corrected_reporter a); reflexivity.
Qed.

Lemma case_eq_iff a b pa pb ra rb :
  is_case a -> is_case b ->
  glookup k_page (c_groups a) = Some (Some pa) -> glookup k_page (c_groups b) = Some (Some pb) ->
  corrected_reporter a = Ok ra -> corrected_reporter b = Ok rb ->
  (cite_eq a b <->
   c_cls a = c_cls b /\ glookup k_volume (c_groups a) = glookup k_volume (c_groups b) /\ pa = pb /\ ra = rb).
Proof.
  intros Ha Hb Hpa Hpb Hra Hrb.
  unfold cite_eq. rewrite (case_key a pa Ha Hpa), (case_key b pb Hb Hpb), Hra, Hrb. split.
  - intros [k [H1 H2]]. rewrite <- H2 in H1. injection H1 as E1 E2 E3 E4. auto.
  - intros [E1 [E2 [E3 E4]]]. rewrite E1, E2, E3, E4. eexists; split; reflexivity.
Qed.

(* placeholder-page, id. and unknown citations hash by identity: equal only to themselves *)
Lemma identity_key c :
  (is_case c /\ glookup k_page (c_groups c) = Some None) \/ c_cls c = IdC \/ c_cls c = Unknown ->
  key_of c = Ok (KId (oid c)).
Proof.
  intros [[[H|H] Hp]|[H|H]]; unfold key_of; rewrite H; try rewrite Hp; reflexivity.
Qed.

Lemma identity_only_self a b :
  key_of a = Ok (KId (oid a)) -> cite_eq a b -> key_of b = Ok (KId (oid a)).
Proof. intros Ha [k [H1 H2]]. rewrite Ha in H1. injection H1 as <-. exact H2. Qed.

(* a key of identity kind can only come from a citation with that identity *)
Lemma kid_from c o : key_of c = Ok (KId o) -> o = oid c.
Proof.
  unfold key_of. destruct (c_cls c);
    try (destruct (glookup k_page (c_groups c)) as [[p|]|]; try discriminate;
         [destruct (corrected_reporter c); discriminate|intros H; injection H as <-; reflexivity]);
    try discriminate; intros H; injection H as <-; reflexivity.
Qed.

Lemma identity_distinct a b :
  key_of a = Ok (KId (oid a)) -> oid a <> oid b -> ~ cite_eq a b.
Proof.
  intros Ha Hne Heq. pose proof (identity_only_self a b Ha Heq) as Hb.
  apply kid_from in Hb. congruence.
Qed.

(* the class is part of the key: full, short, law and journal citations are never equal across kinds *)
Definition key_cls (k : key) : option cls :=
  match k with KCase c _ _ _ => Some c | KGroups c _ _ => Some c | KId _ => None end.

Lemma key_cls_of c k : key_of c = Ok k -> key_cls k = Some (c_cls c) \/ key_cls k = None.
Proof.
  unfold key_of. destruct (c_cls c) eqn:Hc;
    try (destruct (glookup k_page (c_groups c)) as [[p|]|]; try discriminate;
         [destruct (corrected_reporter c); try discriminate; intros H; injection H as <-; left; reflexivity
         |intros H; injection H as <-; right; reflexivity]);
    intros H; injection H as <-; (left; reflexivity) || (right; reflexivity).
Qed.

Lemma cross_kind_never_equal a b k :
  key_of a = Ok k -> key_of b = Ok k -> key_cls k <> None -> c_cls a = c_cls b.
Proof.
  intros Ha Hb Hk.
  destruct (key_cls_of a k Ha) as [H1|H1]; [|contradiction].
  destruct (key_cls_of b k Hb) as [H2|H2]; [|contradiction].
  congruence.
Qed.

(* ---- variations: reflection over the regenerated reporter-string table ---- *)
Definition guess_ids (this_year : Z) (tbl : list edition) (ex va : list nat) : option nat :=
  let eds l := flat_map (fun i => match nth_error tbl i with Some e => [e] | None => [] end) l in
  match guess_edition this_year (eds ex) (eds va) None with Some e => Some (e_id e) | None => None end.

Definition name_of (tbl : list edition) (i : nat) : str :=
  match nth_error tbl i with Some e => e_name e | None => [] end.

(* edition ids are positions in the table *)
Fixpoint ids_are_positions (tbl : list edition) (i : nat) : bool :=
  match tbl with
  | [] => true
  | e :: r => Nat.eqb (e_id e) i && ids_are_positions r (S i)
  end.

(* every reporter string that the table maps unambiguously (without a year) to an
   edition: the edition's own name is in the table and maps to the same edition.
   `hint` (edition id -> row index of the edition's own name) is an untrusted
   accelerator: the row it names is checked to carry that name. *)
Definition variation_ok (tbl : list edition) (db : list (str * list nat * list nat)) (hint : list (option nat))
           (row : str * list nat * list nat) : bool :=
  match guess_ids 0 tbl (snd (fst row)) (snd row) with
  | None => true
  | Some i =>
      match nth_error hint i with
      | Some (Some ri) =>
          match nth_error db ri with
          | Some r => str_eqb (fst (fst r)) (name_of tbl i) &&
                      (* the canonical spelling normalises to the same reporter string: its own guess's
                         name, or -- when it is ambiguous without a year -- the string as written *)
                      match guess_ids 0 tbl (snd (fst r)) (snd r) with
                      | Some j => str_eqb (name_of tbl j) (name_of tbl i)
                      | None => true
                      end
          | None => false
          end
      | _ => false
      end
  end.

Definition variation_failures (tbl : list edition) (db : list (str * list nat * list nat)) (hint : list (option nat)) : list str :=
  map (fun r => fst (fst r)) (filter (fun r => negb (variation_ok tbl db hint r)) db).

(* what a passing row means: the corrected reporter of the canonical spelling is the same string *)
Definition corrected_name (tbl : list edition) (r : str * list nat * list nat) : str :=
  match guess_ids 0 tbl (snd (fst r)) (snd r) with Some j => name_of tbl j | None => fst (fst r) end.

Lemma variation_ok_spec tbl db hint row i :
  variation_ok tbl db hint row = true ->
  guess_ids 0 tbl (snd (fst row)) (snd row) = Some i ->
  exists r, In r db /\ fst (fst r) = name_of tbl i /\ corrected_name tbl r = corrected_name tbl row.
Proof.
  unfold variation_ok, corrected_name. intros H Hg. rewrite Hg in H. rewrite Hg.
  destruct (nth_error hint i) as [[ri|]|]; try discriminate.
  destruct (nth_error db ri) as [r|] eqn:Hr; [|discriminate].
  apply andb_true_iff in H. destruct H as [H1 H2].
  exists r. split; [eapply nth_error_In; exact Hr|]. apply str_eqb_eq in H1. split; [exact H1|].
  destruct (guess_ids 0 tbl (snd (fst r)) (snd r)) as [j|]; [apply str_eqb_eq; exact H2|exact H1].
Qed.
