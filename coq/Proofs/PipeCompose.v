(* Proofs/PipeCompose.v -- C12 feeds C02: the output of the tokenizer model
   satisfies the stream hypotheses of the pipeline theorems. *)
From EV Require Import Base.Str Base.PyVal Model.Tokenize Model.Pipeline Proofs.TokenizeProofs Proofs.PipeSpec.

Lemma specials_from_nth A : forall i k t,
  nth_error A k = Some (T t) -> In ((i + k)%nat, t) (specials_from i A).
Proof.
  induction A as [|[s|t0] A IH]; intros i k t H.
  - destruct k; discriminate.
  - destruct k as [|k]; [discriminate|]. cbn [specials_from]. cbn in H.
    replace (i + S k)%nat with (S i + k)%nat by lia. apply IH; exact H.
  - destruct k as [|k]; cbn [specials_from].
    + cbn in H. injection H as ->. left. f_equal. lia.
    + right. cbn in H. replace (i + S k)%nat with (S i + k)%nat by lia. apply IH; exact H.
Qed.

Lemma specials_nth A k t : nth_error A k = Some (T t) -> In (k, t) (specials A).
Proof. intros H. apply (specials_from_nth A 0 k t H). Qed.

Theorem tokenize_stream_ok text nominative cands :
  Forall (cand_wf text) cands ->
  stream_ok text (fst (tokenize text nominative cands)) /\
  cits_ok (fst (tokenize text nominative cands)) (snd (tokenize text nominative cands)).
Proof.
  intros Hwf. split.
  - split; [apply tokenize_concat; exact Hwf|].
    intros k t Hk. apply specials_nth in Hk.
    rewrite <- (tokenize_index text nominative cands Hwf) in Hk.
    destruct (tokenize_offsets text nominative cands Hwf k t Hk) as [_ [Hc Hl]]. split; assumption.
  - intros i t Hin. destruct (tokenize_offsets text nominative cands Hwf i t Hin) as [Hn _]. exact Hn.
Qed.

(* the index list of the tokenizer is strictly increasing (what C17 needs as cits_sorted) *)
From Coq Require Import Sorting.Sorted.

Lemma adjacent_sorted (l : list (nat * tok)) :
  (forall l1 a b l2, l = l1 ++ a :: b :: l2 -> (fst a < fst b)%nat) ->
  StronglySorted (fun a b => (fst a < fst b)%nat) l.
Proof.
  induction l as [|x l IH]; intros H; [constructor|].
  constructor.
  - apply IH. intros l1 a b l2 E. apply (H (x :: l1) a b l2). rewrite E. reflexivity.
  - assert (IHs : StronglySorted (fun a b => (fst a < fst b)%nat) l).
    { apply IH. intros l1 a b l2 E. apply (H (x :: l1) a b l2). rewrite E. reflexivity. }
    destruct l as [|y l]; [constructor|].
    assert (Hxy : (fst x < fst y)%nat) by (apply (H [] x y l); reflexivity).
    constructor; [exact Hxy|].
    apply StronglySorted_inv in IHs. destruct IHs as [_ Hy].
    eapply Forall_impl; [|exact Hy]. intros z Hz. cbn beta in Hz. lia.
Qed.

Theorem tokenize_cits_sorted text nominative cands :
  Forall (cand_wf text) cands ->
  StronglySorted (fun a b => (fst a < fst b)%nat) (snd (tokenize text nominative cands)).
Proof.
  intros Hwf. apply adjacent_sorted. intros l1 [i t] [j t'] l2 E.
  destruct (tokenize_increasing text nominative cands Hwf l1 i t j t' l2 E) as [H _]. exact H.
Qed.
