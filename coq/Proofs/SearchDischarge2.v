(* Proofs/SearchDischarge2.v -- the parenthetical clause of search_ok (Proofs/PipeSpec.v) for the
   concrete post-citation search: in POST_FULL_CITATION_REGEX the parenthetical is the last group
   and is followed by its closing bracket (Regex/DeclCapOrder.v: last_group, decided by the kernel
   on Gen/MetaRegex.v:meta_PPostFull).  Only the backward-anchor clause of search_ok remains. *)
From EV Require Import Base.Str Base.PyVal Regex.Syntax Regex.Decl Regex.Match Regex.MatchSound.
From EV Require Import Regex.DeclCap Regex.DeclCapSound Regex.DeclCapOrder.
From EV Require Import Model.Tokenize Model.Editions Model.Filter Model.Pipeline Model.SearchEngine.
From EV Require Import Model.E2E Model.E2EClosed.
From EV Require Import Proofs.PipeSpec Proofs.PipeMeta Proofs.SearchEngineProofs Proofs.ClosedCorollaries.
From EV Require Import Proofs.SearchDischarge Proofs.ShortPage.
From EV Require Import Gen.Unicode Gen.MetaRegex.
Close Scope Z_scope.
Close Scope N_scope.
Open Scope nat_scope.

(* ---- kernel-checked facts about the AST and its name table ---- *)
Lemma post_full_last_group : last_group true 5 meta_PPostFull = true.
Proof. vm_compute. reflexivity. Qed.

Lemma post_full_paren_num : gnum g_parenthetical meta_PPostFull_names = Some 5.
Proof. vm_compute. reflexivity. Qed.

(* no other name is bound to group 5 *)
Lemma post_full_names_distinct :
  forallb (fun kn => str_eqb (fst kn) g_parenthetical || negb (Nat.eqb (snd kn) 5))
          meta_PPostFull_names = true.
Proof. vm_compute. reflexivity. Qed.

(* ---- the clause ---- *)
Theorem E_parenthetical_last : forall w m, E PPostFull w = Some m ->
  forall a b, gspan g_parenthetical (m_groups m) = Some (a, b) ->
    b < m_end m /\
    forall k x y, In (k, Some (x, y)) (m_groups m) -> str_eqb k g_parenthetical = false -> y <= a.
Proof.
  intros w m H a b Hg. destruct (E_inv PPostFull w m H) as [i [j [c [Hm HMC]]]]. subst m.
  cbn [meta_table fst snd] in HMC, Hg |- *.
  rewrite gspan_to_mres, post_full_paren_num in Hg.
  destruct (last_group_sound UM false w 5 true _ i [] j c post_full_last_group HMC c a b
              (eq_sym (app_nil_r c)) Hg) as [Hstrict Hothers].
  split; [exact (Hstrict eq_refl)|].
  intros k x y Hin Hk. cbn [to_mres m_groups] in Hin.
  apply in_map_iff in Hin. destruct Hin as [kn [Heq Hkn]].
  injection Heq as Hfst Hcap.
  pose proof (proj1 (forallb_forall _ _) post_full_names_distinct kn Hkn) as Hd.
  cbv beta in Hd. rewrite Hfst, Hk in Hd. cbn [orb] in Hd. apply negb_true_iff in Hd.
  apply (Hothers (snd kn) x y); [|exact Hcap].
  intros He. rewrite He, Nat.eqb_refl in Hd. discriminate.
Qed.

(* ---- what remains of search_ok: the backward anchor ---- *)
Definition search_residual2 (search : pat -> str -> option mres) : Prop :=
  forall p w m, search p w = Some m -> bwd_pat p = true -> m_end m = length w.

Theorem search_residual_of_residual2 : search_residual2 E -> search_residual E.
Proof.
  intros Hres p w m H. split; [exact (Hres p w m H)|].
  intros Hp. subst p. exact (E_parenthetical_last w m H).
Qed.

Theorem search_ok_of_residual2 : search_residual2 E -> search_ok E.
Proof. intros Hres. exact (search_ok_of_residual (search_residual_of_residual2 Hres)). Qed.

(* ---- the closed theorems.  short_page_ok is false for some texts (Proofs/ShortPage.v:
   short_page_counterexample), hence the premise odd_short_rows_silent s remains ---- *)
Theorem closed_offsets4 : forall this_year s ra l,
  s <> s_eyecite -> odd_short_rows_silent s -> search_residual2 E ->
  get_citations_closed this_year s ra = Ok l ->
  Forall (offsets_ok s) l.
Proof.
  intros this_year s ra l Hne Hsil Hres Hg.
  exact (closed_offsets3 this_year s ra l Hne Hsil (search_residual_of_residual2 Hres) Hg).
Qed.

Theorem closed_metadata4 : forall this_year s l,
  s <> s_eyecite -> odd_short_rows_silent s -> search_residual2 E -> defyear_ok E ->
  get_citations_closed this_year s false = Ok l ->
  Forall (meta_ok s l) l.
Proof.
  intros this_year s l Hne Hsil Hres Hd Hg.
  exact (closed_metadata3 this_year s l Hne Hsil (search_residual_of_residual2 Hres) Hd Hg).
Qed.

Theorem closed_metadata_ra4 : forall this_year s ra l,
  s <> s_eyecite -> odd_short_rows_silent s -> search_residual2 E -> defyear_ok E ->
  get_citations_closed this_year s ra = Ok l ->
  exists l0, get_citations_closed this_year s false = Ok l0 /\
             (forall c, In c l -> In c l0) /\ Forall (meta_ok s l0) l.
Proof.
  intros this_year s ra l Hne Hsil Hres Hd Hg.
  exact (closed_metadata_ra3 this_year s ra l Hne Hsil (search_residual_of_residual2 Hres) Hd Hg).
Qed.

Print Assumptions E_parenthetical_last.
Print Assumptions search_ok_of_residual2.
Print Assumptions closed_offsets4.
Print Assumptions closed_metadata4.
Print Assumptions closed_metadata_ra4.
