(* Proofs/StripPunctProofs.v -- facts about the model of strip_punct that hold for EVERY input
   string and EVERY list of substitution steps. *)
From EV Require Import Base.Str Regex.Syntax Regex.Decl Regex.Match Model.Tokenize Model.Extract Model.Pipeline
  Model.StripPunct Proofs.ExtractProofs.
From Coq Require Import List Lia.
Import ListNotations.

Lemma lstrip_hd : forall P s c t, lstrip P s = c :: t -> P c = false.
Proof.
  intros P s; induction s as [|x xs IH]; intros c t H; cbn in H; [discriminate|].
  destruct (P x) eqn:Hx; [eauto|]. inversion H; subst; exact Hx.
Qed.

Lemma lstrip_suffix : forall P s, exists z, s = z ++ lstrip P s.
Proof.
  intros P s; induction s as [|x xs [z Hz]]; [exists []; reflexivity|].
  cbn. destruct (P x); [exists (x :: z); cbn; f_equal; exact Hz | exists []; reflexivity].
Qed.

Lemma rstrip_prefix : forall P s, exists z, s = rstrip P s ++ z.
Proof.
  intros P s. unfold rstrip. destruct (lstrip_suffix P (rev s)) as [z Hz].
  exists (rev z). rewrite <- rev_app_distr, <- Hz, rev_involutive. reflexivity.
Qed.

Lemma strip_last : forall P s t c, strip P s = t ++ [c] -> P c = false.
Proof.
  intros P s t c H. unfold strip, rstrip in H.
  apply (f_equal (@rev N)) in H. rewrite rev_involutive, rev_app_distr in H. cbn in H.
  eapply lstrip_hd; exact H.
Qed.

Lemma strip_first : forall P s c t, strip P s = c :: t -> P c = false.
Proof.
  intros P s c t H. unfold strip in H.
  destruct (rstrip_prefix P (lstrip P s)) as [z Hz]. rewrite H in Hz. cbn in Hz.
  eapply lstrip_hd; exact Hz.
Qed.

(* the result of strip_punct never starts or ends with a white-space character *)
Theorem strip_punct_edges : forall U steps s,
  (forall c t, strip_punct U steps s = c :: t -> is_space U c = false) /\
  (forall t c, strip_punct U steps s = t ++ [c] -> is_space U c = false).
Proof.
  intros U steps s; split; intros a b H; unfold strip_punct in H;
    [eapply strip_first | eapply strip_last]; exact H.
Qed.

(* a substitution step whose pattern has no match in the text (declarative semantics) leaves it alone *)
Theorem re_sub_no_match : forall U r g s,
  (forall i j, ~ M U false s r i j) -> re_sub U r g s = s.
Proof.
  intros U r g s Hno. unfold re_sub. rewrite (finditer_nil_of_no_match U false s r Hno).
  cbn. apply slice_full.
Qed.

(* ---- a substitution step never lengthens the text ---- *)
From EV Require Import Proofs.ExtractSpec.
Local Open Scope nat_scope.
Definition ms_ok (s : str) (ms : list (nat * nat * caps)) : Prop :=
  forall i j c, In (i, j, c) ms ->
    i <= j /\ j <= length s /\ (forall n a b, In (n, (a, b)) c -> i <= a /\ a <= b /\ b <= j).

Lemma cap_get_in : forall n c a b, cap_get n c = Some (a, b) -> In (n, (a, b)) c.
Proof.
  intros n c; induction c as [|[k sp] c IH]; intros a b H; cbn in H; [discriminate|].
  destruct (Nat.eqb n k) eqn:Hk.
  - apply PeanoNat.Nat.eqb_eq in Hk. subst k. inversion H; subst. left; reflexivity.
  - right; apply IH; exact H.
Qed.

Lemma slice_length_le {A} (s : list A) a b : length (slice s a b) <= b - a.
Proof. unfold slice. rewrite firstn_length. lia. Qed.

Lemma sub_piece_le : forall s g i j c,
  (forall n a b, In (n, (a, b)) c -> i <= a /\ a <= b /\ b <= j) ->
  length (sub_piece s g c) <= j - i.
Proof.
  intros s g i j c Hc. unfold sub_piece. destruct g as [n|]; cbn; [|lia].
  destruct (cap_get n c) as [[a b]|] eqn:Hg; cbn; [|lia].
  apply cap_get_in in Hg. destruct (Hc _ _ _ Hg) as (H1 & H2 & H3).
  pose proof (slice_length_le s a b). lia.
Qed.

Lemma sub_build_le : forall s g ms pos,
  ms_ok s ms -> chain scan_step ms ->
  (match ms with (i, _, _) :: _ => pos <= i | [] => pos <= length s end) ->
  length (sub_build s g pos ms) <= length s - pos.
Proof.
  intros s g ms; induction ms as [|[[i j] c] rest IH]; intros pos Hok Hch Hpos.
  - cbn. pose proof (slice_length_le s pos (length s)). lia.
  - cbn [sub_build]. rewrite !app_length.
    destruct (Hok i j c (or_introl eq_refl)) as (Hij & Hjs & Hc).
    pose proof (slice_length_le s pos i) as H1.
    pose proof (sub_piece_le s g i j c Hc) as H2.
    assert (H3 : length (sub_build s g j rest) <= length s - j).
    { apply IH.
      - intros i' j' c' Hin. apply (Hok i' j' c'). right; exact Hin.
      - destruct rest as [|b rest']; [exact I|]. cbn in Hch. destruct Hch as [_ Hch]. exact Hch.
      - destruct rest as [|[[i' j'] c'] rest']; [exact Hjs|].
        cbn in Hch. destruct Hch as [[Hs _] _]. cbn in Hs. exact Hs. }
    lia.
Qed.

Theorem re_sub_length_le : forall U r g s, length (re_sub U r g s) <= length s.
Proof.
  intros U r g s. unfold re_sub.
  pose proof (sub_build_le s g (finditer U false s r) 0) as H.
  assert (Hok : ms_ok s (finditer U false s r)).
  { intros i j c Hin. destruct (finditer_sound U false s r i j c Hin) as (_ & H1 & H2 & H3). auto. }
  specialize (H Hok (finditer_chain U false s r)).
  assert (Hp : match finditer U false s r with (i, _, _) :: _ => 0 <= i | [] => 0 <= length s end).
  { destruct (finditer U false s r) as [|[[i j] c] ?]; lia. }
  specialize (H Hp). lia.
Qed.

Lemma lstrip_length_le : forall P s, length (lstrip P s) <= length s.
Proof. intros P s; induction s as [|x xs IH]; cbn; [lia|]. destruct (P x); cbn; lia. Qed.

Lemma strip_length_le : forall P s, length (strip P s) <= length s.
Proof.
  intros P s. unfold strip, rstrip. rewrite rev_length.
  pose proof (lstrip_length_le P (rev (lstrip P s))). rewrite rev_length in H.
  pose proof (lstrip_length_le P s). lia.
Qed.

Lemma sub_chain_length_le : forall U steps s, length (sub_chain U steps s) <= length s.
Proof.
  intros U steps; induction steps as [|[r g] rest IH]; intros s; [cbn; lia|].
  change (sub_chain U ((r, g) :: rest) s) with (sub_chain U rest (re_sub U r g s)).
  pose proof (IH (re_sub U r g s)). pose proof (re_sub_length_le U r g s). lia.
Qed.

(* strip_punct only removes: the normalised antecedent is never longer than the written one *)
Theorem strip_punct_length_le : forall U steps s, length (strip_punct U steps s) <= length s.
Proof.
  intros U steps s. unfold strip_punct.
  pose proof (strip_length_le (is_space U) (sub_chain U steps s)).
  pose proof (sub_chain_length_le U steps s). lia.
Qed.

(* ---- strip_punct invents nothing: every character of the result is a character of the input ---- *)
Lemma in_firstn_ {A} (x : A) n l : In x (firstn n l) -> In x l.
Proof. intro H. rewrite <- (firstn_skipn n l). apply in_or_app; left; exact H. Qed.

Lemma in_skipn_ {A} (x : A) n l : In x (skipn n l) -> In x l.
Proof. intro H. rewrite <- (firstn_skipn n l). apply in_or_app; right; exact H. Qed.

Lemma in_slice {A} (x : A) s a b : In x (slice s a b) -> In x s.
Proof. unfold slice. intro H. apply in_firstn_ in H. apply in_skipn_ in H. exact H. Qed.

Lemma in_sub_piece : forall s g c x, In x (sub_piece s g c) -> In x s.
Proof.
  intros s g c x H. unfold sub_piece in H. destruct g as [n|]; [|destruct H].
  destruct (cap_get n c) as [[a b]|]; [|destruct H]. eapply in_slice; exact H.
Qed.

Lemma in_sub_build : forall s g ms pos x, In x (sub_build s g pos ms) -> In x s.
Proof.
  intros s g ms; induction ms as [|[[i j] c] rest IH]; intros pos x H; cbn [sub_build] in H.
  - eapply in_slice; exact H.
  - apply in_app_or in H. destruct H as [H|H]; [eapply in_slice; exact H|].
    apply in_app_or in H. destruct H as [H|H]; [eapply in_sub_piece; exact H | eapply IH; exact H].
Qed.

Lemma in_re_sub : forall U r g s x, In x (re_sub U r g s) -> In x s.
Proof. intros U r g s x H. unfold re_sub in H. eapply in_sub_build; exact H. Qed.

Lemma in_sub_chain : forall U steps s x, In x (sub_chain U steps s) -> In x s.
Proof.
  intros U steps; induction steps as [|[r g] rest IH]; intros s x H; [exact H|].
  change (sub_chain U ((r, g) :: rest) s) with (sub_chain U rest (re_sub U r g s)) in H.
  apply IH in H. eapply in_re_sub; exact H.
Qed.

Lemma in_lstrip : forall P s x, In x (lstrip P s) -> In x s.
Proof.
  intros P s x H. destruct (lstrip_suffix P s) as [z Hz]. rewrite Hz. apply in_or_app; right; exact H.
Qed.

Lemma in_strip : forall P s x, In x (strip P s) -> In x s.
Proof.
  intros P s x H. unfold strip in H. apply (in_lstrip P).
  destruct (rstrip_prefix P (lstrip P s)) as [z Hz]. rewrite Hz. apply in_or_app; left; exact H.
Qed.

Theorem strip_punct_chars : forall U steps s x, In x (strip_punct U steps s) -> In x s.
Proof.
  intros U steps s x H. unfold strip_punct in H. apply in_strip in H. eapply in_sub_chain; exact H.
Qed.

(* ---- strip_punct only deletes: the result is a SUBSEQUENCE of the input (same characters, same order) ---- *)
From EV Require Import Proofs.ResolveSpec.

Lemma sublist_pre {A} (l c d : list A) : sublist c d -> sublist c (l ++ d).
Proof. intro H; induction l as [|x l IH]; cbn; [exact H | apply sub_skip; exact IH]. Qed.

Lemma sublist_app {A} (a b c d : list A) : sublist a b -> sublist c d -> sublist (a ++ c) (b ++ d).
Proof.
  intros H1 H2; induction H1 as [l | x a l _ IH | x a l _ IH]; cbn.
  - apply sublist_pre; exact H2.
  - apply sub_take; exact IH.
  - apply sub_skip; exact IH.
Qed.

Lemma sublist_same {A} (l : list A) : sublist l l.
Proof. induction l as [|x l IH]; [apply sub_nil | apply sub_take; exact IH]. Qed.

Lemma sublist_tr {A} (b c : list A) : sublist b c -> forall a, sublist a b -> sublist a c.
Proof.
  intro H; induction H as [l | x b l _ IH | x b l _ IH]; intros a Ha.
  - inversion Ha; subst. apply sub_nil.
  - inversion Ha; subst; [apply sub_nil | apply sub_take; apply IH; assumption | apply sub_skip; apply IH; assumption].
  - apply sub_skip; apply IH; exact Ha.
Qed.

Lemma sub_piece_sub : forall s g i j c,
  (forall n a b, In (n, (a, b)) c -> i <= a /\ a <= b /\ b <= j) ->
  sublist (sub_piece s g c) (slice s i j).
Proof.
  intros s g i j c Hc. unfold sub_piece. destruct g as [n|]; [|apply sub_nil].
  destruct (cap_get n c) as [[a b]|] eqn:Hg; [|apply sub_nil].
  apply cap_get_in in Hg. destruct (Hc _ _ _ Hg) as (H1 & H2 & H3).
  rewrite <- (slice_app s i a j) by lia. rewrite <- (slice_app s a b j) by lia.
  apply sublist_pre. rewrite <- (app_nil_r (slice s a b)) at 1.
  apply sublist_app; [apply sublist_same | apply sub_nil].
Qed.

Lemma sub_build_sub : forall s g ms pos,
  ms_ok s ms -> chain scan_step ms ->
  (match ms with (i, _, _) :: _ => pos <= i | [] => pos <= length s end) ->
  sublist (sub_build s g pos ms) (slice s pos (length s)).
Proof.
  intros s g ms; induction ms as [|[[i j] c] rest IH]; intros pos Hok Hch Hpos.
  - cbn. apply sublist_same.
  - cbn [sub_build].
    destruct (Hok i j c (or_introl eq_refl)) as (Hij & Hjs & Hc).
    rewrite <- (slice_app s pos i (length s)) by lia.
    rewrite <- (slice_app s i j (length s)) by lia.
    apply sublist_app; [apply sublist_same|].
    apply sublist_app; [apply sub_piece_sub; exact Hc|].
    apply IH.
    + intros i' j' c' Hin. apply (Hok i' j' c'). right; exact Hin.
    + destruct rest as [|b rest']; [exact I|]. cbn in Hch. destruct Hch as [_ Hch]. exact Hch.
    + destruct rest as [|[[i' j'] c'] rest']; [exact Hjs|].
      cbn in Hch. destruct Hch as [[Hs _] _]. cbn in Hs. exact Hs.
Qed.

Lemma re_sub_sub : forall U r g s, sublist (re_sub U r g s) s.
Proof.
  intros U r g s. unfold re_sub.
  assert (H : sublist (sub_build s g 0 (finditer U false s r)) (slice s 0 (length s)));
    [|rewrite slice_full in H; exact H].
  apply sub_build_sub.
  - intros i j c Hin. destruct (finditer_sound U false s r i j c Hin) as (_ & H1 & H2 & H3). auto.
  - apply finditer_chain.
  - destruct (finditer U false s r) as [|[[i j] c] ?]; lia.
Qed.

Lemma sub_chain_sub : forall U steps s, sublist (sub_chain U steps s) s.
Proof.
  intros U steps; induction steps as [|[r g] rest IH]; intros s; [apply sublist_same|].
  change (sub_chain U ((r, g) :: rest) s) with (sub_chain U rest (re_sub U r g s)).
  apply (sublist_tr _ _ (re_sub_sub U r g s)). apply IH.
Qed.

Lemma strip_sub : forall P s, sublist (strip P s) s.
Proof.
  intros P s. unfold strip.
  destruct (lstrip_suffix P s) as [z Hz]. destruct (rstrip_prefix P (lstrip P s)) as [y Hy].
  rewrite Hz at 2. apply sublist_pre. rewrite Hy at 2.
  rewrite <- (app_nil_r (rstrip P (lstrip P s))) at 1. apply sublist_app; [apply sublist_same | apply sub_nil].
Qed.

Theorem strip_punct_sublist : forall U steps s, sublist (strip_punct U steps s) s.
Proof.
  intros U steps s. unfold strip_punct.
  apply (sublist_tr _ _ (sub_chain_sub U steps s)). apply strip_sub.
Qed.
