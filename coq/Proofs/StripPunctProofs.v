(* Proofs/StripPunctProofs.v -- facts about the model of strip_punct that hold for EVERY input
   string and EVERY list of substitution steps. *)
From EV Require Import Base.Str Regex.Syntax Regex.Decl Regex.Match Model.Tokenize Model.Extract Model.Pipeline
  Model.StripPunct Proofs.ExtractProofs.
From Coq Require Import List Lia.
Import ListNotations.

Lemma lstrip_hd : forall P s c t, lstrip P s = c :: t -> P c = false.
Proof.
  intros P s; induction s as [|x xs IH]; intros c t H; cbn in H; [discriminate|].
  destruct (P x) eqn:Hx; [eauto|]. inversion H; subst; exact Hx.
Qed.

Lemma lstrip_suffix : forall P s, exists z, s = z ++ lstrip P s.
Proof.
  intros P s; induction s as [|x xs [z Hz]]; [exists []; reflexivity|].
  cbn. destruct (P x); [exists (x :: z); cbn; f_equal; exact Hz | exists []; reflexivity].
Qed.

Lemma rstrip_prefix : forall P s, exists z, s = rstrip P s ++ z.
Proof.
  intros P s. unfold rstrip. destruct (lstrip_suffix P (rev s)) as [z Hz].
  exists (rev z). rewrite <- rev_app_distr, <- Hz, rev_involutive. reflexivity.
Qed.

Lemma strip_last : forall P s t c, strip P s = t ++ [c] -> P c = false.
Proof.
  intros P s t c H. unfold strip, rstrip in H.
  apply (f_equal (@rev N)) in H. rewrite rev_involutive, rev_app_distr in H. cbn in H.
  eapply lstrip_hd; exact H.
Qed.

Lemma strip_first : forall P s c t, strip P s = c :: t -> P c = false.
Proof.
  intros P s c t H. unfold strip in H.
  destruct (rstrip_prefix P (lstrip P s)) as [z Hz]. rewrite H in Hz. cbn in Hz.
  eapply lstrip_hd; exact Hz.
Qed.

(* the result of strip_punct never starts or ends with a white-space character *)
Theorem strip_punct_edges : forall U steps s,
  (forall c t, strip_punct U steps s = c :: t -> is_space U c = false) /\
  (forall t c, strip_punct U steps s = t ++ [c] -> is_space U c = false).
Proof.
  intros U steps s; split; intros a b H; unfold strip_punct in H;
    [eapply strip_first | eapply strip_last]; exact H.
Qed.

(* a substitution step whose pattern has no match in the text (declarative semantics) leaves it alone *)
Theorem re_sub_no_match : forall U r g s,
  (forall i j, ~ M U false s r i j) -> re_sub U r g s = s.
Proof.
  intros U r g s Hno. unfold re_sub. rewrite (finditer_nil_of_no_match U false s r Hno).
  cbn. apply slice_full.
Qed.
