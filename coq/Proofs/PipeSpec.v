(* Proofs/PipeSpec.v -- hypotheses and predicates used to STATE the pipeline
   theorems (C02, C04, C17, C18).  No proofs. *)
From EV Require Import Base.Str Base.PyVal Model.Tokenize Model.Editions Model.Filter Model.Pipeline
                       Proofs.TokenizeProofs.
Open Scope Z_scope.

(* what C12 establishes about the tokenizer's output *)
Definition stream_ok (text : str) (words : list elem) : Prop :=
  stream_text words = text /\
  forall k t, nth_error words k = Some (T t) ->
    length (stream_text (firstn k words)) = t_start t /\ cand_wf text t.

Definition cits_ok (words : list elem) (cits : list (nat * tok)) : Prop :=
  forall i t, In (i, t) cits -> nth_error words i = Some (T t).

(* regex facts about the extractor patterns that the offset arithmetic relies on:
   a short-form citation token carries its page group (that it ENDS with it is no longer assumed:
   false for 11 extractors, Proofs/ShortPage.v; the repaired code checks it); stop-word tokens carry
   the stop_word group; a citation token has an edition from a known source *)
Definition suffix (p s : str) : Prop := exists r, s = r ++ p.

Lemma suffixb_spec p s : suffixb p s = true <-> suffix p s.
Proof.
  unfold suffixb, suffix. rewrite prefixb_spec. split.
  - intros [r Hr]. exists (rev r). rewrite <- (rev_involutive s), Hr, rev_app_distr, rev_involutive.
    reflexivity.
  - intros [r Hr]. exists (rev r). rewrite Hr, rev_app_distr. reflexivity.
Qed.

(* the prefix _extract_shortform_citation passes to extract_pin_cite (as repaired): the page group
   when the token ends with it, the empty string otherwise, None when the group is None *)
Lemma short_prefix (d : str) (prefix : option str) :
  match prefix with Some pg => if suffixb pg d then Some pg else Some [] | None => None end = None \/
  exists pg, match prefix with Some pg => if suffixb pg d then Some pg else Some [] | None => None end
             = Some pg /\ suffix pg d.
Proof.
  destruct prefix as [pg|]; [right|left; reflexivity].
  destruct (suffixb pg d) eqn:E.
  - exists pg. split; [reflexivity|]. apply suffixb_spec. exact E.
  - exists []. split; [reflexivity|]. exists d. symmetry. apply app_nil_r.
Qed.

Definition tok_ok (source_of : nat -> nat) (t : tok) : Prop :=
  match t_kind t with
  | KCitation =>
      (t_short t = true -> exists pg, glookup g_page (t_groups t) = Some (Some pg)) /\
      (t_short t = false ->
         exists i, In i (match t_exact t with [] => t_var t | l => l end) /\ (source_of i <= 2)%nat)
  | KStopWord => exists v, glookup g_stop_word (t_groups t) = Some v
  | _ => True
  end.

Definition toks_ok (source_of : nat -> nat) (words : list elem) : Prop :=
  forall k t, nth_error words k = Some (T t) -> tok_ok source_of t.

(* the contract of a match object returned for a window *)
Definition fwd_pat (p : pat) : bool :=
  match p with PPostFull | PPostShort | PPostLaw | PPostJournal => true | _ => false end.
Definition bwd_pat (p : pat) : bool :=
  match p with PPreFull | PShortAnte | PSupraAnte => true | _ => false end.

Definition search_ok (search : pat -> str -> option mres) : Prop :=
  forall p w m, search p w = Some m ->
    mres_ok w m /\
    (fwd_pat p = true -> m_start m = 0%nat) /\
    (bwd_pat p = true -> m_end m = length w) /\
    (* the pin cite, when captured after a citation, starts where the window starts *)
    (fwd_pat p = true -> forall a b, gspan g_pin_cite (m_groups m) = Some (a, b) -> a = 0%nat) /\
    (* the parenthetical comment is the last group of the post-citation pattern *)
    (p = PPostFull -> forall a b, gspan g_parenthetical (m_groups m) = Some (a, b) ->
       b < m_end m /\
       forall k x y, In (k, Some (x, y)) (m_groups m) -> str_eqb k g_parenthetical = false -> (y <= a)%nat)%nat /\
    (* the antecedent of a short form is always captured *)
    (p = PShortAnte -> exists a b, gspan g_antecedent (m_groups m) = Some (a, b)).

(* ---- guarded contracts.  search_ok's backward clause is false for Python's `$` on a window that
   ends with "\n" (it also matches just before a final newline).  The windows the pipeline builds
   are slices of the text; when the text has no whitespace character other than U+0020 (eyecite's
   `all_whitespace` cleaning) none of them ends with a newline.  search_ok_w relativises the
   backward clause to a window predicate, search_ok_g is the instance for such texts. ---- *)
Definition ws_clean (is_space : N -> bool) (w : str) : Prop :=
  forall c, In c w -> is_space c = true -> c = 32%N.

Definition search_ok_w (Wok : str -> Prop) (search : pat -> str -> option mres) : Prop :=
  forall p w m, search p w = Some m ->
    mres_ok w m /\
    (fwd_pat p = true -> m_start m = 0%nat) /\
    (bwd_pat p = true -> Wok w -> m_end m = length w) /\
    (fwd_pat p = true -> forall a b, gspan g_pin_cite (m_groups m) = Some (a, b) -> a = 0%nat) /\
    (p = PPostFull -> forall a b, gspan g_parenthetical (m_groups m) = Some (a, b) ->
       b < m_end m /\
       forall k x y, In (k, Some (x, y)) (m_groups m) -> str_eqb k g_parenthetical = false -> (y <= a)%nat)%nat /\
    (p = PShortAnte -> exists a b, gspan g_antecedent (m_groups m) = Some (a, b)).

Definition search_ok_g (is_space : N -> bool) (search : pat -> str -> option mres) : Prop :=
  forall p w m, search p w = Some m ->
    mres_ok w m /\
    (fwd_pat p = true -> m_start m = 0%nat) /\
    (bwd_pat p = true -> ws_clean is_space w -> m_end m = length w) /\
    (fwd_pat p = true -> forall a b, gspan g_pin_cite (m_groups m) = Some (a, b) -> a = 0%nat) /\
    (p = PPostFull -> forall a b, gspan g_parenthetical (m_groups m) = Some (a, b) ->
       b < m_end m /\
       forall k x y, In (k, Some (x, y)) (m_groups m) -> str_eqb k g_parenthetical = false -> (y <= a)%nat)%nat /\
    (p = PShortAnte -> exists a b, gspan g_antecedent (m_groups m) = Some (a, b)).

Lemma search_ok_w_of_ok : forall Wok search, search_ok search -> search_ok_w Wok search.
Proof.
  intros Wok search H p w m Hs. destruct (H p w m Hs) as (H1 & H2 & H3 & H4 & H5 & H6).
  split; [exact H1|]. split; [exact H2|]. split; [intros Hp _; exact (H3 Hp)|].
  split; [exact H4|]. split; [exact H5|exact H6].
Qed.

Lemma search_ok_g_of_ok : forall is_space search, search_ok search -> search_ok_g is_space search.
Proof. intros is_space search H. exact (search_ok_w_of_ok (ws_clean is_space) search H). Qed.

Lemma search_ok_w_of_g : forall is_space search,
  search_ok_g is_space search -> search_ok_w (ws_clean is_space) search.
Proof. intros is_space search H. exact H. Qed.

Lemma ws_clean_incl : forall is_space (w w' : str),
  (forall c, In c w' -> In c w) -> ws_clean is_space w -> ws_clean is_space w'.
Proof. intros is_space w w' Hi H c Hc. exact (H c (Hi c Hc)). Qed.

Lemma ws_clean_slice : forall is_space (w : str) a b,
  ws_clean is_space w -> ws_clean is_space (slice w a b).
Proof.
  intros is_space w a b H. apply (ws_clean_incl is_space w); [|exact H].
  intros c Hc. unfold slice in Hc.
  rewrite <- (firstn_skipn a w). apply in_or_app. right.
  rewrite <- (firstn_skipn (b - a) (skipn a w)). apply in_or_app. left. exact Hc.
Qed.

Definition refs_ok (refsearch : list (str * str) -> str -> list (nat * nat * list (str * option str))) : Prop :=
  forall names s a b gd, In (a, b, gd) (refsearch names s) ->
    (a <= b)%nat /\ (b <= length s)%nat /\
    forall k v, In (k, Some v) gd -> infix v (slice s a b).

(* ---------- C02 ---------- *)
Definition pin_kind (c : ccls) : bool :=
  match c with CFullCase | CShort | CSupra | CId => true | _ => false end.

Definition offsets_ok (text : str) (c : pcit) : Prop :=
  let ss := fst (span_of c) in let se := snd (span_of c) in
  let fs := fst (full_span_of c) in let fe := snd (full_span_of c) in
  let ps := fst (span_with_pincite c) in let pe := snd (span_with_pincite c) in
  0 <= fs /\ fs <= ss /\ ss <= se /\ se <= fe /\ fe <= Z.of_nat (length text) /\
  (exists r, pyslice text ss se = t_data (p_tok c) ++ r) /\
  0 <= ps /\ ps <= ss /\ se <= pe /\ pe <= Z.of_nat (length text) /\
  (forall pin, p_pin c = Some pin -> pin_kind (p_cls c) = true -> infix pin (pyslice text ps pe)).

(* ---------- C17 ---------- *)
(* the textual metadata fields of a citation *)
Definition text_fields (c : pcit) : list (option str) :=
  [p_pin c; p_year_s c; p_plaintiff c; p_defendant c; p_antecedent c; p_extra c;
   p_publisher c; p_month c; p_day c; p_volume c;
   match p_cls c with CFullCase => p_parenthetical c | _ => None end].

Definition inside (text : str) (c : pcit) (v : str) : Prop :=
  infix v (pyslice text (fst (full_span_of c)) (snd (full_span_of c))).

(* own extent, or -- for parallel full case citations sharing one case name --
   the extent of a returned citation that starts at the same place *)
Definition meta_ok (text : str) (l : list pcit) (c : pcit) : Prop :=
  forall v, In (Some v) (text_fields c) ->
    inside text c v \/
    (p_cls c = CFullCase /\
     exists d, In d l /\ p_cls d = CFullCase /\
               p_full_start d <> None /\ p_full_start d = p_full_start c /\ inside text d v).

(* ---------- C18 ---------- *)
Definition year_ok (D : dtables) (highest : Z) (c : pcit) : Prop :=
  forall y, p_year c = Some y ->
    1600 <= y <= highest /\ exists ys, p_year_s c = Some ys /\ get_year D highest ys = Some y.
