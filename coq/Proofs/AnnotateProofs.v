(* Proofs/AnnotateProofs.v -- C09 (annotation is additive), C10 (SpanUpdater is
   monotone and in range; exact placement without a source text). *)
From EV Require Import Base.Str Base.PyVal Model.Annotate.
Open Scope Z_scope.

(* ================================================================== *)
(* SpanUpdater                                                         *)
(* ================================================================== *)

Definition cmpb (right : bool) (o x : Z) : bool := if right then o <=? x else o <? x.
Definition app_upd (f : upd) (x : Z) : Z := match f with Shift d => x + d | Const v => v end.

Lemma cmpb_true right o x : cmpb right o x = true -> o <= x.
Proof. unfold cmpb; destruct right; intros H; [apply Z.leb_le in H|apply Z.ltb_lt in H]; lia. Qed.

Lemma cmpb_false right o x : cmpb right o x = false -> x <= o.
Proof. unfold cmpb; destruct right; intros H; [apply Z.leb_gt in H|apply Z.ltb_ge in H]; lia. Qed.

Lemma cmpb_mono r1 r2 o x x' :
  (r1 = true -> r2 = true) -> x <= x' -> cmpb r1 o x = true -> cmpb r2 o x' = true.
Proof.
  unfold cmpb; intros Hr Hx H. destruct r1.
  - rewrite (Hr eq_refl). apply Z.leb_le in H; apply Z.leb_le; lia.
  - apply Z.ltb_lt in H. destruct r2; [apply Z.leb_le|apply Z.ltb_lt]; lia.
Qed.

Lemma bisect_cons right o f r x :
  bisect right ((o, f) :: r) x = if cmpb right o x then S (bisect right r x) else 0%nat.
Proof. reflexivity. Qed.

Lemma update_single right o f x : update [(o, f)] right x = Ok (app_upd f x).
Proof.
  unfold update. rewrite bisect_cons. cbn [bisect].
  destruct (cmpb right o x); cbn; destruct f; reflexivity.
Qed.

Lemma update_cons2 right o f o' f' r x :
  update ((o, f) :: (o', f') :: r) right x =
  if cmpb right o x && cmpb right o' x then update ((o', f') :: r) right x else Ok (app_upd f x).
Proof.
  unfold update. rewrite (bisect_cons right o f). destruct (cmpb right o x) eqn:C1; cbn [andb Nat.pred].
  - rewrite bisect_cons. destruct (cmpb right o' x) eqn:C2; cbn [Nat.pred nth_error].
    + reflexivity.
    + destruct f; reflexivity.
  - cbn [nth_error]. destruct f; reflexivity.
Qed.

Lemma bisect_le right u x : (bisect right u x <= length u)%nat.
Proof.
  induction u as [|[o f] r IH]; cbn [bisect length]; [lia|].
  destruct (if right then o <=? x else o <? x); lia.
Qed.

Lemma update_nonempty u right x : u <> [] -> exists y, update u right x = Ok y.
Proof.
  intros Hne. unfold update.
  pose proof (bisect_le right u x) as Hb.
  destruct (nth_error u (Nat.pred (bisect right u x))) as [[o [d|v]]|] eqn:E; eauto.
  apply nth_error_None in E. destruct u as [|p r]; [congruence|]. cbn [length] in *. lia.
Qed.

Lemma mk_go_head : forall st o d o' f r, mk_go st o d = (o', f) :: r -> o' = o.
Proof.
  induction st as [|[[| |] n] st IH]; intros o d o' f r H; cbn [mk_go] in H.
  - discriminate.
  - congruence.
  - eapply IH; eassumption.
  - congruence.
Qed.

Lemma mk_go_nil : forall st o d la lb, mk_go st o d = [] -> steps_ok st la lb -> la = 0.
Proof.
  induction st as [|[[| |] n] st IH]; intros o d la lb H Hok; cbn [mk_go] in H; cbn [steps_ok] in Hok.
  - tauto.
  - discriminate.
  - destruct Hok as [_ Hok]. eapply IH; eassumption.
  - discriminate.
Qed.

Lemma mk_go_nonempty st o d la lb : steps_ok st la lb -> 0 < la -> mk_go st o d <> [].
Proof. intros Hok Hla E. pose proof (mk_go_nil _ _ _ _ _ E Hok). lia. Qed.

Lemma steps_ok_nonneg : forall st la lb, steps_ok st la lb -> 0 <= la /\ 0 <= lb.
Proof.
  induction st as [|[[| |] n] st IH]; intros la lb Hok; cbn [steps_ok] in Hok.
  - lia.
  - destruct Hok as (? & ? & Hok). apply IH in Hok. lia.
  - destruct Hok as (? & Hok). apply IH in Hok. lia.
  - destruct Hok as (? & Hok). apply IH in Hok. lia.
Qed.

(* range: with offset o consumed of the before-text and o+d of the after-text *)
Lemma upd_range : forall st o d la lb right x y,
  steps_ok st la lb -> o <= x <= o + la ->
  update (mk_go st o d) right x = Ok y -> o + d <= y <= o + d + lb.
Proof.
  induction st as [|[[| |] n] st IH]; intros o d la lb right x y Hok Hx H;
    cbn [mk_go] in H; cbn [steps_ok] in Hok.
  - discriminate.
  - destruct Hok as (Hn1 & Hn2 & Hok).
    destruct (mk_go st (o + Z.of_nat n) d) as [|[o' f'] r'] eqn:E.
    + rewrite update_single in H. injection H as <-. cbn [app_upd].
      pose proof (mk_go_nil _ _ _ _ _ E Hok). lia.
    + pose proof (mk_go_head _ _ _ _ _ _ E) as ->.
      rewrite update_cons2 in H.
      destruct (cmpb right o x && cmpb right (o + Z.of_nat n) x) eqn:C.
      * apply andb_true_iff in C. destruct C as [_ C]. apply cmpb_true in C.
        rewrite <- E in H. apply (IH _ _ (la - Z.of_nat n) (lb - Z.of_nat n)) in H; [lia|assumption|lia].
      * injection H as <-. cbn [app_upd].
        apply andb_false_iff in C. destruct C as [C|C]; apply cmpb_false in C; lia.
  - destruct Hok as (Hn & Hok).
    apply (IH _ _ la (lb - Z.of_nat n)) in H; [lia|assumption|lia].
  - destruct Hok as (Hn & Hok).
    destruct (mk_go st (o + Z.of_nat n) (d - Z.of_nat n)) as [|[o' f'] r'] eqn:E.
    + rewrite update_single in H. injection H as <-. cbn [app_upd].
      apply steps_ok_nonneg in Hok. lia.
    + pose proof (mk_go_head _ _ _ _ _ _ E) as ->.
      rewrite update_cons2 in H.
      destruct (cmpb right o x && cmpb right (o + Z.of_nat n) x) eqn:C.
      * apply andb_true_iff in C. destruct C as [_ C]. apply cmpb_true in C.
        rewrite <- E in H. apply (IH _ _ (la - Z.of_nat n) lb) in H; [lia|assumption|lia].
      * injection H as <-. cbn [app_upd]. apply steps_ok_nonneg in Hok. lia.
Qed.

Lemma upd_mono : forall st o d la lb r1 r2 x x' y y',
  steps_ok st la lb -> (r1 = true -> r2 = true) -> o <= x <= x' -> x' <= o + la ->
  update (mk_go st o d) r1 x = Ok y -> update (mk_go st o d) r2 x' = Ok y' -> y <= y'.
Proof.
  induction st as [|[[| |] n] st IH]; intros o d la lb r1 r2 x x' y y' Hok Hr Hx Hx' H H';
    cbn [mk_go] in H, H'; cbn [steps_ok] in Hok.
  - discriminate.
  - destruct Hok as (Hn1 & Hn2 & Hok).
    destruct (mk_go st (o + Z.of_nat n) d) as [|[o' f'] r'] eqn:E.
    + rewrite update_single in H, H'. injection H as <-. injection H' as <-. cbn [app_upd]. lia.
    + pose proof (mk_go_head _ _ _ _ _ _ E) as ->.
      rewrite update_cons2 in H, H'.
      destruct (cmpb r1 o x && cmpb r1 (o + Z.of_nat n) x) eqn:C.
      * apply andb_true_iff in C. destruct C as [C1 C2].
        rewrite (cmpb_mono r1 r2 o x x' Hr (proj2 Hx) C1) in H'.
        rewrite (cmpb_mono r1 r2 _ x x' Hr (proj2 Hx) C2) in H'. cbn [andb] in H'.
        apply cmpb_true in C2.
        rewrite <- E in H, H'.
        apply (IH (o + Z.of_nat n) d (la - Z.of_nat n) (lb - Z.of_nat n) r1 r2 x x' y y'); try assumption; lia.
      * injection H as <-. cbn [app_upd].
        assert (Hxn : x <= o + Z.of_nat n).
        { apply andb_false_iff in C. destruct C as [C|C]; apply cmpb_false in C; lia. }
        destruct (cmpb r2 o x' && cmpb r2 (o + Z.of_nat n) x') eqn:C'.
        -- apply andb_true_iff in C'. destruct C' as [_ C']. apply cmpb_true in C'.
           rewrite <- E in H'.
           apply (upd_range _ _ _ (la - Z.of_nat n) (lb - Z.of_nat n)) in H'; [lia|assumption|lia].
        -- injection H' as <-. cbn [app_upd]. lia.
  - destruct Hok as (Hn & Hok).
    apply (IH o (d + Z.of_nat n) la (lb - Z.of_nat n) r1 r2 x x' y y'); try assumption; lia.
  - destruct Hok as (Hn & Hok).
    destruct (mk_go st (o + Z.of_nat n) (d - Z.of_nat n)) as [|[o' f'] r'] eqn:E.
    + rewrite update_single in H, H'. injection H as <-. injection H' as <-. cbn [app_upd]. lia.
    + pose proof (mk_go_head _ _ _ _ _ _ E) as ->.
      rewrite update_cons2 in H, H'.
      destruct (cmpb r1 o x && cmpb r1 (o + Z.of_nat n) x) eqn:C.
      * apply andb_true_iff in C. destruct C as [C1 C2].
        rewrite (cmpb_mono r1 r2 o x x' Hr (proj2 Hx) C1) in H'.
        rewrite (cmpb_mono r1 r2 _ x x' Hr (proj2 Hx) C2) in H'. cbn [andb] in H'.
        apply cmpb_true in C2.
        rewrite <- E in H, H'.
        apply (IH (o + Z.of_nat n) (d - Z.of_nat n) (la - Z.of_nat n) lb r1 r2 x x' y y'); try assumption; lia.
      * injection H as <-. cbn [app_upd].
        destruct (cmpb r2 o x' && cmpb r2 (o + Z.of_nat n) x') eqn:C'.
        -- apply andb_true_iff in C'. destruct C' as [_ C']. apply cmpb_true in C'.
           rewrite <- E in H'.
           apply (upd_range _ _ _ (la - Z.of_nat n) lb) in H'; [lia|assumption|lia].
        -- injection H' as <-. cbn [app_upd]. lia.
Qed.

Theorem update_total : forall st la lb right x,
  steps_ok st la lb -> 0 < la -> 0 <= x <= la -> exists y, update (mk st) right x = Ok y.
Proof.
  intros st la lb right x Hok Hla _. apply update_nonempty. unfold mk.
  eapply mk_go_nonempty; eassumption.
Qed.

Theorem update_in_range : forall st la lb right x y,
  steps_ok st la lb -> 0 <= x <= la -> update (mk st) right x = Ok y -> 0 <= y <= lb.
Proof.
  intros st la lb right x y Hok Hx H. unfold mk in H.
  apply (upd_range _ _ _ la lb) in H; [lia|assumption|lia].
Qed.

Theorem update_monotone : forall st la lb right x x' y y',
  steps_ok st la lb -> 0 <= x <= x' -> x' <= la ->
  update (mk st) right x = Ok y -> update (mk st) right x' = Ok y' -> y <= y'.
Proof.
  intros st la lb right x x' y y' Hok Hx Hx' H H'. unfold mk in *.
  apply (upd_mono st 0 0 la lb right right x x' y y'); try assumption; try tauto; try lia.
Qed.

Theorem update_left_le_right : forall st la lb x x' y y',
  steps_ok st la lb -> 0 <= x <= x' -> x' <= la ->
  update (mk st) false x = Ok y -> update (mk st) true x' = Ok y' -> y <= y'.
Proof.
  intros st la lb x x' y y' Hok Hx Hx' H H'. unfold mk in *.
  apply (upd_mono st 0 0 la lb false true x x' y y'); try assumption; try tauto; try lia.
Qed.

(* ---------------- forced alignment ---------------- *)

Lemma nth_map_seq : forall n a k j,
  (k < n)%nat -> nth k (map (fun k => j + Z.of_nat k) (seq a n)) 0 = j + Z.of_nat (a + k).
Proof.
  induction n as [|n IH]; intros a k j Hk; [lia|].
  cbn [seq map]. destruct k as [|k]; cbn [nth].
  - f_equal. f_equal. lia.
  - rewrite IH by lia. f_equal. f_equal. lia.
Qed.

Lemma map_seq_length (j : Z) a n : length (map (fun k => j + Z.of_nat k) (seq a n)) = n.
Proof. rewrite map_length, seq_length. reflexivity. Qed.

Lemma insert_only_cons s st : insert_only (s :: st) ->
  match fst s with OpDel => False | _ => (0 < snd s)%nat end /\ insert_only st.
Proof. unfold insert_only. intros H. inversion H; subst. split; assumption. Qed.

Lemma fa_start : forall st o d la lb x,
  steps_ok st la lb -> insert_only st -> o <= x < o + la ->
  update (mk_go st o d) true x = Ok (nth (Z.to_nat (x - o)) (emb_go st (o + d)) 0).
Proof.
  induction st as [|[[| |] n] st IH]; intros o d la lb x Hok Hio Hx;
    cbn [steps_ok] in Hok; cbn [mk_go emb_go].
  - lia.
  - destruct Hok as (Hn1 & Hn2 & Hok). apply insert_only_cons in Hio. destruct Hio as [_ Hio].
    destruct (Z_lt_le_dec x (o + Z.of_nat n)) as [Hlt|Hge].
    + rewrite app_nth1 by (rewrite map_seq_length; lia).
      rewrite nth_map_seq by lia.
      replace (o + d + Z.of_nat (0 + Z.to_nat (x - o))) with (x + d) by lia.
      destruct (mk_go st (o + Z.of_nat n) d) as [|[o' f'] r'] eqn:E.
      * apply update_single.
      * pose proof (mk_go_head _ _ _ _ _ _ E) as ->.
        rewrite update_cons2.
        replace (cmpb true (o + Z.of_nat n) x) with false
          by (symmetry; unfold cmpb; apply Z.leb_gt; lia).
        rewrite andb_false_r. reflexivity.
    + destruct (mk_go st (o + Z.of_nat n) d) as [|[o' f'] r'] eqn:E.
      * pose proof (mk_go_nil _ _ _ _ _ E Hok). lia.
      * pose proof (mk_go_head _ _ _ _ _ _ E) as ->.
        rewrite update_cons2.
        replace (cmpb true o x) with true by (symmetry; unfold cmpb; apply Z.leb_le; lia).
        replace (cmpb true (o + Z.of_nat n) x) with true
          by (symmetry; unfold cmpb; apply Z.leb_le; lia).
        cbn [andb]. rewrite <- E.
        rewrite (IH (o + Z.of_nat n) d (la - Z.of_nat n) (lb - Z.of_nat n) x Hok Hio) by lia.
        rewrite app_nth2 by (rewrite map_seq_length; lia).
        rewrite map_seq_length.
        replace (o + Z.of_nat n + d) with (o + d + Z.of_nat n) by lia.
        do 2 f_equal. lia.
  - destruct Hok as (Hn & Hok). apply insert_only_cons in Hio. destruct Hio as [_ Hio].
    rewrite (IH o (d + Z.of_nat n) la (lb - Z.of_nat n) x Hok Hio) by lia.
    replace (o + (d + Z.of_nat n)) with (o + d + Z.of_nat n) by lia. reflexivity.
  - apply insert_only_cons in Hio. destruct Hio as [[] _].
Qed.

Lemma fa_end : forall st o d la lb x,
  steps_ok st la lb -> insert_only st -> o < x <= o + la ->
  update (mk_go st o d) false x = Ok (nth (Z.to_nat (x - 1 - o)) (emb_go st (o + d)) 0 + 1).
Proof.
  induction st as [|[[| |] n] st IH]; intros o d la lb x Hok Hio Hx;
    cbn [steps_ok] in Hok; cbn [mk_go emb_go].
  - lia.
  - destruct Hok as (Hn1 & Hn2 & Hok). apply insert_only_cons in Hio. destruct Hio as [_ Hio].
    destruct (Z_le_gt_dec x (o + Z.of_nat n)) as [Hle|Hgt].
    + rewrite app_nth1 by (rewrite map_seq_length; lia).
      rewrite nth_map_seq by lia.
      replace (o + d + Z.of_nat (0 + Z.to_nat (x - 1 - o)) + 1) with (x + d) by lia.
      destruct (mk_go st (o + Z.of_nat n) d) as [|[o' f'] r'] eqn:E.
      * apply update_single.
      * pose proof (mk_go_head _ _ _ _ _ _ E) as ->.
        rewrite update_cons2.
        replace (cmpb false (o + Z.of_nat n) x) with false
          by (symmetry; unfold cmpb; apply Z.ltb_ge; lia).
        rewrite andb_false_r. reflexivity.
    + destruct (mk_go st (o + Z.of_nat n) d) as [|[o' f'] r'] eqn:E.
      * pose proof (mk_go_nil _ _ _ _ _ E Hok). lia.
      * pose proof (mk_go_head _ _ _ _ _ _ E) as ->.
        rewrite update_cons2.
        replace (cmpb false o x) with true by (symmetry; unfold cmpb; apply Z.ltb_lt; lia).
        replace (cmpb false (o + Z.of_nat n) x) with true
          by (symmetry; unfold cmpb; apply Z.ltb_lt; lia).
        cbn [andb]. rewrite <- E.
        rewrite (IH (o + Z.of_nat n) d (la - Z.of_nat n) (lb - Z.of_nat n) x Hok Hio) by lia.
        rewrite app_nth2 by (rewrite map_seq_length; lia).
        rewrite map_seq_length.
        replace (o + Z.of_nat n + d) with (o + d + Z.of_nat n) by lia.
        do 3 f_equal. lia.
  - destruct Hok as (Hn & Hok). apply insert_only_cons in Hio. destruct Hio as [_ Hio].
    rewrite (IH o (d + Z.of_nat n) la (lb - Z.of_nat n) x Hok Hio) by lia.
    replace (o + (d + Z.of_nat n)) with (o + d + Z.of_nat n) by lia. reflexivity.
  - apply insert_only_cons in Hio. destruct Hio as [[] _].
Qed.

Theorem forced_alignment_start : forall st la lb x,
  steps_ok st la lb -> insert_only st -> 0 <= x < la ->
  update (mk st) true x = Ok (nth (Z.to_nat x) (emb st) 0).
Proof.
  intros st la lb x Hok Hio Hx. unfold mk, emb.
  rewrite (fa_start st 0 0 la lb x Hok Hio) by lia.
  replace (x - 0) with x by lia. reflexivity.
Qed.

Theorem forced_alignment_end : forall st la lb x,
  steps_ok st la lb -> insert_only st -> 0 < x <= la ->
  update (mk st) false x = Ok (nth (Z.to_nat (x - 1)) (emb st) 0 + 1).
Proof.
  intros st la lb x Hok Hio Hx. unfold mk, emb.
  rewrite (fa_end st 0 0 la lb x Hok Hio) by lia.
  replace (x - 1 - 0) with (x - 1) by lia. reflexivity.
Qed.

Lemma emb_go_length : forall st j la lb,
  steps_ok st la lb -> insert_only st -> zlen (emb_go st j) = la.
Proof.
  unfold zlen.
  induction st as [|[[| |] n] st IH]; intros j la lb Hok Hio; cbn [steps_ok] in Hok; cbn [emb_go].
  - cbn. lia.
  - destruct Hok as (Hn1 & Hn2 & Hok). apply insert_only_cons in Hio. destruct Hio as [_ Hio].
    rewrite app_length, map_seq_length, Nat2Z.inj_add.
    rewrite (IH _ _ _ Hok Hio). lia.
  - destruct Hok as (Hn & Hok). apply insert_only_cons in Hio. destruct Hio as [_ Hio].
    apply (IH _ _ _ Hok Hio).
  - apply insert_only_cons in Hio. destruct Hio as [[] _].
Qed.

Theorem emb_length : forall st la lb, steps_ok st la lb -> insert_only st -> zlen (emb st) = la.
Proof. intros st la lb Hok Hio. unfold emb. eapply emb_go_length; eassumption. Qed.

Fixpoint incr_between (lo hi : Z) (l : list Z) : Prop :=
  match l with
  | [] => True
  | x :: r => lo <= x < hi /\ incr_between (x + 1) hi r
  end.

Lemma incr_between_weaken : forall l lo lo' hi,
  lo' <= lo -> incr_between lo hi l -> incr_between lo' hi l.
Proof. destruct l as [|x r]; cbn; intros lo lo' hi Hlo H; [exact I|]. split; [lia|tauto]. Qed.

Lemma incr_between_weaken_hi : forall l lo hi hi',
  hi <= hi' -> incr_between lo hi l -> incr_between lo hi' l.
Proof.
  induction l as [|x r IH]; cbn; intros lo hi hi' Hhi H; [exact I|].
  destruct H as [H1 H2]. split; [lia|]. eapply IH; eassumption.
Qed.

Lemma incr_seq : forall n a j lo hi rest,
  lo <= j + Z.of_nat a -> j + Z.of_nat a + Z.of_nat n <= hi ->
  incr_between (j + Z.of_nat a + Z.of_nat n) hi rest ->
  incr_between lo hi (map (fun k => j + Z.of_nat k) (seq a n) ++ rest).
Proof.
  induction n as [|n IH]; intros a j lo hi rest Hlo Hhi Hr; cbn [seq map app].
  - eapply incr_between_weaken; [|eassumption]. lia.
  - cbn [incr_between]. split; [lia|].
    apply IH; [lia|lia|].
    replace (j + Z.of_nat (S a) + Z.of_nat n) with (j + Z.of_nat a + Z.of_nat (S n)) by lia.
    exact Hr.
Qed.

Lemma emb_go_incr : forall st j la lb,
  steps_ok st la lb -> incr_between j (j + lb) (emb_go st j).
Proof.
  induction st as [|[[| |] n] st IH]; intros j la lb Hok; cbn [steps_ok] in Hok; cbn [emb_go].
  - exact I.
  - destruct Hok as (Hn1 & Hn2 & Hok).
    apply incr_seq; [lia|lia|].
    replace (j + Z.of_nat 0 + Z.of_nat n) with (j + Z.of_nat n) by lia.
    replace (j + lb) with (j + Z.of_nat n + (lb - Z.of_nat n)) by lia.
    eapply IH; eassumption.
  - destruct Hok as (Hn & Hok).
    eapply incr_between_weaken with (lo := j + Z.of_nat n); [lia|].
    replace (j + lb) with (j + Z.of_nat n + (lb - Z.of_nat n)) by lia.
    eapply IH; eassumption.
  - destruct Hok as (Hn & Hok). eapply IH; eassumption.
Qed.

Lemma incr_between_nth : forall l lo hi k,
  incr_between lo hi l -> (k < length l)%nat -> lo <= nth k l 0 < hi.
Proof.
  induction l as [|x r IH]; intros lo hi k H Hk; cbn [length] in Hk; [lia|].
  cbn [incr_between] in H. destruct H as [H1 H2].
  destruct k as [|k]; cbn [nth]; [lia|].
  assert (x + 1 <= nth k r 0 < hi) by (apply IH; [assumption|lia]). lia.
Qed.

Lemma incr_between_nth_lt : forall l lo hi i k,
  incr_between lo hi l -> (i < k < length l)%nat -> nth i l 0 < nth k l 0.
Proof.
  induction l as [|x r IH]; intros lo hi i k H Hk; cbn [length] in Hk; [lia|].
  cbn [incr_between] in H. destruct H as [H1 H2].
  destruct k as [|k]; [lia|]. destruct i as [|i]; cbn [nth].
  - assert (x + 1 <= nth k r 0 < hi) by (apply (incr_between_nth r _ _ k H2); lia). lia.
  - apply (IH _ _ i k H2). lia.
Qed.

Theorem emb_increasing : forall st la lb i j, steps_ok st la lb -> insert_only st ->
  (i < j < length (emb st))%nat -> nth i (emb st) 0 < nth j (emb st) 0 < lb.
Proof.
  intros st la lb i j Hok _ Hij. unfold emb in *.
  pose proof (emb_go_incr st 0 la lb Hok) as Hinc.
  split.
  - eapply incr_between_nth_lt; eassumption.
  - apply (incr_between_nth _ _ _ j Hinc). lia.
Qed.

(* ================================================================== *)
(* wrap_html_tags                                                      *)
(* ================================================================== *)

Lemma strip_app ps qs : strip (ps ++ qs) = strip ps ++ strip qs.
Proof. unfold strip. rewrite map_app, concat_app. reflexivity. Qed.

Lemma strip_cons_orig s ps : strip (Orig s :: ps) = s ++ strip ps.
Proof. reflexivity. Qed.

Lemma strip_cons_ins s ps : strip (Ins s :: ps) = strip ps.
Proof. reflexivity. Qed.

Lemma tag_body_spec : forall s b r, tag_body s = Some (b, r) -> s = b ++ GT :: r.
Proof.
  induction s as [|c t IH]; intros b r H; cbn [tag_body] in H; [discriminate|].
  destruct (N.eqb_spec c GT) as [->|Hne].
  - injection H as <- <-. reflexivity.
  - destruct (tag_body t) as [[b' r']|] eqn:E; [|discriminate].
    injection H as <- <-. cbn [app]. f_equal. apply IH. reflexivity.
Qed.

Lemma wrap_go_strip : forall fuel s cur b a, strip (wrap_go fuel s cur b a) = cur ++ s.
Proof.
  induction fuel as [|f IH]; intros s cur b a; cbn [wrap_go].
  - rewrite strip_cons_orig. cbn. apply app_nil_r.
  - destruct s as [|c t].
    + rewrite strip_cons_orig. reflexivity.
    + assert (Hdef : strip (wrap_go f t (cur ++ [c]) b a) = cur ++ c :: t).
      { rewrite IH, <- app_assoc. reflexivity. }
      destruct (N.eqb c LT); [|exact Hdef].
      destruct (tag_body t) as [[[|b0 body] rest]|] eqn:E; try exact Hdef.
      apply tag_body_spec in E. subst t.
      rewrite strip_cons_orig, strip_cons_ins, strip_cons_orig, strip_cons_ins, IH.
      cbn [app]. f_equal. f_equal. f_equal. rewrite <- app_assoc. reflexivity.
Qed.

Theorem wrap_strip : forall text before after, strip (wrap_html_tags text before after) = text.
Proof. intros. unfold wrap_html_tags. rewrite wrap_go_strip. reflexivity. Qed.

(* ================================================================== *)
(* pyslice with in-range arguments                                     *)
(* ================================================================== *)

Lemma clampZ_id len x : 0 <= x <= len -> clampZ len x = x.
Proof.
  intros Hx. unfold clampZ.
  destruct (x <? 0) eqn:E1; [apply Z.ltb_lt in E1; lia|].
  rewrite E1.
  destruct (len <? x) eqn:E2; [apply Z.ltb_lt in E2; lia|]. reflexivity.
Qed.

Lemma clampZ_range len x : 0 <= len -> 0 <= clampZ len x <= len.
Proof.
  intros Hlen. unfold clampZ.
  destruct (x <? 0) eqn:E1.
  - destruct (x + len <? 0) eqn:E2; [lia|].
    destruct (len <? x + len) eqn:E3; [lia|].
    apply Z.ltb_ge in E2. apply Z.ltb_ge in E3. lia.
  - rewrite E1. destruct (len <? x) eqn:E3; [lia|].
    apply Z.ltb_ge in E1. apply Z.ltb_ge in E3. lia.
Qed.

Lemma pyslice_in {A} (s : list A) a b :
  0 <= a <= zlen s -> 0 <= b <= zlen s ->
  pyslice s a b = slice s (Z.to_nat a) (Z.to_nat b).
Proof.
  unfold zlen, pyslice. intros Ha Hb. rewrite !clampZ_id by assumption. reflexivity.
Qed.

Lemma pyslice_app {A} (s : list A) a b c :
  0 <= a -> a <= b -> b <= c -> c <= zlen s ->
  pyslice s a b ++ pyslice s b c = pyslice s a c.
Proof.
  intros H0 H1 H2 H3. rewrite !pyslice_in by lia. apply slice_app; lia.
Qed.

Lemma pyslice_full {A} (s : list A) : pyslice s 0 (zlen s) = s.
Proof.
  pose proof (Zle_0_nat (length s)) as Hl.
  rewrite pyslice_in by (unfold zlen; lia).
  unfold zlen. rewrite Nat2Z.id. apply slice_full.
Qed.

Lemma pyslice_nil {A} (s : list A) a : 0 <= a <= zlen s -> pyslice s a a = [].
Proof. intros Ha. rewrite pyslice_in by lia. apply slice_empty. lia. Qed.

(* length bounds used for maybe_balance *)
Lemma pyslice_length_le_tail {A} (s : list A) a b :
  0 <= a <= zlen s -> zlen (pyslice s a b) <= zlen s - a.
Proof.
  unfold zlen, pyslice, slice. intros Ha. rewrite (clampZ_id _ a) by assumption.
  rewrite firstn_length, skipn_length. lia.
Qed.

Lemma pyslice_length_le_diff {A} (s : list A) a b :
  0 <= a -> 0 <= b <= zlen s -> zlen (pyslice s a b) <= Z.max 0 (b - a).
Proof.
  unfold zlen, pyslice, slice. intros Ha Hb. rewrite (clampZ_id _ b) by assumption.
  rewrite firstn_length.
  assert (Hc : Z.min a (Z.of_nat (length s)) <= clampZ (Z.of_nat (length s)) a).
  { unfold clampZ. destruct (a <? 0) eqn:E1; [apply Z.ltb_lt in E1; lia|]. rewrite E1.
    destruct (Z.of_nat (length s) <? a) eqn:E2;
      [apply Z.ltb_lt in E2|apply Z.ltb_ge in E2]; lia. }
  pose proof (clampZ_range (Z.of_nat (length s)) a (Zle_0_nat _)) as Hr.
  lia.
Qed.

(* ================================================================== *)
(* maybe_balance stays inside the text                                 *)
(* ================================================================== *)

Lemma prefixb_length p s : prefixb p s = true -> (length p <= length s)%nat.
Proof. intros H. apply prefixb_spec in H. destruct H as [r ->]. rewrite app_length. lia. Qed.

Lemma find_first_unfold pat s :
  find_first pat s =
  if prefixb pat s then Some 0%nat
  else match s with
       | [] => None
       | _ :: t => match find_first pat t with Some i => Some (S i) | None => None end
       end.
Proof. destruct s; reflexivity. Qed.

Lemma find_first_bound : forall s pat i,
  find_first pat s = Some i -> (i + length pat <= length s)%nat.
Proof.
  induction s as [|c t IH]; intros pat i H; rewrite find_first_unfold in H.
  - destruct (prefixb pat []) eqn:E; [|discriminate]. injection H as <-.
    apply prefixb_length in E. lia.
  - destruct (prefixb pat (c :: t)) eqn:E.
    + injection H as <-. apply prefixb_length in E. lia.
    + destruct (find_first pat t) as [k|] eqn:E2; [|discriminate]. injection H as <-.
      apply IH in E2. cbn [length]. lia.
Qed.

Lemma find_last_bound : forall s pat i,
  find_last pat s = Some i -> (i + length pat <= length s)%nat.
Proof.
  induction s as [|c t IH]; intros pat i H; cbn [find_last] in H.
  - destruct (prefixb pat []) eqn:E; [|discriminate]. injection H as <-.
    apply prefixb_length in E. lia.
  - destruct (find_last pat t) as [k|] eqn:E2.
    + injection H as <-. apply IH in E2. cbn [length]. lia.
    + destruct (prefixb pat (c :: t)) eqn:E; [|discriminate]. injection H as <-.
      apply prefixb_length in E. lia.
Qed.

Definition se_ok (text : str) (se : Z * Z) : Prop :=
  0 <= fst se /\ fst se <= snd se /\ snd se <= zlen text.

Lemma end1_ok (text : str) (b : bool) ext (c : str) start end_ :
  0 <= start -> start <= end_ -> end_ <= zlen text ->
  start <= (if b then
              match find_first c (pyslice text start ext) with
              | Some i => start + Z.of_nat i + zlen c
              | None => end_
              end
            else end_) <= zlen text.
Proof.
  intros H0 H1 H2. destruct b; [|lia].
  destruct (find_first c (pyslice text start ext)) as [i|] eqn:E; [|lia].
  apply find_first_bound in E.
  pose proof (pyslice_length_le_tail text start ext (conj H0 (Z.le_trans _ _ _ H1 H2))) as Hl.
  unfold zlen in *. lia.
Qed.

Lemma start1_ok (text : str) (b : bool) ext (o : str) start end1 :
  0 <= ext -> 0 < zlen o -> 0 <= start -> start <= end1 -> end1 <= zlen text ->
  0 <= (if b then
          match find_last o (pyslice text ext end1) with
          | Some i => ext + Z.of_nat i
          | None => start
          end
        else start) <= end1.
Proof.
  intros He Ho H0 H1 H2. destruct b; [|lia].
  destruct (find_last o (pyslice text ext end1)) as [i|] eqn:E; [|lia].
  apply find_last_bound in E.
  assert (Hb : 0 <= end1 <= zlen text) by lia.
  pose proof (pyslice_length_le_diff text ext end1 He Hb) as Hl.
  unfold zlen in *. lia.
Qed.

Lemma tag_open_pos t : 0 < zlen (tag_open t).
Proof. unfold zlen, tag_open. cbn [length]. lia. Qed.

Lemma balance_one_ok tol text span se tag :
  se_ok text se -> se_ok text (balance_one tol text span se tag).
Proof.
  destruct se as [start end_]. unfold se_ok. cbn [fst snd]. intros (H0 & H1 & H2).
  unfold balance_one. cbv zeta. cbn [fst snd].
  match goal with
  | |- 0 <= ?S /\ ?S <= ?E /\ ?E <= _ =>
      assert (HE : start <= E <= zlen text) by (apply end1_ok; lia);
      assert (HS : 0 <= S <= E)
        by (apply start1_ok; [lia|apply tag_open_pos|lia|lia|lia])
  end.
  lia.
Qed.

Lemma maybe_balance_ok tol text start end_ :
  0 <= start -> start <= end_ -> end_ <= zlen text ->
  se_ok text (maybe_balance tol text start end_).
Proof.
  intros H0 H1 H2. unfold maybe_balance.
  assert (Hse : se_ok text (start, end_)) by (unfold se_ok; cbn [fst snd]; lia).
  revert Hse. generalize (start, end_). generalize (pyslice text start end_).
  induction style_tags as [|t ts IH]; intros span se Hse; cbn [fold_left]; [exact Hse|].
  apply IH. apply balance_one_ok. exact Hse.
Qed.

(* ================================================================== *)
(* C09: annotation is purely additive                                  *)
(* ================================================================== *)

Definition Inv (text : str) (s : ast) : Prop :=
  0 <= last_end s <= zlen text /\ strip (rev (out_rev s)) = pyslice text 0 (last_end s).

Definition extends (s s' : ast) : Prop := exists q, out_rev s' = q ++ out_rev s.

Lemma extends_refl s : extends s s.
Proof. exists []. reflexivity. Qed.

Lemma extends_trans s1 s2 s3 : extends s1 s2 -> extends s2 s3 -> extends s1 s3.
Proof. intros [q1 H1] [q2 H2]. exists (q2 ++ q1). rewrite H2, H1, app_assoc. reflexivity. Qed.

Lemma extends_emit text s start end_ a span : extends s (emit text s start end_ a span).
Proof. unfold extends, emit. cbn [out_rev]. eexists. reflexivity. Qed.

Lemma emit_rev text s start end_ a span :
  rev (out_rev (emit text s start end_ a span)) =
  rev (out_rev s) ++ Orig (pyslice text (last_end s) start) :: Ins (a_before a) :: span ++ [Ins (a_after a)].
Proof. unfold emit. cbn [out_rev]. rewrite rev_app_distr, rev_involutive. reflexivity. Qed.

Lemma emit_inv text s start end_ a span :
  Inv text s -> last_end s <= start -> start <= end_ -> end_ <= zlen text ->
  strip span = pyslice text start end_ ->
  Inv text (emit text s start end_ a span).
Proof.
  intros [Hle Hs] H1 H2 H3 Hspan. unfold Inv. rewrite emit_rev. cbn [emit last_end].
  split; [lia|].
  rewrite strip_app, Hs, strip_cons_orig, strip_cons_ins, strip_app, Hspan.
  rewrite strip_cons_ins. cbn [strip map concat]. rewrite app_nil_r.
  rewrite pyslice_app by lia. apply pyslice_app; lia.
Qed.

Lemma strip_single s : strip [Orig s] = s.
Proof. cbn. apply app_nil_r. Qed.

(* the part of astep after clipping *)
Definition amode (bal : str -> bool) (tol : Z) (text : str) (md : mode)
           (s : ast) (a : annot) (start end_ : Z) : result ast :=
  let span_text := pyslice text start end_ in
  match md with
  | Unchecked => Ok (emit text s start end_ a [Orig span_text])
  | Wrap =>
      if bal span_text then Ok (emit text s start end_ a [Orig span_text])
      else Ok (emit text s start end_ a (wrap_html_tags span_text (a_after a) (a_before a)))
  | Skip =>
      if bal span_text then Ok (emit text s start end_ a [Orig span_text])
      else
        let (s2, e2) := maybe_balance tol text start end_ in
        if (s2 <? last_end s) || negb (bal (pyslice text s2 e2)) then Ok s
        else Ok (emit text s s2 e2 a [Orig (pyslice text s2 e2)])
  end.

(* the part of astep after the translation of the offsets *)
Definition astep_core (bal : str -> bool) (tol : Z) (text : str) (md : mode)
           (s : ast) (a : annot) (start0 end_ : Z) : result ast :=
  let clipped := start0 <? last_end s in
  let start := if clipped then last_end s else start0 in
  if clipped && (end_ <=? start) then Ok s
  else amode bal tol text md s a start end_.

Definition trans (u : option updater) (a : annot) : result (Z * Z) :=
  match u with
  | Some up =>
      do st <- update up true (a_start a) ;;
      do en <- update up false (a_end a) ;;
      Ok (st, if en <? st then st else en)
  | None => Ok (a_start a, a_end a)
  end.

Lemma astep_eq bal tol text u md s a :
  astep bal tol text u md s a =
  (do se <- trans u a ;; astep_core bal tol text md s a (fst se) (snd se)).
Proof.
  unfold astep. fold (trans u a). destruct (trans u a) as [[st en]|e]; reflexivity.
Qed.

Lemma amode_inv bal tol text md s a start end_ :
  Inv text s -> last_end s <= start -> start <= end_ -> end_ <= zlen text ->
  exists s', amode bal tol text md s a start end_ = Ok s' /\ Inv text s' /\ extends s s'.
Proof.
  intros HI H1 H2 H3.
  assert (Hplain : exists s', Ok (emit text s start end_ a [Orig (pyslice text start end_)]) = Ok s'
                              /\ Inv text s' /\ extends s s').
  { eexists. split; [reflexivity|]. split; [|apply extends_emit].
    apply emit_inv; try assumption. apply strip_single. }
  unfold amode. cbv zeta. destruct md.
  - exact Hplain.
  - destruct (bal (pyslice text start end_)); [exact Hplain|].
    pose proof (proj1 HI) as Hle.
    assert (Hok : se_ok text (maybe_balance tol text start end_))
      by (apply maybe_balance_ok; lia).
    destruct (maybe_balance tol text start end_) as [s2 e2].
    unfold se_ok in Hok. cbn [fst snd] in Hok. destruct Hok as (Hs0 & Hs1 & Hs2).
    destruct (s2 <? last_end s) eqn:E; cbn [orb].
    + exists s. split; [reflexivity|]. split; [assumption|apply extends_refl].
    + apply Z.ltb_ge in E.
      destruct (negb (bal (pyslice text s2 e2))).
      * exists s. split; [reflexivity|]. split; [assumption|apply extends_refl].
      * eexists. split; [reflexivity|]. split; [|apply extends_emit].
        apply emit_inv; try assumption. apply strip_single.
  - destruct (bal (pyslice text start end_)); [exact Hplain|].
    eexists. split; [reflexivity|]. split; [|apply extends_emit].
    apply emit_inv; try assumption. apply wrap_strip.
Qed.

Lemma astep_core_inv bal tol text md s a start0 end_ :
  Inv text s -> 0 <= start0 -> start0 <= end_ -> end_ <= zlen text ->
  exists s', astep_core bal tol text md s a start0 end_ = Ok s' /\ Inv text s' /\ extends s s'.
Proof.
  intros HI H0 H1 H2. unfold astep_core. cbv zeta.
  destruct (start0 <? last_end s) eqn:Ecl; cbn [andb].
  - destruct (end_ <=? last_end s) eqn:E2.
    + exists s. split; [reflexivity|]. split; [assumption|apply extends_refl].
    + apply Z.leb_gt in E2. apply amode_inv; try assumption; lia.
  - apply Z.ltb_ge in Ecl. apply amode_inv; assumption.
Qed.

Definition trans_ok (u : option updater) (text : str) (a : annot) : Prop :=
  exists st en, trans u a = Ok (st, en) /\ 0 <= st /\ st <= en /\ en <= zlen text.

Lemma astep_inv bal tol text u md s a :
  Inv text s -> trans_ok u text a ->
  exists s', astep bal tol text u md s a = Ok s' /\ Inv text s' /\ extends s s'.
Proof.
  intros HI (st & en & Ht & H0 & H1 & H2). rewrite astep_eq, Ht. cbn [bind fst snd].
  apply astep_core_inv; assumption.
Qed.

Lemma arun_inv bal tol text u md : forall l s,
  Inv text s -> Forall (trans_ok u text) l ->
  exists s', arun bal tol text u md s l = Ok s' /\ Inv text s' /\ extends s s'.
Proof.
  induction l as [|a l IH]; intros s HI Hl; cbn [arun].
  - exists s. split; [reflexivity|]. split; [assumption|apply extends_refl].
  - inversion Hl as [|? ? Ha Hl']; subst.
    destruct (astep_inv bal tol text u md s a HI Ha) as (s1 & E1 & HI1 & Hx1).
    rewrite E1. cbn [bind].
    destruct (IH s1 HI1 Hl') as (s2 & E2 & HI2 & Hx2).
    exists s2. split; [assumption|]. split; [assumption|]. eapply extends_trans; eassumption.
Qed.

Lemma afinish_eq text s :
  afinish text s =
  rev (out_rev s) ++ (if last_end s <? zlen text
                      then [Orig (pyslice text (last_end s) (zlen text))] else []).
Proof.
  unfold afinish. destruct (last_end s <? zlen text); [reflexivity|]. symmetry; apply app_nil_r.
Qed.

Lemma afinish_strip text s : Inv text s -> strip (afinish text s) = text.
Proof.
  intros [Hle Hs]. rewrite afinish_eq, strip_app, Hs.
  destruct (last_end s <? zlen text) eqn:E.
  - apply Z.ltb_lt in E. rewrite strip_single, pyslice_app by lia. apply pyslice_full.
  - apply Z.ltb_ge in E. cbn [strip map concat]. rewrite app_nil_r.
    replace (last_end s) with (zlen text) by lia. apply pyslice_full.
Qed.

Definition ast0 : ast := {| out_rev := []; last_end := 0 |}.

Lemma Inv_ast0 text : Inv text ast0.
Proof.
  unfold Inv, ast0. cbn [last_end out_rev rev]. split.
  - unfold zlen. lia.
  - rewrite pyslice_nil by (unfold zlen; lia). reflexivity.
Qed.

Lemma insert_annot_Forall (P : annot -> Prop) x : forall l,
  P x -> Forall P l -> Forall P (insert_annot x l).
Proof.
  induction l as [|y l IH]; intros Hx Hl; cbn [insert_annot].
  - constructor; [assumption|constructor].
  - inversion Hl; subst. destruct (annot_ltb y x).
    + constructor; [assumption|]. apply IH; assumption.
    + constructor; assumption.
Qed.

Lemma sort_annots_Forall (P : annot -> Prop) : forall l, Forall P l -> Forall P (sort_annots l).
Proof.
  induction l as [|x l IH]; intros Hl; cbn [sort_annots fold_right]; [constructor|].
  inversion Hl; subst. apply insert_annot_Forall; [assumption|]. apply IH; assumption.
Qed.

Lemma annotate_inv bal tol text u md annots :
  Forall (trans_ok u text) annots ->
  exists ps, annotate bal tol text u md annots = Ok ps /\ strip ps = text.
Proof.
  intros Hl. unfold annotate. fold ast0.
  destruct (arun_inv bal tol text u md (sort_annots annots) ast0 (Inv_ast0 text)
                     (sort_annots_Forall _ _ Hl)) as (s & E & HI & _).
  rewrite E. cbn [bind]. eexists. split; [reflexivity|]. apply afinish_strip; assumption.
Qed.

Definition annots_in_range (n : Z) (l : list annot) : Prop :=
  Forall (fun a => 0 <= a_start a /\ a_start a <= a_end a /\ a_end a <= n) l.

Lemma trans_ok_none text a :
  0 <= a_start a /\ a_start a <= a_end a /\ a_end a <= zlen text -> trans_ok None text a.
Proof. intros (H0 & H1 & H2). exists (a_start a), (a_end a). cbn [trans]. tauto. Qed.

Lemma trans_ok_some st la text a :
  steps_ok st la (zlen text) -> 0 < la ->
  0 <= a_start a /\ a_start a <= a_end a /\ a_end a <= la -> trans_ok (Some (mk st)) text a.
Proof.
  intros Hok Hla (H0 & H1 & H2).
  destruct (update_total st la (zlen text) true (a_start a) Hok Hla) as [y1 E1]; [lia|].
  destruct (update_total st la (zlen text) false (a_end a) Hok Hla) as [y2 E2]; [lia|].
  pose proof (update_in_range st la (zlen text) true (a_start a) y1 Hok) as R1.
  pose proof (update_in_range st la (zlen text) false (a_end a) y2 Hok) as R2.
  specialize (R1 ltac:(lia) E1). specialize (R2 ltac:(lia) E2).
  exists y1, (if y2 <? y1 then y1 else y2). cbn [trans]. rewrite E1, E2. cbn [bind].
  split; [reflexivity|].
  destruct (y2 <? y1) eqn:E; [lia|]. apply Z.ltb_ge in E. lia.
Qed.

Theorem annotate_additive_plain : forall bal tol text md annots,
  annots_in_range (zlen text) annots ->
  exists ps, annotate bal tol text None md annots = Ok ps /\ strip ps = text.
Proof.
  intros bal tol text md annots Hr. apply annotate_inv.
  unfold annots_in_range in Hr. eapply Forall_impl; [|exact Hr].
  intros a Ha. apply trans_ok_none. exact Ha.
Qed.

Lemma zlen_pos {A} (l : list A) : l <> [] -> 0 < zlen l.
Proof. destruct l; [congruence|]. intros _. unfold zlen. cbn [length]. lia. Qed.

Theorem annotate_additive_source : forall bal tol (plain : str) src st md annots,
  steps_ok st (zlen plain) (zlen src) -> plain <> [] ->
  annots_in_range (zlen plain) annots ->
  exists ps, annotate bal tol src (Some (mk st)) md annots = Ok ps /\ strip ps = src.
Proof.
  intros bal tol plain src st md annots Hok Hne Hr. apply annotate_inv.
  unfold annots_in_range in Hr. eapply Forall_impl; [|exact Hr].
  intros a Ha. eapply trans_ok_some; [exact Hok|apply zlen_pos; assumption|exact Ha].
Qed.

Theorem annotate_citations_additive : forall bal tol plain annots source st md,
  match source with Some src => steps_ok st (zlen plain) (zlen src) | None => True end ->
  plain <> [] -> annots_in_range (zlen plain) annots ->
  exists ps, annotate_citations bal tol plain annots source st md = Ok ps /\
             strip ps = match source with
                        | Some (c :: s) => c :: s
                        | _ => plain
                        end.
Proof.
  intros bal tol plain annots source st md Hok Hne Hr. unfold annotate_citations.
  destruct source as [[|c s]|].
  - cbn [negb andb]. apply annotate_additive_plain; assumption.
  - cbn [negb andb]. destruct (str_eqb_spec (c :: s) plain) as [Heq|Hneq]; cbn [negb].
    + rewrite Heq. apply annotate_additive_plain; assumption.
    + eapply annotate_additive_source; eassumption.
  - apply annotate_additive_plain; assumption.
Qed.

(* ================================================================== *)
(* C10 without a source text: exact placement                          *)
(* ================================================================== *)

Lemma astep_unchecked_none bal tol text s a :
  astep bal tol text None Unchecked s a =
  if a_start a <? last_end s then
    if a_end a <=? last_end s then Ok s
    else Ok (emit text s (last_end s) (a_end a) a [Orig (pyslice text (last_end s) (a_end a))])
  else Ok (emit text s (a_start a) (a_end a) a [Orig (pyslice text (a_start a) (a_end a))]).
Proof.
  unfold astep. cbn [bind]. destruct (a_start a <? last_end s); cbn [andb]; reflexivity.
Qed.

Lemma astep_le_bound bal tol text s a s' B :
  astep bal tol text None Unchecked s a = Ok s' ->
  last_end s <= B -> a_end a <= B -> last_end s' <= B.
Proof.
  rewrite astep_unchecked_none. intros H H1 H2.
  destruct (a_start a <? last_end s).
  - destruct (a_end a <=? last_end s); injection H as <-; [assumption|].
    cbn [emit last_end]. assumption.
  - injection H as <-. cbn [emit last_end]. assumption.
Qed.

Lemma arun_le_bound bal tol text B : forall l s s',
  arun bal tol text None Unchecked s l = Ok s' ->
  last_end s <= B -> (forall a', In a' l -> a_end a' <= B) -> last_end s' <= B.
Proof.
  induction l as [|a l IH]; intros s s' H H1 H2; cbn [arun] in H.
  - injection H as <-. assumption.
  - destruct (astep bal tol text None Unchecked s a) as [s1|e] eqn:E; cbn [bind] in H; [|discriminate].
    apply (IH s1 s' H).
    + eapply astep_le_bound; [exact E|assumption|]. apply H2. left; reflexivity.
    + intros a' Ha'. apply H2. right; assumption.
Qed.

Lemma arun_app bal tol text u md : forall l1 l2 s,
  arun bal tol text u md s (l1 ++ l2) =
  (do s1 <- arun bal tol text u md s l1 ;; arun bal tol text u md s1 l2).
Proof.
  induction l1 as [|a l1 IH]; intros l2 s; cbn [app arun]; [reflexivity|].
  destruct (astep bal tol text u md s a) as [s1|e]; cbn [bind]; [apply IH|reflexivity].
Qed.

Theorem annotate_plain_exact : forall bal tol text annots l1 a l2,
  annots_in_range (zlen text) annots ->
  sort_annots annots = l1 ++ a :: l2 ->
  a_start a < a_end a ->
  (forall a', In a' l1 -> a_end a' <= a_start a) ->
  exists ps q1 q2, annotate bal tol text None Unchecked annots = Ok ps /\
    ps = q1 ++ Ins (a_before a) :: Orig (pyslice text (a_start a) (a_end a)) :: Ins (a_after a) :: q2 /\
    strip q1 = pyslice text 0 (a_start a).
Proof.
  intros bal tol text annots l1 a l2 Hr Hsort Hne Hbefore.
  assert (Hall : Forall (trans_ok None text) (l1 ++ a :: l2)).
  { rewrite <- Hsort. apply sort_annots_Forall.
    unfold annots_in_range in Hr. eapply Forall_impl; [|exact Hr].
    intros x Hx. apply trans_ok_none. exact Hx. }
  assert (Ha : 0 <= a_start a /\ a_start a <= a_end a /\ a_end a <= zlen text).
  { rewrite <- Hsort in Hall. clear Hall.
    assert (Hin : In a (sort_annots annots)) by (rewrite Hsort; apply in_elt).
    pose proof (sort_annots_Forall _ _ Hr) as Hf. rewrite Forall_forall in Hf.
    apply Hf. exact Hin. }
  apply Forall_app in Hall. destruct Hall as [Hall1 Hall2].
  inversion Hall2 as [|? ? _ Hall3]; subst.
  unfold annotate. fold ast0. rewrite Hsort, arun_app.
  destruct (arun_inv bal tol text None Unchecked l1 ast0 (Inv_ast0 text) Hall1)
    as (s1 & E1 & HI1 & _).
  rewrite E1. cbn [bind arun].
  assert (Hle1 : last_end s1 <= a_start a).
  { eapply arun_le_bound; [exact E1| |exact Hbefore]. cbn [ast0 last_end]. lia. }
  rewrite astep_unchecked_none.
  replace (a_start a <? last_end s1) with false by (symmetry; apply Z.ltb_ge; exact Hle1).
  cbn [bind].
  set (s2 := emit text s1 (a_start a) (a_end a) a [Orig (pyslice text (a_start a) (a_end a))]).
  assert (HI2 : Inv text s2).
  { apply emit_inv; try assumption; try lia. apply strip_single. }
  destruct (arun_inv bal tol text None Unchecked l2 s2 HI2 Hall3) as (s3 & E3 & HI3 & [q Hq]).
  rewrite E3. cbn [bind].
  exists (afinish text s3).
  exists (rev (out_rev s1) ++ [Orig (pyslice text (last_end s1) (a_start a))]).
  exists (rev q ++ (if last_end s3 <? zlen text
                    then [Orig (pyslice text (last_end s3) (zlen text))] else [])).
  split; [reflexivity|]. split.
  - rewrite afinish_eq, Hq, rev_app_distr. unfold s2. rewrite emit_rev.
    rewrite <- !app_assoc. reflexivity.
  - destruct HI1 as [Hr1 Hs1]. rewrite strip_app, Hs1, strip_single.
    apply pyslice_app; lia.
Qed.
