(* Proofs/CleanReProofs.v -- the laws of C20 for the cleaners as the live code
   defines them (patterns and replacements regenerated into Gen/Cleaners.v). *)
From EV Require Import Base.Str Regex.Syntax Model.Clean Model.CleanRe Proofs.CleanProofs.
From EV Require Import Gen.Unicode Gen.Cleaners.

Definition others (P : N -> bool) := filter (fun c => negb (P c)).

(* the laws of a "+"-cleaner and of a "{2,}"-cleaner *)
Definition laws_plus (f : str -> str) : Prop :=
  exists (P : N -> bool) (sp : N),
    P sp = true /\
    (forall s, f (f s) = f s) /\
    (forall s, others P (f s) = others P s) /\
    (forall s, ok_plus P sp (f s) = true).

Definition laws_two (f : str -> str) : Prop :=
  exists (P : N -> bool),
    (forall s, f (f s) = f s) /\
    (forall s, others P (f s) = others P s) /\
    (forall s, ok_two P (f s) = true).

Lemma classify_plus U pat repl P sp :
  classify U pat repl = Some (P, KPlus sp) ->
  exists f, cleaner_of U pat repl = Some f /\ laws_plus f.
Proof.
  unfold classify, cleaner_of. destruct (as_run_pattern U false pat) as [[P0 k]|]; [|discriminate].
  destruct k as [|[|[|k]]]; try discriminate.
  - destruct repl as [|c [|d r]]; try discriminate.
    destruct (P0 c) eqn:Hc; [|discriminate]. intros H; injection H as -> ->.
    eexists; split; [reflexivity|]. exists P, sp. split; [exact Hc|]. split; [|split].
    + apply plus_idempotent; assumption.
    + apply plus_others_kept; assumption.
    + apply plus_no_run_left; assumption.
  - destruct repl; discriminate.
Qed.

Lemma classify_two U pat repl P :
  classify U pat repl = Some (P, KTwo) ->
  exists f, cleaner_of U pat repl = Some f /\ laws_two f.
Proof.
  unfold classify, cleaner_of. destruct (as_run_pattern U false pat) as [[P0 k]|]; [|discriminate].
  destruct k as [|[|[|k]]]; try discriminate.
  - destruct repl as [|c [|d r]]; try discriminate. destruct (P0 c); discriminate.
  - destruct repl; [|discriminate]. intros H; injection H as ->.
    eexists; split; [reflexivity|]. exists P. split; [|split].
    + apply two_idempotent.
    + apply two_others_kept.
    + apply two_no_run_left.
Qed.

Definition is_plus (x : option ((N -> bool) * cleaner_kind)) : bool :=
  match x with Some (_, KPlus _) => true | _ => false end.
Definition is_two (x : option ((N -> bool) * cleaner_kind)) : bool :=
  match x with Some (_, KTwo) => true | _ => false end.

Lemma is_plus_laws U pat repl :
  is_plus (classify U pat repl) = true -> exists f, cleaner_of U pat repl = Some f /\ laws_plus f.
Proof.
  destruct (classify U pat repl) as [[P [sp|]]|] eqn:H; try discriminate.
  intros _. eapply classify_plus; eassumption.
Qed.

Lemma is_two_laws U pat repl :
  is_two (classify U pat repl) = true -> exists f, cleaner_of U pat repl = Some f /\ laws_two f.
Proof.
  destruct (classify U pat repl) as [[P [sp|]]|] eqn:H; try discriminate.
  intros _. eapply classify_two; eassumption.
Qed.

(* reflection over the regenerated patterns *)
Lemma inline_whitespace_laws :
  exists f, cleaner_of U pat_inline_whitespace repl_inline_whitespace = Some f /\ laws_plus f.
Proof. apply is_plus_laws. vm_compute. reflexivity. Qed.

Lemma all_whitespace_laws :
  exists f, cleaner_of U pat_all_whitespace repl_all_whitespace = Some f /\ laws_plus f.
Proof. apply is_plus_laws. vm_compute. reflexivity. Qed.

Lemma underscores_laws :
  exists f, cleaner_of U pat_underscores repl_underscores = Some f /\ laws_two f.
Proof. apply is_two_laws. vm_compute. reflexivity. Qed.

(* the lookup table of clean_text: the generated names, nothing else *)
Definition name_known (n : str) : bool := existsb (str_eqb n) lookup_names.
