(* Proofs/ClosedRefs.v -- C19 in plain-text mode, for the closed model: every reference citation
   returned lies after a returned full case citation it derives from, and the text at its span
   contains a party name of that citation which passes is_valid_name.  (Its offsets are valid by
   C02: closed_offsets_final.) *)
From Coq Require Import Sorting.Sorted.
From EV Require Import Base.Str Base.PyVal Regex.Syntax Regex.Decl Regex.Match Regex.MatchSound.
From EV Require Import Model.Tokenize Model.Editions Model.Filter Model.Pipeline.
From EV Require Import Model.SearchEngine Model.Extract Model.E2E Model.RefEngine Model.E2EClosed.
From EV Require Import Proofs.TokenizeProofs Proofs.PipeSpec Proofs.PipeWindows Proofs.PipeOffsets Proofs.PipeMeta.
From EV Require Import Proofs.PipeRefs Proofs.ExtractProofs Proofs.ClosedProofs Proofs.ClosedCorollaries.
From EV Require Import Proofs.SearchDischarge Proofs.SearchGuarded.
From EV Require Import Gen.Unicode Gen.RefRegex.
Close Scope N_scope.
Close Scope nat_scope.
Open Scope Z_scope.

(* ------------------------------------------------------------------ *)
(* 1. every reference of the run derives from a full case citation of   *)
(*    the run (any oracles)                                             *)
(* ------------------------------------------------------------------ *)
Section RS.
  Variable search : pat -> str -> option mres.
  Variable refsearch : list (str * str) -> str -> list (nat * nat * list (str * option str)).
  Variable MAXC : nat.
  Variable BACK : nat.
  Variable D : dtables.
  Variable highest : Z.
  Variable this_year : Z.
  Variable edition_of : nat -> option edition.
  Variable source_of : nat -> nat.
  Variable valid_name : str -> bool.
  Variable is_space : N -> bool.
  Variable text : str.
  Variable words : list elem.

  Definition rsrc (acc : list pcit) : Prop :=
    forall c, In c acc -> is_ref c = true ->
      exists f, In f acc /\ p_cls f = CFullCase /\ In c (references refsearch valid_name text f).

  Lemma rsrc_push c acc : is_ref c = false -> rsrc acc -> rsrc (c :: acc).
  Proof.
    intros Hc H x [<-|Hx] Hr; [congruence|].
    destruct (H x Hx Hr) as (f & Hf & H1 & H2). exists f. split; [right; exact Hf|]. split; assumption.
  Qed.

  Lemma references_cls f x : In x (references refsearch valid_name text f) -> p_cls f = CFullCase.
  Proof.
    unfold references. cbv zeta. destruct (zlen text <=? _); [intros []|].
    destruct (p_cls f); try (intros []). reflexivity.
  Qed.

  Lemma cite_step_rsrc acc it acc' :
    rsrc acc ->
    cite_step search refsearch MAXC BACK D highest this_year edition_of source_of valid_name is_space
              text words acc it = Ok acc' ->
    rsrc acc'.
  Proof.
    intros Hacc Hs. destruct it as [j t]. unfold cite_step in Hs.
    destruct (t_kind t) eqn:Ek.
    - destruct (t_short t) eqn:Esh.
      + destruct (extract_short _ _ _ _ _ _ _ _) as [c|] eqn:Ee; [|discriminate Hs].
        cbn [bind] in Hs. injection Hs as <-. apply rsrc_push; [|exact Hacc].
        eapply eshort_nonref. exact Ee.
      + destruct (extract_full _ _ _ _ _ _ _ _ _ _ _ _) as [c0|] eqn:Ee; [|discriminate Hs].
        cbn [bind] in Hs. injection Hs as <-.
        assert (H0 : is_ref c0 = false) by (eapply efull_nonref; exact Ee).
        match goal with |- rsrc (?c :: _) => set (cc := c) in *; assert (Hc : is_ref cc = false) end.
        { subst cc. destruct acc as [|pre acc0]; [exact H0|].
          destruct (is_full_case c0 && is_full_case pre); [|exact H0].
          unfold is_ref. rewrite parallel_cls. exact H0. }
        intros x [<-|Hx] Hr; [congruence|].
        apply in_app_or in Hx. destruct Hx as [Hx|Hx].
        * apply in_rev in Hx. exists cc. split; [left; reflexivity|].
          split; [exact (references_cls _ _ Hx)|exact Hx].
        * destruct (Hacc x Hx Hr) as (f & Hf & H1 & H2). exists f.
          split; [right; apply in_or_app; right; exact Hf|]. split; assumption.
    - injection Hs as <-. apply rsrc_push; [reflexivity|exact Hacc].
    - destruct (extract_supra _ _ _ _ _) as [c|] eqn:Ee; [|discriminate Hs].
      cbn [bind] in Hs. injection Hs as <-. apply rsrc_push; [|exact Hacc].
      eapply esupra_nonref. exact Ee.
    - destruct (extract_id _ _ _ _ _) as [c|] eqn:Ee; [|discriminate Hs].
      cbn [bind] in Hs. injection Hs as <-. apply rsrc_push; [|exact Hacc].
      eapply eid_nonref. exact Ee.
    - injection Hs as <-. exact Hacc.
    - injection Hs as <-. exact Hacc.
    - injection Hs as <-. exact Hacc.
  Qed.

  Lemma cite_run_rsrc its : forall acc acc',
    rsrc acc ->
    cite_run search refsearch MAXC BACK D highest this_year edition_of source_of valid_name is_space
             text words acc its = Ok acc' ->
    rsrc acc'.
  Proof.
    induction its as [|it its IH]; intros acc acc' Hacc Hr; cbn [cite_run] in Hr.
    - injection Hr as <-. exact Hacc.
    - destruct (cite_step _ _ _ _ _ _ _ _ _ _ _ _ _ acc it) as [acc1|] eqn:Es; [|discriminate Hr].
      cbn [bind] in Hr. exact (IH acc1 acc' (cite_step_rsrc _ _ _ Hacc Es) Hr).
  Qed.

  (* what a reference built from f looks like *)
  Lemma references_inv f x : In x (references refsearch valid_name text f) ->
    let se := snd (span_of f) in
    let names := flat_map (fun kv : str * option str =>
                             match snd kv with
                             | Some v => if nonempty v && valid_name v then [(fst kv, v)] else []
                             | None => []
                             end)
                          [(k_plaintiff, p_plaintiff f); (k_defendant, p_defendant f)] in
    se < zlen text /\
    exists a b gd, In (a, b, gd) (refsearch names (pyslice text se (zlen text))) /\
      span_of x = (Z.of_nat (Z.to_nat (se + Z.of_nat a)), Z.of_nat (Z.to_nat (se + Z.of_nat b))).
  Proof.
    unfold references. cbv zeta. destruct (Z.leb_spec (zlen text) (snd (span_of f))); [intros []|].
    destruct (p_cls f); try (intros []).
    match goal with |- In x match ?l with [] => [] | _ => _ end -> _ => destruct l eqn:El; [intros []|] end.
    intros Hin. split; [lia|]. apply in_map_iff in Hin. destruct Hin as [[[a b] gd] [<- Hab]].
    exists a, b, gd. split; [exact Hab|]. unfold span_of. psimp. reflexivity.
  Qed.

  Lemma names_of_full f k v :
    In (k, v) (flat_map (fun kv : str * option str =>
                           match snd kv with
                           | Some v => if nonempty v && valid_name v then [(fst kv, v)] else []
                           | None => []
                           end)
                        [(k_plaintiff, p_plaintiff f); (k_defendant, p_defendant f)]) ->
    (p_plaintiff f = Some v \/ p_defendant f = Some v) /\ valid_name v = true.
  Proof.
    cbn [flat_map snd fst app]. intros H. apply in_app_or in H. destruct H as [H|H].
    - destruct (p_plaintiff f) as [p|]; [|destruct H].
      destruct (nonempty p && valid_name p) eqn:E; [|destruct H].
      destruct H as [H|[]]. injection H as _ <-. apply andb_true_iff in E. split; [left; reflexivity|apply E].
    - rewrite app_nil_r in H. destruct (p_defendant f) as [p|]; [|destruct H].
      destruct (nonempty p && valid_name p) eqn:E; [|destruct H].
      destruct H as [H|[]]. injection H as _ <-. apply andb_true_iff in E. split; [right; reflexivity|apply E].
  Qed.
End RS.

(* ------------------------------------------------------------------ *)
(* 2. a match of the reference pattern starts with one of the names     *)
(* ------------------------------------------------------------------ *)
Lemma skipn_nth {A} (l : list A) : forall i x, nth_error l i = Some x -> skipn i l = x :: skipn (S i) l.
Proof.
  induction l as [|y l IH]; intros i x H; [destruct i; discriminate|].
  destruct i as [|i]; cbn [nth_error] in H; [injection H as <-; reflexivity|].
  cbn [skipn]. exact (IH i x H).
Qed.

Lemma slice_cons {A} (l : list A) i j x : nth_error l i = Some x -> (i < j)%nat ->
  slice l i j = x :: slice l (S i) j.
Proof.
  intros H Hij. unfold slice. rewrite (skipn_nth l i x H).
  replace (j - i)%nat with (S (j - S i)) by lia. reflexivity.
Qed.

Lemma lit_M : forall s c i j, M U false s (Lit c) i j -> j = S i /\ nth_error s i = Some c.
Proof.
  intros s c i j H. inversion H as [|? ? x Hx Hm| | | | | | | | | | | |]; subst. split; [reflexivity|].
  unfold lit_mem in Hm. rewrite orb_false_r in Hm. apply N.eqb_eq in Hm. subst x. exact Hx.
Qed.

Lemma lits_M : forall s v i j, M U false s (lits v) i j -> j = (i + length v)%nat /\ slice s i j = v.
Proof.
  intros s v. induction v as [|c v IH]; intros i j H.
  - cbn [lits] in H. inversion H; subst. split; [cbn; lia|apply slice_empty; lia].
  - destruct v as [|c' v'].
    + cbn [lits] in H. destruct (lit_M _ _ _ _ H) as [-> Hn]. split; [cbn; lia|].
      rewrite (slice_cons s i (S i) c Hn) by lia. rewrite slice_empty by lia. reflexivity.
    + change (lits (c :: c' :: v')) with (Cat (Lit c) (lits (c' :: v'))) in H.
      inversion H as [| | | | | | | |? ? ? j1 ? Ha Hb| | | | |]; subst.
      destruct (lit_M _ _ _ _ Ha) as [-> Hn]. destruct (IH _ _ Hb) as [Hj Hs].
      split; [cbn [length] in *; lia|].
      rewrite (slice_cons s i j c Hn) by (cbn [length] in Hj; lia). rewrite Hs. reflexivity.
Qed.

Lemma opt_lits_M : forall s o i j, M U false s (opt_lits o) i j ->
  exists v, o = Some v /\ (i <= j)%nat /\ slice s i j = v.
Proof.
  intros s [v|] i j H; cbn [opt_lits] in H; [|inversion H].
  destruct (lits_M _ _ _ _ H) as [Hj Hs]. exists v. split; [reflexivity|]. split; [lia|exact Hs].
Qed.

Lemma name_of_in names k v : name_of names k = Some v -> exists k', In (k', v) names.
Proof.
  unfold name_of. destruct (find _ names) as [[k' v']|] eqn:E; [|discriminate].
  intros [= <-]. apply find_some in E. exists k'. exact (proj1 E).
Qed.

Lemma refs_engine_name names s a b gd :
  In (a, b, gd) (refs_engine names s) ->
  exists k v j1, In (k, v) names /\ (a <= j1)%nat /\ (j1 <= b)%nat /\ (b <= length s)%nat /\
                 slice s a j1 = v.
Proof.
  intros Hin. unfold refs_engine in Hin.
  apply in_map_iff in Hin. destruct Hin as [[[i j] c] [Heq Hin]].
  injection Heq as Hi Hj _. subst i j.
  destruct (finditer_sound U false s _ a b c Hin) as [HM [_ [Hb _]]].
  unfold ref_re in HM.
  inversion HM as [| | | | | | | |? ? ? j0 ? Hw Hrest| | | | |]; subst.
  inversion Hw; subst.
  inversion Hrest as [| | | | | | | |? ? ? j1 ? Halt Htail| | | | |]; subst.
  destruct (M_bounds U false s _ _ _ Htail) as [Hj1b _].
  assert (Hg : exists o, M U false s (opt_lits o) j0 j1 /\
                         exists f, o = name_of names (nth_field f)).
  { repeat match goal with
           | H : M _ _ _ (Alt _ _) _ _ |- _ => inversion H; subst; clear H
           end;
    match goal with
    | H : M _ _ _ (Group _ _) _ _ |- _ => inversion H; subst; clear H
    end; eexists; (split; [eassumption|eexists; reflexivity]). }
  destruct Hg as (o & Ho & f & Hf). destruct (opt_lits_M _ _ _ _ Ho) as (v & Hov & Hle & Hs).
  rewrite Hov in Hf. symmetry in Hf. destruct (name_of_in _ _ _ Hf) as (k & Hk).
  exists k, v, j1. repeat split; assumption.
Qed.

(* ------------------------------------------------------------------ *)
(* 3. the pipeline: a returned reference derives from a full case       *)
(*    citation returned by the default run                              *)
(* ------------------------------------------------------------------ *)
Theorem get_citations_refs_derive :
  forall (Wok : str -> Prop)
         search refsearch MAXC BACK D highest this_year edition_of source_of valid_name is_space
         text words cits ra l c,
  text <> s_eyecite ->
  stream_ok text words -> cits_ok words cits -> toks_ok source_of words ->
  (forall a b, Wok (slice text a b)) ->
  search_ok_w Wok search -> refs_ok refsearch ->
  (forall w, search PPostShort w <> None) ->
  cits_sorted cits -> cits_nonempty cits ->
  get_citations search refsearch MAXC BACK D highest this_year edition_of source_of valid_name is_space
                text words cits ra = Ok l ->
  In c l -> is_ref c = true ->
  exists l0 f,
    get_citations search refsearch MAXC BACK D highest this_year edition_of source_of valid_name is_space
                  text words cits false = Ok l0 /\
    In f l0 /\ p_cls f = CFullCase /\ 0 <= snd (span_of f) /\
    In c (references refsearch valid_name text f).
Proof.
  intros Wok search refsearch MAXC BACK D highest this_year edition_of source_of valid_name is_space
         text words cits ra l c Hne Hstream Hcits Htoks HWok Hsearch Hrefs Htotal Hsort Hnonempty Hg Hc Hr.
  unfold get_citations in *.
  destruct (str_eqb_spec text s_eyecite) as [E|_]; [contradiction|].
  destruct (cite_run _ _ _ _ _ _ _ _ _ _ _ _ _ _ _) as [acc|] eqn:Er; [|discriminate Hg].
  cbn [bind] in *. injection Hg as <-.
  assert (Hcin : In c acc).
  { apply in_rev, filter_pcits_incl. destruct ra; [|exact Hc].
    unfold disambiguate in Hc. apply filter_In in Hc. exact (proj1 Hc). }
  assert (Hrs : rsrc refsearch valid_name text acc).
  { apply (cite_run_rsrc search refsearch MAXC BACK D highest this_year edition_of source_of
             valid_name is_space text words cits [] acc); [|exact Er].
    intros x []. }
  destruct (Hrs c Hcin Hr) as (f & Hf & Hcls & Hfc).
  assert (Hoff : Forall (offsets_ok text) acc).
  { eapply (cite_run_ok search refsearch MAXC BACK D highest this_year edition_of source_of
              valid_name is_space text words Wok Hstream Hsearch HWok Htotal Htoks Hrefs);
      [exact Hcits|constructor|exact Er]. }
  assert (Hs : exists k, sinv words k acc).
  { eapply (cite_run_sinv search refsearch MAXC BACK D highest this_year edition_of source_of
              valid_name is_space text words Wok Hstream Hsearch HWok cits 0%nat []);
      [| exact Hsort | intros; lia | split; constructor | exact Er].
    intros i t Hit. split; [apply Hcits, Hit|apply (Hnonempty i t Hit)]. }
  destruct Hs as (k & Hord & Hgood).
  assert (Hfr : is_ref f = false) by (unfold is_ref; rewrite Hcls; reflexivity).
  exists (filter_pcits (rev acc)), f. split; [reflexivity|]. split.
  - apply in_split in Hf. destruct Hf as (l1 & l2 & ->).
    rewrite rev_app_distr. cbn [rev]. rewrite <- app_assoc. cbn [app].
    apply filter_pcits_keeps; [exact Hfr|].
    intros x Hx. apply in_rev in Hx.
    pose proof (ord_split l1 f l2 Hord Hfr x Hx) as Hlt.
    rewrite Forall_forall in Hgood.
    assert (Hdin : In f (l1 ++ f :: l2)) by (apply in_or_app; right; left; reflexivity).
    destruct (Hgood f Hdin Hfr) as (G1 & G2 & _).
    intros Heq. rewrite Heq, G1 in Hlt. unfold zs, ze in Hlt. lia.
  - split; [exact Hcls|]. split; [|exact Hfc].
    rewrite Forall_forall in Hoff. destruct (Hoff f Hf) as (H0 & H1 & H2 & _). cbv zeta in *. lia.
Qed.

(* ------------------------------------------------------------------ *)
(* 4. the closed model                                                  *)
(* ------------------------------------------------------------------ *)
Theorem closed_refs_ok_ra : forall this_year s ra l c,
  s <> s_eyecite -> ws_clean is_space_gen s ->
  get_citations_closed this_year s ra = Ok l -> In c l -> p_cls c = CRef ->
  exists l0 f name,
    get_citations_closed this_year s false = Ok l0 /\ In f l0 /\
    p_cls f = CFullCase /\ snd (span_of f) <= fst (span_of c) /\
    (p_plaintiff f = Some name \/ p_defendant f = Some name) /\ is_valid_name name = true /\
    infix name (pyslice s (fst (span_of c)) (snd (span_of c))).
Proof.
  intros this_year s ra l c Hne Hclean Hg Hin Hcls. rewrite get_citations_closed_eq in Hg.
  destruct (tokenize_text_stream_ok s) as [Hstream Hcits].
  assert (Hr : is_ref c = true) by (unfold is_ref; rewrite Hcls; reflexivity).
  destruct (get_citations_refs_derive (ws_clean is_space_gen) _ _ _ _ _ _ _ _ _ _ _ _ _ _ _ _ _
              Hne Hstream Hcits (toks_ok_closed_all s)
              (fun a b => ws_clean_slice is_space_gen s a b Hclean)
              (search_ok_w_of_g _ _ E_search_ok_g) refs_engine_ok E_post_short_total
              (tokenize_text_cits_sorted s) (tokenize_text_cits_nonempty_all s) Hg Hin Hr)
    as (l0 & f & Hg0 & Hf & Hfc & Hse & Hcf).
  destruct (references_inv _ _ _ _ _ Hcf) as (Hlt & a & b & gd & Hab & Hsp). cbv zeta in *.
  set (se := snd (span_of f)) in *.
  set (n := Z.to_nat se).
  assert (Hn : se = Z.of_nat n) by (unfold n; lia).
  assert (Hnl : (n < length s)%nat) by (unfold zlen in Hlt; lia).
  assert (Hrest : pyslice s se (zlen s) = slice s n (length s)).
  { rewrite Hn. unfold zlen. apply pyslice_nat; lia. }
  rewrite Hrest in Hab.
  destruct (refs_engine_name _ _ _ _ _ Hab) as (k & v & j1 & Hkv & Haj & Hjb & Hbl & Hsl).
  destruct (names_of_full is_valid_name f k v Hkv) as [Hpd Hvalid].
  rewrite slice_length in Hbl by lia.
  exists l0, f, v. rewrite get_citations_closed_eq. split; [exact Hg0|]. split; [exact Hf|].
  split; [exact Hfc|]. rewrite Hsp. cbn [fst snd].
  split; [lia|]. split; [exact Hpd|]. split; [exact Hvalid|].
  replace (Z.to_nat (se + Z.of_nat a)) with (n + a)%nat by lia.
  replace (Z.to_nat (se + Z.of_nat b)) with (n + b)%nat by lia.
  rewrite pyslice_nat by lia.
  rewrite <- Hsl. rewrite slice_slice by lia.
  exists [], (slice s (n + j1) (n + b)). cbn [app]. symmetry. apply slice_app; lia.
Qed.

(* default extraction: the full case citation is in the same result *)
Theorem closed_refs_ok : forall this_year s l c,
  s <> s_eyecite -> ws_clean is_space_gen s ->
  get_citations_closed this_year s false = Ok l -> In c l -> p_cls c = CRef ->
  exists f name,
    In f l /\ p_cls f = CFullCase /\ snd (span_of f) <= fst (span_of c) /\
    (p_plaintiff f = Some name \/ p_defendant f = Some name) /\ is_valid_name name = true /\
    infix name (pyslice s (fst (span_of c)) (snd (span_of c))).
Proof.
  intros this_year s l c Hne Hclean Hg Hin Hcls.
  destruct (closed_refs_ok_ra this_year s false l c Hne Hclean Hg Hin Hcls)
    as (l0 & f & name & Hg0 & H).
  rewrite Hg in Hg0. injection Hg0 as <-. exists f, name. exact H.
Qed.

(* non-vacuity: "Foo v. Smith, 5 U.S. 5 (1999). As Smith at 12 said." returns the full citation and the
   reference "Smith at 12" *)
Definition s_example_ref : str := [70;111;111;32;118;46;32;83;109;105;116;104;44;32;53;32;85;46;83;46;32;53;32;40;49;57;57;57;41;46;32;65;115;32;83;109;105;116;104;32;97;116;32;49;50;32;115;97;105;100;46]%N.

Example closed_refs_nonvacuous :
  exists l, get_citations_closed 2026 s_example_ref false = Ok l /\
            map (fun c => (p_cls c, span_of c)) l = [(CFullCase, (14, 22)); (CRef, (34, 45))].
Proof. vm_compute. eexists. split; reflexivity. Qed.

Print Assumptions get_citations_refs_derive.
Print Assumptions closed_refs_ok_ra.
Print Assumptions closed_refs_ok.
