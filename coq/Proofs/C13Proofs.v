(* Proofs/C13Proofs.v -- the Aho-Corasick pre-filter is lossless (C13): every
   extractor of the live list passes the literal check (strictly, or for texts
   free of the offending case variants), hence an extractor whose required
   strings do not occur in the (normalised) text cannot match it. *)
From EV Require Import Base.Str Regex.Syntax Regex.Decl Regex.Literal Regex.LiteralSound Regex.C13Check.
From EV Require Import Gen.Unicode Gen.Lower Gen.ExtractorsAll.

Definition in_table (x : row) : Prop := exists sh, In sh all_shards /\ In x sh.

Lemma table_checked x : in_table x -> strict_ok x = true \/ partial_ok x = true.
Proof.
  intros [sh [Hsh Hx]].
  pose proof all_shards_ok as H. rewrite forallb_forall in H. specialize (H sh Hsh).
  unfold shard_ok in H. rewrite forallb_forall in H. specialize (H x Hx).
  apply orb_true_iff in H. exact H.
Qed.

Lemma clean_nothing s : clean nothing_absent s.
Proof. unfold clean. apply Forall_forall. reflexivity. Qed.

(* full strength *)
Lemma strict_sound x s i j T :
  strict_ok x = true -> row_lits x <> [] ->
  M U (row_ci x) s (row_re x) i j -> NormOf (row_ci x) lower1 s T ->
  exists l, In l (row_lits x) /\ infix l T.
Proof.
  unfold strict_ok. intros Hok Hne HM HN.
  destruct (row_lits x) as [|l0 ls] eqn:Hl; [congruence|].
  eapply literal_check_sound; [apply clean_nothing|exact Hok|exact HM|exact HN].
Qed.

(* for texts without the offending characters *)
Lemma partial_sound x s i j T :
  partial_ok x = true -> row_lits x <> [] -> clean is_offending s ->
  M U (row_ci x) s (row_re x) i j -> NormOf (row_ci x) lower1 s T ->
  exists l, In l (row_lits x) /\ infix l T.
Proof.
  unfold partial_ok. intros Hok Hne Hc HM HN.
  destruct (row_lits x) as [|l0 ls] eqn:Hl; [congruence|].
  eapply literal_check_sound; [exact Hc|exact Hok|exact HM|exact HN].
Qed.

(* the filter's selection rule and its losslessness *)
Definition selected (x : row) (T : str) : bool :=
  match row_lits x with
  | [] => true
  | lits => existsb (fun l => infixb l T) lits
  end.

Lemma skipped_cannot_match x s T :
  in_table x -> strict_ok x = true -> NormOf (row_ci x) lower1 s T ->
  selected x T = false -> forall i j, ~ M U (row_ci x) s (row_re x) i j.
Proof.
  intros Hin Hok HN Hsel i j HM. unfold selected in Hsel.
  destruct (row_lits x) as [|l0 ls] eqn:Hl; [discriminate|].
  destruct (strict_sound x s i j T Hok) as [l [Hl1 Hl2]]; try assumption; [rewrite Hl; discriminate|].
  rewrite Hl in Hl1.
  assert (existsb (fun l => infixb l T) (l0 :: ls) = true) as Hex.
  { apply existsb_exists. exists l. split; [exact Hl1|]. apply infixb_spec. exact Hl2. }
  congruence.
Qed.

Lemma skipped_cannot_match_partial x s T :
  in_table x -> clean is_offending s -> NormOf (row_ci x) lower1 s T ->
  selected x T = false -> forall i j, ~ M U (row_ci x) s (row_re x) i j.
Proof.
  intros Hin Hc HN Hsel i j HM. unfold selected in Hsel.
  destruct (row_lits x) as [|l0 ls] eqn:Hl; [discriminate|].
  assert (Hne : row_lits x <> []) by (rewrite Hl; discriminate).
  destruct (table_checked x Hin) as [Hok|Hok].
  - destruct (strict_sound x s i j T Hok Hne HM HN) as [l [Hl1 Hl2]].
    rewrite Hl in Hl1.
    assert (existsb (fun l => infixb l T) (l0 :: ls) = true) as Hex.
    { apply existsb_exists. exists l. split; [exact Hl1|]. apply infixb_spec. exact Hl2. }
    congruence.
  - destruct (partial_sound x s i j T Hok Hne Hc HM HN) as [l [Hl1 Hl2]].
    rewrite Hl in Hl1.
    assert (existsb (fun l => infixb l T) (l0 :: ls) = true) as Hex.
    { apply existsb_exists. exists l. split; [exact Hl1|]. apply infixb_spec. exact Hl2. }
    congruence.
Qed.
