(* Proofs/TokenizeProofs.v -- the token stream partitions the text (C12). *)
From EV Require Import Base.Str Model.Tokenize.
From Coq Require Import Sorting.Sorted.

(* positions of the special tokens of a token list *)
Fixpoint specials_from (i : nat) (A : list elem) : list (nat * tok) :=
  match A with
  | [] => []
  | W _ :: r => specials_from (S i) r
  | T t :: r => (i, t) :: specials_from (S i) r
  end.
Definition specials (A : list elem) : list (nat * tok) := specials_from 0 A.

Definition stream_text (A : list elem) : str := concat (map elem_str A).

(* ------------------------------------------------------------------ *)
(* append_text                                                         *)
(* ------------------------------------------------------------------ *)

Lemma concat_part_elems p : concat (part_elems p) = p ++ [32%N].
Proof. destruct p; reflexivity. Qed.

Lemma split_sp_concat s : forall cur,
  concat (flat_map part_elems (split_sp cur s)) = cur ++ s ++ [32%N].
Proof.
  induction s as [|c t IH]; intros cur; cbn [split_sp].
  - cbn [flat_map]. rewrite app_nil_r, concat_part_elems. reflexivity.
  - destruct (N.eqb_spec c 32) as [->|Hne].
    + cbn [flat_map]. rewrite concat_app, concat_part_elems, IH.
      cbn [app]. rewrite <- app_assoc. reflexivity.
    + rewrite IH. rewrite <- app_assoc. reflexivity.
Qed.

Lemma split_sp_last s : forall cur, exists l,
  flat_map part_elems (split_sp cur s) = l ++ [[32%N]].
Proof.
  induction s as [|c t IH]; intros cur; cbn [split_sp].
  - cbn [flat_map]. rewrite app_nil_r. destruct cur as [|x cur].
    + exists []. reflexivity.
    + exists [x :: cur]. reflexivity.
  - destruct (N.eqb c 32).
    + cbn [flat_map]. destruct (IH []) as [l Hl]. rewrite Hl.
      exists (part_elems cur ++ l). rewrite app_assoc. reflexivity.
    + apply IH.
Qed.

Lemma part_elems_nonempty p : Forall (fun q : str => q <> []) (part_elems p).
Proof.
  destruct p as [|x p]; cbn; repeat constructor; discriminate.
Qed.

Lemma split_sp_nonempty s : forall cur,
  Forall (fun q : str => q <> []) (flat_map part_elems (split_sp cur s)).
Proof.
  induction s as [|c t IH]; intros cur; cbn [split_sp].
  - cbn [flat_map]. rewrite app_nil_r. apply part_elems_nonempty.
  - destruct (N.eqb c 32).
    + cbn [flat_map]. apply Forall_app. split; [apply part_elems_nonempty|apply IH].
    + apply IH.
Qed.

Theorem append_text_concat : forall s, concat (append_text s) = s.
Proof.
  intros s. unfold append_text.
  destruct (split_sp_last s []) as [l Hl].
  pose proof (split_sp_concat s []) as Hc.
  rewrite Hl in Hc. rewrite Hl, removelast_last.
  rewrite concat_app in Hc. cbn in Hc.
  apply app_inj_tail in Hc. tauto.
Qed.

Theorem append_text_nonempty : forall s, Forall (fun p => p <> []) (append_text s).
Proof.
  intros s. unfold append_text.
  destruct (split_sp_last s []) as [l Hl].
  pose proof (split_sp_nonempty s []) as Hn.
  rewrite Hl in Hn. rewrite Hl, removelast_last.
  apply Forall_app in Hn. tauto.
Qed.

(* ------------------------------------------------------------------ *)
(* generic list helpers                                                *)
(* ------------------------------------------------------------------ *)

Lemma app_eq_length {A} (a : list A) : forall b c d,
  a ++ b = c ++ d -> length a = length c -> a = c /\ b = d.
Proof.
  induction a as [|x a IH]; intros b c d He Hl; destruct c as [|y c]; cbn in *;
    try discriminate.
  - auto.
  - injection He as -> He. destruct (IH _ _ _ He) as [-> ->]; [lia|auto].
Qed.

Lemma stream_text_app A B : stream_text (A ++ B) = stream_text A ++ stream_text B.
Proof. unfold stream_text. rewrite map_app, concat_app. reflexivity. Qed.

Lemma stream_text_single e : stream_text [e] = elem_str e.
Proof. unfold stream_text. cbn. apply app_nil_r. Qed.

(* ------------------------------------------------------------------ *)
(* the invariant on the reversed token list                            *)
(* ------------------------------------------------------------------ *)

Fixpoint ok_rev (text : str) (allr : list elem) (n : nat) : Prop :=
  match allr with
  | [] => n = 0
  | W s :: r => length s <= n /\ slice text (n - length s) n = s /\
                ok_rev text r (n - length s)
  | T t :: r => t_end t = n /\ cand_wf text t /\ ok_rev text r (t_start t)
  end.

Fixpoint specials_rev (allr : list elem) : list (nat * tok) :=
  match allr with
  | [] => []
  | W _ :: r => specials_rev r
  | T t :: r => (length r, t) :: specials_rev r
  end.

Lemma ok_rev_words text ps : forall allr a b,
  ok_rev text allr a -> a <= b -> b <= length text ->
  concat ps = slice text a b ->
  ok_rev text (rev (map W ps) ++ allr) b.
Proof.
  induction ps as [|p ps IH]; intros allr a b Hok Hab Hb Hc.
  - cbn in Hc. cbn [map rev app].
    assert (a = b) as <-; [|exact Hok].
    apply (f_equal (@length _)) in Hc. rewrite slice_length in Hc by lia.
    cbn in Hc. lia.
  - cbn [map rev concat] in *. rewrite <- app_assoc. cbn [app].
    assert (Hlen : length p + length (concat ps) = b - a).
    { rewrite <- app_length, Hc. apply slice_length; lia. }
    rewrite <- (slice_app text a (a + length p) b) in Hc by lia.
    apply app_eq_length in Hc.
    2:{ rewrite slice_length by lia. lia. }
    destruct Hc as [Hp Hps].
    apply (IH (W p :: allr) (a + length p) b); try lia; [|exact Hps].
    cbn [ok_rev]. replace (a + length p - length p) with a by lia.
    split; [lia|]. split; [symmetry; exact Hp|exact Hok].
Qed.

Lemma ok_rev_stream text allr : forall n,
  ok_rev text allr n -> n <= length text ->
  stream_text (rev allr) = firstn n text.
Proof.
  induction allr as [|[s|t] r IH]; intros n Hok Hn; cbn [ok_rev] in Hok.
  - subst. reflexivity.
  - destruct Hok as (Hl & Hs & Hr). cbn [rev].
    rewrite stream_text_app, stream_text_single, (IH _ Hr) by lia.
    cbn [elem_str].
    rewrite <- (firstn_slice_skipn text (n - length s) n) by lia.
    rewrite Hs. reflexivity.
  - destruct Hok as (He & (H1 & H2 & H3) & Hr). cbn [rev].
    rewrite stream_text_app, stream_text_single, (IH _ Hr) by lia.
    cbn [elem_str]. rewrite H3, <- He.
    apply firstn_slice_skipn. exact H1.
Qed.

Lemma ok_rev_suffix text r1 : forall r2 n,
  ok_rev text (r1 ++ r2) n -> exists n', n' <= n /\ ok_rev text r2 n'.
Proof.
  induction r1 as [|[s|t] r1 IH]; intros r2 n H; cbn [app ok_rev] in H.
  - exists n; auto.
  - destruct H as (Hl & Hs & Hr). destruct (IH _ _ Hr) as (n' & Hle & Hok).
    exists n'; split; [lia|exact Hok].
  - destruct H as (He & (H1 & H2 & H3) & Hr).
    destruct (IH _ _ Hr) as (n' & Hle & Hok).
    exists n'; split; [lia|exact Hok].
Qed.

Lemma specials_rev_W l allr : specials_rev (map W l ++ allr) = specials_rev allr.
Proof. induction l as [|x l IH]; cbn; auto. Qed.

Lemma specials_rev_words ps allr :
  specials_rev (rev (map W ps) ++ allr) = specials_rev allr.
Proof. rewrite <- map_rev. apply specials_rev_W. Qed.

Lemma specials_from_app A : forall i B,
  specials_from i (A ++ B) = specials_from i A ++ specials_from (i + length A) B.
Proof.
  induction A as [|[s|t] A IH]; intros i B; cbn [app specials_from length].
  - rewrite Nat.add_0_r. reflexivity.
  - rewrite IH. replace (S i + length A) with (i + S (length A)) by lia. reflexivity.
  - rewrite IH. replace (S i + length A) with (i + S (length A)) by lia. reflexivity.
Qed.

Lemma specials_rev_spec allr : rev (specials_rev allr) = specials (rev allr).
Proof.
  unfold specials. induction allr as [|[s|t] r IH]; cbn [specials_rev rev].
  - reflexivity.
  - rewrite specials_from_app. cbn [specials_from]. rewrite app_nil_r. exact IH.
  - rewrite specials_from_app. cbn [specials_from]. rewrite IH, rev_length.
    reflexivity.
Qed.

Lemma In_specials_rev i t allr : In (i, t) (specials_rev allr) ->
  exists r1 r, allr = r1 ++ T t :: r /\ i = length r.
Proof.
  induction allr as [|[s|t0] r IH]; cbn [specials_rev]; intros H.
  - destruct H.
  - destruct (IH H) as (r1 & r' & -> & ->). exists (W s :: r1), r'. auto.
  - destruct H as [H|H].
    + injection H as <- <-. exists [], r. auto.
    + destruct (IH H) as (r1 & r' & -> & ->). exists (T t0 :: r1), r'. auto.
Qed.

Lemma specials_rev_head text r : forall m i t k,
  ok_rev text r m -> specials_rev r = (i, t) :: k -> i < length r /\ t_end t <= m.
Proof.
  induction r as [|[s|t0] r IH]; intros m i t k Hok He;
    cbn [specials_rev ok_rev length] in *.
  - discriminate.
  - destruct Hok as (Hl & Hs & Hr). destruct (IH _ _ _ _ Hr He). lia.
  - destruct Hok as (Hend & Hwf & Hr). injection He as <- <- _. lia.
Qed.

Lemma specials_rev_adj text allr : forall n k1 j t' i t k2,
  ok_rev text allr n ->
  specials_rev allr = k1 ++ (j, t') :: (i, t) :: k2 ->
  i < j /\ t_end t <= t_start t'.
Proof.
  induction allr as [|[s|t0] r IH]; intros n k1 j t' i t k2 Hok He;
    cbn [specials_rev ok_rev] in *.
  - destruct k1; discriminate.
  - destruct Hok as (Hl & Hs & Hr). eapply IH; eauto.
  - destruct Hok as (Hend & Hwf & Hr). destruct k1 as [|x k1]; cbn [app] in He.
    + injection He as <- <- He.
      destruct (specials_rev_head _ _ _ _ _ _ Hr He). lia.
    + injection He as _ He. eapply IH; eauto.
Qed.

(* ------------------------------------------------------------------ *)
(* sorting                                                             *)
(* ------------------------------------------------------------------ *)

Definition start_le (a b : tok) : Prop := t_start a <= t_start b.

Lemma insert_Forall (P : tok -> Prop) x l :
  P x -> Forall P l -> Forall P (insert_tok x l).
Proof.
  intros Hx Hl. induction Hl as [|y l Hy Hl IH]; cbn [insert_tok].
  - constructor; auto.
  - destruct (tok_lt y x); constructor; auto.
Qed.

Lemma sort_Forall (P : tok -> Prop) l : Forall P l -> Forall P (sort_toks l).
Proof.
  unfold sort_toks. induction 1 as [|x l Hx Hl IH]; cbn [fold_right].
  - constructor.
  - apply insert_Forall; auto.
Qed.

Lemma insert_sorted x l :
  StronglySorted start_le l -> StronglySorted start_le (insert_tok x l).
Proof.
  induction 1 as [|y l Hs IH Hy]; cbn [insert_tok].
  - constructor; constructor.
  - destruct (tok_lt y x) eqn:E.
    + constructor; [exact IH|]. apply insert_Forall; [|exact Hy].
      unfold tok_lt in E. unfold start_le.
      apply orb_true_iff in E. destruct E as [E|E].
      * apply Nat.ltb_lt in E. lia.
      * apply andb_true_iff in E. destruct E as [E _]. apply Nat.eqb_eq in E. lia.
    + assert (Hxy : start_le x y).
      { unfold tok_lt in E. unfold start_le.
        apply orb_false_iff in E. destruct E as [E1 E2].
        apply Nat.ltb_ge in E1. exact E1. }
      constructor.
      * constructor; assumption.
      * constructor; [exact Hxy|].
        eapply Forall_impl; [|exact Hy]. unfold start_le in *. intros; lia.
Qed.

Lemma sort_sorted l : StronglySorted start_le (sort_toks l).
Proof.
  unfold sort_toks. induction l as [|x l IH]; cbn [fold_right].
  - constructor.
  - apply insert_sorted, IH.
Qed.

(* ------------------------------------------------------------------ *)
(* merge                                                               *)
(* ------------------------------------------------------------------ *)

Lemma merge_same lt t m : merge lt t = Some m ->
  t_start m = t_start lt /\ t_end m = t_end lt /\ t_data m = t_data lt.
Proof.
  unfold merge.
  match goal with |- (if ?c then _ else _) = _ -> _ => destruct c end;
    [|discriminate].
  destruct (t_kind lt); try (intros [= <-]; auto).
  destruct (Bool.eqb _ _); [|discriminate].
  intros [= <-]. cbn. auto.
Qed.

(* ------------------------------------------------------------------ *)
(* the loop                                                            *)
(* ------------------------------------------------------------------ *)

Section Tok.
  Variable text : str.
  Variable nominative : tok -> bool.

  Definition inv (s : st) : Prop :=
    off s <= length text /\
    ok_rev text (all_rev s) (off s) /\
    cits_rev s = specials_rev (all_rev s) /\
    match last s with
    | None => True
    | Some lt => exists r, all_rev s = T lt :: r
    end.

  Lemma emit_inv s0 t o allr :
    ok_rev text allr o -> o <= t_start t -> cand_wf text t ->
    inv (emit text s0 t o allr (specials_rev allr)) /\
    (forall lt', last (emit text s0 t o allr (specials_rev allr)) = Some lt' ->
                 t_start lt' <= t_start t).
  Proof.
    intros Hok Ho Hwf. unfold emit.
    set (allr' := if o <? t_start t then rev (words text o (t_start t)) ++ allr else allr).
    assert (Hok' : ok_rev text allr' (t_start t)).
    { subst allr'. destruct (o <? t_start t) eqn:E.
      - unfold words. destruct Hwf as (H1 & H2 & H3).
        apply (ok_rev_words text _ allr o (t_start t)); try lia; [exact Hok|].
        apply append_text_concat.
      - apply Nat.ltb_ge in E. replace (t_start t) with o by lia. exact Hok. }
    assert (Hsp : specials_rev allr' = specials_rev allr).
    { subst allr'. destruct (o <? t_start t); [|reflexivity].
      unfold words. apply specials_rev_words. }
    split.
    - unfold inv. cbn [all_rev cits_rev last off].
      split; [destruct Hwf as (H1 & H2 & H3); lia|].
      split; [cbn [ok_rev]; auto|].
      split; [cbn [specials_rev]; rewrite Hsp; reflexivity|].
      exists allr'. reflexivity.
    - cbn [last]. intros lt' [= <-]. lia.
  Qed.

  Lemma step_inv s t :
    inv s -> cand_wf text t ->
    (forall lt, last s = Some lt -> t_start lt <= t_start t) ->
    inv (step text nominative s t) /\
    (forall lt', last (step text nominative s t) = Some lt' ->
                 t_start lt' <= t_start t).
  Proof.
    destruct s as [ar cr la o]. unfold inv at 1. cbn [all_rev cits_rev last off].
    intros (Ho & Hok & Hc & Hla) Hwf Hl.
    unfold step. cbn [all_rev cits_rev last off].
    destruct la as [lt|].
    - destruct Hla as [r ->]. cbn [ok_rev] in Hok. destruct Hok as (Hend & Hwfl & Hr).
      cbn [specials_rev] in Hc. subst cr.
      specialize (Hl lt eq_refl).
      destruct (if truthy lt then merge lt t else None) as [m|] eqn:Em.
      + assert (Hm : merge lt t = Some m) by (destruct (truthy lt); [exact Em|discriminate]).
        apply merge_same in Hm. destruct Hm as (Hs & He & Hd).
        split.
        * unfold inv. cbn [all_rev cits_rev last off].
          split; [exact Ho|]. split.
          { cbn [ok_rev]. split; [lia|]. split.
            - unfold cand_wf in *. rewrite Hs, He, Hd. exact Hwfl.
            - rewrite Hs. exact Hr. }
          split; [reflexivity|]. exists r. reflexivity.
        * cbn [last]. intros lt' [= <-]. lia.
      + destruct (t_start t <? o) eqn:Elt.
        * destruct (truthy lt && kind_eqb (t_kind t) KCitation && (t_end lt <? t_end t) && nominative lt).
          -- cbn [tl]. apply emit_inv; assumption.
          -- split.
             ++ unfold inv. cbn [all_rev cits_rev last off].
                split; [exact Ho|]. split; [cbn [ok_rev]; auto|].
                split; [reflexivity|]. exists r. reflexivity.
             ++ cbn [last]. intros lt' [= <-]. exact Hl.
        * apply Nat.ltb_ge in Elt.
          change ((length r, lt) :: specials_rev r) with (specials_rev (T lt :: r)).
          apply emit_inv; [|exact Elt|exact Hwf].
          cbn [ok_rev]. auto.
    - destruct (t_start t <? o) eqn:Elt.
      + split.
        * unfold inv. cbn [all_rev cits_rev last off]. auto.
        * cbn [last]. discriminate.
      + apply Nat.ltb_ge in Elt. subst cr. apply emit_inv; assumption.
  Qed.

  Lemma fold_inv l : forall s,
    inv s -> Forall (cand_wf text) l -> StronglySorted start_le l ->
    (forall lt, last s = Some lt -> Forall (fun y => t_start lt <= t_start y) l) ->
    inv (fold_left (step text nominative) l s).
  Proof.
    induction l as [|t l IH]; intros s Hi Hwf Hs Hl; cbn [fold_left]; [exact Hi|].
    inversion Hwf as [|? ? Hwt Hwl]; subst.
    inversion Hs as [|? ? Hsl Hst]; subst.
    destruct (step_inv s t Hi Hwt) as [Hi' Hl'].
    { intros lt E. specialize (Hl lt E). inversion Hl; subst. assumption. }
    apply IH; auto.
    intros lt' E. specialize (Hl' _ E).
    eapply Forall_impl; [|exact Hst]. unfold start_le. intros; lia.
  Qed.

  Lemma tokenize_final cands : Forall (cand_wf text) cands ->
    exists allr, ok_rev text allr (length text) /\
      tokenize text nominative cands = (rev allr, rev (specials_rev allr)).
  Proof.
    intros Hwf. unfold tokenize.
    set (s := fold_left (step text nominative) (sort_toks cands) init).
    assert (Hi : inv s).
    { apply fold_inv.
      - unfold inv, init. cbn. auto with arith.
      - apply sort_Forall, Hwf.
      - apply sort_sorted.
      - unfold init. cbn [last]. discriminate. }
    destruct Hi as (Ho & Hok & Hc & _).
    unfold finish. rewrite Hc.
    destruct (off s <? length text) eqn:E.
    - apply Nat.ltb_lt in E.
      exists (rev (words text (off s) (length text)) ++ all_rev s). split.
      + unfold words. apply (ok_rev_words text _ _ (off s)); try lia; [exact Hok|].
        apply append_text_concat.
      + unfold words. rewrite specials_rev_words. reflexivity.
    - apply Nat.ltb_ge in E. exists (all_rev s). split; [|reflexivity].
      replace (length text) with (off s) by lia. exact Hok.
  Qed.

  Theorem tokenize_concat : forall cands, Forall (cand_wf text) cands ->
    stream_text (fst (tokenize text nominative cands)) = text.
  Proof.
    intros cands Hwf. destruct (tokenize_final cands Hwf) as (allr & Hok & ->).
    cbn [fst]. rewrite (ok_rev_stream _ _ _ Hok) by lia. apply firstn_all.
  Qed.

  Theorem tokenize_index : forall cands, Forall (cand_wf text) cands ->
    snd (tokenize text nominative cands) = specials (fst (tokenize text nominative cands)).
  Proof.
    intros cands Hwf. destruct (tokenize_final cands Hwf) as (allr & Hok & ->).
    cbn [fst snd]. apply specials_rev_spec.
  Qed.

  Theorem tokenize_offsets : forall cands, Forall (cand_wf text) cands ->
    forall i t, In (i, t) (snd (tokenize text nominative cands)) ->
      nth_error (fst (tokenize text nominative cands)) i = Some (T t) /\
      cand_wf text t /\
      length (stream_text (firstn i (fst (tokenize text nominative cands)))) = t_start t.
  Proof.
    intros cands Hwf i t. destruct (tokenize_final cands Hwf) as (allr & Hok & ->).
    cbn [fst snd]. intros Hin. apply in_rev in Hin.
    apply In_specials_rev in Hin. destruct Hin as (r1 & r & -> & ->).
    apply ok_rev_suffix in Hok. destruct Hok as (n' & Hn' & Hok).
    cbn [ok_rev] in Hok. destruct Hok as (Hend & Hwt & Hr).
    rewrite rev_app_distr. cbn [rev]. rewrite <- app_assoc. cbn [app].
    rewrite <- (rev_length r).
    split; [|split].
    - rewrite nth_error_app2 by lia. rewrite Nat.sub_diag. reflexivity.
    - exact Hwt.
    - rewrite <- (Nat.add_0_r (length (rev r))). rewrite firstn_app_2.
      cbn [firstn]. rewrite app_nil_r.
      destruct Hwt as (H1 & H2 & H3).
      rewrite (ok_rev_stream _ _ _ Hr) by lia.
      apply firstn_length_le. lia.
  Qed.

  Theorem tokenize_increasing : forall cands, Forall (cand_wf text) cands ->
    forall l1 i t j t' l2,
      snd (tokenize text nominative cands) = l1 ++ (i, t) :: (j, t') :: l2 ->
      i < j /\ t_end t <= t_start t'.
  Proof.
    intros cands Hwf l1 i t j t' l2.
    destruct (tokenize_final cands Hwf) as (allr & Hok & ->).
    cbn [snd]. intros He. apply (f_equal (@rev _)) in He.
    rewrite rev_involutive, rev_app_distr in He. cbn [rev] in He.
    rewrite <- !app_assoc in He. cbn [app] in He.
    eapply specials_rev_adj; eauto.
  Qed.
End Tok.
