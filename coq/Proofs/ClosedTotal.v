(* Proofs/ClosedTotal.v -- C04 for the closed model: get_citations_closed never returns an
   exception, for EVERY text (whitespace-dirty texts and "eyecite" included) and every value of
   remove_ambiguous.  Of the metadata searches only one fact is needed (search_total_ok,
   Proofs/PipeYear.v): the short-form antecedent pattern always captures its group -- proved for
   the engine on all windows (E_short_ante); the token contract holds for every text
   (toks_ok_closed_all). *)
From EV Require Import Base.Str Base.PyVal Model.Tokenize Model.Editions Model.Filter Model.Pipeline.
From EV Require Import Model.SearchEngine Model.Extract Model.E2E Model.RefEngine Model.E2EClosed.
From EV Require Import Proofs.PipeSpec Proofs.PipeYear Proofs.ClosedProofs Proofs.ClosedCorollaries.
From EV Require Import Proofs.SearchDischarge.
From EV Require Import Gen.Unicode.

Theorem E_search_total_ok : search_total_ok E.
Proof. intros w m H. exact (E_short_ante w m H). Qed.

Theorem closed_total : forall this_year s ra, exists l, get_citations_closed this_year s ra = Ok l.
Proof.
  intros this_year s ra. rewrite get_citations_closed_eq.
  destruct (tokenize_text_stream_ok s) as [_ Hcits].
  exact (get_citations_total_w _ _ _ _ _ _ _ _ _ _ _ _ _ _ _ Hcits (toks_ok_closed_all s)
           E_search_total_ok).
Qed.

Print Assumptions closed_total.
