(* Proofs/PipeWindows.v -- the scan windows of match_on_tokens are pieces of the
   text: forward windows are prefixes of what follows a token position, backward
   windows are suffixes of what precedes it. *)
From EV Require Import Base.Str Base.PyVal Model.Tokenize Model.Editions Model.Filter Model.Pipeline
                       Proofs.TokenizeProofs Proofs.PipeSpec.
Open Scope Z_scope.

(* position (in characters) where token number k starts *)
Definition pos (words : list elem) (k : nat) : nat := length (stream_text (firstn k words)).

(* ------------------------------------------------------------------ *)
(* list helpers                                                        *)
(* ------------------------------------------------------------------ *)

Lemma firstn_length_app {A} (a b : list A) : firstn (length a) (a ++ b) = a.
Proof.
  rewrite <- (Nat.add_0_r (length a)), firstn_app_2. cbn. apply app_nil_r.
Qed.

Lemma skipn_length_app {A} (a b : list A) : skipn (length a) (a ++ b) = b.
Proof.
  rewrite skipn_app, skipn_all, Nat.sub_diag. reflexivity.
Qed.

Lemma firstn_S_nth {A} (l : list A) : forall k x,
  nth_error l k = Some x -> firstn (S k) l = firstn k l ++ [x].
Proof.
  induction l as [|y l IH]; intros [|k] x H; cbn in H; try discriminate.
  - injection H as ->. reflexivity.
  - cbn [firstn app]. f_equal. apply IH. exact H.
Qed.

Lemma slice_firstn_skipn {A} (s : list A) a n : slice s a (a + n) = firstn n (skipn a s).
Proof. unfold slice. f_equal. lia. Qed.

Lemma skipn_firstn_slice {A} (s : list A) a b : skipn a (firstn b s) = slice s a b.
Proof.
  unfold slice. destruct (Nat.le_gt_cases a b) as [Hab|Hab].
  - rewrite firstn_skipn_comm. f_equal. f_equal. lia.
  - replace (b - a)%nat with 0%nat by lia. cbn [firstn].
    apply skipn_all2. rewrite firstn_length. lia.
Qed.

(* ------------------------------------------------------------------ *)
(* positions                                                           *)
(* ------------------------------------------------------------------ *)

Lemma pos_0 words : pos words 0 = 0%nat.
Proof. reflexivity. Qed.

Lemma pos_S words k e : nth_error words k = Some e ->
  pos words (S k) = (pos words k + length (elem_str e))%nat.
Proof.
  intros H. unfold pos. rewrite (firstn_S_nth _ _ _ H).
  rewrite stream_text_app, app_length, stream_text_single. reflexivity.
Qed.

Lemma stream_firstn words k :
  stream_text (firstn k words) = firstn (pos words k) (stream_text words).
Proof.
  unfold pos. rewrite <- (firstn_skipn k words) at 3.
  rewrite stream_text_app. symmetry. apply firstn_length_app.
Qed.

Lemma stream_skipn words k :
  stream_text (skipn k words) = skipn (pos words k) (stream_text words).
Proof.
  unfold pos. rewrite <- (firstn_skipn k words) at 3.
  rewrite stream_text_app. symmetry. apply skipn_length_app.
Qed.

Theorem pos_mono : forall words j k, (j <= k)%nat -> (pos words j <= pos words k)%nat.
Proof.
  intros words j k Hjk. unfold pos.
  rewrite <- (firstn_slice_skipn words j k Hjk).
  rewrite stream_text_app, app_length. lia.
Qed.

Lemma pos_le_stream words k : (pos words k <= length (stream_text words))%nat.
Proof.
  unfold pos. rewrite <- (firstn_skipn k words) at 2.
  rewrite stream_text_app, app_length. lia.
Qed.

Lemma pos_all words k : (length words <= k)%nat -> pos words k = length (stream_text words).
Proof. intros H. unfold pos. rewrite firstn_all2 by exact H. reflexivity. Qed.

Theorem pos_le_text : forall text words k, stream_ok text words -> (pos words k <= length text)%nat.
Proof.
  intros text words k [Ht _]. rewrite <- Ht. apply pos_le_stream.
Qed.

Theorem pos_token : forall text words k t, stream_ok text words -> nth_error words k = Some (T t) ->
  pos words k = t_start t /\ pos words (S k) = t_end t /\ (t_end t <= length text)%nat.
Proof.
  intros text words k t [Ht Hk] Hn.
  destruct (Hk k t Hn) as (Hp & Hse & He & Hd).
  split; [exact Hp|]. split; [|exact He].
  rewrite (pos_S _ _ _ Hn). cbn [elem_str]. rewrite Hd.
  rewrite slice_length by lia. unfold pos. rewrite Hp. lia.
Qed.

Lemma stream_slice_gen : forall words j k, (j <= k)%nat ->
  stream_text (slice words j k) = slice (stream_text words) (pos words j) (pos words k).
Proof.
  intros words j k Hjk.
  pose proof (stream_firstn words k) as Hk.
  rewrite <- (firstn_slice_skipn words j k Hjk) in Hk at 1.
  rewrite stream_text_app, stream_firstn in Hk.
  rewrite <- (firstn_slice_skipn (stream_text words) (pos words j) (pos words k)) in Hk
    by (apply pos_mono; exact Hjk).
  apply app_inv_head in Hk. exact Hk.
Qed.

Theorem stream_slice : forall text words j k, stream_ok text words -> (j <= k)%nat ->
  stream_text (slice words j k) = slice text (pos words j) (pos words k).
Proof.
  intros text words j k [Ht _] Hjk. rewrite <- Ht. apply stream_slice_gen. exact Hjk.
Qed.

(* ------------------------------------------------------------------ *)
(* forward windows                                                     *)
(* ------------------------------------------------------------------ *)

Lemma fwd_spec MAXC : forall ws acc so,
  exists n L, (n <= length (stream_text ws))%nat /\
              fwd MAXC ws acc so = firstn L (acc ++ firstn n (stream_text ws)).
Proof.
  induction ws as [|e r IH]; intros acc so; cbn [fwd].
  - exists 0%nat, (length acc). split; [cbn; lia|].
    cbn [firstn]. rewrite app_nil_r, firstn_all. reflexivity.
  - destruct (stops so e).
    + exists 0%nat, (length acc). split; [lia|].
      cbn [firstn]. rewrite app_nil_r, firstn_all. reflexivity.
    + change (stream_text (e :: r)) with (elem_str e ++ stream_text r).
      destruct (MAXC <=? length (acc ++ elem_str e))%nat.
      * exists (length (elem_str e)), MAXC. split; [rewrite app_length; lia|].
        rewrite firstn_length_app. reflexivity.
      * destruct (IH (acc ++ elem_str e) so) as (n & L & Hn & HL).
        exists (length (elem_str e) + n)%nat, L. split; [rewrite app_length; lia|].
        rewrite HL, firstn_app_2, <- app_assoc. reflexivity.
Qed.

(* general form: the window is a truncation of prefix ++ (text from position start) *)
Theorem window_fwd_firstn : forall MAXC text words start pre so, stream_ok text words ->
  exists n L, window_fwd MAXC words start pre so =
                firstn L (pre ++ slice text (pos words start) (pos words start + n)) /\
              (pos words start + n <= length text)%nat.
Proof.
  intros MAXC text words start pre so [Ht _]. unfold window_fwd.
  destruct (fwd_spec MAXC (skipn start words) pre so) as (n & L & Hn & HL).
  pose proof (pos_le_stream words start) as Hp.
  exists n, L. rewrite stream_skipn, Ht in *. rewrite skipn_length in Hn.
  split; [|lia]. rewrite HL, slice_firstn_skipn. reflexivity.
Qed.

(* with a prefix string: prefix followed by text from position `start` (possibly truncated) *)
Theorem window_fwd_prefix_gen : forall MAXC text words start pre so, stream_ok text words ->
  exists n, (forall i, (i <= length (window_fwd MAXC words start pre so))%nat ->
               firstn i (window_fwd MAXC words start pre so) =
               firstn i (pre ++ slice text (pos words start) (pos words start + n))) /\
            (pos words start + n <= length text)%nat /\
            (length (window_fwd MAXC words start pre so) <= length pre + n)%nat.
Proof.
  intros MAXC text words start pre so Hok.
  destruct (window_fwd_firstn MAXC text words start pre so Hok) as (n & L & HL & Hn).
  exists n. rewrite HL. split; [|split; [exact Hn|]].
  - intros i Hi. rewrite firstn_length in Hi.
    rewrite firstn_firstn. f_equal. lia.
  - rewrite firstn_length, app_length, slice_length by lia. lia.
Qed.

(* same fact, closed form *)
Theorem window_fwd_prefix_eq : forall MAXC text words start pre so, stream_ok text words ->
  exists n, window_fwd MAXC words start pre so =
              firstn (length (window_fwd MAXC words start pre so))
                     (pre ++ slice text (pos words start) (pos words start + n)) /\
            (pos words start + n <= length text)%nat /\
            (length (window_fwd MAXC words start pre so) <= length pre + n)%nat.
Proof.
  intros MAXC text words start pre so Hok.
  destruct (window_fwd_prefix_gen MAXC text words start pre so Hok) as (n & Hf & Hn & Hl).
  exists n. split; [|split; assumption].
  rewrite <- Hf by lia. symmetry. apply firstn_all.
Qed.

(* the forward window with an empty prefix is a prefix of the text that follows position `start` *)
Theorem window_fwd_prefix : forall MAXC text words start so, stream_ok text words ->
  exists n, window_fwd MAXC words start [] so = slice text (pos words start) (pos words start + n) /\
            (pos words start + n <= length text)%nat.
Proof.
  intros MAXC text words start so Hok.
  destruct (window_fwd_prefix_eq MAXC text words start [] so Hok) as (n & He & Hn & Hl).
  cbn [app length] in *.
  set (w := window_fwd MAXC words start [] so) in *.
  exists (length w). split; [|lia].
  rewrite He at 1. rewrite !slice_firstn_skipn, firstn_firstn. f_equal. lia.
Qed.

(* ------------------------------------------------------------------ *)
(* backward windows                                                    *)
(* ------------------------------------------------------------------ *)

Lemma bwd_spec MAXC : forall ws acc so,
  exists m K, (m <= length (stream_text (rev ws)))%nat /\
              bwd MAXC ws acc so = skipn K (skipn m (stream_text (rev ws)) ++ acc).
Proof.
  induction ws as [|e r IH]; intros acc so; cbn [bwd].
  - exists 0%nat, 0%nat. split; [lia|]. reflexivity.
  - cbn [rev]. rewrite stream_text_app, stream_text_single, (app_length (stream_text (rev r))).
    destruct (stops so e).
    + exists (length (stream_text (rev r)) + length (elem_str e))%nat, 0%nat.
      split; [lia|]. cbn [skipn].
      rewrite (skipn_all2 (n := length (stream_text (rev r)) + length (elem_str e)))
        by (rewrite app_length; lia).
      reflexivity.
    + destruct (MAXC <=? length (elem_str e ++ acc))%nat.
      * exists (length (stream_text (rev r))), (length (elem_str e ++ acc) - MAXC)%nat.
        split; [lia|]. rewrite skipn_length_app. reflexivity.
      * destruct (IH (elem_str e ++ acc) so) as (m & K & Hm & HK).
        exists m, K. split; [lia|].
        rewrite HK, (skipn_app m (stream_text (rev r))). replace (m - length (stream_text (rev r)))%nat with 0%nat by lia.
        cbn [skipn]. rewrite <- app_assoc. reflexivity.
Qed.

(* the backward window is a suffix of the text that precedes token `index` *)
Theorem window_bwd_suffix : forall MAXC text words index so, stream_ok text words ->
  (index <= length words)%nat ->
  exists n, (n <= pos words index)%nat /\
            window_bwd MAXC words index so = slice text (pos words index - n) (pos words index).
Proof.
  intros MAXC text words index so [Ht _] _. unfold window_bwd.
  destruct (bwd_spec MAXC (rev (firstn index words)) [] so) as (m & K & Hm & HK).
  rewrite rev_involutive, stream_firstn, Ht in *. rewrite app_nil_r in HK.
  rewrite <- skipn_plus, skipn_firstn_slice in HK.
  set (p := pos words index) in *.
  destruct (Nat.le_gt_cases (m + K) p) as [Hle|Hgt].
  - exists (p - (m + K))%nat. split; [lia|].
    rewrite HK. f_equal. lia.
  - exists 0%nat. split; [lia|].
    rewrite HK, !slice_empty by lia. reflexivity.
Qed.
